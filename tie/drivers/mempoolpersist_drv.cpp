// C++ side of C55: drives the REAL node::DumpMempool / node::LoadMempool (src/node/mempool_persist.cpp)
// on a regtest TestChain100Setup.
//
//  file <now> <expiry> <opts> <filehex>
//      writes the given bytes as mempool.dat, LoadMempool()s them into a fresh, empty CTxMemPool.
//      (the generator builds the files itself: valid/corrupt/truncated v1 and v2 files whose
//      transactions spend unknown outpoints, so that normal submission rejects every one of them)
//
//  scn <now> <expiry> <opts> <v1> <mut> ; <op> ; <op> ...
//      builds a pool of real signed transactions with the ops, DumpMempool()s it, mutates the file
//      (truncation / appended bytes), LoadMempool()s it at mock time <now> into a fresh pool holding the
//      `K`ept transactions, and independently re-submits the saved entries in saved order through
//      PrioritiseTransaction + AcceptToMemoryPool (the reference for "normal submission accepts").
//      ops:  C <fee> <nout> <in,in,...>    create tx #k (k = 0,1,..): inputs c<j> = matured coinbase j, t<k>:<v> = output v of tx k
//            S <k> <time>                  submit tx k through ATMP with accept time <time> (mock time = <time>)
//            P t<k>|x<byte> <delta>        PrioritiseTransaction(txid of tx k | synthetic txid of 32 x <byte>)
//            U <k>                         AddUnbroadcastTx(txid of tx k)
//            K <k> <time> <prio> <unb>     (pre-load pool) tx k is already in the pool at load time
//      mut:  none | a<k> (keep the first k bytes) | e<k> (drop the last k bytes) | r<i>:<d> (cut d bytes after the start of record i)
//            | z<hex> (append bytes)
//
// output (one line):  orig=<entries in dump order>|<mapDeltas>|<unbroadcast> dfile=<hex of the dumped file> file=<hex of the mutated file, or '='>
//                      pre=<pool> ref=<wtxids> ret=<0|1> post=<pool>
//      <pool> = <entries sorted by txid>|<mapDeltas>|<unbroadcast>, entry = txid:time:delta (txid as the 32 raw bytes in hex)
#include <drv_common.h>
#define private public
#define protected public
#include <txmempool.h>
#include <validation.h>
#undef private
#undef protected
#include <node/mempool_persist.h>
#include <test/util/setup_common.h>
#include <test/util/txmempool.h>
#include <key_io.h>
#include <script/script.h>
#include <addresstype.h>
#include <util/fs.h>
#include <util/time.h>
#include <fstream>
#include <algorithm>

using node::DumpMempool;
using node::LoadMempool;

static std::string rawhex(const uint256& h) { return vd::hex(h.begin(), h.end()); }

static std::string pool_state(CTxMemPool& pool, bool dump_order)
{
    std::vector<std::string> es;
    for (const auto& i : pool.infoAll()) {
        es.push_back(rawhex(i.tx->GetHash().ToUint256()) + ":" + std::to_string(count_seconds(i.m_time)) + ":" + std::to_string(i.nFeeDelta));
    }
    if (!dump_order) std::sort(es.begin(), es.end());
    std::string out;
    for (size_t k = 0; k < es.size(); ++k) out += (k ? "," : "") + es[k];
    if (es.empty()) out += "-";
    out += "|";
    {
        LOCK(pool.cs);
        bool first = true;
        for (const auto& [k, v] : pool.mapDeltas) { out += (first ? "" : ",") + rawhex(k.ToUint256()) + ":" + std::to_string(v); first = false; }
        if (first) out += "-";
        out += "|";
        first = true;
        for (const auto& k : pool.m_unbroadcast_txids) { out += (first ? "" : ",") + rawhex(k.ToUint256()); first = false; }
        if (first) out += "-";
    }
    return out;
}

int main()
{
    TestChain100Setup setup{ChainType::REGTEST};
    const int NCB = 40;
    setup.mineBlocks(NCB);   // coinbases 0..NCB are mature
    auto& node = setup.m_node;
    Chainstate& cs = node.chainman->ActiveChainstate();
    CTxMemPool* const node_pool = cs.m_mempool;
    const fs::path dir = fs::PathFromString("/verif/_build/tmp/mempoolpersist_" + std::to_string(getpid()));
    fs::create_directories(dir);
    const fs::path fpath = dir / "mempool.dat";
    const CScript p2pk = CScript() << ToByteVector(setup.coinbaseKey.GetPubKey()) << OP_CHECKSIG;
    const CScript p2wpkh = GetScriptForDestination(WitnessV0KeyHash(setup.coinbaseKey.GetPubKey()));

    auto new_pool = [&](int64_t expiry) {
        auto o = MemPoolOptionsForTest(node);
        o.expiry = std::chrono::seconds{expiry};
        bilingual_str err;
        auto p = std::make_unique<CTxMemPool>(o, err);
        cs.m_mempool = p.get();
        return p;
    };
    auto write_file = [&](const std::vector<unsigned char>& b) {
        std::ofstream f(fs::PathToString(fpath), std::ios::binary | std::ios::trunc);
        f.write((const char*)b.data(), b.size());
    };
    auto read_file = [&]() {
        std::ifstream f(fs::PathToString(fpath), std::ios::binary);
        return std::vector<unsigned char>((std::istreambuf_iterator<char>(f)), std::istreambuf_iterator<char>());
    };
    auto load_opts = [&](int o) {
        node::ImportMempoolOptions io;
        io.use_current_time = o & 1;
        io.apply_fee_delta_priority = o & 2;
        io.apply_unbroadcast_set = o & 4;
        return io;
    };

    int rc = vd::main_loop([&](const std::vector<std::string>& w, const std::string& line) -> std::string {
        if (w.at(0) == "file") {
            int64_t now = vd::ll(w.at(1)), expiry = vd::ll(w.at(2));
            int o = std::stoi(w.at(3));
            write_file(vd::unhex(w.at(4)));
            auto pool = new_pool(expiry);
            SetMockTime(now);
            bool ret = LoadMempool(*pool, fpath, cs, load_opts(o));
            std::string out = std::string("ret=") + (ret ? "1" : "0") + " post=" + pool_state(*pool, false);
            cs.m_mempool = node_pool;
            return out;
        }
        if (w.at(0) != "scn") return "BADCASE";
        int64_t now = vd::ll(w.at(1)), expiry = vd::ll(w.at(2));
        int o = std::stoi(w.at(3));
        bool v1 = w.at(4) == "1";
        std::string mut = w.at(5);
        // ---- parse ops
        struct Op { std::vector<std::string> t; };
        std::vector<Op> ops;
        for (size_t p = 6; p < w.size(); ++p) {
            if (w[p] == ";") { ops.push_back({}); continue; }
            if (ops.empty()) return "BADCASE ops";
            ops.back().t.push_back(w[p]);
        }
        const int64_t build_expiry = 100000000;   // nothing expires while the pool is being built
        std::vector<CTransactionRef> txs;
        auto txid_of = [&](const std::string& r) -> Txid {
            if (r[0] == 't') return txs.at(std::stoul(r.substr(1)))->GetHash();
            uint256 h; std::fill(h.begin(), h.end(), (unsigned char)std::stoul(r.substr(1), nullptr, 16));
            return Txid::FromUint256(h);
        };
        auto submit = [&](CTxMemPool& pool, const CTransactionRef& tx, int64_t t) {
            SetMockTime(t);
            LOCK(cs_main);
            auto r = AcceptToMemoryPool(cs, tx, t, /*bypass_limits=*/false, /*test_accept=*/false);
            return r.m_result_type == MempoolAcceptResult::ResultType::VALID;
        };
        // ---- phase 1: build the pool to be saved
        auto pool0 = new_pool(build_expiry);
        {
            auto o0 = const_cast<CTxMemPool::Options*>(&pool0->m_opts);
            o0->persist_v1_dat = v1;
        }
        struct Keep { size_t k; int64_t time; int64_t prio; bool unb; };
        std::vector<Keep> keeps;
        for (const auto& op : ops) {
            const auto& t = op.t;
            if (t.empty()) continue;
            if (t[0] == "C") {
                CAmount fee = vd::ll(t.at(1));
                size_t nout = std::stoul(t.at(2));
                std::vector<CTransactionRef> in_txs;
                std::vector<COutPoint> ins;
                CAmount total = 0;
                std::string s = t.at(3);
                size_t a = 0;
                while (a <= s.size()) {
                    size_t b = s.find(',', a); if (b == std::string::npos) b = s.size();
                    std::string r = s.substr(a, b - a);
                    a = b + 1;
                    if (r.empty()) continue;
                    CTransactionRef src; uint32_t v = 0;
                    if (r[0] == 'c') { src = setup.m_coinbase_txns.at(std::stoul(r.substr(1))); }
                    else { size_t c = r.find(':'); src = txs.at(std::stoul(r.substr(1, c - 1))); v = std::stoul(r.substr(c + 1)); }
                    if (v >= src->vout.size()) return "BADCASE vout";
                    if (std::find(in_txs.begin(), in_txs.end(), src) == in_txs.end()) in_txs.push_back(src);
                    ins.emplace_back(src->GetHash(), v); total += src->vout[v].nValue;
                }
                std::vector<CTxOut> outs;
                CAmount each = (total - fee) / (CAmount)nout;
                for (size_t k = 0; k < nout; ++k) outs.emplace_back(each + (k == 0 ? (total - fee) - each * (CAmount)nout : 0), (k % 2 == 0) ? p2wpkh : p2pk);
                auto [mtx, f] = setup.CreateValidTransaction(in_txs, ins, 1, {setup.coinbaseKey}, outs, std::nullopt, std::nullopt);
                txs.push_back(MakeTransactionRef(mtx));
            } else if (t[0] == "S") {
                submit(*pool0, txs.at(std::stoul(t.at(1))), vd::ll(t.at(2)));
            } else if (t[0] == "P") {
                pool0->PrioritiseTransaction(txid_of(t.at(1)), vd::ll(t.at(2)));
            } else if (t[0] == "U") {
                pool0->AddUnbroadcastTx(txs.at(std::stoul(t.at(1)))->GetHash());
            } else if (t[0] == "K") {
                keeps.push_back({std::stoul(t.at(1)), vd::ll(t.at(2)), vd::ll(t.at(3)), t.at(4) == "1"});
            } else return "BADCASE op " + t[0];
        }
        std::string out = "orig=" + pool_state(*pool0, true);
        // record sizes (for the r<i>:<d> truncation points): dump order
        std::vector<CTransactionRef> saved;
        std::vector<int64_t> saved_time, saved_delta;
        for (const auto& i : pool0->infoAll()) { saved.push_back(i.tx); saved_time.push_back(count_seconds(i.m_time)); saved_delta.push_back(i.nFeeDelta); }
        // ---- phase 2: the real dump
        fs::remove(fpath);
        bool dumped = DumpMempool(*pool0, fpath, fsbridge::fopen, /*skip_file_commit=*/true);
        if (!dumped) { cs.m_mempool = node_pool; return "dump-failed"; }
        std::vector<unsigned char> bytes = read_file();
        out += " dfile=" + vd::hex(bytes);
        // ---- phase 3: mutate
        if (mut[0] == 'a') { size_t k = std::stoul(mut.substr(1)); if (k < bytes.size()) bytes.resize(k); }
        else if (mut[0] == 'e') { size_t k = std::stoul(mut.substr(1)); bytes.resize(k >= bytes.size() ? 0 : bytes.size() - k); }
        else if (mut[0] == 'r') {
            size_t c = mut.find(':'); size_t i = std::stoul(mut.substr(1, c - 1)), d = std::stoul(mut.substr(c + 1));
            size_t off = (v1 ? 8 : 17) + 8;
            for (size_t k = 0; k < i && k < saved.size(); ++k) off += GetSerializeSize(TX_WITH_WITNESS(*saved[k])) + 16;
            off += d;
            if (off < bytes.size()) bytes.resize(off);
        } else if (mut[0] == 'z') { auto x = vd::unhex(mut.substr(1)); bytes.insert(bytes.end(), x.begin(), x.end()); }
        out += " file=" + (mut == "none" ? std::string("=") : vd::hex(bytes));
        write_file(bytes);
        // ---- phase 4: the real load into a pool holding the kept transactions
        auto prepare = [&](CTxMemPool& pool) {
            for (const auto& k : keeps) {
                if (k.prio) pool.PrioritiseTransaction(txs.at(k.k)->GetHash(), k.prio);
                submit(pool, txs.at(k.k), k.time);
                if (k.unb) pool.AddUnbroadcastTx(txs.at(k.k)->GetHash());
            }
        };
        {
            auto pool1 = new_pool(expiry);
            prepare(*pool1);
            out += " pre=" + pool_state(*pool1, false);
            SetMockTime(now);
            bool ret = LoadMempool(*pool1, fpath, cs, load_opts(o));
            std::string post = pool_state(*pool1, false);
            // ---- phase 5: reference = normal submission of the saved entries, in saved order
            auto pool2 = new_pool(expiry);
            prepare(*pool2);
            std::string ref;
            for (size_t k = 0; k < saved.size(); ++k) {
                int64_t t = (o & 1) ? now : saved_time[k];
                if (saved_delta[k] && (o & 2)) pool2->PrioritiseTransaction(saved[k]->GetHash(), saved_delta[k]);
                if (!(t > now - expiry)) continue;
                SetMockTime(now);
                bool ok;
                {
                    LOCK(cs_main);
                    ok = AcceptToMemoryPool(cs, saved[k], t, false, false).m_result_type == MempoolAcceptResult::ResultType::VALID;
                }
                if (ok) ref += (ref.empty() ? "" : ",") + rawhex(saved[k]->GetWitnessHash().ToUint256());
            }
            if (ref.empty()) ref = "-";
            out += " ref=" + ref + " ret=" + (ret ? "1" : "0") + " post=" + post;
            cs.m_mempool = node_pool;
        }
        cs.m_mempool = node_pool;
        return out;
    });
    cs.m_mempool = node_pool;
    fs::remove_all(dir);
    return rc;
}
