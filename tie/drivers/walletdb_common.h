// Shared by the walletdb family drivers (keypool_drv.cpp C62, walletdb_drv.cpp C43, walletcrypt_drv.cpp C42).
//
// FaultDb: the REAL SQLiteDatabase of /repo on a real file (in /dev/shm), whose batches are the real
// SQLiteBatch with the five mutating entry points (TxnBegin, WriteKey, EraseKey, ErasePrefix, TxnCommit)
// wrapped so that a case can
//   * make chosen calls fail the way SQLite reports a failed statement (WriteKey/EraseKey return false,
//     TxnBegin returns false, TxnCommit returns false leaving the transaction open so that the batch's
//     destructor rolls it back, exactly what SQLiteBatch does when sqlite3_step / sqlite3_exec fails), and
//   * take a byte copy of the database file (+ rollback journal) before a chosen call: what a killed process
//     leaves behind at that instant.
// "reload" opens a copy of the file with CWallet::LoadExisting (the real loader).
#ifndef VERIF_WALLETDB_COMMON_H
#define VERIF_WALLETDB_COMMON_H
#include <drv_common.h>
#include <common/args.h>
#include <key_io.h>
#include <outputtype.h>
#include <script/descriptor.h>
#include <test/util/setup_common.h>
#include <util/fs.h>
#include <util/translation.h>
#include <wallet/context.h>
#include <wallet/db.h>
#include <wallet/sqlite.h>
#include <wallet/wallet.h>
#include <wallet/walletdb.h>

#include <unistd.h>
#include <deque>
#include <filesystem>
#include <fstream>
#include <map>
#include <memory>

namespace wdb {
using namespace wallet;

struct FaultCtl {
    std::deque<bool> oracle;     // outcome of the next mutating calls (front first); empty = succeed
    int calls{0};                // mutating calls since the last reset()
    int counted{0};              // ... not counting address book records (name, purpose)
    std::vector<std::string> log; // "B", "C", "W:<type>", "E:<type>", "P" per call (suffix ! when failed)
    int snap_at{-1};             // take a file snapshot just before call number snap_at (0-based), -1 = never
    std::string snap_src, snap_dst;
    bool snapped{false};
    bool keep_log{false};
    bool count_abort{false};     // whether an explicit TxnAbort is a counted call (never made to fail)
    void reset() { oracle.clear(); calls = 0; counted = 0; log.clear(); snap_at = -1; snapped = false; }
    static void copy_db(const std::string& src, const std::string& dst)
    {
        namespace sfs = std::filesystem;
        sfs::create_directories(sfs::path(dst).parent_path());
        sfs::copy_file(src, dst, sfs::copy_options::overwrite_existing);
        sfs::remove(dst + "-journal");
        if (sfs::exists(src + "-journal")) sfs::copy_file(src + "-journal", dst + "-journal", sfs::copy_options::overwrite_existing);
    }
    bool next(const std::string& what)
    {
        if (calls == snap_at && !snapped) { copy_db(snap_src, snap_dst); snapped = true; }
        ++calls;
        if (what != "W:name" && what != "W:purpose") ++counted;
        bool ok = true;
        if (!oracle.empty()) { ok = oracle.front(); oracle.pop_front(); }
        if (keep_log) log.push_back(what + (ok ? "" : "!"));
        return ok;
    }
};

inline std::string key_type(const DataStream& key)
{
    // wallet keys start with a compact-size prefixed record type string
    DataStream k{std::span<const std::byte>{key.data(), key.size()}};
    std::string t;
    try { k >> t; } catch (const std::exception&) { t = "?"; }
    return t;
}

class FaultDb;
class FaultBatch : public SQLiteBatch
{
    std::shared_ptr<FaultCtl> m_ctl;
protected:
    bool WriteKey(DataStream&& key, DataStream&& value, bool overwrite = true) override
    {
        if (!m_ctl->next("W:" + key_type(key))) return false;
        return SQLiteBatch::WriteKey(std::move(key), std::move(value), overwrite);
    }
    bool EraseKey(DataStream&& key) override
    {
        if (!m_ctl->next("E:" + key_type(key))) return false;
        return SQLiteBatch::EraseKey(std::move(key));
    }
    bool ErasePrefix(std::span<const std::byte> prefix) override
    {
        if (!m_ctl->next("P")) return false;
        return SQLiteBatch::ErasePrefix(prefix);
    }
public:
    FaultBatch(SQLiteDatabase& db, std::shared_ptr<FaultCtl> ctl) : SQLiteBatch(db), m_ctl(std::move(ctl)) {}
    bool TxnBegin() override
    {
        if (!m_ctl->next("B")) return false;
        return SQLiteBatch::TxnBegin();
    }
    bool TxnCommit() override
    {
        if (!m_ctl->next("C")) return false; // transaction stays open; Close() rolls it back
        return SQLiteBatch::TxnCommit();
    }
    bool TxnAbort() override
    {
        if (m_ctl->count_abort && HasActiveTxn()) {
            const std::deque<bool> saved = m_ctl->oracle;
            m_ctl->oracle.clear();
            m_ctl->next("A");
            m_ctl->oracle = saved;
        }
        return SQLiteBatch::TxnAbort();
    }
};

class FaultDb : public SQLiteDatabase
{
public:
    std::shared_ptr<FaultCtl> ctl;
    std::string path;
    FaultDb(const fs::path& dir, const fs::path& file, const DatabaseOptions& o, std::shared_ptr<FaultCtl> c)
        : SQLiteDatabase(dir, file, o), ctl(std::move(c)), path(fs::PathToString(file)) {}
    std::unique_ptr<DatabaseBatch> MakeBatch() override { return std::make_unique<FaultBatch>(*this, ctl); }
};

inline std::string scratch_root()
{
    static std::string root;
    if (root.empty()) {
        const char* base = ::access("/dev/shm", W_OK) == 0 ? "/dev/shm" : "/tmp";
        root = std::string(base) + "/verif_walletdb_" + std::to_string((long)::getpid());
        std::filesystem::remove_all(root);
        std::filesystem::create_directories(root);
    }
    return root;
}
struct ScratchCleaner { ~ScratchCleaner() { std::error_code ec; std::filesystem::remove_all(scratch_root(), ec); } };

inline std::unique_ptr<FaultDb> open_db(const std::string& file, std::shared_ptr<FaultCtl> ctl)
{
    DatabaseOptions o;
    o.use_unsafe_sync = true; // no fsync: the files live in /dev/shm; ordering of writes is unaffected
    const fs::path p = fs::PathFromString(file);
    return std::make_unique<FaultDb>(p.parent_path(), p, o, std::move(ctl));
}

inline const std::vector<OutputType>& slot_types()
{
    static const std::vector<OutputType> t{OutputType::LEGACY, OutputType::P2SH_SEGWIT, OutputType::BECH32, OutputType::BECH32M};
    return t;
}
} // namespace wdb
#endif
