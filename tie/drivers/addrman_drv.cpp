// C++ side of C37: drives the real AddrMan (deterministic key, consistency_check_ratio 0; the real
// CheckAddrman() is called explicitly after every operation) through operation scripts over a fixed
// universe of addresses engineered to collide in the new and tried tables, and prints the complete
// internal state canonically (private members via #define private public).
//
//   addrman_drv oracle          prints the real bucket/position functions tabulated for the universe
//   addrman_drv                 one script per stdin line -> one result line  "<observations> ## <hints>"
//
// Hints are the implementation's nondeterministic choices the model must follow (unordered_map iteration
// order at Serialize, the values of insecure_rand draws in GetAddr_, the address Select_ returned).
#include <drv_common.h>
#include <unistd.h>
#include <algorithm>
#include <map>
#include <set>
#include <optional>
#include <unordered_map>
#include <unordered_set>
#include <memory>
#include <netaddress.h>
#include <netgroup.h>
#include <protocol.h>
#include <random.h>
#include <streams.h>
#include <hash.h>
#include <uint256.h>
#include <util/time.h>
#include <sync.h>
#define private public
#define protected public
#include <addrman.h>
#include <addrman_impl.h>
#undef private
#undef protected

using namespace std::chrono_literals;

static CNetAddr FromV2(uint8_t netid, const std::vector<uint8_t>& bytes)
{
    DataStream ds;
    ds << netid;
    WriteCompactSize(ds, bytes.size());
    ds.write(MakeByteSpan(bytes));
    CNetAddr a;
    ParamsStream ps{ds, CNetAddr::V2};
    ps >> a;
    return a;
}
static CNetAddr V4(int a, int b, int c, int d) { return FromV2(1, {(uint8_t)a, (uint8_t)b, (uint8_t)c, (uint8_t)d}); }

struct Universe {
    NetGroupManager ngm{NetGroupManager::NoAsmap()};
    uint256 key{uint256{1}};
    std::vector<CService> keys;
    std::vector<std::string> desc;
    std::vector<CNetAddr> srcs;
    std::map<CService, int> idx;
    std::vector<std::string> classes;

    std::pair<int, int> tslot(const CService& s) const
    {
        AddrInfo ai(CAddress(s, NODE_NONE), CNetAddr{});
        int b = ai.GetTriedBucket(key, ngm);
        return {b, ai.GetBucketPosition(key, false, b)};
    }
    std::pair<int, int> nslot(const CService& s, const CNetAddr& src) const
    {
        AddrInfo ai(CAddress(s, NODE_NONE), src);
        int b = ai.GetNewBucket(key, src, ngm);
        return {b, ai.GetBucketPosition(key, true, b)};
    }
    int add(const CService& s, const std::string& d)
    {
        auto it = idx.find(s);
        if (it != idx.end()) return it->second;
        idx[s] = keys.size();
        keys.push_back(s);
        desc.push_back(d);
        return keys.size() - 1;
    }
    int src_id(const CNetAddr& a) const
    {
        for (size_t j = 0; j < srcs.size(); ++j) if (srcs[j] == a) return j;
        for (size_t k = 0; k < keys.size(); ++k) if (static_cast<const CNetAddr&>(keys[k]) == a) return 1000 + k;
        return 9999;
    }
    void build()
    {
        for (int j = 0; j < 10; ++j) srcs.push_back(V4(250, 100 + j, 0, 1));
        // candidates: one /16 group, so that all tried slots fall into 8 buckets and, per source group, all new slots into 64 buckets
        std::vector<CService> cand;
        for (int x = 0; x < 256; ++x) for (int y = 0; y < 256; ++y) cand.emplace_back(V4(250, 1, x, y), 8333);
        std::map<std::pair<int, int>, std::vector<int>> T, N0, N1;
        std::vector<std::pair<int, int>> ts(cand.size()), n0(cand.size()), n1(cand.size());
        for (size_t i = 0; i < cand.size(); ++i) {
            ts[i] = tslot(cand[i]); n0[i] = nslot(cand[i], srcs[0]); n1[i] = nslot(cand[i], srcs[1]);
            T[ts[i]].push_back(i); N0[n0[i]].push_back(i); N1[n1[i]].push_back(i);
        }
        auto cls = [&](const std::string& name, const std::vector<int>& members) {
            std::string s = "class " + name;
            for (int m : members) s += " " + std::to_string(m);
            classes.push_back(s);
        };
        int roots = 0;
        std::set<std::pair<int, int>> used_t;
        for (size_t i = 0; i < cand.size() && roots < 3; ++i) {
            if (T[ts[i]].size() < 4 || N0[n0[i]].size() < 3 || N1[n1[i]].size() < 2 || used_t.count(ts[i])) continue;
            if (idx.count(cand[i])) continue;
            used_t.insert(ts[i]);
            ++roots;
            int r = add(cand[i], "root");
            std::vector<int> tc{r};
            for (size_t j = 0; j < T[ts[i]].size() && tc.size() < 4; ++j) {
                int c = T[ts[i]][j];
                if ((size_t)c == i) continue;
                tc.push_back(add(cand[c], "tcls"));
                // an address colliding in the new table (source 0) with this member of the tried class
                if (N0[n0[c]].size() >= 2) {
                    std::vector<int> nc{tc.back()};
                    for (int d : N0[n0[c]]) if (d != c && nc.size() < 2) nc.push_back(add(cand[d], "ncls0"));
                    cls("N 0", nc);
                }
            }
            cls("T", tc);
            std::vector<int> nc0{r}, nc1{r};
            for (int d : N0[n0[i]]) if ((size_t)d != i && nc0.size() < 3) nc0.push_back(add(cand[d], "ncls0"));
            for (int d : N1[n1[i]]) if ((size_t)d != i && nc1.size() < 3) nc1.push_back(add(cand[d], "ncls1"));
            cls("N 0", nc0);
            cls("N 1", nc1);
        }
        // other networks, other ports, unroutable
        add(CService(static_cast<const CNetAddr&>(keys[0]), 18333), "port");
        add(CService(V4(250, 2, 3, 4), 8333), "ipv4");
        add(CService(V4(8, 8, 8, 8), 8333), "ipv4");
        add(CService(FromV2(2, {0x2a, 0x00, 0x14, 0x50, 0x40, 0x01, 0, 0, 0, 0, 0, 0, 0, 0, 0x10, 0x01}), 8333), "ipv6");
        add(CService(FromV2(2, {0x2a, 0x00, 0x14, 0x50, 0x40, 0x01, 0, 0, 0, 0, 0, 0, 0, 0, 0x10, 0x02}), 8333), "ipv6");
        add(CService(FromV2(2, {0x20, 0x02, 250, 1, 1, 1, 0, 0, 0, 0, 0, 0, 0, 0, 0, 1}), 8333), "6to4");
        for (int t = 0; t < 3; ++t) { std::vector<uint8_t> b(32, (uint8_t)(0x11 * (t + 1))); b[5] = t; add(CService(FromV2(4, b), 8333), "tor"); }
        for (int t = 0; t < 2; ++t) { std::vector<uint8_t> b(32, (uint8_t)(0x21 + t)); add(CService(FromV2(5, b), 0), "i2p"); }
        for (int t = 0; t < 2; ++t) { std::vector<uint8_t> b(16, (uint8_t)(0x31 + t)); b[0] = 0xfc; add(CService(FromV2(6, b), 8333), "cjdns"); }
        add(CService(V4(10, 0, 0, 1), 8333), "rfc1918");
        add(CService(V4(127, 0, 0, 1), 8333), "local");
        // cross-network collisions in the tried table (appended, so that the indices above stay stable): an IPv6 address sharing the
        // tried slot of the first IPv4 root, and IPv6 addresses sharing the tried slot of a Tor and of a CJDNS address
        {
            std::map<std::pair<int, int>, std::vector<CService>> v6;
            for (int g = 0; g < 700; ++g) for (int h = 0; h < 300; ++h) {
                CService c(FromV2(2, {0x2a, 0x01, (uint8_t)(g >> 8), (uint8_t)g, 0, 0, 0, 0, 0, 0, 0, 0, 0, 0, (uint8_t)(h >> 8), (uint8_t)h}), 8333);
                v6[tslot(c)].push_back(c);
            }
            auto cross = [&](int k, const char* what) {
                auto it = v6.find(tslot(keys.at(k)));
                if (it == v6.end()) return;
                std::vector<int> cl{k};
                for (const auto& c : it->second) { if (cl.size() < 3) cl.push_back(add(c, what)); }
                cls("X", cl);
            };
            int tor = -1, cj = -1;
            for (size_t k = 0; k < keys.size(); ++k) { if (desc[k] == "tor" && tor < 0) tor = k; if (desc[k] == "cjdns" && cj < 0) cj = k; }
            cross(0, "x6v4");
            if (tor >= 0) cross(tor, "x6tor");
            if (cj >= 0) cross(cj, "x6cjdns");
        }
        // self-announcement: a source equal to the address of key 0; a second source in source 0's group
        srcs.push_back(static_cast<const CNetAddr&>(keys[0]));
        srcs.push_back(V4(250, 100, 7, 7));
        srcs.push_back(FromV2(4, std::vector<uint8_t>(32, 0x77)));
    }
    void print_oracle() const
    {
        std::cout << "universe " << keys.size() << " " << srcs.size() << "\n";
        for (size_t k = 0; k < keys.size(); ++k) {
            auto t = tslot(keys[k]);
            std::cout << "key " << k << " " << keys[k].IsRoutable() << " " << keys[k].IsValid() << " " << (int)keys[k].GetNetwork() << " "
                      << (int)keys[k].GetNetClass() << " " << src_id(static_cast<const CNetAddr&>(keys[k])) << " " << t.first << " " << desc[k] << "\n";
            AddrInfo ai(CAddress(keys[k], NODE_NONE), CNetAddr{});
            std::cout << "bpn " << k;
            for (int b = 0; b < ADDRMAN_NEW_BUCKET_COUNT; ++b) std::cout << " " << ai.GetBucketPosition(key, true, b);
            std::cout << "\nbpt " << k;
            for (int b = 0; b < ADDRMAN_TRIED_BUCKET_COUNT; ++b) std::cout << " " << ai.GetBucketPosition(key, false, b);
            std::cout << "\nnb " << k;
            for (size_t j = 0; j < srcs.size(); ++j) std::cout << " " << ai.GetNewBucket(key, srcs[j], ngm);
            std::cout << "\n";
        }
        for (const auto& c : classes) std::cout << c << "\n";
    }
};

static uint64_t fnv(const std::string& s)
{
    uint64_t h = 1469598103934665603ULL;
    for (unsigned char c : s) { h ^= c; h *= 1099511628211ULL; }
    return h & 0x3fffffffffffffffULL;   // 62 bits: fits an OCaml int
}
static std::string hex64(uint64_t v) { char b[32]; snprintf(b, sizeof b, "%llx", (unsigned long long)v); return b; }
static int64_t secs(NodeSeconds t) { return TicksSinceEpoch<std::chrono::seconds>(t); }

struct Drv {
    Universe U;
    std::unique_ptr<AddrMan> am;
    AddrManImpl& I() { return *am->m_impl; }
    int kidx(const CService& s) const { auto it = U.idx.find(s); return it == U.idx.end() ? -1 : it->second; }

    // complete state, ids included
    std::string dump()
    {
        AddrManImpl& m = I();
        LOCK(m.cs);
        std::ostringstream o;
        o << "idc=" << m.nIdCount << " lg=" << secs(m.m_last_good) << " nn=" << m.nNew << " nt=" << m.nTried << " I[";
        std::map<nid_type, const AddrInfo*> inf;
        for (const auto& e : m.mapInfo) inf[e.first] = &e.second;
        for (const auto& [id, a] : inf)
            o << " " << id << ":" << kidx(*a) << ":" << U.src_id(a->source) << ":" << secs(a->nTime) << ":" << (uint64_t)a->nServices << ":" << secs(a->m_last_try)
              << ":" << secs(a->m_last_count_attempt) << ":" << secs(a->m_last_success) << ":" << a->nAttempts << ":" << a->nRefCount << ":" << a->fInTried << ":" << a->nRandomPos;
        o << " ] A[";
        std::map<int, nid_type> ad;
        for (const auto& e : m.mapAddr) ad[kidx(e.first)] = e.second;
        for (const auto& [k, id] : ad) o << " " << k << ":" << id;
        o << " ] R[";
        for (auto id : m.vRandom) o << " " << id;
        o << " ] T[";
        for (int b = 0; b < ADDRMAN_TRIED_BUCKET_COUNT; ++b) for (int p = 0; p < ADDRMAN_BUCKET_SIZE; ++p) if (m.vvTried[b][p] != -1) o << " " << b << "." << p << ":" << m.vvTried[b][p];
        o << " ] N[";
        for (int b = 0; b < ADDRMAN_NEW_BUCKET_COUNT; ++b) for (int p = 0; p < ADDRMAN_BUCKET_SIZE; ++p) if (m.vvNew[b][p] != -1) o << " " << b << "." << p << ":" << m.vvNew[b][p];
        o << " ] C[";
        for (auto id : m.m_tried_collisions) o << " " << id;
        o << " ] NC[";
        std::map<int, std::pair<size_t, size_t>> nc;
        for (const auto& e : m.m_network_counts) nc[(int)e.first] = {e.second.n_new, e.second.n_tried};
        for (const auto& [n, c] : nc) if (c.first || c.second) o << " " << n << ":" << c.first << ":" << c.second;
        o << " ]";
        return o.str();
    }
    // what a reload must preserve: per address the persistent statistics and its table membership
    std::string obs()
    {
        AddrManImpl& m = I();
        LOCK(m.cs);
        std::ostringstream o;
        o << "nn=" << m.nNew << " nt=" << m.nTried << " I[";
        std::map<int, const AddrInfo*> inf;
        for (const auto& e : m.mapInfo) inf[kidx(e.second)] = &e.second;
        for (const auto& [k, a] : inf)
            o << " " << k << ":" << U.src_id(a->source) << ":" << secs(a->nTime) << ":" << (uint64_t)a->nServices << ":" << secs(a->m_last_success) << ":" << a->nAttempts << ":" << a->fInTried;
        o << " ] T[";
        auto keyof = [&](nid_type id) { auto it = m.mapInfo.find(id); return it == m.mapInfo.end() ? -2 : kidx(it->second); };
        for (int b = 0; b < ADDRMAN_TRIED_BUCKET_COUNT; ++b) for (int p = 0; p < ADDRMAN_BUCKET_SIZE; ++p) if (m.vvTried[b][p] != -1) o << " " << b << "." << p << ":" << keyof(m.vvTried[b][p]);
        o << " ] N[";
        for (int b = 0; b < ADDRMAN_NEW_BUCKET_COUNT; ++b) for (int p = 0; p < ADDRMAN_BUCKET_SIZE; ++p) if (m.vvNew[b][p] != -1) o << " " << b << "." << p << ":" << keyof(m.vvNew[b][p]);
        o << " ]";
        return o.str();
    }
    int check() { AddrManImpl& m = I(); LOCK(m.cs); return m.CheckAddrman(); }

    static uint256 seed256(uint64_t s)
    {
        uint256 r;
        for (int i = 0; i < 8; ++i) r.data()[i] = (s >> (8 * i)) & 0xff;
        r.data()[31] = 0x5a;
        return r;
    }

    std::string run(const std::vector<std::string>& w)
    {
        am = std::make_unique<AddrMan>(U.ngm, /*deterministic=*/true, /*consistency_check_ratio=*/0);
        int64_t now = 1700000000;
        SetMockTime(now);
        std::string out, hints;
        size_t p = 0;
        auto Z = [&]() { return vd::ll(w.at(p++)); };
        auto emit = [&](const std::string& ret) {
            int chk = check();
            out += (out.empty() ? "" : " ") + ret + "/" + std::to_string(chk) + "/" + hex64(fnv(dump()));
        };
        while (p < w.size()) {
            const std::string op = w.at(p++);
            if (op == "t") {
                now = Z(); SetMockTime(now); emit("-");
            } else if (op == "a") {
                int k = Z(), s = Z(); int64_t time = Z(); uint64_t svc = Z(); int64_t pen = Z(); int want0 = Z();
                // force the outcome of insecure_rand.randrange(1 << nRefCount) (reached only for an existing new entry)
                int ref = 0;
                {
                    AddrManImpl& m = I(); LOCK(m.cs);
                    auto it = m.mapAddr.find(U.keys.at(k));
                    if (it != m.mapAddr.end()) { auto it2 = m.mapInfo.find(it->second); if (it2 != m.mapInfo.end()) ref = it2->second.nRefCount; }
                    if (ref > 0 && ref < 31) {
                        for (uint64_t sd = 0;; ++sd) {
                            FastRandomContext probe{seed256(sd)};
                            bool zero = probe.randrange(1 << ref) == 0;
                            if (zero == (want0 != 0)) { m.insecure_rand.Reseed(seed256(sd)); break; }
                        }
                    }
                }
                CAddress addr(U.keys.at(k), ServiceFlags(svc));
                addr.nTime = NodeSeconds{std::chrono::seconds{time}};
                bool r = am->Add({addr}, U.srcs.at(s), std::chrono::seconds{pen});
                emit(r ? "1" : "0");
            } else if (op == "g") {
                int k = Z(); int64_t time = Z();
                bool r = am->Good(U.keys.at(k), NodeSeconds{std::chrono::seconds{time}});
                emit(r ? "1" : "0");
            } else if (op == "at") {
                int k = Z(); int cf = Z(); int64_t time = Z();
                am->Attempt(U.keys.at(k), cf != 0, NodeSeconds{std::chrono::seconds{time}});
                emit("-");
            } else if (op == "c") {
                int k = Z(); int64_t time = Z();
                am->Connected(U.keys.at(k), NodeSeconds{std::chrono::seconds{time}});
                emit("-");
            } else if (op == "sv") {
                int k = Z(); uint64_t svc = Z();
                am->SetServices(U.keys.at(k), ServiceFlags(svc));
                emit("-");
            } else if (op == "r") {
                am->ResolveCollisions();
                emit("-");
            } else if (op == "stc") {
                uint64_t want = Z();
                size_t n;
                {
                    AddrManImpl& m = I(); LOCK(m.cs);
                    n = m.m_tried_collisions.size();
                    if (n > 0) {
                        for (uint64_t sd = 0;; ++sd) {
                            FastRandomContext probe{seed256(sd)};
                            if (probe.randrange(n) == want % n) { m.insecure_rand.Reseed(seed256(sd)); break; }
                        }
                    }
                }
                auto r = am->SelectTriedCollision();
                int k = kidx(r.first);
                emit(k < 0 ? std::string("none") : std::to_string(k) + ":" + std::to_string(secs(r.second)));
            } else if (op == "ga") {
                size_t maxa = Z(), pct = Z(); int net = Z(); int filtered = Z(); uint64_t sd = Z();
                size_t n;
                { AddrManImpl& m = I(); LOCK(m.cs); n = m.vRandom.size(); m.insecure_rand.Reseed(seed256(sd)); }
                FastRandomContext probe{seed256(sd)};
                hints += " " + std::to_string(n);
                for (size_t i = 0; i < n; ++i) hints += " " + std::to_string(probe.randrange(n - i));
                auto v = am->GetAddr(maxa, pct, net < 0 ? std::nullopt : std::optional<Network>{(Network)net}, filtered != 0);
                std::string r;
                for (const auto& a : v) r += (r.empty() ? "" : ",") + std::to_string(kidx(a));
                emit(r.empty() ? "none" : r);
            } else if (op == "sel") {
                int new_only = Z(); unsigned mask = Z(); uint64_t sd = Z();
                std::unordered_set<Network> nets;
                for (int n = 0; n < 8; ++n) if (mask & (1u << n)) nets.insert((Network)n);
                { AddrManImpl& m = I(); LOCK(m.cs); m.insecure_rand.Reseed(seed256(sd)); }
                auto r = am->Select(new_only != 0, nets);
                int k = kidx(r.first);
                hints += " " + std::to_string(k);
                emit(k < 0 ? std::string("none") : std::to_string(k) + ":" + std::to_string(secs(r.second)));
            } else if (op == "sz") {
                int net = Z(), in_new = Z();
                size_t r = am->Size(net < 0 ? std::nullopt : std::optional<Network>{(Network)net},
                                    in_new == 0 ? std::optional<bool>{false} : in_new == 1 ? std::optional<bool>{true} : std::nullopt);
                emit(std::to_string(r));
            } else if (op == "rl") {
                // Serialize -> Unserialize into a fresh AddrMan; the script continues on the reloaded one
                std::string before = obs();
                {
                    AddrManImpl& m = I(); LOCK(m.cs);
                    hints += " " + std::to_string(m.mapInfo.size());
                    for (const auto& e : m.mapInfo) hints += " " + std::to_string(e.first);
                }
                DataStream ds;
                ds << *am;
                auto fresh = std::make_unique<AddrMan>(U.ngm, /*deterministic=*/true, /*consistency_check_ratio=*/0);
                std::string r = "ok";
                try {
                    ds >> *fresh;
                } catch (const std::exception& e) {
                    r = "exc";
                }
                am = std::move(fresh);
                std::string after = obs();
                emit(r + ":" + hex64(fnv(before)) + ":" + hex64(fnv(after)));
            } else {
                return "BADCASE " + op;
            }
        }
        return out + " | " + dump() + " ##" + hints;
    }
};

int main(int argc, char** argv)
{
    Drv d;
    d.U.build();
    if (argc > 1 && std::string(argv[1]) == "oracle") {
        d.U.print_oracle();
        return 0;
    }
    // a state whose counters disagree with its tables can make Select_ spin forever: give every script a deadline (the process dies with
    // SIGALRM, which the runner records as a crash of that case)
    return vd::main_loop([&](const std::vector<std::string>& w, const std::string&) -> std::string { alarm(60); std::string r = d.run(w); alarm(0); return r; });
}
