// C++ side of the ChainSel family (C08, C58): runs an op script against the REAL chainstate manager of a
// fresh TestChain100Setup (regtest, 100 blocks on top of genesis) and prints what the node did.
//
// case line:   op ; op ; ...
//   mw <n>                      set MinimumChainWork to n (decimal chainwork; first op only)
//   blk <name> <parent> <kind>  build a block on top of <parent>; parent is g0..g100 (the fixture's chain)
//                               or an earlier script block; kind: valid | badconnect (coinbase pays subsidy+1)
//                               | badctx (wrong BIP34 height in the coinbase) | badfinal (non-final coinbase)
//                               | badcheck (merkle root does not match the body)
//   chain <prefix> <parent> <n> n valid blocks <prefix>1 .. <prefix>n, each on top of the previous, the first on <parent>
//   hdr <name>+                 ProcessNewBlockHeaders({headers...}, min_pow_checked=true)
//   sub <name> req|unreq        ProcessNewBlock(block, force_processing = req, min_pow_checked=true, &new_block)
//   inv <name>                  the invalidateblock RPC body: InvalidateBlock(chainman, hash) (+ ActivateBestChain)
//   rec <name>                  the reconsiderblock RPC body: ReconsiderBlock(chainman, hash)
// output:  one token per hdr/sub/inv/rec op:  <result>/w<blocks written to the block file by the op>,<tip name>{,<name>=K<known>D<have_data>F<failed>A<in active
//   chain>S<nSequenceId>}*   listing every block (fixture g0..g100, then script blocks in definition order) whose
//   flags differ from what was last printed for it (initially: fixture K1D1F0A1S<height+2>, script K0D0F0A0S-1).
// With more than a few cases the work is spread over forked worker processes (forked before any fixture exists).
#define VERIF_NO_TEST_GLOBALS
#include <drv_common.h>
#include <unistd.h>
// the symbols libtest_util expects from its host binary; the data directory name carries the pid because the
// forked workers share the state of the random generator that names it
extern const std::function<void(const std::string&)> G_TEST_LOG_FUN;
extern const std::function<std::vector<const char*>()> G_TEST_COMMAND_LINE_ARGUMENTS;
extern const std::function<std::string()> G_TEST_GET_FULL_NAME;
const std::function<void(const std::string&)> G_TEST_LOG_FUN{};
const std::function<std::vector<const char*>()> G_TEST_COMMAND_LINE_ARGUMENTS{[]() { return std::vector<const char*>{}; }};
const std::function<std::string()> G_TEST_GET_FULL_NAME{[]() { return std::string{"verif_chainsel_"} + std::to_string(getpid()); }};

#include <arith_uint256.h>
#include <chain.h>
#include <chainparams.h>
#include <consensus/merkle.h>
#include <consensus/validation.h>
#include <node/blockstorage.h>
#include <pow.h>
#include <primitives/block.h>
#include <primitives/transaction.h>
#include <script/script.h>
#include <test/util/setup_common.h>
#include <uint256.h>
#include <univalue.h>
#include <validation.h>
#include <validationinterface.h>

#include <cstdlib>
#include <filesystem>
#include <fstream>
#include <map>
#include <sys/wait.h>
#include <unistd.h>
#include <memory>

// defined (non-static, no header) in src/rpc/blockchain.cpp: the bodies of the two RPCs
void InvalidateBlock(ChainstateManager& chainman, const uint256 block_hash);
void ReconsiderBlock(ChainstateManager& chainman, uint256 block_hash);

namespace {
struct Blk {
    std::string name;
    std::shared_ptr<CBlock> block; // null for fixture blocks
    uint256 hash;
    int height{0};
    uint32_t time{0};
    bool fixture{false};
};

struct Run {
    std::unique_ptr<TestChain100Setup> setup;
    std::map<std::string, Blk> blocks;
    std::vector<std::string> order; // script blocks in definition order
    std::map<uint256, std::string> names;
    int counter{0};

    ChainstateManager& cm() { return *setup->m_node.chainman; }

    Run()
    {
        TestOpts opts;
        opts.extra_args = {"-nodebuglogfile", "-nodebug"};
        setup = std::make_unique<TestChain100Setup>(ChainType::REGTEST, opts);
        LOCK(cs_main);
        const CChain& ch = cm().ActiveChain();
        for (int h = 0; h <= ch.Height(); ++h) {
            Blk b;
            b.name = "g" + std::to_string(h);
            b.hash = ch[h]->GetBlockHash();
            b.height = h;
            b.time = ch[h]->nTime;
            b.fixture = true;
            names[b.hash] = b.name;
            blocks[b.name] = b;
        }
    }

    void make(const std::string& name, const std::string& parent, const std::string& kind)
    {
        if (blocks.count(name)) throw std::runtime_error("duplicate block name " + name);
        const Blk& p = blocks.at(parent);
        const Consensus::Params& cons = cm().GetConsensus();
        Blk b;
        b.name = name;
        b.height = p.height + 1;
        b.time = p.time + 1;
        auto blk = std::make_shared<CBlock>();
        blk->nVersion = 0x20000000;
        blk->hashPrevBlock = p.hash;
        blk->nTime = b.time;
        blk->nBits = 0x207fffff;
        blk->nNonce = 0;
        CMutableTransaction cb;
        cb.version = 2;
        cb.vin.resize(1);
        cb.vin[0].prevout.SetNull();
        // BIP34: the coinbase scriptSig starts with the height; the counter makes every block unique
        int h_in_cb = (kind == "badctx") ? b.height + 1 : b.height;
        cb.vin[0].scriptSig = CScript() << h_in_cb << CScriptNum(++counter) << OP_0;
        cb.vin[0].nSequence = (kind == "badfinal") ? 0 : CTxIn::SEQUENCE_FINAL;
        cb.nLockTime = (kind == "badfinal") ? (uint32_t)(b.height + 1000) : 0;
        cb.vout.resize(1);
        cb.vout[0].scriptPubKey = CScript() << OP_TRUE;
        cb.vout[0].nValue = GetBlockSubsidy(b.height, cons) + (kind == "badconnect" ? 1 : 0);
        blk->vtx.push_back(MakeTransactionRef(std::move(cb)));
        blk->hashMerkleRoot = BlockMerkleRoot(*blk);
        if (kind == "badcheck") *blk->hashMerkleRoot.begin() ^= 1; // still unique per block (the coinbase carries a counter)
        else if (kind != "valid" && kind != "badconnect" && kind != "badctx" && kind != "badfinal") throw std::runtime_error("bad kind " + kind);
        while (!CheckProofOfWork(blk->GetHash(), blk->nBits, cons)) ++blk->nNonce;
        b.block = blk;
        b.hash = blk->GetHash();
        names[b.hash] = name;
        blocks[name] = b;
        order.push_back(name);
    }

    std::string tip()
    {
        LOCK(cs_main);
        const CBlockIndex* t = cm().ActiveChain().Tip();
        if (!t) return "none";
        auto it = names.find(t->GetBlockHash());
        return it == names.end() ? "unknown" : it->second;
    }

    static std::string reason(const BlockValidationState& st)
    {
        if (st.IsValid()) return "ok";
        std::string r = st.GetRejectReason();
        return r.empty() ? "invalid" : r;
    }

    // number of blocks written to blk00000.dat (the fixture never leaves the first block file)
    int nblocks()
    {
        LOCK(cs_main);
        auto* fi = cm().m_blockman.GetBlockFileInfo(0);
        return fi ? (int)fi->nBlocks : 0;
    }

    std::string op(const std::vector<std::string>& w)
    {
        const int w0 = nblocks();
        auto wr = [&]() { return "/w" + std::to_string(nblocks() - w0); };
        if (w[0] == "hdr" && w.size() >= 2) {
            std::vector<CBlockHeader> hs;
            for (size_t i = 1; i < w.size(); ++i) {
                const Blk& b = blocks.at(w[i]);
                if (b.fixture) throw std::runtime_error("hdr on fixture block");
                hs.push_back(static_cast<const CBlockHeader&>(*b.block));
            }
            BlockValidationState st;
            bool ok = cm().ProcessNewBlockHeaders(hs, /*min_pow_checked=*/true, st);
            return std::string(ok ? "1" : "0") + reason(st) + wr() + "," + tip() + delta();
        }
        if (w[0] == "sub" && w.size() == 3) {
            const Blk& b = blocks.at(w[1]);
            if (b.fixture) throw std::runtime_error("sub on fixture block");
            bool req = w[2] == "req";
            if (!req && w[2] != "unreq") throw std::runtime_error("sub: req|unreq");
            bool nb = false;
            // a fresh copy every time: CBlock caches fChecked / m_checked_* on the object
            auto copy = std::make_shared<const CBlock>(*b.block);
            bool ok = cm().ProcessNewBlock(copy, /*force_processing=*/req, /*min_pow_checked=*/true, &nb);
            return std::string(ok ? "1" : "0") + (nb ? "n" : "o") + wr() + "," + tip() + delta();
        }
        if (w[0] == "inv" && w.size() == 2) {
            const Blk& b = blocks.at(w[1]);
            std::string r = "ok";
            try { InvalidateBlock(cm(), b.hash); } catch (const UniValue&) { r = "err"; }
            return r + wr() + "," + tip() + delta();
        }
        if (w[0] == "rec" && w.size() == 2) {
            const Blk& b = blocks.at(w[1]);
            std::string r = "ok";
            try { ReconsiderBlock(cm(), b.hash); } catch (const UniValue&) { r = "err"; }
            return r + wr() + "," + tip() + delta();
        }
        throw std::runtime_error("bad op " + w[0]);
    }

    std::map<std::string, std::string> last; // what was last printed for a block

    std::string delta()
    {
        LOCK(cs_main);
        std::string out;
        auto one = [&](const Blk& b) {
            const CBlockIndex* pi = cm().m_blockman.LookupBlockIndex(b.hash);
            bool known = pi != nullptr;
            bool data = known && (pi->nStatus & BLOCK_HAVE_DATA);
            bool failed = known && (pi->nStatus & BLOCK_FAILED_VALID);
            bool active = known && cm().ActiveChain().Contains(*pi);
            std::string f = std::string("K") + (known ? "1" : "0") + "D" + (data ? "1" : "0") + "F" + (failed ? "1" : "0") +
                            "A" + (active ? "1" : "0") + "S" + std::to_string(known ? pi->nSequenceId : -1);
            auto it = last.find(b.name);
            std::string old = it != last.end() ? it->second
                                               : (b.fixture ? "K1D1F0A1S" + std::to_string(b.height + 2) : std::string("K0D0F0A0S-1"));
            if (f != old) { out += "," + b.name + "=" + f; last[b.name] = f; }
        };
        for (int h = 0; h <= 100; ++h) one(blocks.at("g" + std::to_string(h)));
        for (const auto& n : order) one(blocks.at(n));
        return out;
    }
};

std::vector<std::string> split_ops(const std::string& line)
{
    std::vector<std::string> out;
    std::string cur;
    for (char c : line) {
        if (c == ';') { out.push_back(cur); cur.clear(); } else cur.push_back(c);
    }
    out.push_back(cur);
    return out;
}
} // namespace

static std::string run_case(const std::string& line)
{
    Run run;
    std::string out;
    bool first = true;
    for (const std::string& o : split_ops(line)) {
        auto w = vd::words(o);
        if (w.empty()) continue;
        if (w[0] == "mw" && w.size() == 2) {
            if (!first) throw std::runtime_error("mw must be the first op");
            // ChainstateManager::m_options is const and is filled from the chain parameters by the fixture;
            // the test fixture offers no way to pass -minimumchainwork, so the field is overwritten in place.
            arith_uint256 v{(uint64_t)vd::ull(w[1])};
            const_cast<std::optional<arith_uint256>&>(run.cm().m_options.minimum_chain_work) = v;
            first = false;
            continue;
        }
        first = false;
        if (w[0] == "blk" && w.size() == 4) { run.make(w[1], w[2], w[3]); continue; }
        if (w[0] == "chain" && w.size() == 4) {
            std::string p = w[2];
            for (int i = 1; i <= std::stoi(w[3]); ++i) { std::string n = w[1] + std::to_string(i); run.make(n, p, "valid"); p = n; }
            continue;
        }
        if (!out.empty()) out += " ";
        out += run.op(w);
    }
    if (out.empty()) out = "-";
    // let queued validation-interface callbacks finish before the fixture is torn down
    if (run.setup->m_node.validation_signals) run.setup->m_node.validation_signals->SyncWithValidationInterfaceQueue();
    return out;
}

static std::string guarded(const std::string& line)
{
    try { return run_case(line); } catch (const std::exception& e) { return std::string("EXC ") + e.what(); }
}

// the fixtures remove their own random sub-directory; this removes the (then empty) per-process parent
static void cleanup_dir()
{
    std::error_code ec;
    std::filesystem::remove(std::filesystem::temp_directory_path() / "test_common bitcoin" / G_TEST_GET_FULL_NAME(), ec);
}

int main(int argc, char** argv)
{
    std::vector<std::string> lines;
    std::string line;
    while (std::getline(std::cin, line)) lines.push_back(line);
    const size_t n = lines.size();
    size_t workers = 1;
    if (n >= 8) workers = std::min<size_t>(12, n / 4);   // a single worker still runs in a forked child, so that an abort is reported per case
    if (const char* e = getenv("VERIF_CHAINSEL_WORKERS")) workers = std::max(1, atoi(e));
    if (workers < 1) workers = 1;
    // no thread and no fixture exists yet: fork is safe. A worker handles its cases in order and appends one
    // result line per case to its file; if it dies (an assertion of the node fires), the case it was on is
    // reported as CRASH and a new worker takes over the rest.
    std::string base = "/tmp/verif_chainsel_" + std::to_string(getpid()) + "_";
    std::vector<std::string> result(n);
    std::vector<std::vector<size_t>> batches(workers);
    for (size_t i = 0; i < n; ++i) batches[i % workers].push_back(i);
    int round = 0;
    while (!batches.empty()) {
        std::vector<pid_t> pids;
        for (size_t k = 0; k < batches.size(); ++k) {
            pid_t p = fork();
            if (p < 0) { perror("fork"); return 2; }
            if (p == 0) {
                std::ofstream f(base + std::to_string(k));
                for (size_t i : batches[k]) { f << guarded(lines[i]) << "\n"; f.flush(); }
                f.close();
                cleanup_dir();
                _exit(0);
            }
            pids.push_back(p);
        }
        for (pid_t p : pids) { int st = 0; waitpid(p, &st, 0); }
        std::vector<std::vector<size_t>> next;
        for (size_t k = 0; k < batches.size(); ++k) {
            std::ifstream f(base + std::to_string(k));
            std::string l;
            size_t j = 0;
            while (j < batches[k].size() && std::getline(f, l)) result[batches[k][j++]] = l;
            f.close();
            std::remove((base + std::to_string(k)).c_str());
            if (j < batches[k].size()) {
                result[batches[k][j]] = "CRASH the node aborted (assertion) while running this case";
                std::vector<size_t> rest(batches[k].begin() + j + 1, batches[k].end());
                if (!rest.empty()) next.push_back(rest);
            }
        }
        batches = next;
        if (++round > 1000) break;
    }
    for (size_t i = 0; i < n; ++i) std::cout << result[i] << "\n";
    std::cout.flush();
    return 0;
}
