// C++ side of C06 (family sigops / blockcheck), end to end: builds a block on a regtest chain (TestChain100Setup plus one block
// that creates the coins the case spends) and reports TestBlockValidity's verdict (CheckBlock, ContextualCheckBlock, ConnectBlock).
//
// case:  blkchk <bip34 0|1> <height> <stripped> <total> <coinbase scriptSig> <ntx> {tx}*ntx world <bip34_height> <nfund> <spk>*nfund
//   tx = <p2sh 0|1> <witness 0|1> <coinbase 0|1> <nin> {<scriptSig> <prev scriptPubKey> <n> <item>*n}*nin <nout> <scriptPubKey>*nout
//   scripts are hex; '+' concatenates pieces and rep:<hexbyte>:<count> is a run (large paddings); "-" is empty.
//   world: BIP34 activates at <bip34_height>; block 101 holds a transaction that spends the coinbase of block 1 into <nfund>
//   outputs with the given scripts.  The block under test has height 102; an input with prev scriptPubKey X spends the first
//   not yet used funding output whose script is X.  A coinbase (coinbase=1) gets a null prevout; when the first transaction is a
//   coinbase and some transaction carries witness data, the witness commitment output and the coinbase witness are added by
//   ChainstateManager::GenerateCoinbaseCommitment (the case lists the coinbase without them; <stripped>/<total> include them).
//   <bip34>, <height>, <stripped>, <total> are what the generator assumed: checked here (SETUP-... / SIZE-MISMATCH otherwise).
// output: ok | <reject reason>
#include <drv_common.h>
#include <chain.h>
#include <chainparams.h>
#include <consensus/amount.h>
#include <consensus/merkle.h>
#include <consensus/validation.h>
#include <node/miner.h>
#include <pow.h>
#include <primitives/block.h>
#include <primitives/transaction.h>
#include <script/script.h>
#include <serialize.h>
#include <test/util/setup_common.h>
#include <validation.h>

#include <memory>

namespace {
std::vector<unsigned char> bytes_of(const std::string& h)
{
    std::vector<unsigned char> out;
    size_t start = 0;
    while (start <= h.size()) {
        size_t plus = h.find('+', start);
        const std::string piece = h.substr(start, plus == std::string::npos ? std::string::npos : plus - start);
        if (piece.rfind("rep:", 0) == 0) {
            const size_t c = piece.find(':', 4);
            const unsigned char b = (unsigned char)std::stoul(piece.substr(4, c - 4), nullptr, 16);
            const size_t n = std::stoull(piece.substr(c + 1));
            out.insert(out.end(), n, b);
        } else {
            const auto v = vd::unhex(piece);
            out.insert(out.end(), v.begin(), v.end());
        }
        if (plus == std::string::npos) break;
        start = plus + 1;
    }
    return out;
}
CScript script_of(const std::string& h)
{
    const auto b = bytes_of(h);
    return CScript(b.begin(), b.end());
}

struct World {
    std::string key;
    std::unique_ptr<TestChain100Setup> s;
    CTransactionRef funding;
    std::string setup_error;
};

std::unique_ptr<World> build_world(const std::string& key, int bip34_height, const std::vector<CScript>& fund)
{
    auto w = std::make_unique<World>();
    w->key = key;
    const std::string arg = "-testactivationheight=bip34@" + std::to_string(bip34_height);
    TestOpts opts;
    opts.extra_args = {arg.c_str()};
    w->s = std::make_unique<TestChain100Setup>(ChainType::REGTEST, opts);
    auto& s = *w->s;
    const CScript spk = CScript() << ToByteVector(s.coinbaseKey.GetPubKey()) << OP_CHECKSIG;
    std::vector<CTxOut> outs;
    const CAmount each = fund.empty() ? 0 : (49 * COIN) / (CAmount)fund.size();
    for (const CScript& f : fund) outs.emplace_back(each, f);
    if (outs.empty()) outs.emplace_back(49 * COIN, spk);
    CMutableTransaction f = s.CreateValidMempoolTransaction({s.m_coinbase_txns.at(0)}, {COutPoint(s.m_coinbase_txns.at(0)->GetHash(), 0)}, 1,
                                                            {s.coinbaseKey}, outs, /*submit=*/false);
    CBlock b = s.CreateAndProcessBlock({f}, spk);
    LOCK(cs_main);
    if (s.m_node.chainman->ActiveChain().Tip()->GetBlockHash() != b.GetHash() || s.m_node.chainman->ActiveChain().Height() != 101) {
        w->setup_error = "SETUP-FUNDING-BLOCK-REJECTED";
        return w;
    }
    w->funding = MakeTransactionRef(f);
    return w;
}
} // namespace

int main()
{
    std::unique_ptr<World> world;
    return vd::main_loop([&](const std::vector<std::string>& w, const std::string&) -> std::string {
        if (w.empty() || w[0] != "blkchk") return "BADCASE";
        size_t p = 1;
        const bool bip34_assumed = vd::ull(w.at(p++)) != 0;
        const int height_assumed = (int)vd::ll(w.at(p++));
        const uint64_t stripped_assumed = vd::ull(w.at(p++));
        const uint64_t total_assumed = vd::ull(w.at(p++));
        const std::string cbsig_assumed = w.at(p++);
        const size_t ntx = vd::ull(w.at(p++));
        struct In { CScript sig; CScript prev; std::vector<std::vector<unsigned char>> wit; };
        struct Tx { bool coinbase; std::vector<In> ins; std::vector<CScript> outs; };
        std::vector<Tx> txs;
        for (size_t t = 0; t < ntx; ++t) {
            Tx tx;
            p += 2;   // the flags the model is to use (checked against the chain below)
            tx.coinbase = vd::ull(w.at(p++)) != 0;
            const size_t nin = vd::ull(w.at(p++));
            for (size_t i = 0; i < nin; ++i) {
                In in;
                in.sig = script_of(w.at(p++));
                in.prev = script_of(w.at(p++));
                const size_t n = vd::ull(w.at(p++));
                for (size_t k = 0; k < n; ++k) in.wit.push_back(bytes_of(w.at(p++)));
                tx.ins.push_back(std::move(in));
            }
            const size_t nout = vd::ull(w.at(p++));
            for (size_t i = 0; i < nout; ++i) tx.outs.push_back(script_of(w.at(p++)));
            txs.push_back(std::move(tx));
        }
        if (w.at(p++) != "world") return "BADCASE";
        const int bip34_height = (int)vd::ll(w.at(p++));
        const size_t nfund = vd::ull(w.at(p++));
        std::vector<CScript> fund;
        std::string key = std::to_string(bip34_height);
        for (size_t i = 0; i < nfund; ++i) { key += " " + w.at(p); fund.push_back(script_of(w.at(p++))); }

        if (!world || world->key != key) {
            world.reset();
            world = build_world(key, bip34_height, fund);
        }
        if (!world->setup_error.empty()) return world->setup_error;
        auto& s = *world->s;
        auto& chainman = *s.m_node.chainman;
        const CScript spk = CScript() << ToByteVector(s.coinbaseKey.GetPubKey()) << OP_CHECKSIG;
        CBlock block = s.CreateBlock({}, spk);   // header fields (prev hash, nBits, time) from the template
        if (height_assumed != 102) return "SETUP-HEIGHT";
        if (bip34_assumed != (102 >= bip34_height)) return "SETUP-BIP34-FLAG";
        block.vtx.clear();
        std::vector<bool> used(nfund, false);
        bool any_witness = false;
        for (const Tx& tx : txs) {
            CMutableTransaction mtx;
            for (const In& in : tx.ins) {
                CTxIn txin;
                if (tx.coinbase) {
                    txin.prevout = COutPoint();
                } else {
                    size_t k = 0;
                    for (; k < nfund; ++k) if (!used[k] && fund[k] == in.prev) break;
                    if (k == nfund) return "BADCASE no unused funding output with that script";
                    used[k] = true;
                    txin.prevout = COutPoint(world->funding->GetHash(), (uint32_t)k);
                }
                txin.scriptSig = in.sig;
                txin.scriptWitness.stack = in.wit;
                if (!in.wit.empty()) any_witness = true;
                mtx.vin.push_back(txin);
            }
            for (const CScript& o : tx.outs) mtx.vout.emplace_back(0, o);
            block.vtx.push_back(MakeTransactionRef(mtx));
        }
        if (!block.vtx.empty() && block.vtx[0]->IsCoinBase()) {
            if (HexStr(block.vtx[0]->vin[0].scriptSig) != (cbsig_assumed == "-" ? "" : cbsig_assumed)) return "SETUP-CBSIG";
            if (any_witness) {
                const CBlockIndex* prev = WITH_LOCK(::cs_main, return chainman.m_blockman.LookupBlockIndex(block.hashPrevBlock));
                chainman.GenerateCoinbaseCommitment(block, prev);
            }
        }
        for (size_t t = 0; t < txs.size(); ++t) {
            if (block.vtx[t]->IsCoinBase() != txs[t].coinbase) return "BADCASE coinbase shape";
        }
        block.hashMerkleRoot = BlockMerkleRoot(block);
        const uint64_t stripped = ::GetSerializeSize(TX_NO_WITNESS(block));
        const uint64_t total = ::GetSerializeSize(TX_WITH_WITNESS(block));
        if (stripped != stripped_assumed || total != total_assumed) return "SIZE-MISMATCH actual " + std::to_string(stripped) + " " + std::to_string(total);
        if ((uint64_t)GetBlockWeight(block) != 3 * stripped + total) return "WEIGHT-MISMATCH " + std::to_string(GetBlockWeight(block));
        LOCK(cs_main);
        const BlockValidationState st = TestBlockValidity(chainman.ActiveChainstate(), block, /*check_pow=*/false, /*check_merkle_root=*/true);
        return st.IsValid() ? "ok" : st.GetRejectReason();
    });
}
