// C++ side of C39 (private broadcast queue): drives the real class PrivateBroadcast (src/private_broadcast.{h,cpp}) through
// scripts of Add / Remove / PickTxForSend / GetTxForNode / NodeConfirmedReception / DidNodeConfirmReception /
// HavePendingTransactions / GetStale with small limits and a mocked clock, and prints each result plus GetBroadcastInfo().
//   case:   <max_transactions> <max_send_attempts>  { t <now> | add <i> | rm <i> | pick <node> | get <node> | conf <node> | did <node> | pend | stale }*
//   output: "<per-op results> | <final GetBroadcastInfo dump> ## <hints: the transaction each pick returned>"
#include <drv_common.h>
#include <algorithm>
#include <map>
#include <private_broadcast.h>
#include <primitives/transaction.h>
#include <netaddress.h>
#include <util/time.h>

static std::vector<CTransactionRef> g_txs;
static std::map<uint256, int> g_idx;
static int tx_index(const CTransactionRef& tx) { auto it = g_idx.find(tx->GetWitnessHash().ToUint256()); return it == g_idx.end() ? -1 : it->second; }
static CService node_addr(int64_t node)
{
    in_addr a{};
    a.s_addr = htonl(0x0a000000u + (uint32_t)(node & 0xffff));
    return CService(a, 8333);
}
static int64_t secs(NodeClock::time_point t) { return std::chrono::duration_cast<std::chrono::seconds>(t.time_since_epoch()).count(); }

int main()
{
    for (int i = 0; i < 16; ++i) {
        CMutableTransaction m;
        m.nLockTime = 1000 + i;
        m.vin.resize(1);
        m.vout.resize(1);
        g_txs.push_back(MakeTransactionRef(m));
        g_idx[g_txs.back()->GetWitnessHash().ToUint256()] = i;
    }
    return vd::main_loop([&](const std::vector<std::string>& w, const std::string&) -> std::string {
        size_t p = 0;
        size_t max_tx = vd::ull(w.at(p++)), max_send = vd::ull(w.at(p++));
        PrivateBroadcast pb{max_tx, max_send};
        int64_t now = 1700000000;
        SetMockTime(now);
        std::string out, hints;
        auto emit = [&](const std::string& r) { out += (out.empty() ? "" : " ") + r; };
        while (p < w.size()) {
            const std::string op = w.at(p++);
            if (op == "t") { now = vd::ll(w.at(p++)); SetMockTime(now); emit("-"); }
            else if (op == "add") { auto r = pb.Add(g_txs.at(vd::ll(w.at(p++)))); emit(std::to_string((int)r)); }
            else if (op == "rm") { auto r = pb.Remove(g_txs.at(vd::ll(w.at(p++)))); emit(r ? std::to_string(*r) : "none"); }
            else if (op == "pick") {
                int64_t node = vd::ll(w.at(p++));
                auto r = pb.PickTxForSend(node, node_addr(node));
                int k = r ? tx_index(*r) : -1;
                hints += " " + std::to_string(k);
                emit(k < 0 ? "none" : std::to_string(k));
            }
            else if (op == "get") { auto r = pb.GetTxForNode(vd::ll(w.at(p++))); emit(r ? std::to_string(tx_index(*r)) : "none"); }
            else if (op == "conf") { pb.NodeConfirmedReception(vd::ll(w.at(p++))); emit("-"); }
            else if (op == "did") { emit(pb.DidNodeConfirmReception(vd::ll(w.at(p++))) ? "1" : "0"); }
            else if (op == "pend") { emit(pb.HavePendingTransactions() ? "1" : "0"); }
            else if (op == "stale") {
                std::vector<int> v;
                for (const auto& tx : pb.GetStale()) v.push_back(tx_index(tx));
                std::sort(v.begin(), v.end());
                std::string r;
                for (int k : v) r += (r.empty() ? "" : ",") + std::to_string(k);
                emit(r.empty() ? "none" : r);
            }
            else return "BADCASE " + op;
        }
        std::map<int, std::string> dump;
        for (const auto& e : pb.GetBroadcastInfo()) {
            std::string s = std::to_string(secs(e.time_added)) + ":" + std::to_string(e.attempts_remaining) + ":[";
            for (const auto& pr : e.peers) {
                uint32_t ip;
                { std::vector<unsigned char> b = pr.address.GetAddrBytes(); ip = (b[b.size() - 2] << 8) | b[b.size() - 1]; }
                s += std::to_string(ip) + "," + std::to_string(secs(pr.sent)) + "," + (pr.received ? std::to_string(secs(*pr.received)) : std::string("-")) + ";";
            }
            dump[tx_index(e.tx)] = s + "]";
        }
        std::string d;
        for (const auto& [k, s] : dump) d += " " + std::to_string(k) + ":" + s;
        return out + " |" + d + " ##" + hints;
    });
}
