// C++ side of C36: the real PeerManager of a regtest node; one mock peer per case (connection type, noban permission, local or
// routable address) sends one kind of message or is attributed one block verdict; after the next SendMessages (which runs
// MaybeDiscourageAndDisconnect) the driver reports CNode::fDisconnect and BanMan::IsDiscouraged.
//   case: <conn: 0 outbound-full-relay 1 inbound 2 manual 3 block-relay-only> <noban 0|1> <local 0|1> <action>
//   action: mis | blockres <BlockValidationResult 0..8> | tx <kind 0..10> | hdr <kind 0..3> | blk <kind 0..2> | big <inv|getdata|headers|addr>
//   output: "<disconnect> <discouraged>"
#include <p2pd_harness.h>
#include <consensus/merkle.h>
#include <pow.h>
#include <script/script.h>
#include <chainparams.h>
#include <blockencodings.h>

int main()
{
    p2pd::Harness H;
    TestChain100Setup& S = *H.setup;
    ChainstateManager& cm = *S.m_node.chainman;
    const CScript spk = GetScriptForRawPubKey(S.coinbaseKey.GetPubKey());
    H.advance(10);
    // a confirmed fan-out transaction provides the coins of the transactions of the cases; when it runs low (checked between
    // cases, when the mempool is empty) the next mature coinbase is fanned out the same way
    const int FAN = 1500;
    CTransactionRef fan;
    int fan_height = 0;
    int next_out = 0;
    size_t next_coinbase = 0;
    auto refill = [&]() {
        const size_t k = next_coinbase++;
        std::vector<CTxOut> outs(FAN, CTxOut(CAmount(3000000), spk));
        CMutableTransaction m = S.CreateValidMempoolTransaction({S.m_coinbase_txns.at(k)}, {COutPoint(S.m_coinbase_txns.at(k)->GetHash(), 0)}, (int)k + 1, {S.coinbaseKey}, outs, /*submit=*/false);
        fan = MakeTransactionRef(m);
        H.advance(1);
        S.CreateAndProcessBlock({m}, spk);
        H.sync();
        fan_height = WITH_LOCK(cs_main, return S.m_node.chainman->ActiveChain().Height());
        next_out = 0;
    };
    refill();
    uint32_t extranonce = 1;
    uint32_t addr_counter = 0;

    auto tip = [&]() { LOCK(cs_main); return cm.ActiveChain().Tip(); };
    // a block with only a coinbase on top of [prev]
    auto make_block = [&](const CBlockIndex* prev, int64_t time, CAmount cb_value, bool solve = true) {
        CBlock b;
        b.nVersion = 0x20000000;
        b.hashPrevBlock = prev->GetBlockHash();
        b.nTime = (uint32_t)time;
        b.nBits = GetNextWorkRequired(prev, &b, Params().GetConsensus());
        CMutableTransaction cb;
        cb.vin.resize(1);
        cb.vin[0].prevout.SetNull();
        cb.vin[0].scriptSig = CScript() << (prev->nHeight + 1) << CScriptNum(extranonce++);
        cb.vout.resize(1);
        cb.vout[0].nValue = cb_value;
        cb.vout[0].scriptPubKey = spk;
        b.vtx.push_back(MakeTransactionRef(cb));
        b.hashMerkleRoot = BlockMerkleRoot(b);
        if (solve) while (!CheckProofOfWork(b.GetHash(), b.nBits, Params().GetConsensus())) ++b.nNonce;
        return b;
    };
    auto spend = [&](const std::vector<CTxOut>& outs) {
        int o = next_out++;
        return S.CreateValidMempoolTransaction({fan}, {COutPoint(fan->GetHash(), (uint32_t)o)}, fan_height, {S.coinbaseKey}, outs, /*submit=*/false);
    };

    return vd::main_loop([&](const std::vector<std::string>& w, const std::string&) -> std::string {
        H.drop_peers();
        if (S.m_node.mempool->size() > 0) {
            std::vector<CMutableTransaction> in_block;
            for (const auto& e : S.m_node.mempool->infoAll()) in_block.emplace_back(*e.tx);
            H.advance(1);
            S.CreateAndProcessBlock(in_block, spk);
            H.sync();
        }
        if (next_out > FAN - 100) refill();
        size_t p = 0;
        int conn = vd::ll(w.at(p++)); bool noban = vd::ll(w.at(p++)) != 0; bool local = vd::ll(w.at(p++)) != 0;
        const std::string action = w.at(p++);
        ConnectionType ct = conn == 0 ? ConnectionType::OUTBOUND_FULL_RELAY : conn == 1 ? ConnectionType::INBOUND : conn == 2 ? ConnectionType::MANUAL : ConnectionType::BLOCK_RELAY;
        in_addr a{};
        ++addr_counter;
        a.s_addr = local ? htonl(0x7f000001u + addr_counter) : htonl(0x50000000u + addr_counter);   // 127.x.y.z (a different local address per case: discouragement is per address) or 80.x.y.z
        CService svc(a, 8333);
        int peer = H.add_peer(ct, noban ? NetPermissionFlags::NoBan : NetPermissionFlags::None, svc, /*relay_txs=*/true);
        CNode& node = *H.nodes.at(peer);
        if (node.fDisconnect) return "BADCASE handshake failed";
        H.advance(1);

        if (action == "mis") {
            H.peerman->UnitTestMisbehaving(node.GetId());
        } else if (action == "blockres") {
            int res = vd::ll(w.at(p++));
            // a valid block at the height of the tip: stored, not connected, so its source stays registered in mapBlockSource
            const CBlockIndex* t = tip();
            CBlock sb = make_block(t->pprev, t->GetBlockTime(), 50 * COIN);
            H.deliver(peer, NetMsg::Make(NetMsgType::BLOCK, TX_WITH_WITNESS(sb)));
            BlockValidationState st;
            if (res != 0) st.Invalid((BlockValidationResult)res, "verif-injected");
            else { st.Invalid(BlockValidationResult::BLOCK_RESULT_UNSET, "verif-injected"); }
            S.m_node.validation_signals->BlockChecked(std::make_shared<const CBlock>(sb), st);
        } else if (action == "tx") {
            int kind = vd::ll(w.at(p++));
            CSerializedNetMsg msg;
            if (kind == 0) { auto m = spend({CTxOut(2990000, spk)}); msg = NetMsg::Make(NetMsgType::TX, TX_WITH_WITNESS(m)); }
            else if (kind == 1) { auto m = spend({CTxOut(2990000, spk)}); auto s = m.vin[0].scriptSig; if (s.size() > 10) { std::vector<unsigned char> v(s.begin(), s.end()); v[10] ^= 0x55; m.vin[0].scriptSig = CScript(v.begin(), v.end()); } msg = NetMsg::Make(NetMsgType::TX, TX_WITH_WITNESS(m)); }   // bad signature
            else if (kind == 2) { auto m = spend({CTxOut(2990000, CScript() << OP_1 << OP_2 << OP_3)}); msg = NetMsg::Make(NetMsgType::TX, TX_WITH_WITNESS(m)); }     // non-standard output
            else if (kind == 3) { CMutableTransaction m; m.vin.resize(1); m.vin[0].prevout = COutPoint(Txid::FromUint256(uint256{(uint8_t)(addr_counter & 0xff)}), 0); m.vout.emplace_back(1000, spk); msg = NetMsg::Make(NetMsgType::TX, TX_WITH_WITNESS(m)); }   // orphan
            else if (kind == 4) { int o = next_out; auto m1 = spend({CTxOut(2990000, spk)}); next_out = o; auto m2 = spend({CTxOut(2990001, spk)});
                                  H.deliver(peer, NetMsg::Make(NetMsgType::TX, TX_WITH_WITNESS(m1))); msg = NetMsg::Make(NetMsgType::TX, TX_WITH_WITNESS(m2)); }   // conflicting spend
            else if (kind == 5) { auto cbh = S.m_coinbase_txns.at(60); auto m = S.CreateValidMempoolTransaction(cbh, 0, 61, S.coinbaseKey, spk, CAmount(49 * COIN), false); msg = NetMsg::Make(NetMsgType::TX, TX_WITH_WITNESS(m)); } // premature coinbase spend
            else if (kind == 6) { auto m = spend({CTxOut(2990000, spk)}); H.deliver(peer, NetMsg::Make(NetMsgType::TX, TX_WITH_WITNESS(m))); msg = NetMsg::Make(NetMsgType::TX, TX_WITH_WITNESS(m)); }   // duplicate
            else if (kind == 7) { auto m = spend({CTxOut(2990000, spk)}); DataStream ds; ds << TX_WITH_WITNESS(m); std::vector<unsigned char> half(UCharCast(ds.data()), UCharCast(ds.data()) + ds.size() / 2); msg.m_type = NetMsgType::TX; msg.data = half; }   // truncated
            else if (kind == 8) { CMutableTransaction m; m.vout.emplace_back(1000, spk); msg = NetMsg::Make(NetMsgType::TX, TX_NO_WITNESS(m)); }   // no inputs
            else if (kind == 9) { auto m = spend({CTxOut(9990000, spk)}); msg = NetMsg::Make(NetMsgType::TX, TX_WITH_WITNESS(m)); }   // outputs exceed inputs
            else { msg.m_type = NetMsgType::TX; msg.data = std::vector<unsigned char>(300, 0xff); }   // garbage
            H.deliver(peer, std::move(msg));
        } else if (action == "hdr") {
            int kind = vd::ll(w.at(p++));
            const CBlockIndex* t = tip();
            std::vector<CBlock> hs;
            if (kind == 0) { CBlock b = make_block(t, t->GetBlockTime() + 1, 50 * COIN, false); while (CheckProofOfWork(b.GetHash(), b.nBits, Params().GetConsensus())) ++b.nNonce; hs.push_back(b); }   // invalid proof of work
            else if (kind == 1) { hs.push_back(make_block(t, H.now + 3 * 3600, 50 * COIN)); }   // too far in the future
            else if (kind == 2) { hs.push_back(make_block(t, t->GetBlockTime() + 1, 50 * COIN)); hs.push_back(make_block(t, t->GetBlockTime() + 2, 50 * COIN)); }   // non-continuous
            else { hs.push_back(make_block(t, std::max<int64_t>(t->GetMedianTimePast() + 1, H.now), 50 * COIN)); }   // fine
            std::vector<CBlockHeader> headers;
            for (auto& b : hs) headers.push_back(static_cast<const CBlockHeader&>(b));
            // a headers message is a vector of blocks without transactions
            std::vector<CBlock> empty_blocks;
            for (auto& h : headers) { CBlock e; static_cast<CBlockHeader&>(e) = h; empty_blocks.push_back(e); }
            H.deliver(peer, NetMsg::Make(NetMsgType::HEADERS, TX_WITH_WITNESS(empty_blocks)));
        } else if (action == "blk") {
            int kind = vd::ll(w.at(p++));
            const CBlockIndex* t = tip();
            int64_t time = std::max<int64_t>(t->GetMedianTimePast() + 1, H.now);
            // the subsidy of the block's own height (regtest halves at 150, which a long case list reaches): a fixed 50 BTC
            // made the "fine" block of kind 2 invalid there (thorough-tier false alarm corrected, DESIGN 9.4)
            const CAmount subsidy = GetBlockSubsidy(t->nHeight + 1, Params().GetConsensus());
            CBlock b = make_block(t, time, kind == 1 ? 2 * subsidy : subsidy);
            if (kind == 0) { b.hashMerkleRoot = uint256{7}; b.nNonce = 0; while (!CheckProofOfWork(b.GetHash(), b.nBits, Params().GetConsensus())) ++b.nNonce; }   // merkle root does not match
            H.deliver(peer, NetMsg::Make(NetMsgType::BLOCK, TX_WITH_WITNESS(b)));
            H.sync();
        } else if (action == "big") {
            const std::string what = w.at(p++);
            if (what == "inv") H.deliver(peer, NetMsg::Make(NetMsgType::INV, std::vector<CInv>(50001, CInv{MSG_TX, uint256{1}})));
            else if (what == "getdata") H.deliver(peer, NetMsg::Make(NetMsgType::GETDATA, std::vector<CInv>(50001, CInv{MSG_TX, uint256{1}})));
            else if (what == "headers") H.deliver(peer, NetMsg::Make(NetMsgType::HEADERS, TX_WITH_WITNESS(std::vector<CBlock>(2001))));
            else return "BADCASE " + what;
        } else return "BADCASE " + action;

        H.send_messages(peer);
        bool disc = node.fDisconnect;
        bool discouraged = S.m_node.banman->IsDiscouraged(node.addr);
        std::string extra = action == "tx" ? " m=" + std::to_string(S.m_node.mempool->size()) : "";
        return std::string(disc ? "1" : "0") + " " + (discouraged ? "1" : "0") + extra;
    });
}
