// C++ side of the Amount family: calls the real GetBlockSubsidy / MoneyRange of the current tree.
#include <drv_common.h>
#include <consensus/amount.h>
#include <kernel/chainparams.h>
#include <validation.h>
#include <limits>
#include <memory>

int main(int argc, char** argv)
{
    std::vector<std::unique_ptr<const CChainParams>> chains;
    chains.push_back(CChainParams::Main());
    chains.push_back(CChainParams::TestNet());
    chains.push_back(CChainParams::TestNet4());
    chains.push_back(CChainParams::SigNet());
    chains.push_back(CChainParams::RegTest());
    return vd::main_loop([&](const std::vector<std::string>& w, const std::string&) -> std::string {
        if (w.size() == 3 && w[0] == "subsidy") {
            const auto& c = chains.at(std::stoi(w[1]))->GetConsensus();
            return std::to_string(GetBlockSubsidy((int)vd::ll(w[2]), c));
        }
        if (w.size() == 2 && w[0] == "total") {
            const auto& c = chains.at(std::stoi(w[1]))->GetConsensus();
            std::string out = std::to_string(c.nSubsidyHalvingInterval);
            for (long long k = 0; k <= 64; ++k) {
                long long h = k * (long long)c.nSubsidyHalvingInterval;
                if (h > std::numeric_limits<int>::max()) break;
                out += " " + std::to_string(GetBlockSubsidy((int)h, c));
            }
            return out;
        }
        if (w.size() == 2 && w[0] == "moneyrange") {
            return MoneyRange((CAmount)vd::ll(w[1])) ? "1" : "0";
        }
        return "BADCASE";
    });
}
