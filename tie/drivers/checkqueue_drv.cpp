// C++ side of C14 (check queue).  Runs the REAL CCheckQueue / CCheckQueueControl with real worker threads.
//
// case line:  cq <workers> <batch size> <reps> | <session> | <session> ...
//   session = <batch>/<batch>/...      each batch is handed to one control.Add() call
//   batch   = <v>,<v>,...              v = 0: the check passes; v > 0: the check fails with that code;
//                                      a trailing 's' makes the check slow (a short busy wait) to vary the schedules
//   The whole script (all sessions on ONE queue object, a fresh CCheckQueueControl per session) is run <reps> times.
// output: one token per session, aggregated over the repetitions (only schedule-independent facts are judged):
//   S<k>:res=<sorted distinct results, '-' = nullopt>;evals=<min>..<max>;dup=<max times one check ran>;n=<checks>
#include <drv_common.h>

#include <checkqueue.h>

#include <atomic>
#include <chrono>
#include <memory>
#include <optional>
#include <set>
#include <vector>

namespace {
struct Shared {
    std::vector<std::atomic<int>> runs;
    explicit Shared(size_t n) : runs(n) { for (auto& r : runs) r.store(0); }
};

struct DrvCheck {
    Shared* sh{nullptr};
    size_t id{0};
    int verdict{0};
    bool slow{false};
    std::optional<int> operator()() const
    {
        sh->runs[id].fetch_add(1, std::memory_order_relaxed);
        if (slow) {
            auto until = std::chrono::steady_clock::now() + std::chrono::microseconds(30);
            while (std::chrono::steady_clock::now() < until) {}
        }
        if (verdict == 0) return std::nullopt;
        return verdict;
    }
};

std::vector<std::string> split(const std::string& s, char sep)
{
    std::vector<std::string> out;
    std::string cur;
    for (char c : s) {
        if (c == sep) { out.push_back(cur); cur.clear(); } else cur.push_back(c);
    }
    out.push_back(cur);
    return out;
}
std::string trim(const std::string& s)
{
    size_t a = s.find_first_not_of(' '), b = s.find_last_not_of(' ');
    return a == std::string::npos ? "" : s.substr(a, b - a + 1);
}
} // namespace

int main()
{
    return vd::main_loop([&](const std::vector<std::string>& w, const std::string& line) -> std::string {
        if (w.size() < 4 || w[0] != "cq") return "BADCASE";
        int workers = (int)vd::ll(w[1]);
        unsigned batch = (unsigned)vd::ull(w[2]);
        int reps = (int)vd::ll(w[3]);
        if (workers < 0 || workers > 32 || batch < 1 || reps < 1) return "BADCASE";
        auto segs = split(line, '|');
        struct Sess { std::vector<std::vector<std::pair<int, bool>>> batches; size_t n{0}; };
        std::vector<Sess> sessions;
        for (size_t i = 1; i < segs.size(); ++i) {
            Sess s;
            for (const auto& b : split(trim(segs[i]), '/')) {
                std::vector<std::pair<int, bool>> vb;
                if (!trim(b).empty())
                    for (const auto& v : split(trim(b), ',')) {
                        std::string t = trim(v);
                        bool slow = !t.empty() && t.back() == 's';
                        if (slow) t.pop_back();
                        vb.emplace_back((int)vd::ll(t), slow);
                    }
                s.n += vb.size();
                s.batches.push_back(vb);
            }
            sessions.push_back(s);
        }
        struct Agg { std::set<int> res; size_t emin{SIZE_MAX}, emax{0}; int dup{0}; };
        std::vector<Agg> agg(sessions.size());
        {
            CCheckQueue<DrvCheck> queue(batch, workers);
            for (int r = 0; r < reps; ++r) {
                for (size_t k = 0; k < sessions.size(); ++k) {
                    Shared sh(sessions[k].n);
                    std::optional<int> res;
                    {
                        CCheckQueueControl<DrvCheck> control(queue);
                        size_t id = 0;
                        for (const auto& b : sessions[k].batches) {
                            std::vector<DrvCheck> v;
                            for (const auto& [verdict, slow] : b) v.push_back(DrvCheck{&sh, id++, verdict, slow});
                            control.Add(std::move(v));
                        }
                        res = control.Complete();
                    }
                    size_t ev = 0;
                    int dup = 0;
                    for (auto& x : sh.runs) { int c = x.load(); if (c > 0) ++ev; dup = std::max(dup, c); }
                    agg[k].res.insert(res ? *res : 0);
                    agg[k].emin = std::min(agg[k].emin, ev);
                    agg[k].emax = std::max(agg[k].emax, ev);
                    agg[k].dup = std::max(agg[k].dup, dup);
                }
            }
        }
        std::string out;
        for (size_t k = 0; k < sessions.size(); ++k) {
            std::string rs;
            for (int x : agg[k].res) { if (!rs.empty()) rs += ","; rs += x == 0 ? std::string("-") : std::to_string(x); }
            if (!out.empty()) out += " ";
            out += "S" + std::to_string(k + 1) + ":res=" + rs + ";evals=" + std::to_string(agg[k].emin) + ".." + std::to_string(agg[k].emax) +
                   ";dup=" + std::to_string(agg[k].dup) + ";n=" + std::to_string(sessions[k].n);
        }
        return out.empty() ? "-" : out;
    });
}
