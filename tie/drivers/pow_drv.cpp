// C++ side of the pow family (C07): calls the real SetCompact / GetCompact / CheckProofOfWork /
// CalculateNextWorkRequired / GetNextWorkRequired / PermittedDifficultyTransition /
// GetMedianTimePast of the current tree, and ProcessNewBlockHeaders (which runs CheckBlockHeader and
// ContextualCheckBlockHeader) on a regtest node for the header time rules.
#include <drv_common.h>
#include <arith_uint256.h>
#include <chain.h>
#include <consensus/params.h>
#include <consensus/validation.h>
#include <kernel/chainparams.h>
#include <pow.h>
#include <primitives/block.h>
#include <test/util/setup_common.h>
#include <uint256.h>
#include <util/time.h>
#include <validation.h>

#include <memory>
#include <deque>

static std::string hex256(const arith_uint256& a) { return ArithToUint256(a).GetHex(); }
static arith_uint256 from_hex256(const std::string& s)
{
    std::string p = s;
    if (p.size() < 64) p = std::string(64 - p.size(), '0') + p;
    auto u = uint256::FromHex(p);
    if (!u) throw std::runtime_error("bad hex");
    return UintToArith256(*u);
}

// A synthetic chain of CBlockIndex entries (as in pow_tests / skiplist_tests): heights 0..n-1,
// pprev/pskip set the way the node sets them (BuildSkip), times and bits from run-length segments
//   <count>:<t0>:<dt>:<bits>
struct SynthChain {
    std::deque<CBlockIndex> blocks;
    void add(uint32_t t, uint32_t bits)
    {
        CBlockIndex* prev = blocks.empty() ? nullptr : &blocks.back();
        blocks.emplace_back();
        CBlockIndex& b = blocks.back();
        b.pprev = prev;
        b.nHeight = prev ? prev->nHeight + 1 : 0;
        b.nTime = t;
        b.nBits = bits;
        b.BuildSkip();
    }
    void add_segments(const std::vector<std::string>& w, size_t from)
    {
        for (size_t i = from; i < w.size(); ++i) {
            unsigned long long n, t0, bits; long long dt;
            if (sscanf(w[i].c_str(), "%llu:%llu:%lld:%llu", &n, &t0, &dt, &bits) != 4) throw std::runtime_error("bad segment");
            for (unsigned long long k = 0; k < n; ++k) add((uint32_t)(t0 + (long long)k * dt), (uint32_t)bits);
        }
    }
};

int main(int argc, char** argv)
{
    std::vector<std::unique_ptr<const CChainParams>> chains;
    chains.push_back(CChainParams::Main());
    chains.push_back(CChainParams::TestNet());
    chains.push_back(CChainParams::TestNet4());
    chains.push_back(CChainParams::SigNet());
    chains.push_back(CChainParams::RegTest());
    std::unique_ptr<TestingSetup> node; // created lazily for hdr cases (regtest)

    return vd::main_loop([&](const std::vector<std::string>& w, const std::string&) -> std::string {
        if (w.size() == 2 && w[0] == "setc") {
            arith_uint256 a;
            bool neg = false, ovf = false;
            a.SetCompact((uint32_t)vd::ull(w[1]), &neg, &ovf);
            return hex256(a) + " " + (neg ? "1" : "0") + " " + (ovf ? "1" : "0");
        }
        if (w.size() == 2 && w[0] == "getc") {
            return std::to_string(from_hex256(w[1]).GetCompact());
        }
        if (w.size() == 4 && w[0] == "pow") {
            const auto& c = chains.at(std::stoi(w[1]))->GetConsensus();
            uint256 h = ArithToUint256(from_hex256(w[2]));
            return CheckProofOfWork(h, (unsigned int)vd::ull(w[3]), c) ? "1" : "0";
        }
        if (w.size() == 7 && w[0] == "calc") {
            // calc <chain> <lastbits> <firstbits> <tfirst> <tlast> <k> : the last block of the k-th period
            const auto& c = chains.at(std::stoi(w[1]))->GetConsensus();
            const int64_t I = c.DifficultyAdjustmentInterval();
            const int64_t k = vd::ll(w[6]);
            SynthChain sc;
            uint32_t lastbits = (uint32_t)vd::ull(w[2]), firstbits = (uint32_t)vd::ull(w[3]);
            uint32_t tlast = (uint32_t)vd::ull(w[5]);
            // heights 0 .. k*I-1 ; the first block of the last period carries firstbits
            for (int64_t h = 0; h < k * I; ++h) {
                bool first = (h == (k - 1) * I);
                bool last = (h == k * I - 1);
                sc.add(last ? tlast : 0, last ? lastbits : (first ? firstbits : lastbits));
            }
            if (I == 1) sc.blocks.back().nBits = lastbits; // degenerate: first == last
            const CBlockIndex* pl = &sc.blocks.back();
            unsigned int r = CalculateNextWorkRequired(pl, vd::ll(w[4]), c);
            bool perm = PermittedDifficultyTransition(c, pl->nHeight + 1, pl->nBits, r);
            return std::to_string(r) + " " + (perm ? "1" : "0");
        }
        if (w.size() == 5 && w[0] == "perm") {
            const auto& c = chains.at(std::stoi(w[1]))->GetConsensus();
            return PermittedDifficultyTransition(c, vd::ll(w[2]), (uint32_t)vd::ull(w[3]), (uint32_t)vd::ull(w[4])) ? "1" : "0";
        }
        if (w.size() >= 4 && w[0] == "next") {
            // next <chain> <blocktime> <segments...> : GetNextWorkRequired on a synthetic chain, and
            // whether PermittedDifficultyTransition accepts it against the tip's nBits
            const auto& c = chains.at(std::stoi(w[1]))->GetConsensus();
            SynthChain sc;
            sc.add_segments(w, 3);
            CBlockHeader hdr;
            hdr.nTime = (uint32_t)vd::ull(w[2]);
            const CBlockIndex* pl = &sc.blocks.back();
            unsigned int r = GetNextWorkRequired(pl, &hdr, c);
            bool perm = PermittedDifficultyTransition(c, pl->nHeight + 1, pl->nBits, r);
            return std::to_string(r) + " " + (perm ? "1" : "0");
        }
        if (w.size() >= 2 && w[0] == "mtp") {
            SynthChain sc;
            for (size_t i = 1; i < w.size(); ++i) sc.add((uint32_t)vd::ull(w[i]), 0);
            return std::to_string(sc.blocks.back().GetMedianTimePast());
        }
        if (w.size() >= 5 && w[0] == "hdr") {
            // hdr <now> <bitsdelta> <hashmode> <t1> ... <tn> : on a regtest node, extend a fresh branch from
            // genesis with headers at times t1..t(n-1) (these must be acceptable), then submit the
            // header with time tn, nBits = required + bitsdelta (hashmode 1: do not grind the nonce to
            // meet the target, pick one that fails it) and report the verdict.
            if (!node) node = std::make_unique<TestingSetup>(ChainType::REGTEST);
            ChainstateManager& cm = *node->m_node.chainman;
            const auto& c = cm.GetConsensus();
            int64_t now = vd::ll(w[1]);
            long long bitsdelta = vd::ll(w[2]);
            int hashmode = std::stoi(w[3]);
            const CBlockIndex* prev = WITH_LOCK(cm.GetMutex(), return cm.ActiveChain().Genesis());
            const int64_t G = prev->GetBlockTime(); // all times in the case are relative to the genesis time
            now += G;
            static uint32_t salt = 0;
            ++salt;
            for (size_t i = 4; i < w.size(); ++i) {
                bool final_hdr = (i + 1 == w.size());
                CBlockHeader h;
                h.nVersion = 0x20000000;
                h.hashPrevBlock = prev->GetBlockHash();
                // the merkle root makes every case's branch distinct
                h.hashMerkleRoot = uint256{};
                *h.hashMerkleRoot.begin() = (unsigned char)(salt & 0xff);
                *(h.hashMerkleRoot.begin() + 1) = (unsigned char)((salt >> 8) & 0xff);
                *(h.hashMerkleRoot.begin() + 2) = (unsigned char)((salt >> 16) & 0xff);
                *(h.hashMerkleRoot.begin() + 3) = (unsigned char)((salt >> 24) & 0xff);
                h.nTime = (uint32_t)(G + vd::ll(w[i]));
                h.nBits = GetNextWorkRequired(prev, &h, c);
                if (final_hdr) h.nBits = (uint32_t)((long long)h.nBits + bitsdelta);
                bool want_fail = final_hdr && hashmode == 1;
                h.nNonce = 0;
                for (;;) {
                    bool ok = CheckProofOfWork(h.GetHash(), h.nBits, c);
                    if (ok != want_fail) break;
                    ++h.nNonce;
                    if (h.nNonce > 100000) break; // invalid nBits can never be met
                }
                SetMockTime(final_hdr ? now : (int64_t)h.nTime);
                BlockValidationState st;
                const CBlockIndex* pi = nullptr;
                std::vector<CBlockHeader> v{h};
                bool ok = cm.ProcessNewBlockHeaders(v, /*min_pow_checked=*/true, st, &pi);
                SetMockTime(0);
                if (final_hdr) {
                    uint32_t req = GetNextWorkRequired(prev, &h, c);
                    std::string pre = std::to_string(req) + " " + std::to_string(prev->GetMedianTimePast() - G) + " ";
                    return pre + (ok ? std::string("ok") : st.GetRejectReason());
                }
                if (!ok || !pi) return "SETUPFAIL " + st.GetRejectReason();
                prev = pi;
            }
            return "BADCASE";
        }
        return "BADCASE";
    });
}
