// C++ side of C06 (family sigops), function level: calls the real script parser and sigop counters of the current tree.
//
// cases (scripts as hex, "-" = empty):
//   parse <script>                                   -> <opcode>:<data> ... END|ERR           (CScript::GetOp loop)
//   count <script>                                   -> <GetSigOpCount(true)> <GetSigOpCount(false)>
//   p2sh <scriptPubKey> <scriptSig>                  -> <spk.GetSigOpCount(scriptSig)> <IsPayToScriptHash> <scriptSig.IsPushOnly>
//   wit <p2sh 0|1> <witness 0|1> <scriptSig> <scriptPubKey> <n> <item>*n
//                                                    -> <CountWitnessSigOps> <IsWitnessProgram(spk): version:program | none>
//   tx <p2sh 0|1> <witness 0|1> <coinbase 0|1> <nin> {<scriptSig> <prev scriptPubKey> <n> <item>*n}*nin <nout> <scriptPubKey>*nout
//                                                    -> <GetLegacySigOpCount> <GetP2SHSigOpCount> <GetTransactionSigOpCost>
//   bip34 <height>                                   -> hex of CScript() << height
#include <drv_common.h>
#include <arith_uint256.h>
#include <coins.h>
#include <consensus/tx_verify.h>
#include <primitives/transaction.h>
#include <script/interpreter.h>
#include <script/script.h>
#include <uint256.h>

namespace {
CScript script_of(const std::string& h)
{
    const auto b = vd::unhex(h);
    return CScript(b.begin(), b.end());
}
script_verify_flags flags_of(bool p2sh, bool witness)
{
    script_verify_flags f{};
    if (p2sh) f |= SCRIPT_VERIFY_P2SH;
    if (witness) f |= SCRIPT_VERIFY_WITNESS;
    return f;
}
} // namespace

int main()
{
    return vd::main_loop([&](const std::vector<std::string>& w, const std::string&) -> std::string {
        if (w.empty()) return "BADCASE";
        size_t p = 1;
        if (w[0] == "parse") {
            const CScript s = script_of(w.at(p++));
            CScript::const_iterator pc = s.begin();
            std::string out;
            bool err = false;
            while (pc < s.end()) {
                opcodetype opcode;
                std::vector<unsigned char> data;
                if (!s.GetOp(pc, opcode, data)) { err = true; break; }
                out += std::to_string((int)opcode) + ":" + vd::hex(data) + " ";
            }
            return out + (err ? "ERR" : "END");
        }
        if (w[0] == "count") {
            const CScript s = script_of(w.at(p++));
            return std::to_string(s.GetSigOpCount(true)) + " " + std::to_string(s.GetSigOpCount(false));
        }
        if (w[0] == "p2sh") {
            const CScript spk = script_of(w.at(p++));
            const CScript sig = script_of(w.at(p++));
            return std::to_string(spk.GetSigOpCount(sig)) + " " + (spk.IsPayToScriptHash() ? "1" : "0") + " " + (sig.IsPushOnly() ? "1" : "0");
        }
        if (w[0] == "wit") {
            const bool fp = vd::ull(w.at(p++)) != 0, fw = vd::ull(w.at(p++)) != 0;
            const CScript sig = script_of(w.at(p++));
            const CScript spk = script_of(w.at(p++));
            const size_t n = vd::ull(w.at(p++));
            CScriptWitness wit;
            for (size_t i = 0; i < n; ++i) wit.stack.push_back(vd::unhex(w.at(p++)));
            int version = -1;
            std::vector<unsigned char> program;
            const std::string wp = spk.IsWitnessProgram(version, program) ? std::to_string(version) + ":" + vd::hex(program) : "none";
            if (fw && !fp) return "abort " + wp;   // CountWitnessSigOps asserts P2SH when WITNESS is set
            return std::to_string(CountWitnessSigOps(sig, spk, wit, flags_of(fp, fw))) + " " + wp;
        }
        if (w[0] == "tx") {
            const bool fp = vd::ull(w.at(p++)) != 0, fw = vd::ull(w.at(p++)) != 0;
            const bool coinbase = vd::ull(w.at(p++)) != 0;
            const size_t nin = vd::ull(w.at(p++));
            CMutableTransaction mtx;
            CCoinsViewCache coins{&CoinsViewEmpty::Get()};
            for (size_t i = 0; i < nin; ++i) {
                CTxIn in;
                in.scriptSig = script_of(w.at(p++));
                const CScript prev = script_of(w.at(p++));
                const size_t n = vd::ull(w.at(p++));
                for (size_t k = 0; k < n; ++k) in.scriptWitness.stack.push_back(vd::unhex(w.at(p++)));
                if (coinbase) {
                    in.prevout = COutPoint();   // null: with exactly one input this makes IsCoinBase() true
                } else {
                    in.prevout = COutPoint(Txid::FromUint256(ArithToUint256(arith_uint256(7000 + i))), (uint32_t)i);
                    if (prev.IsUnspendable()) return "BADCASE unspendable prevout script";   // AddCoin would drop it
                    coins.AddCoin(in.prevout, Coin(CTxOut(1000, prev), 10, false), false);
                }
                mtx.vin.push_back(in);
            }
            const size_t nout = vd::ull(w.at(p++));
            for (size_t i = 0; i < nout; ++i) mtx.vout.emplace_back(1, script_of(w.at(p++)));
            const CTransaction tx{mtx};
            if (tx.IsCoinBase() != coinbase) return "BADCASE coinbase shape";
            if (fw && !fp && !coinbase && nin > 0) return "abort";
            return std::to_string(GetLegacySigOpCount(tx)) + " " + std::to_string(GetP2SHSigOpCount(tx, coins)) + " " +
                   std::to_string(GetTransactionSigOpCost(tx, coins, flags_of(fp, fw)));
        }
        if (w[0] == "bip34") {
            const CScript s = CScript() << (int64_t)vd::ll(w.at(p++));
            return vd::hex(s);
        }
        return "BADCASE";
    });
}
