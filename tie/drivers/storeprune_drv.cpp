// C++ side of C19: drives the real pruning decision (Chainstate::FlushStateToDisk ->
// FindFilesToPrune / FindFilesToPruneManual / GetPruneRange, prune locks) on synthetic
// block-file layouts installed into the real BlockManager of a regtest TestChain100Setup.
#include <drv_common.h>
#define private public
#define protected public
#include <node/blockstorage.h>
#include <validation.h>
#undef private
#undef protected
#include <test/util/setup_common.h>
#include <consensus/validation.h>
#include <kernel/disconnected_transactions.h>
using kernel::CBlockFileInfo;
#include <limits>

int main()
{
    TestOpts opts;
    opts.extra_args = {"-prune=550"};
    TestChain100Setup setup{ChainType::REGTEST, opts};
    const int TOP = 1500;
    setup.mineBlocks(TOP - 100);
    ChainstateManager& cm = *setup.m_node.chainman;
    Chainstate& cs = cm.ActiveChainstate();
    std::vector<CBlockIndex*> at(TOP + 1);
    {
        LOCK(cs_main);
        for (int h = 0; h <= TOP; ++h) at[h] = cs.m_chain[h];
    }
    auto& bm = cm.m_blockman;
    // m_prune_mode / m_opts are const members fixed at construction and the test fixture does not
    // forward -prune to the BlockManager options: switch prune mode on in place.
    *const_cast<volatile bool*>(&bm.m_prune_mode) = true;
    const auto saved_infos = bm.m_blockfile_info;
    return vd::main_loop([&](const std::vector<std::string>& w, const std::string&) -> std::string {
        // prune <tip> <manual> <ibd> <best> <target> <snapbase|-1> <nlocks> l.. <nfiles> {size undo hfirst hlast}*
        // disc <h> <nlocks> l..
        size_t p = 1;
        if (w.at(0) == "disc") {
            // the lock update of DisconnectTip is inline there; exercised through a real disconnect below tip
            int h = std::stoi(w.at(p++));
            size_t nl = std::stoul(w.at(p++));
            std::string out;
            {
                LOCK(cs_main);
                bm.m_prune_locks.clear();
                for (size_t i = 0; i < nl; ++i) bm.m_prune_locks["L" + std::to_string(i)] = node::PruneLockInfo{std::stoi(w.at(p++))};
                if (h != cs.m_chain.Height()) return "BADCASE tip is " + std::to_string(cs.m_chain.Height());
                BlockValidationState st;
                DisconnectedBlockTransactions pool{1000000};
                {
                    LOCK(cs.MempoolMutex());
                    bool ok = cs.DisconnectTip(st, &pool);
                    cs.MaybeUpdateMempoolForReorg(pool, false);
                    if (!ok) return "disconnect-failed";
                }
                for (size_t i = 0; i < nl; ++i) out += (i ? " " : "") + std::to_string(bm.m_prune_locks["L" + std::to_string(i)].height_first);
                bm.m_prune_locks.clear();
            }
            BlockValidationState st2;
            cs.ActivateBestChain(st2);   // reconnect, so the fixture keeps its height
            return out;
        }
        if (w.at(0) != "prune") return "BADCASE";
        int tip = std::stoi(w.at(p++));
        int manual = std::stoi(w.at(p++));
        bool ibd = w.at(p++) == "1";
        int best = std::stoi(w.at(p++));
        uint64_t target = vd::ull(w.at(p++));
        int snap = std::stoi(w.at(p++));
        size_t nl = std::stoul(w.at(p++));
        std::vector<int> locks;
        for (size_t i = 0; i < nl; ++i) locks.push_back(std::stoi(w.at(p++)));
        size_t nf = std::stoul(w.at(p++));
        std::vector<CBlockFileInfo> infos;
        for (size_t i = 0; i < nf; ++i) {
            CBlockFileInfo fi;
            fi.nSize = (unsigned)vd::ull(w.at(p++));
            fi.nUndoSize = (unsigned)vd::ull(w.at(p++));
            fi.nHeightFirst = (unsigned)vd::ull(w.at(p++));
            fi.nHeightLast = (unsigned)vd::ull(w.at(p++));
            fi.nBlocks = 1;
            infos.push_back(fi);
        }
        LOCK(cs_main);
        CBlockIndex* real_tip = cs.m_chain.Tip();
        CBlockIndex* real_best = cm.m_best_header;
        cs.m_chain.SetTip(*at.at(tip));
        cm.m_best_header = at.at(best);
        cm.m_cached_is_ibd.store(ibd);
        *const_cast<volatile uint64_t*>(&bm.m_opts.prune_target) = target;  // m_opts is const: the test fixture offers no way to enable prune mode
        bm.m_prune_locks.clear();
        for (size_t i = 0; i < nl; ++i) bm.m_prune_locks["L" + std::to_string(i)] = node::PruneLockInfo{locks[i]};
        auto& snaphash = const_cast<std::optional<uint256>&>(cs.m_from_snapshot_blockhash);
        const auto saved_assume = cs.m_assumeutxo;
        if (snap >= 0) {
            snaphash = at.at(snap)->GetBlockHash();
            cs.m_assumeutxo = Assumeutxo::UNVALIDATED;
            cs.m_cached_snapshot_base = nullptr;
        }
        // the loop bound of both FindFilesToPrune variants is MaxBlockfileNum() = the file currently
        // being written; the synthetic files are 0..nf-1 and one more (empty) file plays the current one
        // Entry 0 stays an empty file (nSize == 0 is skipped by both variants): the fixture's real blocks
        // live in file 0 and must keep their data; synthetic file k is installed as file k+1.
        bm.m_blockfile_info.clear();
        bm.m_blockfile_info.push_back(CBlockFileInfo{});
        for (const auto& fi : infos) bm.m_blockfile_info.push_back(fi);
        bm.m_blockfile_info.push_back(CBlockFileInfo{});
        const auto saved_cursors = bm.m_blockfile_cursors;
        bm.m_blockfile_cursors[node::BlockfileType::NORMAL] = node::BlockfileCursor{(int)nf + 1, 0};
        bm.m_check_for_pruning = true;
        BlockValidationState st;
        bool ok = cs.FlushStateToDisk(st, FlushStateMode::NONE, manual);
        std::string out = ok ? "ok" : "flushfail";
        if (getenv("VERIF_DEBUG")) out += " [prunemode=" + std::to_string(*const_cast<volatile uint64_t*>(&bm.m_opts.prune_target)) + " indexed=" + std::to_string(bm.m_blockfiles_indexed) + " usage=" + std::to_string(bm.CalculateCurrentUsage()) + " after=" + std::to_string(cm.GetParams().PruneAfterHeight()) + " h=" + std::to_string(cs.m_chain.Height()) + " chk=" + std::to_string(bm.m_check_for_pruning) + " maxf=" + std::to_string(bm.MaxBlockfileNum()) + " ibd=" + std::to_string(cm.IsInitialBlockDownload()) + " best=" + std::to_string(cm.m_best_header->nHeight) + "]";
        for (size_t i = 0; i < nf; ++i) {
            if (infos[i].nSize != 0 && bm.m_blockfile_info.at(i + 1).nSize == 0) out += " " + std::to_string(i);
        }
        // restore
        snaphash = std::nullopt;
        cs.m_assumeutxo = saved_assume;
        cs.m_cached_snapshot_base = nullptr;
        bm.m_blockfile_info = saved_infos;
        bm.m_blockfile_cursors = saved_cursors;
        bm.m_prune_locks.clear();
        cs.m_chain.SetTip(*real_tip);
        cm.m_best_header = real_best;
        return out;
    });
}
