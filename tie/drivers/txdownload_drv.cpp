// C64 tie: the REAL TxDownloadManagerImpl (src/node/txdownloadman_impl.cpp) with the REAL mempool validation
// (ChainstateManager::ProcessTransaction on a TestChain100Setup chain), glued as PeerManagerImpl's TX handling does
// (ReceivedTx -> ProcessTransaction -> MempoolAcceptedTx / MempoolRejectedTx, orphan reconsideration drained).
//
//   c64 <npeers> <nev> ev..      ev: I <peer> <w|t> <label> | T <peer> <label> | N <peer> <w|t> <label> | Q
//                                    | B <k> <label>.. | D <peer> | C <peer> | R
//   labels: P (parent, spends a coinbase, pays to a P2WPKH key)   G (genuine spend of P:0)
//           Gb (G with a damaged signature)  Gs (G with the witness stripped)  Go (G with an extra witness item)
//           K (child of G)   X (unrelated spend of another coinbase)
#include <drv_common.h>
#include <addresstype.h>
#include <consensus/validation.h>
#include <node/txdownloadman_impl.h>
#include <primitives/transaction.h>
#include <script/script.h>
#include <test/util/setup_common.h>
#include <test/util/time.h>
#include <util/time.h>
#include <validation.h>

#include <algorithm>
#include <map>
#include <memory>

namespace {
struct Ctx {
    std::unique_ptr<TestChain100Setup> setup;
    size_t next_cb{0};
    CKey wkey;
    CScript wdest;
    int64_t mock{2000000000};
};

const char* cls(const TxValidationState& st)
{
    switch (st.GetResult()) {
    case TxValidationResult::TX_MISSING_INPUTS: return "missing";
    case TxValidationResult::TX_WITNESS_STRIPPED: return "stripped";
    case TxValidationResult::TX_INPUTS_NOT_STANDARD: return "inputsnonstd";
    case TxValidationResult::TX_RECONSIDERABLE: return "reconsiderable";
    default: return "other";
    }
}

std::string run_case(Ctx& cx, const std::vector<std::string>& w)
{
    auto& S = *cx.setup;
    size_t i = 1;
    auto next = [&]() -> const std::string& { if (i >= w.size()) throw std::runtime_error("short case"); return w[i++]; };
    size_t npeers = std::stoul(next());
    size_t nev = std::stoul(next());

    // the case's transactions
    if (cx.next_cb + 2 >= S.m_coinbase_txns.size() - 101) throw std::runtime_error("out of mature coinbases");
    CTransactionRef cbP = S.m_coinbase_txns[cx.next_cb++];
    CTransactionRef cbX = S.m_coinbase_txns[cx.next_cb++];
    const int h = 1000;
    std::map<std::string, CTransactionRef> tx;
    const CAmount fee = COIN / 100;
    const CAmount vP = cbP->vout[0].nValue - fee;
    tx["P"] = MakeTransactionRef(S.CreateValidMempoolTransaction(cbP, 0, h, S.coinbaseKey, cx.wdest, vP, /*submit=*/false));
    CMutableTransaction g = S.CreateValidMempoolTransaction(tx["P"], 0, h, cx.wkey, cx.wdest, vP - fee, /*submit=*/false);
    tx["G"] = MakeTransactionRef(g);
    {
        CMutableTransaction m = g;
        auto& sig = m.vin[0].scriptWitness.stack.at(0);
        sig.at(sig.size() / 2) ^= 0x01;
        tx["Gb"] = MakeTransactionRef(m);
    }
    {
        CMutableTransaction m = g;
        m.vin[0].scriptWitness.SetNull();
        tx["Gs"] = MakeTransactionRef(m);
    }
    {
        CMutableTransaction m = g;
        m.vin[0].scriptWitness.stack.push_back({0x01});
        tx["Go"] = MakeTransactionRef(m);
    }
    tx["K"] = MakeTransactionRef(S.CreateValidMempoolTransaction(tx["G"], 0, h, cx.wkey, cx.wdest, vP - 2 * fee, /*submit=*/false));
    tx["X"] = MakeTransactionRef(S.CreateValidMempoolTransaction(cbX, 0, h, S.coinbaseKey, cx.wdest, cbX->vout[0].nValue - fee, /*submit=*/false));
    std::map<uint256, std::string> names;
    for (auto& [l, t] : tx) {
        names[t->GetWitnessHash().ToUint256()] = l + ":w";
        if (!names.count(t->GetHash().ToUint256())) names[t->GetHash().ToUint256()] = l + ":t";
    }
    // all copies of G share G's txid
    names[tx["G"]->GetHash().ToUint256()] = "G:t";
    auto name_of = [&](const uint256& u) { auto it = names.find(u); return it == names.end() ? std::string("?") : it->second; };

    FastRandomContext rng{uint256{123}};
    node::TxDownloadOptions opts{*S.m_node.mempool, rng, /*m_deterministic_txrequest=*/true};
    node::TxDownloadManagerImpl dm{opts};
    for (size_t p = 0; p < npeers; ++p) dm.ConnectedPeer(p, node::TxDownloadConnectionInfo{/*m_preferred=*/true, /*m_relay_permissions=*/false, /*m_wtxid_relay=*/true});

    std::vector<std::string> verdicts;
    std::vector<std::string> polls;
    auto now = [&]() { return std::chrono::microseconds{std::chrono::seconds{cx.mock}}; };

    auto validate = [&](NodeId peer, const CTransactionRef& ptx, bool first) {
        const MempoolAcceptResult res = WITH_LOCK(::cs_main, return S.m_node.chainman->ProcessTransaction(ptx));
        std::string l = name_of(ptx->GetWitnessHash().ToUint256());
        if (res.m_result_type == MempoolAcceptResult::ResultType::VALID) {
            verdicts.push_back(l + "=ok");
            dm.MempoolAcceptedTx(ptx);
        } else {
            verdicts.push_back(l + "=" + cls(res.m_state));
            dm.MempoolRejectedTx(ptx, res.m_state, peer, first);
        }
    };
    auto drain = [&]() {
        bool progress = true;
        while (progress) {
            progress = false;
            for (size_t p = 0; p < npeers; ++p) {
                while (CTransactionRef o = dm.GetTxToReconsider(p)) {
                    progress = true;
                    const MempoolAcceptResult res = WITH_LOCK(::cs_main, return S.m_node.chainman->ProcessTransaction(o));
                    std::string l = name_of(o->GetWitnessHash().ToUint256());
                    if (res.m_result_type == MempoolAcceptResult::ResultType::VALID) {
                        verdicts.push_back(l + "=ok");
                        dm.MempoolAcceptedTx(o);
                    } else if (res.m_state.GetResult() != TxValidationResult::TX_MISSING_INPUTS) {
                        verdicts.push_back(l + "=" + cls(res.m_state));
                        dm.MempoolRejectedTx(o, res.m_state, p, /*first_time_failure=*/false);
                    } else {
                        verdicts.push_back(l + "=missing");
                    }
                }
            }
        }
    };
    auto gtx = [&](const std::string& kind, const std::string& label) -> GenTxid {
        const auto& t = tx.at(label);
        if (kind == "w") return GenTxid{t->GetWitnessHash()};
        return GenTxid{t->GetHash()};
    };

    for (size_t e = 0; e < nev; ++e) {
        SetMockTime(cx.mock);
        std::string k = next();
        if (k == "I") {
            NodeId p = std::stol(next()); std::string kind = next(); std::string l = next();
            dm.AddTxAnnouncement(p, gtx(kind, l), now());
        } else if (k == "T") {
            NodeId p = std::stol(next()); std::string l = next();
            const auto& ptx = tx.at(l);
            auto [should_validate, package] = dm.ReceivedTx(p, ptx);
            if (should_validate) validate(p, ptx, /*first=*/true);
        } else if (k == "N") {
            NodeId p = std::stol(next()); std::string kind = next(); std::string l = next();
            dm.ReceivedNotFound(p, {gtx(kind, l)});
        } else if (k == "Q") {
            cx.mock += 600;
            SetMockTime(cx.mock);
            std::vector<std::string> asked;
            for (size_t p = 0; p < npeers; ++p) {
                for (const auto& gt : dm.GetRequestsToSend(p, now())) asked.push_back(name_of(gt.ToUint256()));
            }
            std::sort(asked.begin(), asked.end());
            std::string s;
            for (auto& a : asked) s += (s.empty() ? "" : "+") + a;
            polls.push_back(s.empty() ? "-" : s);
        } else if (k == "B") {
            size_t n = std::stoul(next());
            std::vector<CMutableTransaction> txs;
            for (size_t j = 0; j < n; ++j) txs.emplace_back(*tx.at(next()));
            CBlock block = S.CreateAndProcessBlock(txs, CScript() << OP_TRUE);
            dm.BlockConnected(std::make_shared<const CBlock>(block));
            dm.ActiveTipChange();
        } else if (k == "D") {
            dm.DisconnectedPeer(std::stol(next()));
        } else if (k == "C") {
            dm.ConnectedPeer(std::stol(next()), node::TxDownloadConnectionInfo{true, false, true});
        } else if (k == "R") {
            dm.BlockDisconnected();
            dm.ActiveTipChange();
        } else throw std::runtime_error("bad event " + k);
        drain();
    }

    // observables
    std::string pool, rej, rec, conf, orph;
    auto add = [](std::string& s, const std::string& x) { s += (s.empty() ? "" : "+") + x; };
    for (auto& [l, t] : tx) {
        if (S.m_node.mempool->exists(t->GetWitnessHash())) add(pool, l);
        if (dm.m_orphanage->HaveTx(t->GetWitnessHash())) add(orph, l);
    }
    std::vector<std::string> ns;
    for (auto& [u, n] : names) ns.push_back(n);
    std::sort(ns.begin(), ns.end());
    for (auto& n : ns) {
        uint256 u;
        for (auto& [uu, nn] : names) if (nn == n) u = uu;
        if (dm.RecentRejectsFilter().contains(u)) add(rej, n);
        if (dm.RecentRejectsReconsiderableFilter().contains(u)) add(rec, n);
        if (dm.RecentConfirmedTransactionsFilter().contains(u)) add(conf, n);
    }
    std::sort(verdicts.begin(), verdicts.end());
    std::string vs, ps;
    for (auto& v : verdicts) add(vs, v);
    for (auto& p : polls) ps += (ps.empty() ? "" : ";") + p;
    bool ah_w = dm.AlreadyHaveTx(GenTxid{tx["G"]->GetWitnessHash()}, true);
    bool ah_t = dm.AlreadyHaveTx(GenTxid{tx["G"]->GetHash()}, true);
    auto d = [](const std::string& s) { return s.empty() ? std::string("-") : s; };
    // leave a clean mempool for the next case
    {
        LOCK2(::cs_main, S.m_node.mempool->cs);
        for (auto& [l, t] : tx) {
            if (auto it = S.m_node.mempool->GetIter(t->GetHash())) S.m_node.mempool->removeRecursive(*t, MemPoolRemovalReason::EXPIRY);
        }
    }
    return "asked=" + d(ps) + " pool=" + d(pool) + " rej=" + d(rej) + " rec=" + d(rec) + " conf=" + d(conf) + " orph=" + d(orph) +
           " ah=" + (ah_w ? "1" : "0") + (ah_t ? "1" : "0") + " verd=" + d(vs);
}
} // namespace

int main()
{
    Ctx cx;
    cx.setup = std::make_unique<TestChain100Setup>(ChainType::REGTEST, TestOpts{.extra_args = {"-nodebuglogfile", "-nodebug"}});
    cx.setup->mineBlocks(500);
    cx.wkey = GenerateRandomKey();
    cx.wdest = GetScriptForDestination(WitnessV0KeyHash(cx.wkey.GetPubKey()));
    return vd::main_loop([&](const std::vector<std::string>& w, const std::string&) -> std::string {
        if (w.empty() || w[0] != "c64") return "na";
        return run_case(cx, w);
    });
}
