// C++ side of C65 (BlockTemplate::waitNext).  One case = one real waitNext() call on a real node (TestChain100Setup,
// regtest, mock NodeClock): a waiter thread calls template->waitNext({timeout, fee_threshold}) through the Mining
// interface while this thread plays the events of the case against the node.
//
// case line:  wn <timeout ms | inf> <fee threshold | max> ; <event> ; <event> ...
//   block          mine and connect a block on the tip (the real blockTip notification wakes the waiter)
//   tx <fee>       submit a transaction paying <fee> to the mempool
//   time <s>       move the mock clock forward by whole seconds (the mock clock has one-second granularity)
//   sleep <ms>     let real time pass (the waiter notices the mock clock only when its real timer fires)
//   interrupt      template->interruptWait()
//   notifyrace     under cs_main: deliver blockTip(parent of tip), wait for the waiter to react, deliver blockTip(tip) again
//                  (what the waiter observes when a just-connected block is invalidated before it gets cs_main)
// After the events the waiter is joined (a watchdog interrupts it and reports HANG if it does not come back).
// output: res=<none|tmpl> same=<new prev == old prev> ontip=<new prev == active tip> fees=<new> old=<old fees>
//         int=<interrupt issued> late=<mock clock at/after the deadline when the waiter came back> blocks=<n> race=<0|1>
//         tipage=<mock now - tip block time, ms>
#define VERIF_NO_TEST_GLOBALS
#include <drv_common.h>
#include <unistd.h>
extern const std::function<void(const std::string&)> G_TEST_LOG_FUN;
extern const std::function<std::vector<const char*>()> G_TEST_COMMAND_LINE_ARGUMENTS;
extern const std::function<std::string()> G_TEST_GET_FULL_NAME;
const std::function<void(const std::string&)> G_TEST_LOG_FUN{};
const std::function<std::vector<const char*>()> G_TEST_COMMAND_LINE_ARGUMENTS{[]() { return std::vector<const char*>{}; }};
const std::function<std::string()> G_TEST_GET_FULL_NAME{[]() { return std::string{"verif_waitnext_"} + std::to_string(getpid()); }};

#include <chain.h>
#include <consensus/amount.h>
#include <interfaces/mining.h>
#include <kernel/chain.h>
#include <node/context.h>
#include <node/kernel_notifications.h>
#include <node/mining_types.h>
#include <primitives/block.h>
#include <script/script.h>
#include <test/util/script.h>
#include <test/util/setup_common.h>
#include <txmempool.h>
#include <util/time.h>
#include <validation.h>

#include <atomic>
#include <chrono>
#include <filesystem>
#include <fstream>
#include <future>
#include <numeric>
#include <sys/wait.h>
#include <thread>

namespace {
std::vector<std::string> split(const std::string& s, char sep)
{
    std::vector<std::string> out;
    std::string cur;
    for (char c : s) {
        if (c == sep) { out.push_back(cur); cur.clear(); } else cur.push_back(c);
    }
    out.push_back(cur);
    return out;
}

struct Node {
    std::unique_ptr<TestChain100Setup> setup;
    std::unique_ptr<interfaces::Mining> mining;
    size_t next_coin{0};
    CScript dest;
    int slowdown{1};   // real sleeps are stretched on a loaded machine

    Node()
    {
        TestOpts opts;
        opts.extra_args = {"-nodebuglogfile", "-nodebug"};
        setup = std::make_unique<TestChain100Setup>(ChainType::REGTEST, opts);
        mining = interfaces::MakeMining(setup->m_node);
        dest = P2WSH_OP_TRUE;
        // mature some coinbases so that cases can pay fees
        for (int i = 0; i < 40; ++i) mine();
        // how late does a thread wake up from a 10 ms sleep on this machine right now?
        int worst = 0;
        for (int i = 0; i < 8; ++i) {
            auto t0 = std::chrono::steady_clock::now();
            std::this_thread::sleep_for(std::chrono::milliseconds(10));
            worst = std::max<int>(worst, (int)std::chrono::duration_cast<std::chrono::milliseconds>(std::chrono::steady_clock::now() - t0).count());
        }
        slowdown = std::min(4, std::max(1, worst / 15));
    }
    void mine()
    {
        CScript spk = CScript() << ToByteVector(setup->coinbaseKey.GetPubKey()) << OP_CHECKSIG;
        CBlock b = setup->CreateAndProcessBlock({}, spk);
        setup->m_coinbase_txns.push_back(b.vtx[0]);
    }
    uint256 tip_hash()
    {
        LOCK(cs_main);
        return setup->m_node.chainman->ActiveChain().Tip()->GetBlockHash();
    }
    int64_t tip_time_ms()
    {
        LOCK(cs_main);
        return int64_t(setup->m_node.chainman->ActiveChain().Tip()->GetBlockTime()) * 1000;
    }
    void tx(CAmount fee)
    {
        int height;
        { LOCK(cs_main); height = setup->m_node.chainman->ActiveChain().Height(); }
        if ((int)next_coin + 100 > height) throw std::runtime_error("no mature coin left");
        CTransactionRef cb = setup->m_coinbase_txns.at(next_coin);
        setup->CreateValidMempoolTransaction(cb, 0, (int)next_coin + 1, setup->coinbaseKey, dest, cb->vout[0].nValue - fee, /*submit=*/true);
        ++next_coin;
    }

    std::string run(const std::string& line)
    {
        auto segs = split(line, ';');
        auto w0 = vd::words(segs.at(0));
        if (w0.size() != 3 || w0[0] != "wn") return "BADCASE";
        node::BlockWaitOptions wo;
        const bool inf = w0[1] == "inf";
        const int64_t timeout_ms = inf ? 0 : vd::ll(w0[1]);
        if (!inf) wo.timeout = MillisecondsDouble{(double)timeout_ms};
        if (w0[2] != "max") wo.fee_threshold = vd::ll(w0[2]);

        // earlier cases may have moved the mock clock: start from a tip that is not old (the 20-minute rule)
        if (TicksSinceEpoch<std::chrono::milliseconds>(NodeClock::now()) - tip_time_ms() > 0) mine();
        node::BlockCreateOptions co;
        co.coinbase_output_script = dest;
        std::unique_ptr<interfaces::BlockTemplate> tmpl = mining->createNewBlock(co, /*cooldown=*/false);
        if (!tmpl) return "EXC no template";
        const uint256 old_prev = tmpl->getBlockHeader().hashPrevBlock;
        auto fees_of = [](interfaces::BlockTemplate& t) { auto f = t.getTxFees(); return std::accumulate(f.begin(), f.end(), CAmount{0}); };
        const CAmount old_fees = fees_of(*tmpl);
        const int64_t start_ms = TicksSinceEpoch<std::chrono::milliseconds>(NodeClock::now());

        std::promise<std::unique_ptr<interfaces::BlockTemplate>> prom;
        auto fut = prom.get_future();
        std::atomic<bool> started{false};
        std::thread waiter([&]() { started.store(true); prom.set_value(tmpl->waitNext(wo)); });
        const int k = slowdown;
        auto real_sleep = [k](int ms) { std::this_thread::sleep_for(std::chrono::milliseconds(ms * k)); };
        while (!started.load()) std::this_thread::sleep_for(std::chrono::milliseconds(1));
        real_sleep(150);   // let the waiter reach wait_until

        bool interrupted = false, race = false;
        int blocks = 0;
        for (size_t i = 1; i < segs.size(); ++i) {
            auto w = vd::words(segs[i]);
            if (w.empty()) continue;
            if (w[0] == "block") { mine(); ++blocks; real_sleep(250); }
            else if (w[0] == "tx" && w.size() == 2) { tx(vd::ll(w[1])); real_sleep(30); }
            else if (w[0] == "time" && w.size() == 2) { setup->m_clock += std::chrono::seconds{vd::ll(w[1])}; }
            else if (w[0] == "sleep" && w.size() == 2) { real_sleep((int)vd::ll(w[1])); }
            else if (w[0] == "interrupt") { tmpl->interruptWait(); interrupted = true; real_sleep(250); }
            else if (w[0] == "notifyrace") {
                race = true;
                LOCK(cs_main);
                const CBlockIndex* tip = setup->m_node.chainman->ActiveChain().Tip();
                (void)setup->m_node.notifications->blockTip(SynchronizationState::POST_INIT, *tip->pprev, 1.0);
                real_sleep(300);   // the waiter wakes up, sees a different tip and blocks on cs_main
                (void)setup->m_node.notifications->blockTip(SynchronizationState::POST_INIT, *tip, 1.0);
            } else { tmpl->interruptWait(); waiter.join(); return "BADCASE"; }
        }
        bool hang = false;
        if (fut.wait_for(std::chrono::milliseconds(4000)) != std::future_status::ready) {
            hang = true;
            tmpl->interruptWait();
        }
        waiter.join();
        std::unique_ptr<interfaces::BlockTemplate> res = fut.get();
        const int64_t now_ms = TicksSinceEpoch<std::chrono::milliseconds>(NodeClock::now());
        std::string out;
        if (hang) out = "HANG ";
        if (!res) out += "res=none same=0 ontip=0 fees=0";
        else {
            const uint256 np = res->getBlockHeader().hashPrevBlock;
            out += std::string("res=tmpl same=") + (np == old_prev ? "1" : "0") + " ontip=" + (np == tip_hash() ? "1" : "0") + " fees=" + std::to_string(fees_of(*res));
        }
        out += " old=" + std::to_string(old_fees) + " int=" + (interrupted ? "1" : "0") +
               " late=" + ((!inf && now_ms >= start_ms + timeout_ms) ? "1" : "0") + " blocks=" + std::to_string(blocks) +
               " race=" + (race ? "1" : "0") + " tipage=" + std::to_string(now_ms - tip_time_ms());
        // leave a clean mempool for the next case: confirm everything
        if (setup->m_node.mempool->size() > 0) {
            std::vector<CMutableTransaction> txs;
            for (const auto& info : setup->m_node.mempool->infoAll()) txs.emplace_back(*info.tx);
            CScript spk = CScript() << ToByteVector(setup->coinbaseKey.GetPubKey()) << OP_CHECKSIG;
            CBlock b = setup->CreateAndProcessBlock(txs, spk);
            setup->m_coinbase_txns.push_back(b.vtx[0]);
        }
        return out;
    }
};

std::string guarded(Node& n, const std::string& line)
{
    try {
        std::string r = n.run(line);
        // a waiter thread that was scheduled too late for the scripted events (loaded machine) hangs: try again
        for (int i = 0; i < 2 && r.rfind("HANG", 0) == 0; ++i) { n.slowdown = std::min(6, n.slowdown + 1); r = n.run(line); }
        return r;
    } catch (const std::exception& e) { return std::string("EXC ") + e.what(); }
}

void cleanup_dir()
{
    std::error_code ec;
    std::filesystem::remove_all(std::filesystem::temp_directory_path() / "test_common bitcoin" / G_TEST_GET_FULL_NAME(), ec);
}
} // namespace

int main()
{
    std::vector<std::string> lines;
    std::string line;
    while (std::getline(std::cin, line)) lines.push_back(line);
    const size_t n = lines.size();
    if (n == 0) return 0;
    size_t workers = std::min<size_t>(8, std::max<size_t>(1, n / 4));
    if (const char* e = getenv("VERIF_WAITNEXT_WORKERS")) workers = std::max(1, atoi(e));
    std::string base = "/tmp/verif_waitnext_" + std::to_string(getpid()) + "_";
    std::vector<std::string> result(n, "CRASH");
    std::vector<std::vector<size_t>> batches(workers);
    for (size_t i = 0; i < n; ++i) batches[i % workers].push_back(i);
    std::vector<pid_t> pids;
    for (size_t k = 0; k < batches.size(); ++k) {
        pid_t p = fork();
        if (p < 0) { perror("fork"); return 2; }
        if (p == 0) {
            std::ofstream f(base + std::to_string(k));
            {
                Node node;
                for (size_t i : batches[k]) { f << guarded(node, lines[i]) << "\n"; f.flush(); }
            }
            f.close();
            cleanup_dir();
            _exit(0);
        }
        pids.push_back(p);
    }
    for (pid_t p : pids) { int st = 0; waitpid(p, &st, 0); }
    for (size_t k = 0; k < batches.size(); ++k) {
        std::ifstream f(base + std::to_string(k));
        std::string l;
        size_t j = 0;
        while (j < batches[k].size() && std::getline(f, l)) result[batches[k][j++]] = l;
        f.close();
        std::remove((base + std::to_string(k)).c_str());
    }
    for (size_t i = 0; i < n; ++i) std::cout << result[i] << "\n";
    std::cout.flush();
    return 0;
}
