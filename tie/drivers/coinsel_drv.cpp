// C++ side of the coin selection check (C40, family wallet): builds synthetic OutputGroups the way
// src/wallet/test/fuzz/coinselection.cpp does (real COutput constructor with a CFeeRate, real
// OutputGroup::Insert, real OutputGroupTypeMap::Push for the positive / mixed split) and calls the REAL
// SelectCoinsBnB / CoinGrinder / SelectCoinsSRD / KnapsackSolver of the current tree in isolation.
//
//   case:  <algo> <sffo> <target> <cost_of_change> <change_target> <change_fee> <min_viable_change>
//          <max_weight> <bump_discount> <feerate sat/kvB> <long_term_feerate sat/kvB> <rng seed> <group>*
//   algo:  bnb | cg | srd | knap
//   group: value:input_bytes:bump_fee[,value:input_bytes:bump_fee]*          (one COutput per triple)
//
//   output: P <value,eff,fee,ltfee,weight>* R ok <g.k,...> <value> <eff> <weight> <waste> <done> <tries>
//           P ...                           R none <w|p>          (w: "exceeds the maximum weight" error)
//   The P part is the pool as the real OutputGroup objects report it (one tuple per group of the case).
//   Selected coins are identified by outpoint and printed as <group index>.<coin index>, sorted.
#include <drv_common.h>
#include <consensus/amount.h>
#include <outputtype.h>
#include <policy/feerate.h>
#include <primitives/transaction.h>
#include <random.h>
#include <uint256.h>
#include <util/result.h>
#include <util/translation.h>
#include <wallet/coinselection.h>

#include <algorithm>
#include <map>
#include <memory>
#include <stdexcept>

using namespace wallet;

namespace {
std::vector<std::string> split(const std::string& s, char sep)
{
    std::vector<std::string> out;
    std::string cur;
    for (char c : s) {
        if (c == sep) { out.push_back(cur); cur.clear(); } else cur.push_back(c);
    }
    out.push_back(cur);
    return out;
}

COutPoint outpoint_of(unsigned g, unsigned k)
{
    uint256 h;
    h.data()[0] = (unsigned char)(g & 0xff);
    h.data()[1] = (unsigned char)((g >> 8) & 0xff);
    h.data()[2] = (unsigned char)(k & 0xff);
    h.data()[31] = 0xC4;
    return COutPoint(Txid::FromUint256(h), k);
}
} // namespace

int main(int argc, char** argv)
{
    return vd::main_loop([&](const std::vector<std::string>& w, const std::string&) -> std::string {
        if (w.size() < 13) return "BADCASE";
        const std::string algo = w[0];
        const bool sffo = w[1] == "1";
        const CAmount target = vd::ll(w[2]);
        const CAmount cost_of_change = vd::ll(w[3]);
        const CAmount change_target = vd::ll(w[4]);
        const CAmount change_fee = vd::ll(w[5]);
        const CAmount min_viable_change = vd::ll(w[6]);
        const int max_weight = (int)vd::ll(w[7]);
        const CAmount discount = vd::ll(w[8]);
        const CFeeRate feerate{(CAmount)vd::ll(w[9])};
        const CFeeRate lt_feerate{(CAmount)vd::ll(w[10])};
        uint256 seed;
        {
            unsigned long long s = vd::ull(w[11]);
            for (int i = 0; i < 8; ++i) seed.data()[i] = (unsigned char)(s >> (8 * i));
        }
        FastRandomContext rng{seed};
        CoinSelectionParams params{rng};
        params.m_subtract_fee_outputs = sffo;
        params.m_long_term_feerate = lt_feerate;
        params.m_effective_feerate = feerate;
        params.m_cost_of_change = cost_of_change;
        params.m_change_fee = change_fee;
        params.m_min_change_target = change_target;
        params.min_viable_change = min_viable_change;

        std::map<COutPoint, std::pair<unsigned, unsigned>> where;
        OutputGroupTypeMap typemap;
        std::string pool_txt;
        for (size_t gi = 12; gi < w.size(); ++gi) {
            const unsigned g = (unsigned)(gi - 12);
            OutputGroup group(params);
            unsigned k = 0;
            for (const std::string& cs : split(w[gi], ',')) {
                auto f = split(cs, ':');
                if (f.size() != 3) return "BADCASE";
                const CAmount value = vd::ll(f[0]);
                const int bytes = (int)vd::ll(f[1]);
                const CAmount bump = vd::ll(f[2]);
                const COutPoint op = outpoint_of(g, k);
                auto out = std::make_shared<COutput>(op, CTxOut(value, CScript()), /*depth=*/1, bytes, /*solvable=*/true,
                                                     /*safe=*/true, /*time=*/0, /*from_me=*/true, feerate);
                if (bump > 0) out->ApplyBumpFee(bump);
                group.Insert(out, /*ancestors=*/0, /*cluster_count=*/0);
                where[op] = {g, k};
                ++k;
            }
            pool_txt += " " + std::to_string(group.m_value) + "," + std::to_string(group.effective_value) + "," +
                        std::to_string(group.fee) + "," + std::to_string(group.long_term_fee) + "," + std::to_string(group.m_weight);
            // the split the wallet makes (spend.cpp GroupOutputs): positive groups for BnB/CG/SRD, all for knapsack
            typemap.Push(group, OutputType::BECH32, /*insert_positive=*/true, /*insert_mixed=*/true);
        }
        std::string head = "P" + pool_txt + " R ";

        auto run = [&]() -> util::Result<SelectionResult> {
            if (algo == "bnb") return SelectCoinsBnB(typemap.all_groups.positive_group, target, cost_of_change, max_weight);
            if (algo == "cg") return CoinGrinder(typemap.all_groups.positive_group, target, change_target, max_weight);
            if (algo == "srd") return SelectCoinsSRD(typemap.all_groups.positive_group, target, change_fee, rng, max_weight);
            if (algo == "knap") return KnapsackSolver(typemap.all_groups.mixed_group, target, change_target, rng, max_weight);
            throw std::runtime_error("bad algo");
        };
        auto res = run();
        if (!res) {
            return head + "none " + (util::ErrorString(res).empty() ? "p" : "w");
        }
        SelectionResult& r = *res;
        std::vector<std::pair<unsigned, unsigned>> ids;
        for (const auto& c : r.GetInputSet()) {
            auto it = where.find(c->outpoint);
            if (it == where.end()) return head + "ok INVENTED";
            ids.push_back(it->second);
        }
        std::sort(ids.begin(), ids.end());
        std::string sel;
        for (auto& p : ids) sel += (sel.empty() ? "" : ",") + std::to_string(p.first) + "." + std::to_string(p.second);
        if (sel.empty()) sel = "-";
        const CAmount val = r.GetSelectedValue();
        const CAmount eff = r.GetSelectedEffectiveValue();
        const int weight = r.GetWeight();
        if (discount > 0) r.SetBumpFeeDiscount(discount);
        // RecalculateWaste asserts selected >= target; an undershooting selection is reported, not aborted on
        const CAmount selected_for_waste = sffo ? r.GetSelectedValue() : r.GetSelectedEffectiveValue();
        std::string waste = "UNDER";
        if (!r.GetInputSet().empty() && (r.GetChange(min_viable_change, change_fee) != 0 || selected_for_waste >= target)) {
            r.RecalculateWaste(min_viable_change, cost_of_change, change_fee);
            waste = std::to_string(r.GetWaste());
        }
        return head + "ok " + sel + " " + std::to_string(val) + " " + std::to_string(eff) + " " + std::to_string(weight) + " " +
               waste + " " + (r.GetAlgoCompleted() ? "1" : "0") + " " +
               ((algo == "bnb" || algo == "cg") ? std::to_string(r.GetSelectionsEvaluated()) : std::string("0"));
    });
}
