// C++ side of C05 (family locks), end to end: builds a regtest chain (TestChain100Setup + extra blocks with
// chosen, possibly non-monotone, times, CSV activating at a chosen height), builds a block on top that
// contains one transaction with chosen nVersion / nLockTime / inputs (coin, nSequence), and reports
// TestBlockValidity's verdict (CheckBlock, ContextualCheckBlockHeader, ContextualCheckBlock, ConnectBlock).
//
// case:  blk <csv_height> <E> <t>*E <block_time> <version> <locktime> <nin> {<c|f> <k> <seq>}*nin base <nbase> <T>*nbase
//   extra block j (1..E) has height 100+j, time t_j, and contains a funding transaction F_j that spends the
//   coinbase of block j into a fresh non-coinbase output; the candidate block has height 101+E and time <block_time>;
//   input "c k" spends the coinbase of block k, input "f j" spends F_j's output (confirmed at height 100+j);
//   base = the times of blocks 0..100 the generator assumed (checked against the real chain).
// output: ok | <reject reason>   (or SETUP-... when the chain could not be built as described)
#include <drv_common.h>
#include <chain.h>
#include <chainparams.h>
#include <coins.h>
#include <consensus/amount.h>
#include <consensus/validation.h>
#include <key.h>
#include <node/miner.h>
#include <pow.h>
#include <primitives/block.h>
#include <primitives/transaction.h>
#include <script/script.h>
#include <script/sign.h>
#include <script/signingprovider.h>
#include <test/util/setup_common.h>
#include <util/translation.h>
#include <validation.h>

#include <map>
#include <memory>

namespace {
struct World {
    std::string key;
    std::unique_ptr<TestChain100Setup> s;
    std::vector<CTransactionRef> funding;            // F_1..F_E
    std::map<int, CTransactionRef> coinbase_at;      // height -> coinbase tx
    std::string setup_error;
    CScript spk;
};

void remine(CBlock& b, const Consensus::Params& p)
{
    b.nNonce = 0;
    while (!CheckProofOfWork(b.GetHash(), b.nBits, p)) ++b.nNonce;
}

std::unique_ptr<World> build_world(const std::string& key, int csv_height, const std::vector<uint32_t>& extra_times, uint32_t max_time)
{
    auto w = std::make_unique<World>();
    w->key = key;
    const std::string arg = "-testactivationheight=csv@" + std::to_string(csv_height);
    TestOpts opts;
    opts.extra_args = {arg.c_str()};
    w->s = std::make_unique<TestChain100Setup>(ChainType::REGTEST, opts);
    auto& s = *w->s;
    w->spk = CScript() << ToByteVector(s.coinbaseKey.GetPubKey()) << OP_CHECKSIG;
    for (size_t i = 0; i < s.m_coinbase_txns.size(); ++i) w->coinbase_at[(int)i + 1] = s.m_coinbase_txns[i];
    s.m_clock.set(std::chrono::seconds{max_time});
    for (size_t j = 1; j <= extra_times.size(); ++j) {
        CMutableTransaction f = s.CreateValidMempoolTransaction(s.m_coinbase_txns.at(j - 1), 0, (int)j, s.coinbaseKey, w->spk, 49 * COIN, /*submit=*/false);
        CBlock b = s.CreateBlock({f}, w->spk);
        b.nTime = extra_times[j - 1];
        remine(b, s.m_node.chainman->GetConsensus());
        auto sp = std::make_shared<const CBlock>(b);
        s.m_node.chainman->ProcessNewBlock(sp, true, true, nullptr);
        LOCK(cs_main);
        if (s.m_node.chainman->ActiveChain().Tip()->GetBlockHash() != b.GetHash()) {
            w->setup_error = "SETUP-EXTRA-BLOCK-REJECTED " + std::to_string(j);
            return w;
        }
        w->funding.push_back(MakeTransactionRef(f));
        w->coinbase_at[100 + (int)j] = b.vtx[0];
    }
    return w;
}
} // namespace

int main()
{
    std::unique_ptr<World> world;
    return vd::main_loop([&](const std::vector<std::string>& w, const std::string&) -> std::string {
        if (w.empty() || w[0] != "blk") return "BADCASE";
        size_t p = 1;
        const int csv_height = (int)vd::ll(w.at(p++));
        const size_t E = vd::ull(w.at(p++));
        std::vector<uint32_t> extra;
        std::string key = std::to_string(csv_height);
        for (size_t i = 0; i < E; ++i) { extra.push_back((uint32_t)vd::ull(w.at(p++))); key += " " + std::to_string(extra.back()); }
        const uint32_t block_time = (uint32_t)vd::ull(w.at(p++));
        const uint32_t version = (uint32_t)vd::ull(w.at(p++));
        const uint32_t locktime = (uint32_t)vd::ull(w.at(p++));
        const size_t nin = vd::ull(w.at(p++));
        struct In { char kind; int k; uint32_t seq; };
        std::vector<In> ins;
        for (size_t i = 0; i < nin; ++i) {
            In in;
            in.kind = w.at(p++).at(0);
            in.k = (int)vd::ll(w.at(p++));
            in.seq = (uint32_t)vd::ull(w.at(p++));
            ins.push_back(in);
        }
        if (w.at(p++) != "base") return "BADCASE";
        const size_t nbase = vd::ull(w.at(p++));
        std::vector<uint32_t> base;
        for (size_t i = 0; i < nbase; ++i) base.push_back((uint32_t)vd::ull(w.at(p++)));

        uint32_t max_time = block_time;
        for (uint32_t t : extra) max_time = std::max(max_time, t);
        for (uint32_t t : base) max_time = std::max(max_time, t);
        if (!world || world->key != key) {
            world.reset();   // only one FakeNodeClock may exist
            world = build_world(key, csv_height, extra, max_time);
        }
        if (!world->setup_error.empty()) return world->setup_error;
        auto& s = *world->s;
        s.m_clock.set(std::chrono::seconds{max_time});
        {
            LOCK(cs_main);
            const CChain& ch = s.m_node.chainman->ActiveChain();
            if ((size_t)ch.Height() != 100 + E) return "SETUP-HEIGHT " + std::to_string(ch.Height());
            if (nbase != 101) return "SETUP-BASE-COUNT";
            for (size_t i = 0; i < nbase; ++i) {
                if (ch[(int)i]->nTime != base[i]) return "TIMES-MISMATCH at " + std::to_string(i) + " actual " + std::to_string(ch[(int)i]->nTime);
            }
            for (size_t j = 1; j <= E; ++j) {
                if (ch[100 + (int)j]->nTime != extra[j - 1]) return "TIMES-MISMATCH extra";
            }
        }
        // the transaction
        CMutableTransaction mtx;
        mtx.version = version;
        mtx.nLockTime = locktime;
        std::map<COutPoint, Coin> input_coins;
        CAmount in_total = 0;
        for (const In& in : ins) {
            CTransactionRef src;
            int height;
            bool cb;
            if (in.kind == 'c') { auto it = world->coinbase_at.find(in.k); if (it == world->coinbase_at.end()) return "BADCASE no such coinbase"; src = it->second; height = in.k; cb = true; }
            else { if (in.k < 1 || (size_t)in.k > world->funding.size()) return "BADCASE no such funding tx"; src = world->funding[in.k - 1]; height = 100 + in.k; cb = false; }
            COutPoint op(src->GetHash(), 0);
            mtx.vin.emplace_back(op, CScript(), in.seq);
            input_coins.insert({op, Coin(src->vout[0], height, cb)});
            in_total += src->vout[0].nValue;
        }
        mtx.vout.emplace_back(in_total > COIN ? in_total - COIN : 0, world->spk);
        FillableSigningProvider keystore;
        keystore.AddKey(s.coinbaseKey);
        std::map<int, bilingual_str> input_errors;
        if (!SignTransaction(mtx, &keystore, input_coins, {.sighash_type = SIGHASH_ALL}, input_errors)) return "SETUP-SIGN-FAILED";
        CBlock b = s.CreateBlock({mtx}, world->spk);
        b.nTime = block_time;
        LOCK(cs_main);
        const BlockValidationState st = TestBlockValidity(s.m_node.chainman->ActiveChainstate(), b, /*check_pow=*/false, /*check_merkle_root=*/true);
        return st.IsValid() ? "ok" : st.GetRejectReason();
    });
}
