// C++ side of the cmpct family (C38): real CBlockHeaderAndShortTxIDs / PartiallyDownloadedBlock with a real mempool.
//
//   cmpct <segwit 0|1> <nonce> <hdrroot> <cb> <commit> <stack> <prefilled idx,..|-> <mempool idx,..|-> <extra idx,..|-> <nother> <missing spec> <strip idx,..|-> <other tx> <tx>+
//        (<cb> <commit> <stack> describe the coinbase to the model, as in merkle_drv.cpp; ignored here)
//        the block is <tx>+ with the given header merkle root; the compact block prefills the listed positions
//        and carries short ids for the rest; the mempool holds the listed block transactions plus <nother>
//        unrelated ones; extra_txn holds the listed block transactions;
//        strip: positions whose delivered version (prefilled or in the blocktxn response) has its witness removed
//        missing spec: exact | short | long | swap | wrong | none   (the blocktxn response, relative to what is missing)
//        -> <InitData status> <IsTxAvailable bits> <FillBlock status> <reconstructed wtxids == the block's: 1|0|->
//   cmpctraw <header null 0|1> <nshort> <index:tx|index:null,...|->
//        InitData on a hand-made announcement (nshort random short ids, differential prefilled indexes as given, empty mempool)
//        -> <InitData status> <IsTxAvailable bits|->
//   <tx> = hex with witness, or <hex without witness>/<hex with witness>
#include <drv_common.h>
#include <blockencodings.h>
#include <consensus/merkle.h>
#include <kernel/mempool_options.h>
#include <primitives/block.h>
#include <primitives/transaction.h>
#include <streams.h>
#include <test/util/setup_common.h>
#include <test/util/txmempool.h>
#include <txmempool.h>
#include <uint256.h>
#include <util/translation.h>
#include <validation.h>
#include <cstring>

static uint256 u256(const std::string& h)
{
    auto b = vd::unhex(h);
    if (b.size() != 32) throw std::runtime_error("not 32 bytes");
    uint256 u;
    std::memcpy(u.begin(), b.data(), 32);
    return u;
}

static CTransactionRef parse_tx(const std::string& tok)
{
    auto sl = tok.find('/');
    std::string wit = sl == std::string::npos ? tok : tok.substr(sl + 1);
    auto bytes = vd::unhex(wit);
    DataStream ds{bytes};
    CMutableTransaction mtx;
    ds >> TX_WITH_WITNESS(mtx);
    if (!ds.empty()) throw std::runtime_error("trailing bytes after transaction");
    return MakeTransactionRef(std::move(mtx));
}

static std::vector<size_t> idxlist(const std::string& s)
{
    std::vector<size_t> out;
    if (s == "-") return out;
    std::stringstream ss(s);
    std::string t;
    while (std::getline(ss, t, ',')) out.push_back(std::stoul(t));
    return out;
}

static const char* st(ReadStatus s)
{
    switch (s) {
    case READ_STATUS_OK: return "OK";
    case READ_STATUS_INVALID: return "INVALID";
    case READ_STATUS_FAILED: return "FAILED";
    }
    return "?";
}

// the announcement as a peer would send it: header | nonce | short ids (6 bytes each) | prefilled (differential index, tx)
static CBlockHeaderAndShortTxIDs wire_cmpct(const CBlockHeader& header, uint64_t nonce, const std::vector<uint64_t>& shortids,
                                            const std::vector<std::pair<uint64_t, CTransactionRef>>& prefilled)
{
    DataStream ss;
    ss << header << nonce;
    WriteCompactSize(ss, shortids.size());
    for (uint64_t id : shortids) {
        uint32_t lsb = id & 0xffffffff;
        uint16_t msb = (id >> 32) & 0xffff;
        ss << lsb << msb;
    }
    WriteCompactSize(ss, prefilled.size());
    for (const auto& [idx, tx] : prefilled) {
        WriteCompactSize(ss, idx);
        ss << TX_WITH_WITNESS(*tx);
    }
    CBlockHeaderAndShortTxIDs cb;
    ss >> cb;
    if (!ss.empty()) throw std::runtime_error("trailing bytes after cmpctblock");
    return cb;
}

static CTransactionRef other_tx(uint32_t k)
{
    CMutableTransaction tx;
    tx.vin.resize(1);
    tx.vin[0].prevout = COutPoint(Txid::FromUint256(uint256{(uint8_t)(k & 0xff)}), 1000 + k);
    tx.vin[0].scriptSig.resize(3);
    tx.vout.resize(1);
    tx.vout[0].nValue = 1000 + k;
    return MakeTransactionRef(tx);
}

int main()
{
    TestingSetup setup{ChainType::REGTEST};
    return vd::main_loop([&](const std::vector<std::string>& w, const std::string&) -> std::string {
        if (w.empty()) return "BADCASE";
        bilingual_str error;
        auto opts = MemPoolOptionsForTest(setup.m_node);
        CTxMemPool pool{opts, error};
        if (!error.empty()) throw std::runtime_error("mempool");
        if (w[0] == "cmpct" && w.size() >= 15) {
            bool segwit = w[1] == "1";
            uint64_t nonce = vd::ull(w[2]);
            CBlock block;
            block.nVersion = 0x20000000;
            block.hashPrevBlock = uint256{7};
            block.nTime = 1700000000;
            block.nBits = 0x207fffff;
            block.hashMerkleRoot = u256(w[3]);
            for (size_t i = 14; i < w.size(); ++i) block.vtx.push_back(parse_tx(w[i]));
            const size_t n = block.vtx.size();
            std::vector<bool> pre(n, false);
            for (size_t i : idxlist(w[7])) pre.at(i) = true;
            // what the (possibly malicious) peer delivers for position i: the transaction, or its witness-stripped version
            std::vector<bool> strip(n, false);
            for (size_t i : idxlist(w[12])) strip.at(i) = true;
            auto delivered = [&](size_t i) -> CTransactionRef {
                if (!strip[i]) return block.vtx[i];
                CMutableTransaction m(*block.vtx[i]);
                for (auto& in : m.vin) in.scriptWitness.SetNull();
                return MakeTransactionRef(std::move(m));
            };
            // the announcement (short ids from the public constructor's selector for this header and nonce)
            CBlock keyblock;
            static_cast<CBlockHeader&>(keyblock) = static_cast<const CBlockHeader&>(block);
            keyblock.vtx.push_back(block.vtx[0]);
            CBlockHeaderAndShortTxIDs keyer{keyblock, nonce};
            std::vector<uint64_t> shortids;
            std::vector<std::pair<uint64_t, CTransactionRef>> prefilled;
            size_t last = 0;
            bool first = true;
            for (size_t i = 0; i < n; ++i) {
                if (pre[i]) {
                    prefilled.emplace_back(first ? i : i - last - 1, delivered(i));
                    last = i; first = false;
                } else shortids.push_back(keyer.GetShortID(block.vtx[i]->GetWitnessHash()));
            }
            CBlockHeaderAndShortTxIDs cb2 = wire_cmpct(static_cast<const CBlockHeader&>(block), nonce, shortids, prefilled);
            {
                LOCK2(cs_main, pool.cs);
                TestMemPoolEntryHelper entry;
                for (size_t i : idxlist(w[8])) TryAddToMempool(pool, entry.FromTx(block.vtx.at(i)));
                for (uint32_t k = 0; k < vd::ull(w[10]); ++k) TryAddToMempool(pool, entry.FromTx(other_tx(k)));
            }
            std::vector<std::pair<Wtxid, CTransactionRef>> extra;
            for (size_t i : idxlist(w[9])) extra.emplace_back(block.vtx.at(i)->GetWitnessHash(), block.vtx.at(i));
            PartiallyDownloadedBlock pdb{&pool};
            ReadStatus s1 = pdb.InitData(cb2, extra);
            if (s1 != READ_STATUS_OK) return std::string(st(s1)) + " - - -";
            std::string avail;
            std::vector<CTransactionRef> missing;
            for (size_t i = 0; i < n; ++i) {
                bool a = pdb.IsTxAvailable(i);
                avail += a ? "1" : "0";
                if (!a) missing.push_back(delivered(i));
            }
            const std::string& spec = w[11];
            CTransactionRef other = parse_tx(w[13]);
            if (spec == "short") { if (!missing.empty()) missing.pop_back(); }
            else if (spec == "long") missing.push_back(other);
            else if (spec == "swap") { if (missing.size() >= 2) std::swap(missing[0], missing[1]); }
            else if (spec == "wrong") { if (!missing.empty()) missing[0] = other; }
            else if (spec == "none") missing.clear();
            else if (spec != "exact") return "BADCASE";
            CBlock out;
            ReadStatus s2 = pdb.FillBlock(out, missing, segwit);
            std::string same = "-";
            if (s2 == READ_STATUS_OK) {
                same = out.vtx.size() == n ? "1" : "0";
                for (size_t i = 0; i < n && same == "1"; ++i)
                    if (out.vtx[i]->GetWitnessHash() != block.vtx[i]->GetWitnessHash()) same = "0";
                if (out.GetHash() != block.GetHash()) same = "0";
            }
            return std::string(st(s1)) + " " + avail + " " + st(s2) + " " + same;
        }
        if (w[0] == "cmpctraw" && w.size() == 4) {
            CBlockHeader hdr;
            if (w[1] != "1") { hdr.nVersion = 1; hdr.nBits = 0x207fffff; hdr.nTime = 1; }
            size_t nshort = vd::ull(w[2]);
            std::vector<uint64_t> shortids;
            for (size_t i = 0; i < nshort; ++i) shortids.push_back((0x9e3779b97f4a7c15ULL * (i + 1)) & 0xffffffffffffULL);
            std::vector<std::pair<uint64_t, CTransactionRef>> prefilled;
            if (w[3] != "-") {
                std::stringstream ss(w[3]);
                std::string t;
                uint32_t k = 0;
                while (std::getline(ss, t, ',')) {
                    auto c = t.find(':');
                    std::string txs = t.substr(c + 1);
                    CTransactionRef tx = txs == "null" ? MakeTransactionRef(CMutableTransaction{}) : (txs == "t" ? other_tx(k++) : parse_tx(txs));
                    prefilled.emplace_back(std::stoull(t.substr(0, c)), tx);
                }
            }
            CBlockHeaderAndShortTxIDs cb = wire_cmpct(hdr, 5, shortids, prefilled);
            PartiallyDownloadedBlock pdb{&pool};
            ReadStatus s1 = pdb.InitData(cb, {});
            if (s1 != READ_STATUS_OK) return std::string(st(s1)) + " -";
            std::string avail;
            for (size_t i = 0; i < cb.BlockTxCount(); ++i) avail += pdb.IsTxAvailable(i) ? "1" : "0";
            if (avail.size() > 300) avail = std::to_string(avail.size()) + ":" + std::to_string(std::count(avail.begin(), avail.end(), '1'));
            return std::string(st(s1)) + " " + (avail.empty() ? "-" : avail);
        }
        return "BADCASE";
    });
}
