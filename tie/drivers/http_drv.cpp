// C++ side of the http family (C52): feeds the real HTTPRemoteClient::ReadRequest the way
// HTTPServer::MaybeDispatchRequestsFromClient does, fragment by fragment, and again in one piece.
//   http <fragment hex> ...  ->  F:<result> O:<result>     (format: see ocaml/http_driver.ml)
#include <drv_common.h>
#include <httpserver.h>
#include <netbase.h>
#include <util/sock.h>

#include <memory>
#include <stdexcept>
#include <string>
#include <vector>

using http_bitcoin::ContentTooLargeError;
using http_bitcoin::HTTPRemoteClient;
using http_bitcoin::HTTPRequest;

namespace {
class DummyClient : public HTTPRemoteClient
{
public:
    DummyClient() : HTTPRemoteClient{/*id=*/0, /*addr=*/CService(), /*socket=*/std::unique_ptr<Sock>{}} {}
};

std::string hexs(const std::string& s) { return vd::hex(s.begin(), s.end()); }

const char* method_name(HTTPRequestMethod m)
{
    switch (m) {
    case HTTPRequestMethod::GET: return "GET";
    case HTTPRequestMethod::POST: return "POST";
    case HTTPRequestMethod::HEAD: return "HEAD";
    case HTTPRequestMethod::PUT: return "PUT";
    case HTTPRequestMethod::UNKNOWN: return "UNKNOWN";
    }
    return "?";
}
const char* state_name(HTTPRequest::State s)
{
    switch (s) {
    case HTTPRequest::State::Init: return "Init";
    case HTTPRequest::State::NeedsHeaders: return "NeedsHeaders";
    case HTTPRequest::State::NeedsBody: return "NeedsBody";
    case HTTPRequest::State::Complete: return "Complete";
    case HTTPRequest::State::Error: return "Error";
    }
    return "?";
}

std::string run(const std::vector<std::string>& frags)
{
    auto client{std::make_shared<DummyClient>()};
    std::vector<std::string> events;
    bool error{false};
    for (const std::string& frag : frags) {
        if (error) break; // the client was disconnected
        client->m_recv_buffer.insert(client->m_recv_buffer.end(), frag.begin(), frag.end());
        // MaybeDispatchRequestsFromClient, repeated while complete requests come out of the buffer
        while (true) {
            if (!client->m_req) client->m_req = std::make_unique<HTTPRequest>(client);
            int status{0};
            try {
                client->ReadRequest(*client->m_req);
            } catch (const ContentTooLargeError&) {
                status = 413;
            } catch (const std::runtime_error&) {
                status = 400;
            }
            if (status) {
                const HTTPRequest& r{*client->m_req};
                events.push_back("E" + std::to_string(status) + "," + std::to_string(r.m_version.major) + "." +
                                 std::to_string(r.m_version.minor) + "," + hexs(r.m_headers.Stringify()));
                error = true;
                break;
            }
            if (client->m_req->GetState() != HTTPRequest::State::Complete) break;
            const HTTPRequest& r{*client->m_req};
            events.push_back(std::string("R") + method_name(r.m_method) + "," + hexs(r.m_target) + "," +
                             std::to_string(r.m_version.major) + "." + std::to_string(r.m_version.minor) + "," +
                             hexs(r.m_headers.Stringify()) + "," + hexs(r.m_body));
            client->m_req.reset(); // dispatched (moved to the worker); the reply is written at once
            if (client->m_recv_buffer.empty()) break;
        }
    }
    if (!client->m_req) client->m_req = std::make_unique<HTTPRequest>(client);
    events.push_back(std::string("S") + state_name(client->m_req->GetState()));
    std::string out;
    for (size_t i = 0; i < events.size(); ++i) { if (i) out += ";"; out += events[i]; }
    return out;
}
} // namespace

int main(int argc, char** argv)
{
    return vd::main_loop([&](const std::vector<std::string>& w, const std::string&) -> std::string {
        if (w.empty() || w[0] != "http") return "BADCASE";
        std::vector<std::string> frags;
        std::string all;
        for (size_t i = 1; i < w.size(); ++i) {
            const auto b{vd::unhex(w[i])};
            frags.emplace_back(b.begin(), b.end());
            all += frags.back();
        }
        return "F:" + run(frags) + " O:" + run({all});
    });
}
