// C++ side of the container family (C61): runs operation scripts on the REAL prevector / VecDeque /
// bitdeque / PoolResource of the current tree and prints the observable state after every operation.
//   pv <N> <op>...   prevector<N,int> for N in {1,2,4,8,16}, prevector<36,unsigned char> (CScriptBase) for N=36
//   vd <op>...       VecDeque<int>
//   bd <B> <op>...   bitdeque<B> for B in {1,3,8,128}
//   pool <MAXB> <ALIGN> <chunk_bytes> <op>...   PoolResource<MAXB,ALIGN>(chunk_bytes)
// A step whose precondition (as for the std container) is violated prints "UB" and ends the script
// (the generators never produce such steps; shrinking may).
#include <drv_common.h>

#include <algorithm>
#include <array>
#include <bitset>
#include <cstring>
#include <deque>
#include <list>
#include <memory>
#include <optional>
#include <type_traits>
#include <vector>

#include <util/check.h>
#include <util/overflow.h>
#include <prevector.h>
// m_offset / m_pad_begin / m_pad_end are private; they are compared with the model, so open the classes
// (all standard headers they use are already included above).
#define private public
#define class struct
#include <util/vecdeque.h>
#include <util/bitdeque.h>
#undef class
#undef private
#include <support/allocators/pool.h>

// PoolResource declares `friend class PoolResourceTester;` for tests.  This driver defines that class itself
// (instead of including test/util/poolresourcetester.h) because it needs the chunk list and the full free
// lists, which the repo's helper does not expose.
class PoolResourceTester
{
public:
    template <std::size_t M, std::size_t A>
    static const std::list<std::byte*>& Chunks(const PoolResource<M, A>& r) { return r.m_allocated_chunks; }
    template <std::size_t M, std::size_t A>
    static std::vector<std::vector<const void*>> FreeLists(const PoolResource<M, A>& r)
    {
        std::vector<std::vector<const void*>> out;
        for (const auto* ptr : r.m_free_lists) {
            std::vector<const void*> l;
            size_t guard = 0;
            while (ptr != nullptr && guard++ < 100000) { l.push_back(ptr); ptr = ptr->m_next; }
            out.push_back(l);
        }
        return out;
    }
    template <std::size_t M, std::size_t A>
    static std::size_t Avail(const PoolResource<M, A>& r) { return r.m_available_memory_end - r.m_available_memory_it; }
};

#include <sys/wait.h>
#include <unistd.h>

namespace {
std::vector<std::string> split(const std::string& s, char c)
{
    std::vector<std::string> out;
    std::string cur;
    for (char ch : s) {
        if (ch == c) { out.push_back(cur); cur.clear(); } else cur.push_back(ch);
    }
    out.push_back(cur);
    return out;
}
std::vector<long long> numlist(const std::string& s)
{
    std::vector<long long> out;
    if (s == "-" || s.empty()) return out;
    for (const auto& p : split(s, ',')) out.push_back(std::stoll(p));
    return out;
}
template <typename C>
std::string show(const C& c, size_t n)
{
    if (n == 0) return "-";
    std::string s;
    for (size_t i = 0; i < n; ++i) {
        if (i) s += ",";
        s += std::to_string((long long)c[i]);
    }
    return s;
}

// ------------------------------------------------------------------------------------------------
template <unsigned int N, typename T>
std::string run_pv(const std::vector<std::string>& w)
{
    using P = prevector<N, T>;
    std::optional<P> a, b;
    a.emplace();
    b.emplace();
    std::string out;
    for (size_t k = 2; k < w.size(); ++k) {
        auto f = split(w[k], ':');
        const std::string& op = f[0];
        auto num = [&](size_t i) { return (size_t)std::stoull(f.at(i)); };
        auto val = [&](size_t i) { return (T)std::stoll(f.at(i)); };
        bool ub = false;
        const size_t sz = a->size();
        if (op == "pb") a->push_back(val(1));
        else if (op == "pop") { if (sz == 0) ub = true; else a->pop_back(); }
        else if (op == "ins") { if (num(1) > sz) ub = true; else a->insert(a->begin() + num(1), val(2)); }
        else if (op == "insn") { if (num(1) > sz) ub = true; else a->insert(a->begin() + num(1), num(2), val(3)); }
        else if (op == "insr") {
            auto l = numlist(f.at(2));
            std::vector<T> v(l.begin(), l.end());
            if (num(1) > sz) ub = true; else a->insert(a->begin() + num(1), v.begin(), v.end());
        }
        else if (op == "er") { if (num(1) >= sz) ub = true; else a->erase(a->begin() + num(1)); }
        else if (op == "err") { if (num(1) > num(2) || num(2) > sz) ub = true; else a->erase(a->begin() + num(1), a->begin() + num(2)); }
        else if (op == "rs") a->resize(num(1));
        else if (op == "rv") a->reserve(num(1));
        else if (op == "stf") a->shrink_to_fit();
        else if (op == "clr") a->clear();
        else if (op == "asg") a->assign(num(1), val(2));
        else if (op == "asr") { auto l = numlist(f.at(1)); std::vector<T> v(l.begin(), l.end()); a->assign(v.begin(), v.end()); }
        else if (op == "up") { if (num(1) >= sz) ub = true; else (*a)[num(1)] = val(2); }
        else if (op == "ru") {
            auto l = numlist(f.at(2));
            size_t n = num(1);
            if (n > sz && l.size() != n - sz) ub = true;
            else {
                a->resize_uninitialized(n);
                if (n > sz) for (size_t i = 0; i < l.size(); ++i) (*a)[sz + i] = (T)l[i];
            }
        }
        else if (op == "swap") a->swap(*b);
        else if (op == "mova") *a = std::move(*b);
        else if (op == "cpa") *a = *b;
        else if (op == "cpc") b.emplace(*a);
        else if (op == "movc") b.emplace(std::move(*a));
        else if (op == "cf") a.emplace(num(1), val(2));
        else if (op == "cr") { auto l = numlist(f.at(1)); std::vector<T> v(l.begin(), l.end()); a.emplace(v.begin(), v.end()); }
        else if (op == "cn") a.emplace(num(1));
        else return "BADCASE";
        if (!out.empty()) out += " ";
        if (ub) { out += "UB"; break; }
        out += std::to_string(a->capacity()) + ":" + show(*a, a->size()) + "/" + std::to_string(b->capacity()) + ":" + show(*b, b->size());
    }
    return out;
}

// ------------------------------------------------------------------------------------------------
std::string show_vd(const VecDeque<int>& d)
{
    return std::to_string(d.capacity()) + "." + std::to_string(d.m_offset) + ":" + show(d, d.size());
}
std::string run_vd(const std::vector<std::string>& w)
{
    using D = VecDeque<int>;
    std::optional<D> a, b;
    a.emplace();
    b.emplace();
    std::string out;
    for (size_t k = 1; k < w.size(); ++k) {
        auto f = split(w[k], ':');
        const std::string& op = f[0];
        auto num = [&](size_t i) { return (size_t)std::stoull(f.at(i)); };
        auto val = [&](size_t i) { return (int)std::stoll(f.at(i)); };
        bool ub = false;
        const size_t sz = a->size();
        if (op == "pb") a->push_back(val(1));
        else if (op == "pf") a->push_front(val(1));
        else if (op == "popb") { if (sz == 0) ub = true; else a->pop_back(); }
        else if (op == "popf") { if (sz == 0) ub = true; else a->pop_front(); }
        else if (op == "rs") a->resize(num(1));
        else if (op == "clr") a->clear();
        else if (op == "rv") a->reserve(num(1));
        else if (op == "stf") a->shrink_to_fit();
        else if (op == "set") { if (num(1) >= sz) ub = true; else (*a)[num(1)] = val(2); }
        else if (op == "swap") a->swap(*b);
        else if (op == "mova") *a = std::move(*b);
        else if (op == "cpa") *a = *b;
        else if (op == "cpc") b.emplace(*a);
        else if (op == "movc") b.emplace(std::move(*a));
        else return "BADCASE";
        if (!out.empty()) out += " ";
        if (ub) { out += "UB"; break; }
        out += show_vd(*a) + "/" + show_vd(*b);
    }
    return out;
}

// ------------------------------------------------------------------------------------------------
template <int B>
std::string show_bd(const bitdeque<B>& d)
{
    return std::to_string(d.m_deque.size()) + "." + std::to_string(d.m_pad_begin) + "." + std::to_string(d.m_pad_end) + ":" + show(d, d.size());
}
template <int B>
std::string run_bd(const std::vector<std::string>& w)
{
    using D = bitdeque<B>;
    D a, b;
    std::string out;
    for (size_t k = 2; k < w.size(); ++k) {
        auto f = split(w[k], ':');
        const std::string& op = f[0];
        auto num = [&](size_t i) { return (size_t)std::stoull(f.at(i)); };
        auto val = [&](size_t i) { return std::stoll(f.at(i)) != 0; };
        auto bits = [&](size_t i) { std::vector<bool> v; for (auto x : numlist(f.at(i))) v.push_back(x != 0); return v; };
        bool ub = false;
        const size_t sz = a.size();
        if (op == "pb") a.push_back(val(1));
        else if (op == "pf") a.push_front(val(1));
        else if (op == "popb") { if (sz == 0) ub = true; else a.pop_back(); }
        else if (op == "popf") { if (sz == 0) ub = true; else a.pop_front(); }
        else if (op == "rs") a.resize(num(1));
        else if (op == "clr") a.clear();
        else if (op == "asg") a.assign(num(1), val(2));
        else if (op == "asr") { auto v = bits(1); a.assign(v.begin(), v.end()); }
        else if (op == "ins") { if (num(1) > sz) ub = true; else a.insert(a.cbegin() + num(1), val(2)); }
        else if (op == "insn") { if (num(1) > sz) ub = true; else a.insert(a.cbegin() + num(1), num(2), val(3)); }
        else if (op == "insr") { auto v = bits(2); if (num(1) > sz) ub = true; else a.insert(a.cbegin() + num(1), v.begin(), v.end()); }
        else if (op == "er") { if (num(1) >= sz) ub = true; else a.erase(a.cbegin() + num(1)); }
        else if (op == "err") { if (num(1) > num(2) || num(2) > sz) ub = true; else a.erase(a.cbegin() + num(1), a.cbegin() + num(2)); }
        else if (op == "set") { if (num(1) >= sz) ub = true; else a[num(1)] = val(2); }
        else if (op == "swap") a.swap(b);
        else if (op == "cpa") a = b;
        else return "BADCASE";
        if (!out.empty()) out += " ";
        if (ub) { out += "UB"; break; }
        out += show_bd<B>(a) + "/" + show_bd<B>(b);
    }
    return out;
}

// ------------------------------------------------------------------------------------------------
// pool <MAXB> <ALIGN> <chunk_bytes> <op>...    op = a:<bytes>:<alignment> | f:<index into the live list>
// Addresses are printed relative to the chunks: chunk k is [k*chunk_size, (k+1)*chunk_size).
template <std::size_t M, std::size_t A>
std::string run_pool(const std::vector<std::string>& w)
{
    const size_t chunk_bytes = std::stoull(w[3]);
    PoolResource<M, A> res(chunk_bytes);   // asserts chunk size >= M
    const long long cs = (long long)res.ChunkSizeBytes();
    auto rel = [&](const void* p) -> long long {
        long long k = 0;
        for (const std::byte* c : PoolResourceTester::Chunks(res)) {
            if ((const std::byte*)p >= c && (const std::byte*)p < c + cs) return k * cs + ((const std::byte*)p - c);
            ++k;
        }
        return -3; // not inside any chunk
    };
    struct Live { void* p; size_t bytes; size_t al; };
    std::vector<Live> live;
    std::string out;
    for (size_t k = 4; k < w.size(); ++k) {
        auto f = split(w[k], ':');
        long long result = -2;
        bool ub = false;
        if (f[0] == "a") {
            size_t bytes = std::stoull(f.at(1)), al = std::stoull(f.at(2));
            void* p = res.Allocate(bytes, al);
            bool pooled = al <= std::max<size_t>(A, alignof(void*)) && bytes <= M;
            result = pooled ? rel(p) : -1;
            live.push_back({p, bytes, al});
        } else if (f[0] == "f") {
            size_t i = std::stoull(f.at(1));
            if (i >= live.size()) ub = true;
            else { res.Deallocate(live[i].p, live[i].bytes, live[i].al); live.erase(live.begin() + i); }
        } else return "BADCASE";
        if (!out.empty()) out += " ";
        if (ub) { out += "UB"; break; }
        std::string fls;
        auto fl = PoolResourceTester::FreeLists(res);
        for (size_t c = 0; c < fl.size(); ++c) {
            if (fl[c].empty()) continue;
            if (!fls.empty()) fls += ";";
            fls += std::to_string(c) + "=";
            for (size_t j = 0; j < fl[c].size(); ++j) { if (j) fls += ","; fls += std::to_string(rel(fl[c][j])); }
        }
        if (fls.empty()) fls = "-";
        out += std::to_string(result) + "/" + std::to_string(res.NumAllocatedChunks()) + "/" + std::to_string(PoolResourceTester::Avail(res)) + "/" + fls;
    }
    for (auto& l : live) res.Deallocate(l.p, l.bytes, l.al);
    return out;
}
std::string dispatch_pool(const std::vector<std::string>& w)
{
    if (w.size() < 4) return "BADCASE";
    const std::string key = w[1] + "/" + w[2];
    if (key == "128/8") return run_pool<128, 8>(w);
    if (key == "8/8") return run_pool<8, 8>(w);
    if (key == "64/16") return run_pool<64, 16>(w);
    if (key == "144/8") return run_pool<144, 8>(w);
    if (key == "32/1") return run_pool<32, 1>(w);
    if (key == "16/4") return run_pool<16, 4>(w);
    return "BADCASE";
}

// The cases run in a forked worker; when a changed container corrupts memory (crash, abort from the
// allocator, hang) the worker dies, that case gets the result line "CRASH ..." and a new worker continues
// with the next case, so one bad case does not kill the batch.  (fork is slow here: one per crash only.)
template <typename F>
int forked_main_loop(F f)
{
    std::vector<std::string> lines;
    std::string line;
    while (std::getline(std::cin, line)) lines.push_back(line);
    size_t idx = 0;
    while (idx < lines.size()) {
        int fd[2];
        if (pipe(fd) != 0) return 3;
        std::cout.flush();
        pid_t pid = fork();
        if (pid < 0) return 3;
        if (pid == 0) {
            close(fd[0]);
            for (size_t i = idx; i < lines.size(); ++i) {
                alarm(20);
                std::string out;
                try { out = f(vd::words(lines[i]), lines[i]); } catch (const std::exception& e) { out = std::string("EXC ") + e.what(); }
                for (char& c : out) if (c == '\n') c = ' ';
                out.push_back('\n');
                size_t off = 0;
                while (off < out.size()) { ssize_t n = write(fd[1], out.data() + off, out.size() - off); if (n <= 0) _exit(4); off += (size_t)n; }
            }
            close(fd[1]);
            _exit(0);
        }
        close(fd[1]);
        std::string pending;
        char buf[65536];
        ssize_t n;
        while ((n = read(fd[0], buf, sizeof buf)) > 0) {
            pending.append(buf, (size_t)n);
            size_t pos;
            while ((pos = pending.find('\n')) != std::string::npos) {
                std::cout << pending.substr(0, pos) << "\n";
                pending.erase(0, pos + 1);
                ++idx;
            }
        }
        close(fd[0]);
        int st = 0;
        waitpid(pid, &st, 0);
        if (idx < lines.size()) {
            // the worker died while working on case idx
            std::string why = WIFSIGNALED(st) ? "signal=" + std::to_string(WTERMSIG(st)) : "exit=" + std::to_string(WEXITSTATUS(st));
            std::cout << "CRASH " << why << "\n";
            ++idx;
        }
    }
    std::cout.flush();
    return 0;
}
} // namespace

int main(int argc, char** argv)
{
    return forked_main_loop([&](const std::vector<std::string>& w, const std::string&) -> std::string {
        if (w.size() >= 2 && w[0] == "pv") {
            switch (std::stoi(w[1])) {
            case 1: return run_pv<1, int>(w);
            case 2: return run_pv<2, int>(w);
            case 4: return run_pv<4, int>(w);
            case 8: return run_pv<8, int>(w);
            case 16: return run_pv<16, int>(w);
            case 36: return run_pv<36, unsigned char>(w);
            default: return "BADCASE";
            }
        }
        if (w.size() >= 1 && w[0] == "vd") return run_vd(w);
        if (w.size() >= 1 && w[0] == "pool") return dispatch_pool(w);
        if (w.size() >= 2 && w[0] == "bd") {
            switch (std::stoi(w[1])) {
            case 1: return run_bd<1>(w);
            case 3: return run_bd<3>(w);
            case 8: return run_bd<8>(w);
            case 128: return run_bd<128>(w);
            default: return "BADCASE";
            }
        }
        return "BADCASE";
    });
}
