// C++ side of the wallet spending checks (family walletspend): C41 (CreateTransaction) and C56 (fee bumping).
// A REAL CWallet (descriptor wallet with its own HD keys, CreateSyncedWallet) attached to a REAL regtest node
// (TestChain100Setup: chainstate, mempool, validation signals) is funded as the case says, then the real
// wallet::CreateTransaction / feebumper::CreateRateBumpTransaction is called and everything the property talks about is
// printed structurally.  The result is judged by the extracted Coq checker (translation validation).
//
//   case :  ct S <setup>* R <request>*            (mode C41)
//           bump S <setup>* R <request>* B <bump>*  (mode C56: the request's transaction is committed, then bumped)
//   setup:  c<t><sats>[@<label>][/k]   confirmed coin to a wallet address of type t (l legacy, s p2sh-segwit, b bech32, t bech32m);
//                                       coins with the same label share one address; /k: the coin is locked (LockCoin)
//           u<t><sats>[/k]             unconfirmed coin received from outside (funding transaction in the mempool)
//           w<t><sats>[/k]             unconfirmed coin the wallet sent to itself (wallet transaction in the mempool, trusted)
//           x<t><sats>                 a confirmed coin of SOMEBODY ELSE (external key), to be supplied as an external preset input
//           imm                        an immature coinbase paying the wallet
//           depth=<n> minfee= fallback= discard= maxfee= apsfee= zc=<0|1> ufee= wfee= rbfdef=<0|1> consol=
//   request: r<t|m|n><sats>[s]         recipient (m: a fresh address of this wallet, n: OP_RETURN data), s = subtract fee from amount
//            fr=<sat/kvB> ov=1 cp=<n> ct=<t> cd=<t> pre=<i,j,..> other=<0|1> unsafe=1 mind=<n> aps=1 sign=<0|1> lt=<n> rbf=<0|1>
//            ext=<i,j,..>              external (non-wallet) coins (setup kind x) supplied as preset inputs with txout + solving data
//   bump:   fr=<sat/kvB> rm=<0|1> oci=<n> out=<spec,...> (spec: k<i> keep original output i, k<i>:<sats> same script new amount,
//           n<t><sats> new output) state=<conf|desc|bumped|wdesc> (make the original unbumpable first)
//   output: see print_* below; every list is in a canonical order.
#include <drv_common.h>

#include <wallet/wallet.h>

#include <addresstype.h>
#include <consensus/validation.h>
#include <interfaces/chain.h>
#include <key.h>
#include <key_io.h>
#include <node/context.h>
#include <policy/policy.h>
#include <policy/rbf.h>
#include <primitives/block.h>
#include <primitives/transaction.h>
#include <script/script.h>
#include <script/signingprovider.h>
#include <test/util/setup_common.h>
#include <txmempool.h>
#include <validation.h>
#include <validationinterface.h>
#include <wallet/coincontrol.h>
#include <wallet/feebumper.h>
#include <wallet/fees.h>
#include <wallet/receive.h>
#include <wallet/spend.h>
#include <wallet/test/util.h>

#include <algorithm>
#include <map>
#include <memory>
#include <set>

using namespace wallet;

namespace {
std::vector<std::string> split(const std::string& s, char sep)
{
    std::vector<std::string> out;
    std::string cur;
    for (char c : s) {
        if (c == sep) { out.push_back(cur); cur.clear(); } else cur.push_back(c);
    }
    out.push_back(cur);
    return out;
}

std::optional<OutputType> otype(char c)
{
    switch (c) {
    case 'l': return OutputType::LEGACY;
    case 's': return OutputType::P2SH_SEGWIT;
    case 'b': return OutputType::BECH32;
    case 't': return OutputType::BECH32M;
    }
    return std::nullopt;
}

std::string slug(const std::string& msg)
{
    std::string s;
    int words = 0;
    for (char c : msg) {
        if (std::isalnum((unsigned char)c)) s.push_back((char)std::tolower((unsigned char)c));
        else if (!s.empty() && s.back() != '-') { if (++words >= 6) break; s.push_back('-'); }
    }
    while (!s.empty() && s.back() == '-') s.pop_back();
    return s.empty() ? "unknown" : s;
}

struct CoinSpec {
    char kind;      // c u w i
    char type;
    CAmount amount;
    std::string label;
    bool locked;
    COutPoint outpoint;
    std::string name;
};

struct Settings {
    int depth{0};
    std::optional<CAmount> minfee, fallback, discard, maxfee, apsfee, consol;
    bool zc{true};
    CAmount ufee{5000}, wfee{5000};
    bool rbfdef{true};
};

struct Scenario : public TestChain100Setup {
    CKey wkey;       // key of the extra combo() descriptor CreateSyncedWallet wants
    CKey extkey;     // external key (recipients, external inputs)
    CScript other_spk;
    std::unique_ptr<CWallet> wallet;
    std::vector<CoinSpec> coins;
    std::map<COutPoint, std::string> names;
    std::map<Txid, std::string> txlabel;
    Settings st;
    int next_cb{0};  // next unspent initial coinbase
    std::string setup_error;

    Scenario(const std::vector<std::string>& setup)
    {
        unsigned char kb[32] = {0};
        kb[0] = 0x41; kb[31] = 0x01; kb[5] = 0x56;
        wkey.Set(kb, kb + 32, true);
        kb[0] = 0x42;
        extkey.Set(kb, kb + 32, true);
        other_spk = GetScriptForRawPubKey(coinbaseKey.GetPubKey());
        // make enough initial coinbases spendable
        mineBlocks(6);
        // as wallet/test/util.cpp CreateSyncedWallet (descriptor wallet with its own HD seed, synced to the tip), with a smaller
        // keypool so that building a scenario is fast; keys are topped up on demand by the real code
        wallet = std::make_unique<CWallet>(m_node.chain.get(), "", CreateMockableWalletDatabase());
        {
            LOCK2(wallet->cs_wallet, ::cs_main);
            CChain& cchain = m_node.chainman->ActiveChain();
            wallet->SetLastBlockProcessed(cchain.Height(), cchain.Tip()->GetBlockHash());
        }
        {
            LOCK(wallet->cs_wallet);
            wallet->m_keypool_size = 40;
            wallet->SetWalletFlag(WALLET_FLAG_DESCRIPTORS);
            wallet->SetupDescriptorScriptPubKeyMans();
        }
        wallet->m_chain_notifications_handler = m_node.chain->handleNotifications({wallet.get(), [](CWallet*) {}});
        wallet->SetBroadcastTransactions(true);
        build(setup);
    }
    ~Scenario()
    {
        m_node.validation_signals->SyncWithValidationInterfaceQueue();
        wallet->m_chain_notifications_handler.reset();
        wallet.reset();
    }

    void sync() { m_node.validation_signals->SyncWithValidationInterfaceQueue(); }
    int tip_height() { return WITH_LOCK(m_node.chainman->GetMutex(), return m_node.chainman->ActiveChain().Height()); }

    CScript ext_script(char t) const
    {
        const CPubKey pk = extkey.GetPubKey();
        switch (t) {
        case 'l': return GetScriptForDestination(PKHash(pk));
        case 's': return GetScriptForDestination(ScriptHash(GetScriptForDestination(WitnessV0KeyHash(pk))));
        case 'b': return GetScriptForDestination(WitnessV0KeyHash(pk));
        case 't': { XOnlyPubKey x(pk); return GetScriptForDestination(WitnessV1Taproot(x)); }   // an (untweaked) x-only key as output key: fine for a recipient
        case 'n': return CScript() << OP_RETURN << std::vector<unsigned char>{0x76, 0x65, 0x72, 0x69, 0x66};
        }
        return CScript();
    }

    // one transaction spending initial coinbases (external P2PK) to the given outputs + external change, paying `feerate`
    CMutableTransaction fund(const std::vector<CTxOut>& outs, CAmount feerate)
    {
        CAmount need = 0;
        for (const auto& o : outs) need += o.nValue;
        std::vector<CTransactionRef> parents;
        std::vector<COutPoint> inputs;
        CAmount have = 0;
        while (have < need + 1000000) {
            const CTransactionRef& cb = m_coinbase_txns.at(next_cb++);
            parents.push_back(cb);
            inputs.emplace_back(cb->GetHash(), 0);
            have += cb->vout[0].nValue;
        }
        std::vector<CTxOut> outputs = outs;
        const int64_t est_vsize = 10 + 114 * (int64_t)inputs.size() + 44 * ((int64_t)outs.size() + 1);
        const CAmount fee = CFeeRate(feerate).GetFee(est_vsize);
        outputs.emplace_back(have - need - fee, other_spk);
        return CreateValidTransaction(parents, inputs, 1, {coinbaseKey}, outputs, std::nullopt, std::nullopt).first;
    }

    void build(const std::vector<std::string>& setup)
    {
        for (const std::string& tok : setup) {
            const auto eq = tok.find('=');
            if (eq != std::string::npos) {
                const std::string k = tok.substr(0, eq);
                const long long v = std::stoll(tok.substr(eq + 1));
                if (k == "depth") st.depth = (int)v;
                else if (k == "minfee") st.minfee = v;
                else if (k == "fallback") st.fallback = v;
                else if (k == "discard") st.discard = v;
                else if (k == "maxfee") st.maxfee = v;
                else if (k == "apsfee") st.apsfee = v;
                else if (k == "consol") st.consol = v;
                else if (k == "zc") st.zc = v != 0;
                else if (k == "ufee") st.ufee = v;
                else if (k == "wfee") st.wfee = v;
                else if (k == "rbfdef") st.rbfdef = v != 0;
                else setup_error = "badsetting";
                continue;
            }
            CoinSpec c{};
            if (tok == "imm") { c.kind = 'i'; c.type = 'b'; c.amount = 0; coins.push_back(c); continue; }
            if (tok.size() < 3 || !otype(tok[1]) || (tok[0] != 'c' && tok[0] != 'u' && tok[0] != 'w' && tok[0] != 'x')) { setup_error = "badcoin"; continue; }
            c.kind = tok[0];
            c.type = tok[1];
            std::string rest = tok.substr(2);
            const auto sl = rest.find('/');
            if (sl != std::string::npos) { c.locked = rest.substr(sl + 1).find('k') != std::string::npos; rest = rest.substr(0, sl); }
            const auto at = rest.find('@');
            if (at != std::string::npos) { c.label = rest.substr(at + 1); rest = rest.substr(0, at); }
            c.amount = std::stoll(rest);
            coins.push_back(c);
        }
        // wallet settings
        if (st.minfee) wallet->m_min_fee = CFeeRate(*st.minfee);
        if (st.fallback) wallet->m_fallback_fee = CFeeRate(*st.fallback);
        if (st.discard) wallet->m_discard_rate = CFeeRate(*st.discard);
        if (st.apsfee) wallet->m_max_aps_fee = *st.apsfee;
        if (st.consol) wallet->m_consolidate_feerate = CFeeRate(*st.consol);
        wallet->m_spend_zero_conf_change = st.zc;
        wallet->m_signal_rbf = st.rbfdef;

        std::map<std::string, CScript> labelled;
        auto wallet_script = [&](const CoinSpec& c) {
            if (!c.label.empty()) {
                const std::string key = std::string(1, c.type) + c.label;
                auto it = labelled.find(key);
                if (it != labelled.end()) return it->second;
                CScript s = GetScriptForDestination(getNewDestination(*wallet, *otype(c.type)));
                labelled[key] = s;
                return s;
            }
            return GetScriptForDestination(getNewDestination(*wallet, *otype(c.type)));
        };

        // 1. confirmed coins (+ the source coin of the wallet's own unconfirmed transaction)
        std::vector<CTxOut> outs;
        std::vector<size_t> idx;
        CAmount wsum = 0;
        size_t nw = 0;
        for (size_t i = 0; i < coins.size(); ++i) {
            if (coins[i].kind == 'c') { outs.emplace_back(coins[i].amount, wallet_script(coins[i])); idx.push_back(i); }
            if (coins[i].kind == 'x') { outs.emplace_back(coins[i].amount, ext_script(coins[i].type)); idx.push_back(i); }   // not the wallet's
            if (coins[i].kind == 'w') { wsum += coins[i].amount; ++nw; }
        }
        std::optional<COutPoint> src;
        if (nw > 0) outs.emplace_back(wsum + 60000 + 2000 * (CAmount)nw, GetScriptForDestination(getNewDestination(*wallet, OutputType::BECH32)));
        if (!outs.empty()) {
            CMutableTransaction f = fund(outs, 5000);
            const Txid id = f.GetHash();
            CreateAndProcessBlock({f}, other_spk);
            txlabel[id] = "F";
            for (size_t k = 0; k < idx.size(); ++k) coins[idx[k]].outpoint = COutPoint(id, (uint32_t)k);
            if (nw > 0) src = COutPoint(id, (uint32_t)idx.size());
        }
        // 2. immature coinbases
        for (auto& c : coins) {
            if (c.kind != 'i') continue;
            CBlock b = CreateAndProcessBlock({}, GetScriptForDestination(getNewDestination(*wallet, OutputType::BECH32)));
            c.outpoint = COutPoint(b.vtx[0]->GetHash(), 0);
            c.amount = b.vtx[0]->vout[0].nValue;
            txlabel[b.vtx[0]->GetHash()] = "I" + std::to_string(txlabel.size());
        }
        for (int i = 0; i < st.depth; ++i) CreateAndProcessBlock({}, other_spk);
        sync();
        // 3. unconfirmed coins from outside
        outs.clear(); idx.clear();
        for (size_t i = 0; i < coins.size(); ++i) {
            if (coins[i].kind == 'u') { outs.emplace_back(coins[i].amount, wallet_script(coins[i])); idx.push_back(i); }
        }
        if (!outs.empty()) {
            CMutableTransaction f = fund(outs, st.ufee);
            const Txid id = f.GetHash();
            const MempoolAcceptResult res = WITH_LOCK(cs_main, return m_node.chainman->ProcessTransaction(MakeTransactionRef(f)));
            if (res.m_result_type != MempoolAcceptResult::ResultType::VALID) setup_error = "ufund-rejected:" + res.m_state.GetRejectReason();
            txlabel[id] = "U";
            for (size_t k = 0; k < idx.size(); ++k) coins[idx[k]].outpoint = COutPoint(id, (uint32_t)k);
            sync();
        }
        // 4. the wallet's own unconfirmed transaction (spends the source coin only)
        if (nw > 0 && src) {
            std::vector<CRecipient> rcp;
            idx.clear();
            for (size_t i = 0; i < coins.size(); ++i) {
                if (coins[i].kind != 'w') continue;
                CTxDestination d;
                ExtractDestination(wallet_script(coins[i]), d);
                rcp.push_back(CRecipient{d, coins[i].amount, false});
                idx.push_back(i);
            }
            CCoinControl cc;
            cc.Select(*src);
            cc.m_allow_other_inputs = false;
            cc.m_feerate = CFeeRate(st.wfee);
            cc.fOverrideFeeRate = true;
            const CAmount save_aps = wallet->m_max_aps_fee;
            wallet->m_max_aps_fee = -1;
            auto res = CreateTransaction(*wallet, rcp, /*change_pos=*/(unsigned)rcp.size(), cc, /*sign=*/true);
            wallet->m_max_aps_fee = save_aps;
            if (!res) { setup_error = "wtx:" + slug(util::ErrorString(res).original); }
            else {
                wallet->CommitTransaction(res->tx, {}, {});
                sync();
                const Txid id = res->tx->GetHash();
                txlabel[id] = "W";
                for (size_t k = 0; k < idx.size(); ++k) coins[idx[k]].outpoint = COutPoint(id, (uint32_t)k);
                if (!m_node.mempool->exists(id)) setup_error = "wtx-not-in-mempool";
            }
        }
        if (st.maxfee) wallet->m_default_max_tx_fee = *st.maxfee;   // after the scenario's own transaction
        // locks, names
        LOCK(wallet->cs_wallet);
        for (size_t i = 0; i < coins.size(); ++i) {
            if (coins[i].locked && !coins[i].outpoint.IsNull()) wallet->LockCoin(coins[i].outpoint, /*persist=*/false);
        }
    }

    std::string name_of(const COutPoint& op) const
    {
        auto it = txlabel.find(op.hash);
        if (it == txlabel.end()) return "?" + op.hash.ToString().substr(0, 8) + "." + std::to_string(op.n);
        return it->second + "." + std::to_string(op.n);
    }

    static char type_of_script(const CScript& s)
    {
        std::vector<std::vector<unsigned char>> sol;
        switch (Solver(s, sol)) {
        case TxoutType::PUBKEYHASH: return 'l';
        case TxoutType::SCRIPTHASH: return 's';
        case TxoutType::WITNESS_V0_KEYHASH: return 'b';
        case TxoutType::WITNESS_V1_TAPROOT: return 't';
        case TxoutType::PUBKEY: return 'p';
        default: return 'o';
        }
    }

    // every output the wallet tracks, with the facts AvailableCoins is supposed to respect (each read through the wallet's primitive accessors)
    std::string print_coins()
    {
        LOCK(wallet->cs_wallet);
        std::vector<std::string> items;
        std::set<Txid> trusted_parents;
        for (const auto& [op, txo] : wallet->GetTXOs()) {
            const CWalletTx& wtx = txo.GetWalletTx();
            const int depth = wallet->GetTxDepthInMainChain(wtx);
            std::string s = name_of(op) + ":" + std::to_string(txo.GetTxOut().nValue) + ":" + std::to_string(depth) + ":" +
                            (wallet->IsTxImmatureCoinBase(wtx) ? "1" : "0") + ":" + (wallet->IsLockedCoin(op) ? "1" : "0") + ":" +
                            (wallet->IsSpent(op) ? "1" : "0") + ":" + (CachedTxIsTrusted(*wallet, wtx, trusted_parents) ? "1" : "0") + ":" +
                            (wtx.InMempool() ? "1" : "0") + ":" + std::string(1, type_of_script(txo.GetTxOut().scriptPubKey)) + ":" +
                            ((wtx.m_replaces_txid || wtx.m_replaced_by_txid) ? "1" : "0");
            items.push_back(s);
        }
        std::sort(items.begin(), items.end());
        std::string out = "COINS";
        for (const auto& i : items) out += " " + i;
        return out;
    }

    std::string print_env()
    {
        return "ENV relay=" + std::to_string(m_node.chain->relayMinFee().GetFeePerK()) +
               " dust=" + std::to_string(m_node.chain->relayDustFee().GetFeePerK()) +
               " incr=" + std::to_string(m_node.chain->relayIncrementalFee().GetFeePerK()) +
               " mpmin=" + std::to_string(m_node.chain->mempoolMinFee().GetFeePerK()) +
               " minfee=" + std::to_string(wallet->m_min_fee.GetFeePerK()) +
               " fallback=" + std::to_string(wallet->m_fallback_fee.GetFeePerK()) +
               " discard=" + std::to_string(GetDiscardRate(*wallet).GetFeePerK()) +
               " maxfee=" + std::to_string(wallet->m_default_max_tx_fee) +
               " zc=" + (wallet->m_spend_zero_conf_change ? "1" : "0") +
               " tip=" + std::to_string(tip_height());
    }
};

struct Request {
    std::vector<CRecipient> rcp;
    std::vector<std::string> rcp_kind;
    CCoinControl cc;
    std::optional<unsigned int> change_pos;
    bool sign{true};
    std::vector<COutPoint> preset;
    std::optional<char> cd;
    std::string error;
};

void parse_request(Scenario& sc, const std::vector<std::string>& toks, Request& rq)
{
    for (const std::string& tok : toks) {
        const auto eq = tok.find('=');
        if (eq == std::string::npos) {
            if (tok.size() < 3 || tok[0] != 'r') { rq.error = "badreq"; continue; }
            const char t = tok[1];
            std::string rest = tok.substr(2);
            bool sffo = false;
            if (!rest.empty() && rest.back() == 's') { sffo = true; rest.pop_back(); }
            const CAmount amt = std::stoll(rest);
            CTxDestination dest;
            if (t == 'm') dest = getNewDestination(*sc.wallet, OutputType::BECH32);
            else if (t == 'n') dest = CNoDestination(sc.ext_script('n'));
            else if (otype(t)) { if (!ExtractDestination(sc.ext_script(t), dest)) rq.error = "baddest"; }
            else { rq.error = "badreq"; continue; }
            rq.rcp.push_back(CRecipient{dest, amt, sffo});
            rq.rcp_kind.push_back(std::string(1, t));
            continue;
        }
        const std::string k = tok.substr(0, eq), v = tok.substr(eq + 1);
        if (k == "fr") rq.cc.m_feerate = CFeeRate(std::stoll(v));
        else if (k == "ov") rq.cc.fOverrideFeeRate = v != "0";
        else if (k == "cp") rq.change_pos = (unsigned)std::stoul(v);
        else if (k == "ct") rq.cc.m_change_type = otype(v[0]);
        else if (k == "cd") { rq.cd = v[0]; CTxDestination d; ExtractDestination(sc.ext_script(v[0]), d); rq.cc.destChange = d; }
        else if (k == "other") rq.cc.m_allow_other_inputs = v != "0";
        else if (k == "unsafe") rq.cc.m_include_unsafe_inputs = v != "0";
        else if (k == "mind") rq.cc.m_min_depth = std::stoi(v);
        else if (k == "aps") rq.cc.m_avoid_partial_spends = v != "0";
        else if (k == "sign") rq.sign = v != "0";
        else if (k == "lt") rq.cc.m_locktime = (uint32_t)std::stoul(v);
        else if (k == "rbf") rq.cc.m_signal_bip125_rbf = v != "0";
        else if (k == "pre") {
            for (const std::string& i : split(v, ',')) {
                const size_t n = std::stoul(i);
                if (n >= sc.coins.size() || sc.coins[n].outpoint.IsNull()) { rq.error = "badpreset"; continue; }
                rq.cc.Select(sc.coins[n].outpoint);
                rq.preset.push_back(sc.coins[n].outpoint);
            }
        } else if (k == "ext") {
            for (const std::string& i : split(v, ',')) {
                const size_t n = std::stoul(i);
                if (n >= sc.coins.size() || sc.coins[n].outpoint.IsNull() || sc.coins[n].kind != 'x') { rq.error = "badext"; continue; }
                const CScript spk = sc.ext_script(sc.coins[n].type);
                rq.cc.Select(sc.coins[n].outpoint).SetTxOut(CTxOut(sc.coins[n].amount, spk));
                const CPubKey pk = sc.extkey.GetPubKey();
                rq.cc.m_external_provider.pubkeys[pk.GetID()] = pk;
                const CScript wpkh = GetScriptForDestination(WitnessV0KeyHash(pk));
                rq.cc.m_external_provider.scripts[CScriptID(wpkh)] = wpkh;
                rq.preset.push_back(sc.coins[n].outpoint);
            }
        } else rq.error = "badreqkey";
    }
}

// what the transaction looks like: inputs (with the value of the coin each one spends), outputs
std::string print_tx(Scenario& sc, const CTransaction& tx, const CCoinControl* cc, CAmount& in_total)
{
    LOCK(sc.wallet->cs_wallet);
    std::string s = "IN";
    in_total = 0;
    for (const CTxIn& in : tx.vin) {
        CAmount v = -1;
        int isz = -1;
        if (auto txo = sc.wallet->GetTXO(in.prevout)) {
            v = txo->GetTxOut().nValue;
            isz = CalculateMaximumSignedInputSize(txo->GetTxOut(), sc.wallet.get(), cc);
        } else {
            LOCK(cs_main);
            if (auto c = sc.m_node.chainman->ActiveChainstate().CoinsTip().GetCoin(in.prevout)) {
                v = c->out.nValue;
                if (cc) isz = CalculateMaximumSignedInputSize(c->out, in.prevout, &cc->m_external_provider, sc.wallet->CanGrindR(), cc);
            }
        }
        in_total += v;
        s += " " + sc.name_of(in.prevout) + ":" + std::to_string(v) + ":" + std::to_string(isz) + ":" + std::to_string(in.nSequence);
    }
    s += " | OUT";
    for (const CTxOut& o : tx.vout) {
        s += " " + std::to_string(o.nValue) + ":" + vd::hex(o.scriptPubKey) + ":" + (sc.wallet->IsMine(o.scriptPubKey) ? "1" : "0") + ":" +
             (OutputIsChange(*sc.wallet, o) ? "1" : "0");
    }
    return s;
}


// ancestor bump fees as CreateTransactionInternal accounts for them (SelectionResult::GetTotalBumpFees): preset inputs carry
// their INDIVIDUAL bump fees (FetchSelectedInputs; no discount is ever applied to them), automatically selected inputs their
// individual bump fees minus the overlap discount of ChooseSelectionResult, i.e. min(sum of individual, combined).
// `needed` is what the unconfirmed ancestors of ALL inputs really need to reach the feerate (combined bump fee).
std::pair<CAmount, CAmount> bump_fees(Scenario& sc, const CTransaction& tx, const std::vector<COutPoint>& presets, const CFeeRate& rate)
{
    std::vector<COutPoint> pre, aut, all;
    for (const CTxIn& in : tx.vin) {
        all.push_back(in.prevout);
        (std::find(presets.begin(), presets.end(), in.prevout) != presets.end() ? pre : aut).push_back(in.prevout);
    }
    CAmount code = 0;
    for (const auto& [op, b] : sc.m_node.chain->calculateIndividualBumpFees(pre, rate)) code += b;
    CAmount ind = 0;
    for (const auto& [op, b] : sc.m_node.chain->calculateIndividualBumpFees(aut, rate)) ind += b;
    const auto comb = sc.m_node.chain->calculateCombinedBumpFee(aut, rate);
    code += comb ? std::min(ind, *comb) : ind;
    const auto need = sc.m_node.chain->calculateCombinedBumpFee(all, rate);
    return {code, need ? *need : code};
}

std::string run_c41(Scenario& sc, const std::vector<std::string>& rtoks)
{
    Request rq;
    parse_request(sc, rtoks, rq);
    if (!rq.error.empty()) return "BADCASE " + rq.error;
    std::string tail;
    {
        tail = " | RCP";
        for (size_t i = 0; i < rq.rcp.size(); ++i) {
            tail += " " + vd::hex(GetScriptForDestination(rq.rcp[i].dest)) + ":" + std::to_string(rq.rcp[i].nAmount) + ":" + (rq.rcp[i].fSubtractFeeFromAmount ? "1" : "0");
        }
        tail += " | PRE";
        for (const auto& op : rq.preset) tail += " " + sc.name_of(op);
        tail += " | " + sc.print_coins() + " | " + sc.print_env();
        const auto mfr = GetMinimumFeeRate(*sc.wallet, rq.cc);
        tail += " effrate=" + std::to_string(mfr.fee_rate.GetFeePerK());
        // sizes the change output would have (type decided by the wallet's public TransactionChangeType)
        int chg_spend = -1;
        size_t chg_out = 0;
        CScript chg_cs;
        {
            CScript cs;
            if (rq.cd) cs = sc.ext_script(*rq.cd);
            else {
                const OutputType ctype = sc.wallet->TransactionChangeType(rq.cc.m_change_type ? *rq.cc.m_change_type : sc.wallet->m_default_change_type, rq.rcp);
                auto d = sc.wallet->GetNewChangeDestination(ctype);
                if (d) cs = GetScriptForDestination(*d);
            }
            const CTxOut proto(0, cs);
            chg_cs = cs;
            chg_out = GetSerializeSize(proto);
            chg_spend = WITH_LOCK(sc.wallet->cs_wallet, return CalculateMaximumSignedInputSize(proto, sc.wallet.get(), nullptr));
            if (chg_spend == -1) chg_spend = DUMMY_NESTED_P2WPKH_INPUT_SIZE;
        }
        tail += " chgspend=" + std::to_string(chg_spend) + " chgout=" + std::to_string(chg_out) + " chgspk=" + vd::hex(chg_cs);
    }
    auto res = CreateTransaction(*sc.wallet, rq.rcp, rq.change_pos, rq.cc, rq.sign);
    if (!res) return "ERR " + slug(util::ErrorString(res).original) + tail;
    const CTransaction& tx = *res->tx;
    CAmount in_total = 0;
    const std::string txs = print_tx(sc, tx, &rq.cc, in_total);
    const TxSize mx = WITH_LOCK(sc.wallet->cs_wallet, return CalculateMaximumSignedTxSize(tx, sc.wallet.get(), &rq.cc));
    const auto [bump, bump_needed] = bump_fees(sc, tx, rq.preset, GetMinimumFeeRate(*sc.wallet, rq.cc).fee_rate);
    std::string tma = "skip";
    if (rq.sign) {
        const MempoolAcceptResult r = WITH_LOCK(cs_main, return sc.m_node.chainman->ProcessTransaction(res->tx, /*test_accept=*/true));
        tma = r.m_result_type == MempoolAcceptResult::ResultType::VALID ? "ok" : ("rej:" + slug(r.m_state.GetRejectReason()));
    }
    std::string s = "OK fee=" + std::to_string(res->fee) + " cp=" + (res->change_pos ? std::to_string(*res->change_pos) : std::string("-")) +
                    " vsize=" + std::to_string(GetVirtualTransactionSize(tx)) + " mvs=" + std::to_string(mx.vsize) +
                    " bump=" + std::to_string(bump) + " bumpneed=" + std::to_string(bump_needed) + " tma=" + tma + " lt=" + std::to_string(tx.nLockTime) + " ver=" + std::to_string(tx.version) +
                    " | " + txs + tail;
    return s;
}

// ---------------------------------------------------------------------------------------------------------------------------
// C56: fee bumping

// everything a refused (or merely created, not committed) bump must leave alone
std::string wallet_digest(Scenario& sc)
{
    LOCK(sc.wallet->cs_wallet);
    std::vector<std::string> items;
    for (const auto& [id, wtx] : sc.wallet->mapWallet) {
        std::string st;
        if (auto* c = wtx.state<TxStateConfirmed>()) st = "C" + std::to_string(c->confirmed_block_height);
        else if (wtx.state<TxStateInMempool>()) st = "M";
        else if (auto* x = wtx.state<TxStateBlockConflicted>()) st = "X" + std::to_string(x->conflicting_block_height);
        else if (auto* i = wtx.state<TxStateInactive>()) st = i->abandoned ? "A" : "I";
        else st = "U";
        std::string mv;
        mv = (wtx.m_comment ? *wtx.m_comment : std::string("-")) + ";" + (wtx.m_comment_to ? *wtx.m_comment_to : std::string("-")) + ";" + std::to_string(wtx.m_messages.size());
        items.push_back(id.ToString() + ":" + st + ":" + (wtx.m_replaces_txid ? wtx.m_replaces_txid->ToString() : "-") + ":" +
                        (wtx.m_replaced_by_txid ? wtx.m_replaced_by_txid->ToString() : "-") + ":" + mv);
    }
    for (const auto& [op, txo] : sc.wallet->GetTXOs()) {
        items.push_back(op.ToString() + ":" + (sc.wallet->IsSpent(op) ? "s" : "u") + (sc.wallet->IsLockedCoin(op) ? "k" : "-"));
    }
    std::sort(items.begin(), items.end());
    HashWriter h;
    for (const auto& i : items) h << i;
    return h.GetSHA256().ToString().substr(0, 16);
}

std::string outs_str(Scenario& sc, const std::vector<CTxOut>& outs)
{
    LOCK(sc.wallet->cs_wallet);
    std::string s;
    for (const CTxOut& o : outs) {
        s += " " + std::to_string(o.nValue) + ":" + vd::hex(o.scriptPubKey) + ":" + (sc.wallet->IsMine(o.scriptPubKey) ? "1" : "0") + ":" +
             (OutputIsChange(*sc.wallet, o) ? "1" : "0");
    }
    return s;
}

struct Orig {
    CTransactionRef tx;
    CAmount fee{0};
    std::string error;
};

// create (as in C41) and commit the transaction that is going to be bumped
Orig make_original(Scenario& sc, const std::vector<std::string>& rtoks)
{
    Orig o;
    Request rq;
    parse_request(sc, rtoks, rq);
    if (!rq.error.empty()) { o.error = rq.error; return o; }
    auto res = CreateTransaction(*sc.wallet, rq.rcp, rq.change_pos, rq.cc, /*sign=*/true);
    if (!res) { o.error = slug(util::ErrorString(res).original); return o; }
    sc.wallet->CommitTransaction(res->tx, {}, {});
    sc.sync();
    if (!sc.m_node.mempool->exists(res->tx->GetHash())) { o.error = "orig-not-in-mempool"; return o; }
    sc.txlabel[res->tx->GetHash()] = "O";
    o.tx = res->tx;
    o.fee = res->fee;
    return o;
}

std::string run_c56(Scenario& sc, const Orig& orig, const std::vector<std::string>& btoks, bool& dirty)
{
    const CTransaction& otx = *orig.tx;
    const Txid oid = otx.GetHash();
    CCoinControl cc;
    bool require_mine = true;
    std::optional<uint32_t> oci;
    std::vector<CTxOut> new_outs;
    std::string state;
    bool commit = false;
    for (const std::string& tok : btoks) {
        const auto eq = tok.find('=');
        if (eq == std::string::npos) return "BADCASE bumptok";
        const std::string k = tok.substr(0, eq), v = tok.substr(eq + 1);
        if (k == "fr") cc.m_feerate = CFeeRate(std::stoll(v));
        else if (k == "rm") require_mine = v != "0";
        else if (k == "oci") oci = (uint32_t)std::stoul(v);
        else if (k == "state") state = v;
        else if (k == "commit") commit = v != "0";
        else if (k == "out") {
            for (const std::string& spec : split(v, ',')) {
                if (spec.size() < 2) return "BADCASE outspec";
                if (spec[0] == 'k') {
                    const auto col = spec.find(':');
                    const size_t i = std::stoul(spec.substr(1, col == std::string::npos ? std::string::npos : col - 1));
                    if (i >= otx.vout.size()) continue;   // refers to an output the original does not have: dropped
                    CTxOut o = otx.vout[i];
                    if (col != std::string::npos) o.nValue = std::stoll(spec.substr(col + 1));
                    new_outs.push_back(o);
                } else if (spec[0] == 'n' && spec.size() >= 3) {
                    new_outs.emplace_back((CAmount)std::stoll(spec.substr(2)), sc.ext_script(spec[1]));
                } else return "BADCASE outspec";
            }
        } else return "BADCASE bumpkey";
    }
    // make the original unbumpable if the case says so
    if (!state.empty()) {
        dirty = true;
        if (state == "conf") {
            sc.CreateAndProcessBlock({CMutableTransaction(otx)}, sc.other_spk);
            sc.sync();
        } else if (state == "desc") {
            // somebody spends one of its outputs paid to the external key
            bool done = false;
            for (uint32_t n = 0; n < otx.vout.size() && !done; ++n) {
                if (otx.vout[n].scriptPubKey != sc.ext_script('b') || otx.vout[n].nValue < 2000) continue;
                auto mtx = sc.CreateValidTransaction({orig.tx}, {COutPoint(oid, n)}, 0, {sc.extkey}, {CTxOut(otx.vout[n].nValue - 1000, sc.other_spk)}, std::nullopt, std::nullopt).first;
                const MempoolAcceptResult r = WITH_LOCK(cs_main, return sc.m_node.chainman->ProcessTransaction(MakeTransactionRef(mtx)));
                done = r.m_result_type == MempoolAcceptResult::ResultType::VALID;
                sc.sync();
            }
            if (!done) return "NA no-external-output-to-spend";
        } else if (state == "wdesc") {
            // the wallet itself spends one of its outputs (its change, or a payment to itself)
            std::optional<COutPoint> mine;
            {
                LOCK(sc.wallet->cs_wallet);
                for (uint32_t n = 0; n < otx.vout.size(); ++n) if (sc.wallet->IsMine(otx.vout[n]) && otx.vout[n].nValue > 5000) { mine = COutPoint(oid, n); break; }
            }
            if (!mine) return "NA no-own-output-to-spend";
            CCoinControl c2;
            c2.Select(*mine);
            c2.m_allow_other_inputs = false;
            c2.m_feerate = CFeeRate(20000);
            CTxDestination d;
            ExtractDestination(sc.ext_script('b'), d);
            auto r2 = CreateTransaction(*sc.wallet, {CRecipient{d, otx.vout[mine->n].nValue, true}}, std::nullopt, c2, true);
            if (!r2) return "NA wdesc:" + slug(util::ErrorString(r2).original);
            sc.wallet->CommitTransaction(r2->tx, {}, {});
            sc.sync();
        } else if (state == "bumped") {
            std::vector<bilingual_str> errs;
            CAmount of = 0, nf = 0;
            CMutableTransaction m;
            CCoinControl c2;
            if (feebumper::CreateRateBumpTransaction(*sc.wallet, oid, c2, errs, of, nf, m, true, {}) != feebumper::Result::OK) return "NA first-bump-failed";
            if (!feebumper::SignTransaction(*sc.wallet, m)) return "NA first-bump-sign";
            Txid nid;
            if (feebumper::CommitTransaction(*sc.wallet, oid, std::move(m), errs, nid) != feebumper::Result::OK) return "NA first-bump-commit";
            sc.sync();
        } else return "BADCASE state";
    }
    // the facts PreconditionChecks consults, observed through the wallet's / node's primitive accessors
    std::string facts;
    {
        LOCK(sc.wallet->cs_wallet);
        const CWalletTx& wtx = sc.wallet->mapWallet.at(oid);
        facts = " hasws=" + std::string(sc.wallet->HasWalletSpend(orig.tx) ? "1" : "0") +
                " mpdesc=" + (sc.m_node.chain->hasDescendantsInMempool(oid) ? "1" : "0") +
                " depth=" + std::to_string(sc.wallet->GetTxDepthInMainChain(wtx)) +
                " replaced=" + (wtx.m_replaced_by_txid ? "1" : "0") +
                " allmine=" + (AllInputsMine(*sc.wallet, otx) ? "1" : "0") +
                " rm=" + (require_mine ? "1" : "0") +
                " inpool=" + (sc.m_node.mempool->exists(oid) ? "1" : "0");
        bool incoins = true;
        {
            LOCK(cs_main);
            for (const CTxIn& in : otx.vin) if (!sc.m_node.chainman->ActiveChainstate().CoinsTip().HaveCoin(in.prevout)) incoins = false;
        }
        facts += std::string(" incoins=") + (incoins ? "1" : "0");
    }
    CAmount oin = 0;
    std::string otxs = print_tx(sc, otx, nullptr, oin);
    otxs.replace(otxs.find(" | OUT"), 6, " | OOUT");
    // the feerate the replacement is asked to pay (explicit, or EstimateFeeRate's formula evaluated with the public pieces) and
    // the change script CreateTransaction will be told to use / will pick: both only to parameterise the checker; the Gallina
    // transcriptions of the same code are compared with them
    CFeeRate nrate{0};
    {
        if (cc.m_feerate) nrate = *cc.m_feerate;
        else {
            CFeeRate fr(oin - [&] { CAmount o = 0; for (const auto& x : otx.vout) o += x.nValue; return o; }(), (int32_t)GetVirtualTransactionSize(otx));
            fr += CFeeRate(1);
            fr += std::max(sc.m_node.chain->relayIncrementalFee(), CFeeRate(WALLET_INCREMENTAL_RELAY_FEE));
            nrate = std::max(fr, GetMinimumFeeRate(*sc.wallet, cc).fee_rate);
        }
    }
    std::string chg;
    {
        LOCK(sc.wallet->cs_wallet);
        const auto& txouts = new_outs.empty() ? otx.vout : new_outs;
        std::optional<CScript> dest;
        std::vector<CRecipient> rcp;
        for (size_t i = 0; i < txouts.size(); ++i) {
            CTxDestination d;
            ExtractDestination(txouts[i].scriptPubKey, d);
            if (oci ? *oci == i : OutputIsChange(*sc.wallet, txouts[i])) dest = txouts[i].scriptPubKey;
            else rcp.push_back(CRecipient{d, txouts[i].nValue, false});
        }
        if (rcp.empty() && dest) {
            CTxDestination d;
            ExtractDestination(*dest, d);
            rcp.push_back(CRecipient{d, 0, true});
            dest.reset();
        }
        CScript cs;
        if (dest) cs = *dest;
        else {
            const OutputType ctype = sc.wallet->TransactionChangeType(sc.wallet->m_default_change_type, rcp);
            auto d = sc.wallet->GetNewChangeDestination(ctype);
            if (d) cs = GetScriptForDestination(*d);
        }
        const CTxOut proto(0, cs);
        int sp = CalculateMaximumSignedInputSize(proto, sc.wallet.get(), nullptr);
        if (sp == -1) sp = DUMMY_NESTED_P2WPKH_INPUT_SIZE;
        chg = " chgspend=" + std::to_string(sp) + " chgspk=" + vd::hex(cs) + " nrate=" + std::to_string(nrate.GetFeePerK());
        if (cc.m_feerate) {
            // the size and bump fee CheckFeeRate is given: the original's inputs (unsigned) with the outputs in force
            CMutableTransaction temp{otx};
            CCoinControl c3;
            std::vector<COutPoint> ops;
            for (auto& in : temp.vin) { in.scriptSig.clear(); in.scriptWitness.SetNull(); c3.Select(in.prevout); ops.push_back(in.prevout); }
            temp.vout = txouts;
            const int64_t msz = CalculateMaximumSignedTxSize(CTransaction(temp), sc.wallet.get(), &c3).vsize;
            const auto cb = sc.m_node.chain->calculateCombinedBumpFee(ops, *cc.m_feerate);
            chg += " cfsize=" + std::to_string(msz) + " cfbump=" + std::to_string(cb ? *cb : -1);
        }
    }
    const std::string before = wallet_digest(sc);
    std::vector<bilingual_str> errors;
    CAmount old_fee = 0, new_fee = 0;
    CMutableTransaction mtx;
    const feebumper::Result r = feebumper::CreateRateBumpTransaction(*sc.wallet, oid, cc, errors, old_fee, new_fee, mtx, require_mine, new_outs, oci);
    const std::string after = wallet_digest(sc);
    const std::string headkv = facts + " wsame=" + (before == after ? "1" : "0") + " ovsize=" + std::to_string(GetVirtualTransactionSize(otx)) +
                       " ofee=" + std::to_string(orig.fee);
    std::string tail = " | O" + otxs + " | NEWOUTS" + outs_str(sc, new_outs) +
                       " | OCI " + (oci ? std::to_string(*oci) : std::string("-")) + " | " + sc.print_coins() + " | " + sc.print_env() + chg;
    if (r != feebumper::Result::OK) {
        static const char* names[] = {"OK", "INVALID_ADDRESS_OR_KEY", "INVALID_REQUEST", "INVALID_PARAMETER", "WALLET_ERROR", "MISC_ERROR"};
        return std::string("ERR ") + names[(int)r] + " " + (errors.empty() ? std::string("-") : slug(errors[0].original)) + headkv + tail;
    }
    // the replacement, signed, against the node's mempool (test accept: nothing is changed)
    CMutableTransaction signed_mtx = mtx;
    const bool sig_ok = feebumper::SignTransaction(*sc.wallet, signed_mtx);
    const CTransactionRef ntx = MakeTransactionRef(signed_mtx);
    std::string tma = "nosig";
    bool replaces = false;
    if (sig_ok) {
        const MempoolAcceptResult a = WITH_LOCK(cs_main, return sc.m_node.chainman->ProcessTransaction(ntx, /*test_accept=*/true));
        tma = a.m_result_type == MempoolAcceptResult::ResultType::VALID ? "ok" : ("rej:" + slug(a.m_state.GetRejectReason()));
        for (const auto& t : a.m_replaced_transactions) if (t->GetHash() == oid) replaces = true;
    }
    CCoinControl cc_sz;
    for (const CTxIn& in : ntx->vin) cc_sz.Select(in.prevout);
    CAmount nin = 0;
    const std::string ntxs = print_tx(sc, *ntx, &cc_sz, nin);
    const TxSize mx = WITH_LOCK(sc.wallet->cs_wallet, return CalculateMaximumSignedTxSize(*ntx, sc.wallet.get(), &cc_sz));
    std::string committed = "-";
    if (commit && sig_ok) {
        dirty = true;
        std::vector<bilingual_str> errs2;
        Txid nid;
        const auto cr = feebumper::CommitTransaction(*sc.wallet, oid, std::move(signed_mtx), errs2, nid);
        sc.sync();
        LOCK(sc.wallet->cs_wallet);
        const CWalletTx& wtx = sc.wallet->mapWallet.at(oid);
        committed = std::string(cr == feebumper::Result::OK ? "ok" : "fail") + "," + (sc.m_node.mempool->exists(nid) ? "1" : "0") + "," +
                    (sc.m_node.mempool->exists(oid) ? "1" : "0") + "," + (wtx.m_replaced_by_txid && *wtx.m_replaced_by_txid == nid ? "1" : "0") + "," +
                    (errs2.empty() ? "-" : slug(errs2[0].original));
    }
    std::vector<COutPoint> orig_ops;
    for (const CTxIn& in : otx.vin) orig_ops.push_back(in.prevout);
    const auto [nbump, nbump_needed] = bump_fees(sc, *ntx, orig_ops, nrate);
    return "OK oldfee=" + std::to_string(old_fee) + " bump=" + std::to_string(nbump) + " bumpneed=" + std::to_string(nbump_needed) + " newfee=" + std::to_string(new_fee) + " vsize=" + std::to_string(GetVirtualTransactionSize(*ntx)) +
           " mvs=" + std::to_string(mx.vsize) + " tma=" + tma + " replaces=" + (replaces ? "1" : "0") + " committed=" + committed +
           " newin=" + std::to_string(nin) + headkv + " | " + ntxs + tail;
}
} // namespace

int main(int argc, char** argv)
{
    const std::string mode = argc > 1 ? argv[1] : "C41";
    std::unique_ptr<Scenario> cached;
    std::string cached_key;
    Orig borig;
    std::string bkey;
    std::unique_ptr<Scenario> bsc;
    return vd::main_loop([&](const std::vector<std::string>& w, const std::string&) -> std::string {
        if (w.size() < 3 || w[1] != "S") return "BADCASE";
        size_t r = 2;
        while (r < w.size() && w[r] != "R") ++r;
        if (r >= w.size()) return "BADCASE";
        std::vector<std::string> setup(w.begin() + 2, w.begin() + r);
        size_t b = r + 1;
        while (b < w.size() && w[b] != "B") ++b;
        std::vector<std::string> req(w.begin() + r + 1, w.begin() + b);
        std::string key;
        for (const auto& t : setup) key += t + " ";
        if (w[0] == "ct") {
            // CreateTransaction does not change what the wallet owns: cases with the same setup share the scenario
            if (!cached || cached_key != key) { cached.reset(); cached = std::make_unique<Scenario>(setup); cached_key = key; }
            if (!cached->setup_error.empty()) return "BADSETUP " + cached->setup_error;
            return run_c41(*cached, req);
        }
        if (w[0] == "bump") {
            std::vector<std::string> bt(b < w.size() ? w.begin() + b + 1 : w.end(), w.end());
            std::string okey = key + "R ";
            for (const auto& t : req) okey += t + " ";
            if (!bsc || bkey != okey) {
                bsc.reset();
                bsc = std::make_unique<Scenario>(setup);
                bkey = okey;
                if (bsc->setup_error.empty()) borig = make_original(*bsc, req);
            }
            if (!bsc->setup_error.empty()) return "BADSETUP " + bsc->setup_error;
            if (!borig.error.empty()) return "NA orig:" + borig.error;
            bool dirty = false;
            std::string out = run_c56(*bsc, borig, bt, dirty);
            if (dirty) { bkey.clear(); }
            return out;
        }
        return "BADCASE";
    });
}
