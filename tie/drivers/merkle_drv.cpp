// C++ side of the merkle family (C04): calls the real ComputeMerkleRoot, BlockMerkleRoot,
// BlockWitnessMerkleRoot, TransactionMerklePath, CheckBlock and IsBlockMutated of the current tree.
//
//   root <leaf32hex>*                       -> <root> <mutated> <root computed with mutated == nullptr>
//   txpath <pos> <tx>+                      -> <BlockMerkleRoot> <leaf at pos | -> <path: h,h,...| ->
//   block <hdrroot> <cb> <commit> <stack> <tx>*
//        -> <cb> <commit> <stack> <#tx with witness> <#tx of 64 bytes> <root> <mutated> <witness root>
//           <CheckBlock merkle verdict> <IsBlockMutated(b,false)> <IsBlockMutated(b,true)> <again on the same object>
//     (the <cb> <commit> <stack> tokens of the case describe the block to the model; the driver
//      prints what the real code derives from the transactions, so a wrong description is a difference)
//   <tx> = hex of the serialization with witness, or <hex without witness>/<hex with witness>
#include <drv_common.h>
#include <consensus/merkle.h>
#include <consensus/validation.h>
#include <kernel/chainparams.h>
#include <primitives/block.h>
#include <primitives/transaction.h>
#include <serialize.h>
#include <streams.h>
#include <uint256.h>
#include <validation.h>
#include <cstring>
#include <memory>

static uint256 u256(const std::string& h)
{
    auto b = vd::unhex(h);
    if (b.size() != 32) throw std::runtime_error("leaf is not 32 bytes");
    uint256 u;
    std::memcpy(u.begin(), b.data(), 32);
    return u;
}
static std::string hx(const uint256& u) { return vd::hex(u.begin(), u.end()); }

static CTransactionRef parse_tx(const std::string& tok)
{
    std::string nowit, wit;
    auto sl = tok.find('/');
    if (sl == std::string::npos) { nowit = tok; wit = tok; } else { nowit = tok.substr(0, sl); wit = tok.substr(sl + 1); }
    auto bytes = vd::unhex(wit);
    DataStream ds{bytes};
    CMutableTransaction mtx;
    ds >> TX_WITH_WITNESS(mtx);
    if (!ds.empty()) throw std::runtime_error("trailing bytes after transaction");
    CTransactionRef tx = MakeTransactionRef(std::move(mtx));
    DataStream o1, o2;
    o1 << TX_NO_WITNESS(*tx);
    o2 << TX_WITH_WITNESS(*tx);
    if (vd::hex(MakeUCharSpan(o1)) != nowit || vd::hex(MakeUCharSpan(o2)) != wit) throw std::runtime_error("SERMISMATCH");
    return tx;
}

int main()
{
    auto params = CChainParams::Main();
    return vd::main_loop([&](const std::vector<std::string>& w, const std::string&) -> std::string {
        if (w.empty()) return "BADCASE";
        if (w[0] == "root") {
            std::vector<uint256> leaves;
            for (size_t i = 1; i < w.size(); ++i) leaves.push_back(u256(w[i]));
            bool mutated = false;
            uint256 r = ComputeMerkleRoot(leaves, &mutated);
            uint256 r2 = ComputeMerkleRoot(leaves);
            return hx(r) + " " + (mutated ? "1" : "0") + " " + hx(r2);
        }
        if (w[0] == "txpath" && w.size() >= 2) {
            CBlock block;
            for (size_t i = 2; i < w.size(); ++i) block.vtx.push_back(parse_tx(w[i]));
            uint32_t pos = (uint32_t)vd::ull(w[1]);
            std::vector<uint256> path = TransactionMerklePath(block, pos);
            std::string ps;
            for (size_t i = 0; i < path.size(); ++i) ps += (i ? "," : "") + hx(path[i]);
            if (ps.empty()) ps = "-";
            std::string leaf = pos < block.vtx.size() ? hx(block.vtx[pos]->GetHash().ToUint256()) : "-";
            return hx(BlockMerkleRoot(block)) + " " + leaf + " " + ps;
        }
        if (w[0] == "block" && w.size() >= 5) {
            CBlock base;
            base.hashMerkleRoot = u256(w[1]);
            for (size_t i = 5; i < w.size(); ++i) base.vtx.push_back(parse_tx(w[i]));
            // what the real code derives
            bool cb = !base.vtx.empty() && base.vtx[0]->IsCoinBase();
            int commitpos = GetWitnessCommitmentIndex(base);
            std::string commit = "-";
            if (commitpos != NO_WITNESS_COMMITMENT) {
                const CScript& spk = base.vtx[0]->vout[commitpos].scriptPubKey;
                commit = vd::hex(spk.begin() + 6, spk.begin() + 38);
            }
            std::string stack = "-";
            if (!base.vtx.empty() && !base.vtx[0]->vin.empty()) {
                const auto& st = base.vtx[0]->vin[0].scriptWitness.stack;
                for (size_t i = 0; i < st.size(); ++i) {
                    if (i == 0) stack.clear(); else stack += ",";
                    stack += st[i].empty() ? std::string("e") : vd::hex(st[i]);
                }
            }
            size_t nwit = 0, n64 = 0;
            for (const auto& tx : base.vtx) {
                if (tx->HasWitness()) ++nwit;
                if (::GetSerializeSize(TX_NO_WITNESS(tx)) == 64) ++n64;
            }
            bool mutated = false;
            uint256 root = BlockMerkleRoot(base, &mutated);
            uint256 wroot = BlockWitnessMerkleRoot(base);
            std::string cbr;
            {
                CBlock b = base;
                BlockValidationState state;
                bool ok = CheckBlock(b, state, params->GetConsensus(), /*fCheckPOW=*/false, /*fCheckMerkleRoot=*/true);
                std::string rr = ok ? "" : state.GetRejectReason();
                if (rr == "bad-txnmrklroot" || rr == "bad-txns-duplicate") {
                    cbr = rr + (state.GetResult() == BlockValidationResult::BLOCK_MUTATED ? "" : "!not-BLOCK_MUTATED");
                } else cbr = "pass";
            }
            std::string m0, m1, m1b;
            { CBlock b = base; m0 = IsBlockMutated(b, false) ? "1" : "0"; }
            { CBlock b = base; m1 = IsBlockMutated(b, true) ? "1" : "0"; m1b = IsBlockMutated(b, true) ? "1" : "0"; }
            return std::string(cb ? "1" : "0") + " " + commit + " " + stack + " " + std::to_string(nwit) + " " + std::to_string(n64) + " " +
                   hx(root) + " " + (mutated ? "1" : "0") + " " + hx(wroot) + " " + cbr + " " + m0 + " " + m1 + " " + m1b;
        }
        return "BADCASE";
    });
}
