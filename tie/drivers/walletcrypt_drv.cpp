// C++ side of C42 (family walletdb): wallet encryption protects keys.
//
// mode "ops": a REAL descriptor CWallet on the REAL SQLiteDatabase over a file (walletdb_common.h).
//   case : kp <keypool size> <op>*
//   op   : enc:<pass>[:<bits>]            CWallet::EncryptWallet
//          lock | unlock:<pass>           CWallet::Lock / Unlock(passphrase)
//          chpass:<old>:<new>[:<bits>]    CWallet::ChangeWalletPassphrase
//          reload | crash                 as in keypool_drv.cpp
//          @j:<op>                        snapshot of the file before the op's j-th mutating database call, loaded afterwards
//   pass : hex bytes of the passphrase, - = empty
//   bits : outcomes of the op's mutating database calls in order (1 ok, 0 fails)
//   out  : per op  <result 0/1/L>[e<encrypted> l<locked> p<#walletdescriptorkey records>/c<#walletdescriptorckey>/m<#mkey>
//                  f<occurrences of an original plaintext secret in the bytes of the wallet file + journal> s<#spkm able to give a private key>/<#spkm>
//                  k<1 = the original descriptors give exactly the original private keys, 0 = no private keys, X = different keys>]
//          DIED[<summary of the wallet reloaded from the file>] when EncryptWallet hit assert(false) (the driver catches
//          SIGABRT, abandons that wallet object and loads a byte copy of the file as it was at that moment)
//          and for @j ops  S{<the same state summary for the wallet loaded from the snapshot> | LOADFAIL | -}
// mode "bytes": the crypter functions on bytes
//   kdf <pass> <salt> <rounds>            CCrypter::SetKeyFromPassphrase -> key || iv, or F
//   encsecret <master key> <secret> <iv32>  EncryptSecret -> ciphertext or F
//   decsecret <master key> <ciphertext> <iv32>  DecryptSecret -> plaintext or F
//   rtsecret <master key> <secret> <iv32>   EncryptSecret then DecryptSecret -> ciphertext|plaintext
#include <drv_common.h>
#include <algorithm>
#include <deque>
#include <filesystem>
#include <fstream>
#include <map>
#include <memory>
#include <optional>
#include <set>
#include <semaphore>
#include <sstream>
#include <string>
#include <vector>
#include <sync.h>
#include <streams.h>
#include <script/descriptor.h>
#include <script/signingprovider.h>
#include <wallet/db.h>
#include <wallet/sqlite.h>
#define private public
#define protected public
#include <wallet/crypter.h>
#include <wallet/scriptpubkeyman.h>
#include <wallet/wallet.h>
#undef private
#undef protected
#include <hash.h>
#include <key.h>
#include <util/time.h>
#include "walletdb_common.h"
#include <csetjmp>
#include <csignal>

using namespace wallet;
using namespace wdb;

namespace {
std::vector<std::string> split(const std::string& s, char sep)
{
    std::vector<std::string> out;
    std::string cur;
    for (char c : s) {
        if (c == sep) { out.push_back(cur); cur.clear(); } else cur.push_back(c);
    }
    out.push_back(cur);
    return out;
}
SecureString pass_of(const std::string& h)
{
    const auto b = vd::unhex(h);
    return SecureString(b.begin(), b.end());
}

sigjmp_buf g_jb;
volatile sig_atomic_t g_armed = 0;
void on_abort(int)
{
    if (g_armed) { g_armed = 0; siglongjmp(g_jb, 1); }
    std::signal(SIGABRT, SIG_DFL);
    std::raise(SIGABRT);
}
std::vector<std::shared_ptr<CWallet>>* g_graveyard = new std::vector<std::shared_ptr<CWallet>>();

struct Env : public BasicTestingSetup {
    WalletContext ctx;
    ScratchCleaner cleaner;
    int ncase{0};
    Env() { ctx.args = &m_args; SetMockTime(1700000000); }
};

struct Run {
    Env& env;
    std::shared_ptr<FaultCtl> ctl{std::make_shared<FaultCtl>()};
    std::shared_ptr<FaultCtl> ctl2{std::make_shared<FaultCtl>()};
    std::shared_ptr<CWallet> w;
    std::string dir;
    int gen{0}, nsnap{0};
    std::map<uint256, std::map<CKeyID, std::vector<unsigned char>>> orig; // descriptor id -> its private keys at creation
    std::set<std::vector<unsigned char>> secrets;
    std::string extra;

    Run(Env& e, int kp) : env(e)
    {
        dir = scratch_root() + "/c" + std::to_string(env.ncase++);
        std::filesystem::remove_all(dir);
        env.m_args.ForceSetArg("-keypool", std::to_string(kp));
        bilingual_str error;
        std::vector<bilingual_str> warnings;
        w = CWallet::CreateNew(env.ctx, "", open_db(file(), ctl), WALLET_FLAG_DESCRIPTORS, /*born_encrypted=*/false, error, warnings);
        if (!w) throw std::runtime_error("create failed: " + error.original);
        LOCK(w->cs_wallet);
        for (const auto& [id, m] : w->m_spk_managers) {
            auto* dm = dynamic_cast<DescriptorScriptPubKeyMan*>(m.get());
            LOCK(dm->cs_desc_man);
            for (const auto& [kid, key] : dm->m_map_keys) {
                std::vector<unsigned char> s(UCharCast(key.begin()), UCharCast(key.end()));
                orig[id][kid] = s;
                secrets.insert(s);
            }
        }
    }
    ~Run()
    {
        w.reset();
        std::error_code ec;
        std::filesystem::remove_all(dir, ec);
    }
    std::string file() const { return dir + "/g" + std::to_string(gen) + "/wallet.dat"; }

    static size_t count_in(const std::string& path, const std::set<std::vector<unsigned char>>& needles)
    {
        std::ifstream f(path, std::ios::binary);
        if (!f) return 0;
        std::vector<unsigned char> data((std::istreambuf_iterator<char>(f)), std::istreambuf_iterator<char>());
        size_t n = 0;
        for (const auto& nd : needles) {
            auto it = data.begin();
            while ((it = std::search(it, data.end(), nd.begin(), nd.end())) != data.end()) { ++n; ++it; }
        }
        return n;
    }

    std::string summary(CWallet& wal, const std::string& path)
    {
        std::ostringstream os;
        // records
        int np = 0, nc = 0, nm = 0;
        {
            auto batch = wal.GetDatabase().MakeBatch();
            auto cur = batch->GetNewCursor();
            DataStream k, v;
            while (cur && cur->Next(k, v) == DatabaseCursor::Status::MORE) {
                const std::string t = key_type(k);
                if (t == DBKeys::WALLETDESCRIPTORKEY) ++np;
                if (t == DBKeys::WALLETDESCRIPTORCKEY) ++nc;
                if (t == DBKeys::MASTER_KEY) ++nm;
            }
        }
        const size_t found = count_in(path, secrets) + count_in(path + "-journal", secrets);
        int can = 0, total = 0;
        bool any_orig = false, all_orig = true, differ = false;
        {
            LOCK(wal.cs_wallet);
            for (const auto& [id, m] : wal.m_spk_managers) {
                auto* dm = dynamic_cast<DescriptorScriptPubKeyMan*>(m.get());
                if (!dm) continue;
                ++total;
                LOCK(dm->cs_desc_man);
                const auto keys = dm->GetKeys();
                auto spks = dm->GetScriptPubKeys();
                if (!spks.empty()) {
                    auto prov = dm->GetSigningProvider(*spks.begin(), /*include_private=*/true);
                    if (prov && !prov->keys.empty()) ++can;
                }
                auto it = orig.find(id);
                if (it != orig.end()) {
                    for (const auto& [kid, s] : it->second) {
                        auto kt = keys.find(kid);
                        if (kt == keys.end() || !kt->second.IsValid()) { all_orig = false; continue; }
                        any_orig = true;
                        std::vector<unsigned char> got(UCharCast(kt->second.begin()), UCharCast(kt->second.end()));
                        if (got != s) differ = true;
                    }
                }
            }
        }
        os << "[e" << (wal.HasEncryptionKeys() ? 1 : 0) << " l" << (wal.IsLocked() ? 1 : 0) << " p" << np << "/c" << nc << "/m" << nm
           << " f" << found << " s" << can << "/" << total << " k" << (differ ? "X" : (any_orig && all_orig) ? "1" : any_orig ? "P" : "0") << "]";
        return os.str();
    }

    std::string observe_copy(const std::string& dst)
    {
        bilingual_str error;
        std::vector<bilingual_str> warnings;
        std::shared_ptr<CWallet> o;
        try {
            o = CWallet::LoadExisting(env.ctx, "", open_db(dst, ctl2), error, warnings);
        } catch (const std::exception& e) {
            return std::string("LOADFAIL");
        }
        if (!o) return "LOADFAIL";
        std::string s = summary(*o, dst);
        o.reset();
        return s;
    }

    void reopen(bool clean)
    {
        const std::string old = file();
        ++gen;
        if (clean) { w.reset(); FaultCtl::copy_db(old, file()); } else { FaultCtl::copy_db(old, file()); w.reset(); }
        bilingual_str error;
        std::vector<bilingual_str> warnings;
        try {
            w = CWallet::LoadExisting(env.ctx, "", open_db(file(), ctl), error, warnings);
        } catch (const std::exception&) { w = nullptr; }
        if (!w) dead = true;
    }

    bool dead{false};
    std::string op(const std::string& tok0)
    {
        if (dead) return "DEAD";
        std::string t = tok0;
        int snap = -1;
        if (t[0] == '@') {
            const size_t c = t.find(':');
            snap = std::stoi(t.substr(1, c - 1));
            t = t.substr(c + 1);
        }
        ctl->reset();
        const std::string snapfile = dir + "/snap" + std::to_string(nsnap++) + "/wallet.dat";
        if (snap >= 0) { ctl->snap_at = snap; ctl->snap_src = file(); ctl->snap_dst = snapfile; }
        auto f = split(t, ':');
        auto arm = [&](size_t k) { if (f.size() > k) for (char c : f[k]) ctl->oracle.push_back(c != '0'); };
        std::string r;
        try {
            const std::string& o = f[0];
            if (o == "enc") {
                arm(2);
                const SecureString pw = pass_of(f.at(1));
                std::signal(SIGABRT, on_abort);
                if (sigsetjmp(g_jb, 1) == 0) {
                    g_armed = 1;
                    r = w->EncryptWallet(pw) ? "1" : "0";
                    g_armed = 0;
                } else {
                    // assert(false) inside EncryptWallet: the process would be dead.  What is on disk now is what the next
                    // start finds: abandon the wallet object (its mutexes are still held) and load a copy of the file.
                    ctl->oracle.clear();
                    const std::string old = file();
                    ++gen;
                    FaultCtl::copy_db(old, file());
                    g_graveyard->push_back(w);
                    w = nullptr;
                    bilingual_str error;
                    std::vector<bilingual_str> warnings;
                    ctl = std::make_shared<FaultCtl>();
                    try { w = CWallet::LoadExisting(env.ctx, "", open_db(file(), ctl), error, warnings); } catch (const std::exception&) { w = nullptr; }
                    if (!w) dead = true;
                    r = "DIED";
                }
                std::signal(SIGABRT, SIG_DFL);
            }
            else if (o == "lock") r = w->Lock() ? "1" : "0";
            else if (o == "unlock") r = w->Unlock(pass_of(f.at(1))) ? "1" : "0";
            else if (o == "chpass") { arm(3); r = w->ChangeWalletPassphrase(pass_of(f.at(1)), pass_of(f.at(2))) ? "1" : "0"; }
            else if (o == "reload") { reopen(true); r = "L"; }
            else if (o == "crash") { reopen(false); r = "L"; }
            else if (o == "log") { ctl->keep_log = true; r = "-"; }
            else r = "BADOP";
        } catch (const std::exception& e) {
            r = "X";
            if (std::getenv("VERIF_DRV_DEBUG")) std::cerr << "exception: " << e.what() << "\n";
        }
        ctl->oracle.clear();
        const bool snapped = ctl->snapped;
        ctl->snap_at = -1;
        if (dead) return "LOADFAIL";
        r += summary(*w, file());
        if (snap >= 0) extra += " S{" + (snapped ? observe_copy(snapfile) : std::string("-")) + "}";
        if (ctl->keep_log && !ctl->log.empty()) { r += "<"; for (auto& l : ctl->log) r += l + ","; r += ">"; ctl->log.clear(); }
        return r;
    }
};

std::string bytes_mode(const std::vector<std::string>& w)
{
    if (w[0] == "kdf") {
        CCrypter c;
        const auto p = vd::unhex(w.at(1));
        const auto salt = vd::unhex(w.at(2));
        if (!c.SetKeyFromPassphrase(SecureString(p.begin(), p.end()), salt, (unsigned)std::stoul(w.at(3)), 0)) return "F";
        return vd::hex(c.vchKey.begin(), c.vchKey.end()) + vd::hex(c.vchIV.begin(), c.vchIV.end());
    }
    if (w[0] == "encsecret" || w[0] == "decsecret") {
        const auto mk = vd::unhex(w.at(1));
        const auto data = vd::unhex(w.at(2));
        const auto ivb = vd::unhex(w.at(3));
        uint256 iv;
        std::copy(ivb.begin(), ivb.begin() + std::min<size_t>(32, ivb.size()), iv.begin());
        CKeyingMaterial master(mk.begin(), mk.end());
        if (w[0] == "encsecret") {
            std::vector<unsigned char> ct;
            if (!EncryptSecret(master, CKeyingMaterial(data.begin(), data.end()), iv, ct)) return "F";
            return vd::hex(ct);
        }
        CKeyingMaterial pt;
        if (!DecryptSecret(master, data, iv, pt)) return "F";
        return vd::hex(pt.begin(), pt.end());
    }
    if (w[0] == "rtsecret") {   // EncryptSecret then DecryptSecret of the result
        const auto mk = vd::unhex(w.at(1));
        const auto data = vd::unhex(w.at(2));
        const auto ivb = vd::unhex(w.at(3));
        uint256 iv;
        std::copy(ivb.begin(), ivb.begin() + std::min<size_t>(32, ivb.size()), iv.begin());
        CKeyingMaterial master(mk.begin(), mk.end());
        std::vector<unsigned char> ct;
        if (!EncryptSecret(master, CKeyingMaterial(data.begin(), data.end()), iv, ct)) return "F";
        CKeyingMaterial pt;
        if (!DecryptSecret(master, ct, iv, pt)) return vd::hex(ct) + "|F";
        return vd::hex(ct) + "|" + vd::hex(pt.begin(), pt.end());
    }
    return "BADCASE";
}
} // namespace

int main(int argc, char** argv)
{
    Env env;
    const std::string mode = argc > 1 ? argv[1] : "ops";
    return vd::main_loop([&](const std::vector<std::string>& w, const std::string& line) -> std::string {
        if (mode == "bytes") return bytes_mode(w);
        if (w.size() < 2 || w[0] != "kp") return "BADCASE";
        Run run(env, std::stoi(w[1]));
        std::string out;
        for (size_t i = 2; i < w.size(); ++i) out += (out.empty() ? "" : " ") + run.op(w[i]);
        return out + run.extra;
    });
}
