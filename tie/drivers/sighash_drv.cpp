// C++ side of C10: calls the real SignatureHash / SignatureHashSchnorr / ComputeTapleafHash /
// CheckSignatureEncoding / EvalScript(OP_CHECKSIG) / VerifyScript on what the case line describes.
// Case formats: see ocaml/sighash_driver.ml.
#include <drv_common.h>
#include <hash.h>
#include <key.h>
#include <primitives/transaction.h>
#include <pubkey.h>
#include <script/interpreter.h>
#include <script/script.h>
#include <script/script_error.h>
#include <serialize.h>
#include <uint256.h>
#include <util/strencodings.h>

#include <cassert>
#include <optional>

namespace {
using W = std::vector<std::string>;

CScript script_of(const std::string& h)
{
    auto b = vd::unhex(h);
    return CScript(b.begin(), b.end());
}

// TX := <version> <nin> {<prevhash-hex32> <n> <scriptSig> <sequence>}* <nout> {<value> <spk>}* <locktime>
CMutableTransaction parse_tx(const W& w, size_t& p)
{
    CMutableTransaction mtx;
    mtx.version = (uint32_t)vd::ull(w.at(p++));
    size_t nin = vd::ull(w.at(p++));
    for (size_t i = 0; i < nin; ++i) {
        auto hb = vd::unhex(w.at(p++));
        if (hb.size() != 32) throw std::runtime_error("prevout hash must be 32 bytes");
        uint256 h;
        std::copy(hb.begin(), hb.end(), h.begin());
        CTxIn in;
        in.prevout = COutPoint(Txid::FromUint256(h), (uint32_t)vd::ull(w.at(p++)));
        in.scriptSig = script_of(w.at(p++));
        in.nSequence = (uint32_t)vd::ull(w.at(p++));
        mtx.vin.push_back(in);
    }
    size_t nout = vd::ull(w.at(p++));
    for (size_t i = 0; i < nout; ++i) {
        CTxOut out;
        out.nValue = vd::ll(w.at(p++));
        out.scriptPubKey = script_of(w.at(p++));
        mtx.vout.push_back(out);
    }
    mtx.nLockTime = (uint32_t)vd::ull(w.at(p++));
    return mtx;
}

std::vector<CTxOut> parse_spent(const W& w, size_t& p)
{
    std::vector<CTxOut> v;
    if (p >= w.size() || w[p][0] == '=') return v;
    size_t n = vd::ull(w.at(p++));
    for (size_t i = 0; i < n; ++i) {
        CTxOut out;
        out.nValue = vd::ll(w.at(p++));
        out.scriptPubKey = script_of(w.at(p++));
        v.push_back(out);
    }
    return v;
}

std::string raw(const uint256& h) { return vd::hex(h.begin(), h.end()); }

std::string err_name(ScriptError e)
{
    switch (e) {
    case SCRIPT_ERR_OK: return "ok";
    case SCRIPT_ERR_SIG_DER: return "SIG_DER";
    case SCRIPT_ERR_SIG_HIGH_S: return "SIG_HIGH_S";
    case SCRIPT_ERR_SIG_HASHTYPE: return "SIG_HASHTYPE";
    case SCRIPT_ERR_PUBKEYTYPE: return "PUBKEYTYPE";
    case SCRIPT_ERR_WITNESS_PUBKEYTYPE: return "WITNESS_PUBKEYTYPE";
    case SCRIPT_ERR_SCHNORR_SIG_SIZE: return "SCHNORR_SIG_SIZE";
    case SCRIPT_ERR_SCHNORR_SIG_HASHTYPE: return "SCHNORR_SIG_HASHTYPE";
    case SCRIPT_ERR_SCHNORR_SIG: return "SCHNORR_SIG";
    case SCRIPT_ERR_EVAL_FALSE: return "EVAL_FALSE";
    case SCRIPT_ERR_SIG_NULLFAIL: return "SIG_NULLFAIL";
    default: return std::string("ERR_") + ScriptErrorString(e);
    }
}

// the legacy / BIP143 digest, computed three ways that must agree: no caches; with the precomputed
// transaction data; with a SigHashCache whose entry was stored by a sibling hash type of the same class
std::string ecdsa_digest(const CScript& sc, const CMutableTransaction& mtx, unsigned nIn, int32_t ht, CAmount amount, SigVersion sv)
{
    const uint256 plain = SignatureHash(sc, mtx, nIn, ht, amount, sv);
    PrecomputedTransactionData txdata;
    txdata.Init(mtx, {}, /*force=*/true);
    const uint256 with_txdata = SignatureHash(sc, mtx, nIn, ht, amount, sv, &txdata);
    SigHashCache cache;
    (void)SignatureHash(sc, mtx, nIn, ht ^ 0x40, amount, sv, &txdata, &cache);   // same CacheIndex, same scriptCode
    const uint256 with_cache = SignatureHash(sc, mtx, nIn, ht, amount, sv, &txdata, &cache);
    const CTransaction ctx(mtx);
    const uint256 on_ctx = SignatureHash(sc, ctx, nIn, ht, amount, sv);
    if (plain != with_txdata || plain != with_cache || plain != on_ctx) {
        return "CACHEDIFF " + raw(plain) + " " + raw(with_txdata) + " " + raw(with_cache) + " " + raw(on_ctx);
    }
    return raw(plain);
}

class NullChecker : public BaseSignatureChecker
{
};

// ---- checksig: sign the digest of context S with a real key, verify in context C through VerifyScript ----
struct Ctx {
    unsigned nIn;
    std::string annex;
    CMutableTransaction tx;
    std::vector<CTxOut> spent;
};
Ctx parse_ctx(const W& w, size_t& p)
{
    Ctx c;
    c.nIn = (unsigned)vd::ull(w.at(p++));
    c.annex = w.at(p++);
    c.tx = parse_tx(w, p);
    c.spent = parse_spent(w, p);
    return c;
}

// secp256k1 group order, big endian
const unsigned char ORDER_BE[32] = {0xFF,0xFF,0xFF,0xFF,0xFF,0xFF,0xFF,0xFF,0xFF,0xFF,0xFF,0xFF,0xFF,0xFF,0xFF,0xFE,
                                    0xBA,0xAE,0xDC,0xE6,0xAF,0x48,0xA0,0x3B,0xBF,0xD2,0x5E,0x8C,0xD0,0x36,0x41,0x41};
// DER signature (no hash type) with S replaced by order - S
std::vector<unsigned char> negate_s(const std::vector<unsigned char>& der)
{
    size_t lenR = der.at(3);
    size_t lenS = der.at(5 + lenR);
    std::vector<unsigned char> S(der.begin() + 6 + lenR, der.begin() + 6 + lenR + lenS);
    while (S.size() > 32 && S[0] == 0) S.erase(S.begin());
    std::vector<unsigned char> s32(32 - S.size(), 0);
    s32.insert(s32.end(), S.begin(), S.end());
    std::vector<unsigned char> out(32);
    int borrow = 0;
    for (int i = 31; i >= 0; --i) {
        int v = (int)ORDER_BE[i] - (int)s32[i] - borrow;
        borrow = v < 0;
        out[i] = (unsigned char)(v & 0xff);
    }
    while (out.size() > 1 && out[0] == 0) out.erase(out.begin());
    if (out[0] & 0x80) out.insert(out.begin(), 0);
    std::vector<unsigned char> res{0x30, 0, 0x02, (unsigned char)lenR};
    res.insert(res.end(), der.begin() + 4, der.begin() + 4 + lenR);
    res.push_back(0x02);
    res.push_back((unsigned char)out.size());
    res.insert(res.end(), out.begin(), out.end());
    res[1] = (unsigned char)(res.size() - 2);
    return res;
}

void fill_execdata(ScriptExecutionData& ed, const std::string& annex, bool tapscript, const std::vector<unsigned char>& script, uint32_t pos)
{
    ed.m_annex_init = true;
    ed.m_annex_present = annex != "none";
    if (ed.m_annex_present) {
        const std::vector<unsigned char> a = vd::unhex(annex);
        ed.m_annex_hash = (HashWriter{} << a).GetSHA256();
    }
    if (tapscript) {
        ed.m_tapleaf_hash = ComputeTapleafHash(0xc0, script);
        ed.m_tapleaf_hash_init = true;
        ed.m_codeseparator_pos = pos;
        ed.m_codeseparator_pos_init = true;
    }
}

std::string checksig(const W& w)
{
    size_t p = 1;
    const std::string kind = w.at(p++);
    auto flags = script_verify_flags::from_int(vd::ull(w.at(p++)));
    p++; // nf<0|1>: for the model side only
    const std::string sigmut = w.at(p++);
    std::vector<unsigned char> priv = vd::unhex(w.at(p++));
    const std::vector<unsigned char> pk = vd::unhex(w.at(p++));
    const int ht = (int)vd::ull(w.at(p++));
    const std::vector<unsigned char> script = vd::unhex(w.at(p++));
    const CScript sc = script_of(w.at(p++));
    const uint32_t pos = (uint32_t)vd::ull(w.at(p++));
    const std::string ctrl = w.at(p++);
    if (w.at(p++) != "S") return "BADCASE";
    Ctx S = parse_ctx(w, p);
    if (w.at(p++) != "C") return "BADCASE";
    Ctx C = parse_ctx(w, p);
    if (S.nIn >= S.tx.vin.size() || C.nIn >= C.tx.vin.size() || S.spent.size() != S.tx.vin.size() || C.spent.size() != C.tx.vin.size()) return "precondition";
    const bool taproot = kind == "p2trk" || kind == "p2trs";
    const bool tapscript = kind == "p2trs";

    CKey key;
    key.Set(priv.begin(), priv.end(), pk.size() != 65);
    if (!key.IsValid()) return "BADKEY";
    if (taproot) {
        XOnlyPubKey x{key.GetPubKey()};
        if (std::vector<unsigned char>(x.begin(), x.end()) != pk) return "BADKEY";
    } else {
        CPubKey cp = key.GetPubKey();
        if (std::vector<unsigned char>(cp.begin(), cp.end()) != pk) return "BADKEY";
    }
    CKey signer = key;
    if (sigmut == "wrongkey") {
        priv[31] ^= 1;
        signer.Set(priv.begin(), priv.end(), pk.size() != 65);
        if (!signer.IsValid()) return "BADKEY";
    }

    // the digest of the signing context
    uint256 d_s;
    if (taproot) {
        PrecomputedTransactionData txd;
        txd.Init(S.tx, std::vector<CTxOut>(S.spent), /*force=*/true);
        ScriptExecutionData ed;
        fill_execdata(ed, S.annex, tapscript, script, pos);
        if (!SignatureHashSchnorr(d_s, ed, S.tx, S.nIn, (uint8_t)ht, tapscript ? SigVersion::TAPSCRIPT : SigVersion::TAPROOT, txd, MissingDataBehavior::FAIL)) return "precondition";
    } else if (kind == "p2pk") {
        d_s = SignatureHash(sc, S.tx, S.nIn, ht, 0, SigVersion::BASE);
    } else {
        d_s = SignatureHash(sc, S.tx, S.nIn, ht, S.spent[S.nIn].nValue, SigVersion::WITNESS_V0);
    }

    // the signature, then its mutation
    std::vector<unsigned char> sig;
    auto set_ht = [&](const std::string& m, bool schnorr) {
        unsigned char x = (unsigned char)vd::ull(m.substr(2));
        if (schnorr && sig.size() == 64) sig.push_back(x); else if (!sig.empty()) sig.back() = x;
    };
    if (taproot) {
        sig.resize(64);
        uint256 aux;
        if (!signer.SignSchnorr(d_s, sig, nullptr, aux)) return "SIGNFAIL";
        if (ht != 0) sig.push_back((unsigned char)ht);
        if (sigmut == "flip") sig[10] ^= 1;
        else if (sigmut == "empty") sig.clear();
        else if (sigmut == "trunc") sig.pop_back();
        else if (sigmut == "append00") sig.push_back(0);
        else if (sigmut == "extend") { sig.push_back(1); sig.push_back(1); }
        else if (sigmut.rfind("ht", 0) == 0) set_ht(sigmut, true);
    } else {
        if (!signer.Sign(d_s, sig)) return "SIGNFAIL";
        if (sigmut == "highS") sig = negate_s(sig);
        if (sigmut == "flip") sig[4 + sig[3] - 1] ^= 1;
        sig.push_back((unsigned char)ht);
        if (sigmut == "empty") sig.clear();
        else if (sigmut.rfind("ht", 0) == 0) set_ht(sigmut, false);
    }

    // the spend in the checking context
    CScript scriptSig;
    CScriptWitness wit;
    if (kind == "p2pk") {
        scriptSig << sig;
    } else if (kind == "p2wsh") {
        wit.stack = {sig, script};
    } else if (kind == "p2trk") {
        wit.stack = {sig};
    } else {
        wit.stack = {sig, script, vd::unhex(ctrl)};
    }
    if (taproot && C.annex != "none") wit.stack.push_back(vd::unhex(C.annex));
    C.tx.vin[C.nIn].scriptSig = scriptSig;
    C.tx.vin[C.nIn].scriptWitness = wit;
    const CScript spk = C.spent[C.nIn].scriptPubKey;
    const CAmount amount = C.spent[C.nIn].nValue;
    PrecomputedTransactionData txdata;
    txdata.Init(C.tx, std::vector<CTxOut>(C.spent));
    MutableTransactionSignatureChecker checker(&C.tx, C.nIn, amount, txdata, MissingDataBehavior::FAIL);
    ScriptError err = SCRIPT_ERR_OK;
    bool ok = VerifyScript(scriptSig, spk, &wit, flags, checker, &err);
    // the same through the CTransaction instantiation and a fresh checker (caches empty)
    const CTransaction ctx(C.tx);
    PrecomputedTransactionData txdata2;
    txdata2.Init(ctx, std::vector<CTxOut>(C.spent));
    TransactionSignatureChecker checker2(&ctx, C.nIn, amount, txdata2, MissingDataBehavior::FAIL);
    ScriptError err2 = SCRIPT_ERR_OK;
    bool ok2 = VerifyScript(scriptSig, spk, &wit, flags, checker2, &err2);
    if (ok != ok2 || err != err2) return "CACHEDIFF " + err_name(err) + " " + err_name(err2);
    return (ok ? std::string("ok") : err_name(err)) + " signed=" + raw(d_s);
}
} // namespace

int main()
{
    ECC_Context ecc;
    return vd::main_loop([&](const W& w, const std::string&) -> std::string {
        if (w.empty()) return "BADCASE";
        const std::string& mode = w[0];
        if (mode == "legacy" || mode == "bip143") {
            size_t p = 1;
            unsigned nIn = (unsigned)vd::ull(w.at(p++));
            int32_t ht = (int32_t)vd::ll(w.at(p++));
            CScript sc = script_of(w.at(p++));
            CAmount amount = 0;
            if (mode == "bip143") amount = vd::ll(w.at(p++));
            CMutableTransaction mtx = parse_tx(w, p);
            if (nIn >= mtx.vin.size()) return "precondition";
            return ecdsa_digest(sc, mtx, nIn, ht, amount, mode == "legacy" ? SigVersion::BASE : SigVersion::WITNESS_V0);
        }
        if (mode == "taproot") {
            size_t p = 1;
            uint32_t nIn = (uint32_t)vd::ull(w.at(p++));
            uint8_t ht = (uint8_t)vd::ull(w.at(p++));
            std::string annex = w.at(p++), leaf = w.at(p++);
            uint32_t pos = (uint32_t)vd::ull(w.at(p++));
            CMutableTransaction mtx = parse_tx(w, p);
            std::vector<CTxOut> spent = parse_spent(w, p);
            if (nIn >= mtx.vin.size()) return "precondition";
            if (!spent.empty() && spent.size() != mtx.vin.size()) return "precondition";
            PrecomputedTransactionData txdata;
            txdata.Init(mtx, std::move(spent), /*force=*/true);
            ScriptExecutionData execdata;
            execdata.m_annex_init = true;
            execdata.m_annex_present = annex != "none";
            if (execdata.m_annex_present) {
                // as VerifyWitnessProgram does:  execdata.m_annex_hash = (HashWriter{} << annex).GetSHA256();
                const std::vector<unsigned char> a = vd::unhex(annex);
                execdata.m_annex_hash = (HashWriter{} << a).GetSHA256();
            }
            SigVersion sv = SigVersion::TAPROOT;
            if (leaf != "key") {
                sv = SigVersion::TAPSCRIPT;
                auto lb = vd::unhex(leaf);
                if (lb.size() != 32) return "BADCASE";
                std::copy(lb.begin(), lb.end(), execdata.m_tapleaf_hash.begin());
                execdata.m_tapleaf_hash_init = true;
                execdata.m_codeseparator_pos = pos;
                execdata.m_codeseparator_pos_init = true;
            }
            uint256 out;
            if (!SignatureHashSchnorr(out, execdata, mtx, nIn, ht, sv, txdata, MissingDataBehavior::FAIL)) return "fail";
            // a second call reuses execdata.m_output_hash; and the CTransaction instantiation
            uint256 out2, out3;
            const CTransaction ctx(mtx);
            ScriptExecutionData fresh = execdata;
            fresh.m_output_hash.reset();
            if (!SignatureHashSchnorr(out2, execdata, mtx, nIn, ht, sv, txdata, MissingDataBehavior::FAIL)) return "CACHEDIFF second call failed";
            if (!SignatureHashSchnorr(out3, fresh, ctx, nIn, ht, sv, txdata, MissingDataBehavior::FAIL)) return "CACHEDIFF ctx call failed";
            if (out != out2 || out != out3) return "CACHEDIFF " + raw(out) + " " + raw(out2) + " " + raw(out3);
            return raw(out);
        }
        if (mode == "checksig") return checksig(w);
        if (mode == "tapleaf") {
            uint8_t lv = (uint8_t)vd::ull(w.at(1));
            auto s = vd::unhex(w.at(2));
            return raw(ComputeTapleafHash(lv, s));
        }
        if (mode == "sigenc") {
            auto flags = script_verify_flags::from_int(vd::ull(w.at(1)));
            auto sig = vd::unhex(w.at(2));
            ScriptError err = SCRIPT_ERR_OK;
            bool ok = CheckSignatureEncoding(sig, flags, &err);
            if (ok) return "ok";
            return err_name(err);
        }
        if (mode == "pkenc") {
            // CheckPubKeyEncoding is static: reached through OP_CHECKSIG with an empty signature
            auto flags = script_verify_flags::from_int(vd::ull(w.at(1)));
            SigVersion sv = w.at(2) == "v0" ? SigVersion::WITNESS_V0 : SigVersion::BASE;
            auto pk = vd::unhex(w.at(3));
            std::vector<std::vector<unsigned char>> stack{{}, pk};
            CScript s;
            s << OP_CHECKSIG;
            ScriptError err = SCRIPT_ERR_OK;
            NullChecker chk;
            bool ok = EvalScript(stack, s, flags, chk, sv, &err);
            if (ok) return "ok";
            return err_name(err);
        }
        return "BADCASE";
    });
}
