// C++ side of C27 (TRUC topology rules): op sequences on the real CTxMemPool of a regtest TestingSetup.
// The real SingleTRUCChecks / PackageTRUCChecks decide (with the real GetParents / GetAncestorCount /
// GetDescendantCount / CalculateDescendants behind them); the driver applies their answers the way PreChecks /
// ReplacementChecks / AcceptMultipleTransactionsInternal do (conflicts and their descendants removed, sibling
// evicted when offered) without any of the fee or script rules, which can only reject more.
//
// truc <nbuild> { <ver> <nin> {e <a> <n> | p <j> <n>}* <nout> <pad> <claimed_weight> }* <nops> <op>*
//   ops:  F i        add built[i] without any rule (reorg-like state)
//         A i        single submission under the rules (replacement and sibling eviction allowed)
//         S i vs k c1..ck   query SingleTRUCChecks(built[i], vsize=vs (or real when -1), conflicts=c1..ck)
//         K k i1..ik package submission under the rules
//         Q k i1..ik vs     query PackageTRUCChecks for every member (vsize=vs or real when -1)
//         R i        removeRecursive(built[i]);   B i   removeForBlock(in-mempool ancestors of built[i] ++ [built[i]])
//   output: one token per op, then "pool=" idx:anc:desc,... and the policy-limit answer of the mempool
#include <drv_common.h>
#include <arith_uint256.h>
#include <consensus/validation.h>
#include <node/context.h>
#include <policy/packages.h>
#include <policy/policy.h>
#include <policy/truc_policy.h>
#include <primitives/transaction.h>
#include <script/script.h>
#include <test/util/setup_common.h>
#include <test/util/txmempool.h>
#include <txmempool.h>
#include <uint256.h>
#include <util/translation.h>
#include <validation.h>

#include <map>
#include <set>

namespace {
Txid ExtHash(uint64_t a) { return Txid::FromUint256(ArithToUint256(arith_uint256(1000000 + a))); }

std::string kind_of(const std::string& e)
{
    if (e.find("cannot spend from non-version=3") != std::string::npos) return "v3-spends-nonv3";
    if (e.find("cannot spend from version=3") != std::string::npos) return "nonv3-spends-v3";
    if (e.find("child tx") != std::string::npos && e.find("is too big") != std::string::npos) return "child-too-big";
    if (e.find("is too big") != std::string::npos) return "too-big";
    if (e.find("would have too many ancestors") != std::string::npos) return "too-many-ancestors";
    if (e.find("would exceed descendant count limit") != std::string::npos) return "desc-limit";
    return "unknown(" + e + ")";
}
} // namespace

// ---- mode limits: a second mempool with small cluster limits -----------------------------------------
// lim <count_limit> <size_vbytes> <nbuild> { <ver> <nin> {e <a> <n> | p <j> <n>}* <nout> <pad> <claimed_weight> }* <nops> { C i | T i | R i }*
//   C i: CTxMemPool::CheckPolicyLimits(built[i]);  T i: stage, CheckMemPoolPolicyLimits, apply when within (test util
//   TryAddToMempool);  R i: removeRecursive.  output: one token per op, then the members of the mempool.
static std::string run_limits(TestingSetup& setup, const std::vector<std::string>& w)
{
    size_t p = 1;
    CTxMemPool::Options opts = MemPoolOptionsForTest(setup.m_node);
    opts.limits.cluster_count = (unsigned)vd::ull(w.at(p++));
    opts.limits.cluster_size_vbytes = vd::ll(w.at(p++));
    bilingual_str err;
    CTxMemPool pool{opts, err};
    if (!err.empty()) return "EXC " + err.original;
    TestMemPoolEntryHelper entry;
    LOCK2(cs_main, pool.cs);
    size_t nb = vd::ull(w.at(p++));
    std::vector<CTransactionRef> built;
    for (size_t b = 0; b < nb; ++b) {
        CMutableTransaction mtx;
        mtx.version = (uint32_t)vd::ull(w.at(p++));
        mtx.nLockTime = (uint32_t)b;
        size_t nin = vd::ull(w.at(p++));
        for (size_t i = 0; i < nin; ++i) {
            const std::string ik = w.at(p++);
            uint64_t a = vd::ull(w.at(p++));
            uint32_t n = (uint32_t)vd::ull(w.at(p++));
            CTxIn in;
            if (ik == "e") in.prevout = COutPoint(ExtHash(a), n);
            else if (ik == "p") in.prevout = COutPoint(built.at(a)->GetHash(), n);
            else return "BADCASE input kind";
            mtx.vin.push_back(in);
        }
        size_t nout = vd::ull(w.at(p++));
        size_t pad = vd::ull(w.at(p++));
        if (pad && !mtx.vin.empty()) { std::vector<unsigned char> s(pad, 0x51); mtx.vin[0].scriptSig = CScript(s.begin(), s.end()); }
        for (size_t o = 0; o < nout; ++o) mtx.vout.emplace_back(10000, CScript() << OP_TRUE);
        int64_t claimed = vd::ll(w.at(p++));
        built.push_back(MakeTransactionRef(mtx));
        if (GetTransactionWeight(*built.back()) != claimed) return "WEIGHT-MISMATCH build " + std::to_string(b) + " real " + std::to_string(GetTransactionWeight(*built.back()));
    }
    auto spent_in_pool = [&](const CTransactionRef& tx) {
        for (const auto& e : pool.entryAll()) for (const auto& in : e.get().GetTx().vin) if (in.prevout.hash == tx->GetHash()) return true;
        return false;
    };
    size_t nops = vd::ull(w.at(p++));
    std::string out;
    for (size_t k = 0; k < nops; ++k) {
        const std::string op = w.at(p++);
        const auto& tx = built.at(vd::ull(w.at(p++)));
        std::string tok;
        if (op == "C") {
            if (pool.exists(tx->GetHash()) || spent_in_pool(tx)) tok = "C:skip";
            else tok = std::string("C:") + (pool.CheckPolicyLimits(tx) ? "1" : "0");
        } else if (op == "T") {
            if (pool.exists(tx->GetHash()) || spent_in_pool(tx)) tok = "T:skip";
            else { TryAddToMempool(pool, entry.FromTx(tx)); tok = std::string("T:") + (pool.exists(tx->GetHash()) ? "1" : "0"); }
        } else if (op == "R") {
            pool.removeRecursive(*tx, MemPoolRemovalReason::EXPIRY); tok = "R";
        } else return "BADCASE op";
        out += (k ? " " : "") + tok;
    }
    std::string dump;
    for (size_t b = 0; b < nb; ++b) if (pool.exists(built[b]->GetHash())) dump += (dump.empty() ? "" : ",") + std::to_string(b);
    return (out.empty() ? std::string("noop") : out) + " pool=" + (dump.empty() ? "none" : dump) + ":" + std::to_string(pool.size());
}

int main(int argc, char** argv)
{
    TestingSetup setup{ChainType::REGTEST};
    if (argc > 1 && std::string(argv[1]) == "limits") {
        return vd::main_loop([&](const std::vector<std::string>& w, const std::string&) -> std::string {
            if (w.empty() || w[0] != "lim") return "BADCASE";
            return run_limits(setup, w);
        });
    }
    CTxMemPool& pool = *setup.m_node.mempool;
    TestMemPoolEntryHelper entry;

    return vd::main_loop([&](const std::vector<std::string>& w, const std::string&) -> std::string {
        if (w.empty() || w[0] != "truc") return "BADCASE";
        LOCK2(cs_main, pool.cs);
        {   // fresh mempool
            std::vector<CTransactionRef> all;
            for (const auto& e : pool.entryAll()) all.push_back(e.get().GetSharedTx());
            for (const auto& tx : all) if (pool.exists(tx->GetHash())) pool.removeRecursive(*tx, MemPoolRemovalReason::REPLACED);
            if (pool.size() != 0) return "EXC mempool not empty";
        }
        size_t p = 1;
        size_t nb = vd::ull(w.at(p++));
        std::vector<CTransactionRef> built;
        for (size_t b = 0; b < nb; ++b) {
            CMutableTransaction mtx;
            mtx.version = (uint32_t)vd::ull(w.at(p++));
            mtx.nLockTime = (uint32_t)b;
            size_t nin = vd::ull(w.at(p++));
            for (size_t i = 0; i < nin; ++i) {
                const std::string ik = w.at(p++);
                uint64_t a = vd::ull(w.at(p++));
                uint32_t n = (uint32_t)vd::ull(w.at(p++));
                CTxIn in;
                if (ik == "e") in.prevout = COutPoint(ExtHash(a), n);
                else if (ik == "p") in.prevout = COutPoint(built.at(a)->GetHash(), n);
                else return "BADCASE input kind";
                mtx.vin.push_back(in);
            }
            size_t nout = vd::ull(w.at(p++));
            size_t pad = vd::ull(w.at(p++));
            if (pad && !mtx.vin.empty()) { std::vector<unsigned char> s(pad, 0x51); mtx.vin[0].scriptSig = CScript(s.begin(), s.end()); }
            for (size_t o = 0; o < nout; ++o) mtx.vout.emplace_back(10000, CScript() << OP_TRUE);
            int64_t claimed = vd::ll(w.at(p++));
            built.push_back(MakeTransactionRef(mtx));
            if (GetTransactionWeight(*built.back()) != claimed) return "WEIGHT-MISMATCH build " + std::to_string(b) + " real " + std::to_string(GetTransactionWeight(*built.back()));
        }
        auto idx_of = [&](const CTransactionRef& t) -> std::string {
            if (!t) return "-";
            for (size_t b = 0; b < nb; ++b) if (built[b]->GetHash() == t->GetHash()) return std::to_string(b);
            return "?";
        };
        auto spent_in_pool = [&](const CTransactionRef& tx) {   // something in the mempool spends an output of tx
            for (const auto& e : pool.entryAll()) for (const auto& in : e.get().GetTx().vin) if (in.prevout.hash == tx->GetHash()) return true;
            return false;
        };
        auto conflicts_of = [&](const CTransactionRef& tx) {
            std::set<Txid> c;
            for (const auto& in : tx->vin) if (const CTransaction* t = pool.GetConflictTx(in.prevout)) c.insert(t->GetHash());
            return c;
        };
        auto add = [&](const CTransactionRef& tx) { TryAddToMempool(pool, entry.FromTx(tx)); };
        size_t nops = vd::ull(w.at(p++));
        std::string out;
        for (size_t k = 0; k < nops; ++k) {
            const std::string op = w.at(p++);
            std::string tok;
            if (op == "F") {
                const auto& tx = built.at(vd::ull(w.at(p++)));
                if (pool.exists(tx->GetHash())) tok = "F:dup"; else if (spent_in_pool(tx)) tok = "F:skip"; else { add(tx); tok = pool.exists(tx->GetHash()) ? "F:ok" : "F:limit"; }
            } else if (op == "A") {
                const auto& tx = built.at(vd::ull(w.at(p++)));
                bool self = false;
                for (const auto& in : tx->vin) if (in.prevout.hash == tx->GetHash()) self = true;
                if (pool.exists(tx->GetHash()) || spent_in_pool(tx) || self) { tok = "A:skip"; }
                else {
                    auto parents = pool.GetParents(entry.FromTx(tx));
                    std::set<Txid> conflicts = conflicts_of(tx);
                    const auto err = SingleTRUCChecks(pool, tx, parents, conflicts, GetVirtualTransactionSize(*tx));
                    if (err && err->second == nullptr) tok = "A:" + kind_of(err->first);
                    else {
                        std::string sib = "-";
                        if (err) { conflicts.insert(err->second->GetHash()); sib = idx_of(err->second); }
                        // everything to be evicted: the conflicts and their descendants
                        CTxMemPool::setEntries all;
                        for (const auto& c : conflicts) pool.CalculateDescendants(pool.GetIter(c).value(), all);
                        bool spends_conflict = false;
                        for (const auto& par : parents) if (all.count(pool.GetIter(par.get().GetTx().GetHash()).value())) spends_conflict = true;
                        if (spends_conflict) tok = "A:spends-conflict";
                        else {
                            for (const auto& c : conflicts) if (pool.exists(c)) pool.removeRecursive(*pool.get(c), MemPoolRemovalReason::REPLACED);
                            add(tx);
                            tok = std::string("A:added") + (err ? ":sib" + sib : "") + (pool.exists(tx->GetHash()) ? "" : ":limit");
                        }
                    }
                }
            } else if (op == "S") {
                const auto& tx = built.at(vd::ull(w.at(p++)));
                int64_t vs = vd::ll(w.at(p++));
                size_t nc = vd::ull(w.at(p++));
                std::set<Txid> conflicts;
                for (size_t c = 0; c < nc; ++c) conflicts.insert(built.at(vd::ull(w.at(p++)))->GetHash());
                auto parents = pool.GetParents(entry.FromTx(tx));
                const auto err = SingleTRUCChecks(pool, tx, parents, conflicts, vs < 0 ? GetVirtualTransactionSize(*tx) : vs);
                tok = "S:" + (err ? kind_of(err->first) + (err->second ? ":sib" + idx_of(err->second) : "") : std::string("ok"));
            } else if (op == "K" || op == "Q") {
                size_t n = vd::ull(w.at(p++));
                Package pkg;
                for (size_t i = 0; i < n; ++i) pkg.push_back(built.at(vd::ull(w.at(p++))));
                int64_t vs = -1;
                if (op == "Q") vs = vd::ll(w.at(p++));
                bool fresh = true;
                if (op == "K") {
                    PackageValidationState st;
                    if (!IsWellFormedPackage(pkg, st)) fresh = false;
                    for (const auto& tx : pkg) if (pool.exists(tx->GetHash()) || spent_in_pool(tx) || !conflicts_of(tx).empty()) fresh = false;
                }
                if (!fresh) tok = "K:skip";
                else {
                    bool all_ok = true;
                    tok = op + ":";
                    for (size_t i = 0; i < n; ++i) {
                        const auto& tx = pkg[i];
                        auto parents = pool.GetParents(entry.FromTx(tx));
                        const int64_t v = vs < 0 ? GetVirtualTransactionSize(*tx) : vs;
                        std::string a = "-";
                        if (op == "K") {
                            const auto e1 = SingleTRUCChecks(pool, tx, parents, {}, v);
                            a = e1 ? kind_of(e1->first) : "ok";
                            if (e1) all_ok = false;
                        }
                        const auto e2 = PackageTRUCChecks(pool, tx, v, pkg, parents);
                        if (e2) all_ok = false;
                        tok += (i ? "," : "") + a + "/" + (e2 ? kind_of(*e2) : "ok");
                    }
                    if (op == "K" && all_ok) {
                        for (const auto& tx : pkg) add(tx);
                        tok += ":added";
                        for (const auto& tx : pkg) if (!pool.exists(tx->GetHash())) tok += ":limit";
                    }
                }
            } else if (op == "R") {
                const auto& tx = built.at(vd::ull(w.at(p++)));
                pool.removeRecursive(*tx, MemPoolRemovalReason::EXPIRY);
                tok = "R";
            } else if (op == "B") {
                // a block containing the transaction also contains its unconfirmed ancestors
                const auto& tx = built.at(vd::ull(w.at(p++)));
                std::set<Txid> anc;
                std::vector<CTransactionRef> todo{tx};
                while (!todo.empty()) {
                    CTransactionRef t = todo.back(); todo.pop_back();
                    for (const auto& in : t->vin) {
                        if (pool.exists(in.prevout.hash) && anc.insert(in.prevout.hash).second) todo.push_back(pool.get(in.prevout.hash));
                    }
                }
                std::vector<CTransactionRef> vtx;
                for (size_t b = 0; b < nb; ++b) if (anc.count(built[b]->GetHash()) && built[b] != tx) vtx.push_back(built[b]);
                vtx.push_back(tx);
                pool.removeForBlock(vtx);
                tok = "B";
            } else return "BADCASE op " + op;
            out += (k ? " " : "") + tok;
        }
        std::string dump;
        for (size_t b = 0; b < nb; ++b) {
            if (!pool.exists(built[b]->GetHash())) continue;
            const auto& e = *pool.GetEntry(built[b]->GetHash());
            dump += (dump.empty() ? "" : ",") + std::to_string(b) + ":" + std::to_string(pool.GetAncestorCount(e)) + ":" + std::to_string(pool.GetDescendantCount(e)) + ":" + std::to_string(e.GetTxSize());
        }
        return (out.empty() ? std::string("noop") : out) + " pool=" + (dump.empty() ? "none" : dump) + ":" + std::to_string(pool.size());
    });
}
