// C++ side of the TxRequest family (C34): runs operation scripts against the real TxRequestTracker
// (deterministic mode) and prints, after every operation, what the public interface shows.
//
// case:   <op> ; <op> ; ...
//   inv <peer> <txhash-hex> <is_wtxid> <preferred> <reqtime> | get <peer> <now> | req <peer> <txhash> <expiry>
//   resp <peer> <txhash> | forget <txhash> | disc <peer>
// output: "prio <h>:<p>:<pref>=<v> ..." then per op " | " + [r=<h>:<w>,.. e=<p>:<h>:<w>,..] S=<size>
//         P<p>=<count>,<inflight>,<candidates> ...  T<h>=<candidate peers sorted> ...
// over the peers and txhashes that occur in the case (sorted). A failing assert inside the tracker is reported
// as the result "CRASH signal=<n>" and not as a dead driver.
#include <drv_common.h>
#include <txrequest.h>
#include <uint256.h>
#include <primitives/transaction_identifier.h>
#include <algorithm>
#include <map>
#include <set>
#include <csetjmp>
#include <csignal>

static std::string strip(std::string h)
{
    size_t i = 0;
    while (i + 1 < h.size() && h[i] == '0') ++i;
    return h.substr(i);
}
static uint256 tx_of(const std::string& hex)
{
    std::string s = hex;
    if (s.size() > 64) throw std::runtime_error("txhash too long");
    s = std::string(64 - s.size(), '0') + s;
    auto r = uint256::FromHex(s);
    if (!r) throw std::runtime_error("bad txhash");
    return *r;
}
static std::string run_case(const std::vector<std::string>& w)
{
    std::vector<std::vector<std::string>> ops;
    ops.emplace_back();
    for (auto& t : w) { if (t == ";") ops.emplace_back(); else ops.back().push_back(t); }
    std::set<long long> peers;
    std::map<std::string, uint256> txs; // canonical hex -> value
    auto canon = [&](const std::string& t) { std::string c = strip(tx_of(t).GetHex()); txs[c] = tx_of(t); return c; };
    for (auto& o : ops) {
        if (o.empty()) continue;
        if (o[0] == "inv" || o[0] == "req" || o[0] == "resp") { peers.insert(vd::ll(o.at(1))); canon(o.at(2)); }
        else if (o[0] == "get" || o[0] == "disc") peers.insert(vd::ll(o.at(1)));
        else if (o[0] == "forget") canon(o.at(1));
        else throw std::runtime_error("bad op");
    }
    // sort txhashes numerically (by length then lexicographically on canonical hex)
    std::vector<std::string> txorder;
    for (auto& kv : txs) txorder.push_back(kv.first);
    std::sort(txorder.begin(), txorder.end(), [](const std::string& a, const std::string& b) {
        return a.size() != b.size() ? a.size() < b.size() : a < b; });
    TxRequestTracker tr(/*deterministic=*/true);
    std::string out = "prio";
    for (auto& h : txorder) for (long long p : peers) for (int pf = 0; pf < 2; ++pf)
        out += " " + h + ":" + std::to_string(p) + ":" + std::to_string(pf) + "=" + std::to_string(tr.ComputePriority(txs[h], p, pf));
    for (auto& o : ops) {
        if (o.empty()) continue;
        out += " |";
        if (o[0] == "inv") {
            uint256 h = tx_of(o.at(2));
            GenTxid g = vd::ll(o.at(3)) ? GenTxid{Wtxid::FromUint256(h)} : GenTxid{Txid::FromUint256(h)};
            tr.ReceivedInv(vd::ll(o.at(1)), g, vd::ll(o.at(4)) != 0, std::chrono::microseconds{vd::ll(o.at(5))});
        } else if (o[0] == "get") {
            std::vector<std::pair<NodeId, GenTxid>> expired;
            auto r = tr.GetRequestable(vd::ll(o.at(1)), std::chrono::microseconds{vd::ll(o.at(2))}, &expired);
            out += " r=";
            for (size_t i = 0; i < r.size(); ++i) out += (i ? "," : "") + strip(r[i].ToUint256().GetHex()) + ":" + (r[i].IsWtxid() ? "1" : "0");
            std::vector<std::string> ex;
            for (auto& e : expired) ex.push_back(std::to_string(e.first) + ":" + strip(e.second.ToUint256().GetHex()) + ":" + (e.second.IsWtxid() ? "1" : "0"));
            std::sort(ex.begin(), ex.end());
            out += " e=";
            for (size_t i = 0; i < ex.size(); ++i) out += (i ? "," : "") + ex[i];
        } else if (o[0] == "req") {
            tr.RequestedTx(vd::ll(o.at(1)), tx_of(o.at(2)), std::chrono::microseconds{vd::ll(o.at(3))});
        } else if (o[0] == "resp") {
            tr.ReceivedResponse(vd::ll(o.at(1)), tx_of(o.at(2)));
        } else if (o[0] == "forget") {
            tr.ForgetTxHash(tx_of(o.at(1)));
        } else if (o[0] == "disc") {
            tr.DisconnectedPeer(vd::ll(o.at(1)));
        }
        out += " S=" + std::to_string(tr.Size());
        for (long long p : peers)
            out += " P" + std::to_string(p) + "=" + std::to_string(tr.Count(p)) + "," + std::to_string(tr.CountInFlight(p)) + "," + std::to_string(tr.CountCandidates(p));
        for (auto& h : txorder) {
            std::vector<NodeId> cp;
            tr.GetCandidatePeers(txs[h], cp);
            std::sort(cp.begin(), cp.end());
            out += " T" + h + "=";
            for (size_t i = 0; i < cp.size(); ++i) out += (i ? "," : "") + std::to_string(cp[i]);
        }
    }
    return out;
}

// A failing assert inside the tracker (abort) or a wild access is turned into the result "CRASH <signal>":
// the handler jumps back into the case loop (single-threaded driver; the abandoned tracker is leaked).
static sigjmp_buf g_jmp;
static volatile sig_atomic_t g_sig = 0;
static void on_fatal(int sig) { g_sig = sig; siglongjmp(g_jmp, 1); }

int main(int argc, char** argv)
{
    struct sigaction sa{};
    sa.sa_handler = on_fatal;
    sa.sa_flags = SA_NODEFER;
    sigaction(SIGABRT, &sa, nullptr);
    sigaction(SIGSEGV, &sa, nullptr);
    sigaction(SIGFPE, &sa, nullptr);
    return vd::main_loop([&](const std::vector<std::string>& w, const std::string&) -> std::string {
        if (sigsetjmp(g_jmp, 1) != 0) return "CRASH signal=" + std::to_string((int)g_sig);
        return run_case(w);
    });
}
