// C++ side of the serialization / text codec checks (C48): calls the real WriteCompactSize /
// ReadCompactSize, transaction (un)serialization, HexStr / TryParseHex, base64, base32, base58.
#include <drv_common.h>
#include <base58.h>
#include <primitives/block.h>
#include <primitives/transaction.h>
#include <serialize.h>
#include <streams.h>
#include <uint256.h>
#include <util/moneystr.h>
#include <util/strencodings.h>

#include <csetjmp>
#include <csignal>
#include <ios>

static sigjmp_buf g_abort_env;
static void on_abort(int) { siglongjmp(g_abort_env, 1); }

static std::string err_class(const std::exception& e)
{
    const std::string w{e.what()};
    if (w.find("end of data") != std::string::npos) return "err EOF";
    if (w.find("size too large") != std::string::npos) return "err LARGE";
    if (w.find("non-canonical") != std::string::npos) return "err NONCANON";
    if (w.find("Superfluous witness") != std::string::npos) return "err SUPERFLUOUS";
    if (w.find("Unknown transaction optional data") != std::string::npos) return "err UNKNOWNOPT";
    return "err OTHER";
}

static std::string hexs(const DataStream& ds)
{
    std::vector<unsigned char> v;
    for (auto b : ds) v.push_back((unsigned char)b);
    return vd::hex(v);
}
static DataStream stream_of(const std::string& h)
{
    auto v = vd::unhex(h);
    DataStream ds;
    ds.write(std::as_bytes(std::span<const unsigned char>{v}));
    return ds;
}
static std::string str_of(const std::string& h)
{
    auto v = vd::unhex(h);
    return std::string(v.begin(), v.end());
}
static std::string hex_of_str(const std::string& s) { return vd::hex(s.begin(), s.end()); }

template <typename F>
static std::string guarded(F f)
{
    try {
        return f();
    } catch (const std::ios_base::failure& e) {
        return err_class(e);
    }
}

static std::string tx_tokens(const CMutableTransaction& t)
{
    std::string o = std::to_string(t.version) + " " + std::to_string(t.nLockTime) + " " + std::to_string(t.vin.size());
    for (const auto& in : t.vin) {
        const uint256& h = in.prevout.hash.ToUint256();
        o += " " + vd::hex(h.begin(), h.end()) + " " + std::to_string(in.prevout.n) + " " +
             vd::hex(in.scriptSig.begin(), in.scriptSig.end()) + " " + std::to_string(in.nSequence) + " " +
             std::to_string(in.scriptWitness.stack.size());
        for (const auto& it : in.scriptWitness.stack) o += " " + vd::hex(it);
    }
    o += " " + std::to_string(t.vout.size());
    for (const auto& out : t.vout) o += " " + std::to_string(out.nValue) + " " + vd::hex(out.scriptPubKey.begin(), out.scriptPubKey.end());
    return o;
}

static CMutableTransaction tx_of_tokens(const std::vector<std::string>& w, size_t p)
{
    CMutableTransaction t;
    t.version = (uint32_t)vd::ull(w.at(p++));
    t.nLockTime = (uint32_t)vd::ull(w.at(p++));
    size_t nin = vd::ull(w.at(p++));
    for (size_t i = 0; i < nin; ++i) {
        CTxIn in;
        auto hb = vd::unhex(w.at(p++));
        hb.resize(32);
        in.prevout.hash = Txid::FromUint256(uint256{std::span<const unsigned char>{hb}});
        in.prevout.n = (uint32_t)vd::ull(w.at(p++));
        auto sc = vd::unhex(w.at(p++));
        in.scriptSig = CScript(sc.begin(), sc.end());
        in.nSequence = (uint32_t)vd::ull(w.at(p++));
        size_t nw = vd::ull(w.at(p++));
        for (size_t k = 0; k < nw; ++k) in.scriptWitness.stack.push_back(vd::unhex(w.at(p++)));
        t.vin.push_back(in);
    }
    size_t nout = vd::ull(w.at(p++));
    for (size_t i = 0; i < nout; ++i) {
        CAmount v = (CAmount)vd::ll(w.at(p++));
        auto sc = vd::unhex(w.at(p++));
        t.vout.emplace_back(v, CScript(sc.begin(), sc.end()));
    }
    return t;
}

static std::string read_tx(DataStream& ds, bool aw)
{
    return guarded([&] {
        CMutableTransaction back;
        if (aw) ds >> TX_WITH_WITNESS(back); else ds >> TX_NO_WITNESS(back);
        DataStream re;
        if (aw) re << TX_WITH_WITNESS(back); else re << TX_NO_WITNESS(back);
        return "ok " + tx_tokens(back) + " " + std::to_string(ds.size()) + " " + hexs(re);
    });
}

static std::string read_cs(DataStream ds, bool rc)
{
    return guarded([&] {
        uint64_t v = ReadCompactSize(ds, rc);
        return "ok " + std::to_string(v) + " " + std::to_string(ds.size());
    });
}

template <typename V>
static std::string opt_bytes(const std::optional<V>& v) { return v ? "ok " + vd::hex(*v) : std::string("none"); }

int main(int argc, char** argv)
{
    std::signal(SIGABRT, on_abort);
    return vd::main_loop([&](const std::vector<std::string>& w, const std::string&) -> std::string {
        if (sigsetjmp(g_abort_env, 1) != 0) {
            std::signal(SIGABRT, on_abort);
            return "assert";
        }
        if (w.size() == 2 && w[0] == "cs") {
            DataStream ds;
            WriteCompactSize(ds, vd::ull(w[1]));
            return hexs(ds) + " " + read_cs(ds, true) + " " + read_cs(ds, false);
        }
        if (w.size() == 3 && w[0] == "dcs") return read_cs(stream_of(w[2]), w[1] == "1");
        if (w.size() >= 6 && w[0] == "tx") {
            const bool aw = w[1] == "1";
            CMutableTransaction t = tx_of_tokens(w, 2);
            DataStream ds;
            if (aw) ds << TX_WITH_WITNESS(t); else ds << TX_NO_WITNESS(t);
            std::string enc = hexs(ds);
            return enc + " " + read_tx(ds, aw);
        }
        if (w.size() == 3 && w[0] == "dtx") {
            DataStream ds = stream_of(w[2]);
            return read_tx(ds, w[1] == "1");
        }
        if (w.size() == 3 && w[0] == "dblock") {
            const bool aw = w[1] == "1";
            DataStream ds = stream_of(w[2]);
            return guarded([&] {
                CBlock b;
                if (aw) ds >> TX_WITH_WITNESS(b); else ds >> TX_NO_WITNESS(b);
                DataStream re;
                if (aw) re << TX_WITH_WITNESS(b); else re << TX_NO_WITNESS(b);
                return "ok " + std::to_string(b.nVersion) + " " + vd::hex(b.hashPrevBlock.begin(), b.hashPrevBlock.end()) + " " +
                       vd::hex(b.hashMerkleRoot.begin(), b.hashMerkleRoot.end()) + " " + std::to_string(b.nTime) + " " +
                       std::to_string(b.nBits) + " " + std::to_string(b.nNonce) + " " + std::to_string(b.vtx.size()) + " " +
                       std::to_string(ds.size()) + " " + hexs(re);
            });
        }
        if (w.size() == 2 && w[0] == "hex") {
            auto b = vd::unhex(w[1]);
            std::string s = HexStr(b);
            return hex_of_str(s) + " " + opt_bytes(TryParseHex<unsigned char>(s));
        }
        if (w.size() == 2 && w[0] == "dhex") return opt_bytes(TryParseHex<unsigned char>(str_of(w[1])));
        if (w.size() == 2 && w[0] == "b64") {
            auto b = vd::unhex(w[1]);
            std::string s = EncodeBase64(b);
            return hex_of_str(s) + " " + opt_bytes(DecodeBase64(s));
        }
        if (w.size() == 2 && w[0] == "db64") return opt_bytes(DecodeBase64(str_of(w[1])));
        if (w.size() == 3 && w[0] == "b32") {
            auto b = vd::unhex(w[2]);
            std::string s = EncodeBase32(b, w[1] == "1");
            return hex_of_str(s) + " " + opt_bytes(DecodeBase32(s));
        }
        if (w.size() == 2 && w[0] == "db32") return opt_bytes(DecodeBase32(str_of(w[1])));
        if (w.size() == 2 && w[0] == "b58") {
            auto b = vd::unhex(w[1]);
            std::string s = EncodeBase58(b);
            std::vector<unsigned char> back;
            bool ok = DecodeBase58(s, back, (int)b.size());
            return hex_of_str(s) + " " + (ok ? "ok " + vd::hex(back) : std::string("none"));
        }
        if (w.size() == 3 && w[0] == "db58") {
            std::vector<unsigned char> back;
            bool ok = DecodeBase58(str_of(w[2]), back, (int)vd::ll(w[1]));
            return ok ? "ok " + vd::hex(back) : std::string("none");
        }
        if (w.size() == 2 && w[0] == "money") {
            std::string s = FormatMoney((CAmount)vd::ll(w[1]));
            auto v = ParseMoney(s);
            return hex_of_str(s) + " " + (v ? "ok " + std::to_string(*v) : std::string("none"));
        }
        if (w.size() == 2 && w[0] == "dmoney") {
            auto v = ParseMoney(str_of(w[1]));
            return v ? "ok " + std::to_string(*v) : std::string("none");
        }
        return "BADCASE";
    });
}
