// C++ side of the block-file storage checks (C17): the real Obfuscation::operator() applied to a
// buffer placed at a chosen address modulo 8.
#include <drv_common.h>
#include <cassert>
#include <cstring>
#include <array>
#include <util/obfuscation.h>
#include <chain.h>
#include <consensus/validation.h>
#include <node/blockstorage.h>
#include <primitives/block.h>
#include <streams.h>
#include <test/util/setup_common.h>
#include <undo.h>
#include <util/fs.h>
#include <validation.h>

#include <kernel/notifications_interface.h>
#include <node/kernel_notifications.h>
#include <dbwrapper.h>

#include <fstream>
#include <memory>
#include <optional>

// ---- block files of a deterministic regtest chain (TestChain100Setup, -fastprune: 64 KiB block files) ----
struct ChainFiles {
    std::unique_ptr<TestChain100Setup> setup;
    std::array<unsigned char, 8> key{};    // xor key of the chain's own blocks dir (undo files)
    std::array<unsigned char, 8> key2{};   // xor key of the second store
    // A second block store with 64 KiB block files (fast_prune), filled with the chain's blocks in
    // height order through the real WriteBlock: several files, records of different sizes.
    std::unique_ptr<node::KernelNotifications> notif;
    std::unique_ptr<node::BlockManager> bm2;
    fs::path dir2;
    std::vector<FlatFilePos> pos2;
    ChainFiles()
    {
        TestOpts opts;
        opts.extra_args = {"-fastprune"};
        setup = std::make_unique<TestChain100Setup>(ChainType::REGTEST, opts);
        setup->mineBlocks(260);   // enough to spill into further block files
        {
            LOCK(cs_main);
            setup->m_node.chainman->ActiveChainstate().ForceFlushStateToDisk();
        }
        std::ifstream k(fs::PathToString(setup->m_args.GetBlocksDirPath() / "xor.dat"), std::ios::binary);
        k.read(reinterpret_cast<char*>(key.data()), 8);

        dir2 = setup->m_args.GetDataDirNet() / "c17store";
        fs::create_directories(dir2);
        notif = std::make_unique<node::KernelNotifications>(Assert(setup->m_node.shutdown_request), setup->m_node.exit_status, *Assert(setup->m_node.warnings));
        node::BlockManager::Options o{
            .chainparams = Params(),
            .fast_prune = true,
            .blocks_dir = dir2,
            .notifications = *notif,
            .block_tree_db_params = DBParams{.path = dir2 / "index", .cache_bytes = 0, .memory_only = true},
        };
        bm2 = std::make_unique<node::BlockManager>(*Assert(setup->m_node.shutdown_signal), o);
        {
            LOCK(cs_main);
            const int tip = setup->m_node.chainman->ActiveChain().Height();
            for (int h = 0; h <= tip; ++h) {
                CBlock b;
                if (!bm().ReadBlock(b, *setup->m_node.chainman->ActiveChain()[h])) throw std::runtime_error("cannot read chain block");
                pos2.push_back(bm2->WriteBlock(b, h));
            }
        }
        std::ifstream k2(fs::PathToString(dir2 / "xor.dat"), std::ios::binary);
        k2.read(reinterpret_cast<char*>(key2.data()), 8);
    }
    std::string path2(const FlatFilePos& pos)
    {
        char name[32];
        snprintf(name, sizeof name, "blk%05u.dat", pos.nFile);
        return fs::PathToString(dir2 / fs::PathFromString(std::string{name}));
    }
    node::BlockManager& bm() { return setup->m_node.chainman->m_blockman; }
    const CBlockIndex* index(int h) { LOCK(cs_main); return setup->m_node.chainman->ActiveChain()[h]; }
    std::string path(const FlatFilePos& pos, bool undo)
    {
        char name[32];
        snprintf(name, sizeof name, "%s%05u.dat", undo ? "rev" : "blk", pos.nFile);
        return fs::PathToString(setup->m_args.GetBlocksDirPath() / fs::PathFromString(std::string{name}));
    }
    // plaintext bytes [from, from+len) of a file (fewer at end of file)
    std::vector<unsigned char> plain(const std::string& file, uint64_t from, uint64_t len, const std::array<unsigned char, 8>& key)
    {
        std::ifstream f(file, std::ios::binary);
        f.seekg(0, std::ios::end);
        uint64_t sz = (uint64_t)f.tellg();
        std::vector<unsigned char> out;
        if (from >= sz) return out;
        len = std::min(len, sz - from);
        out.resize(len);
        f.seekg(from);
        f.read(reinterpret_cast<char*>(out.data()), len);
        for (uint64_t i = 0; i < len; ++i) out[i] ^= key[(from + i) % 8];
        return out;
    }
    uint64_t file_size(const std::string& file)
    {
        std::ifstream f(file, std::ios::binary);
        f.seekg(0, std::ios::end);
        return (uint64_t)f.tellg();
    }
    // XOR one byte on disk (a bit flip of the stored byte is the same flip of the plaintext byte)
    void flip(const std::string& file, uint64_t at, unsigned char mask)
    {
        std::fstream f(file, std::ios::binary | std::ios::in | std::ios::out);
        f.seekg(at);
        char c = 0;
        f.read(&c, 1);
        c ^= (char)mask;
        f.seekp(at);
        f.write(&c, 1);
    }
};
static std::unique_ptr<ChainFiles> g_chain;
static ChainFiles& chain()
{
    if (!g_chain) g_chain = std::make_unique<ChainFiles>();
    return *g_chain;
}

int main(int argc, char** argv)
{
    struct Cleanup { ~Cleanup() { g_chain.reset(); } } cleanup;
    return vd::main_loop([&](const std::vector<std::string>& w, const std::string&) -> std::string {
        if (w.size() == 5 && w[0] == "obf") {
            auto key = vd::unhex(w[1]);
            if (key.size() != Obfuscation::KEY_SIZE) return "BADCASE";
            const size_t off = vd::ull(w[2]);
            const size_t mis = vd::ull(w[3]) % 8;
            auto data = vd::unhex(w[4]);
            std::vector<unsigned char> store(data.size() + 32);
            unsigned char* base = store.data();
            while (reinterpret_cast<uintptr_t>(base) % 8 != 0) ++base;   // aligned start
            unsigned char* p = base + mis;                                // address = mis (mod 8)
            if (!data.empty()) std::memcpy(p, data.data(), data.size());
            std::array<std::byte, Obfuscation::KEY_SIZE> kb;
            std::memcpy(kb.data(), key.data(), Obfuscation::KEY_SIZE);
            Obfuscation obf{kb};
            obf(std::span<std::byte>{reinterpret_cast<std::byte*>(p), data.size()}, off);
            return vd::hex(p, p + data.size());
        }
        // dumprec <height> : where the block record and the undo record of that height live (used when cases are generated)
        //   -> <file> <pos> <payload_size> <file_size> <hex of plaintext [pos-8, pos+size+24)> | <ufile> <upos> <usize> <hex of [upos-8, upos+usize+32+8)>
        if (w.size() == 2 && w[0] == "dumprec") {
            ChainFiles& c = chain();
            const CBlockIndex* idx = c.index((int)vd::ll(w[1]));
            if (!idx) return "none";
            FlatFilePos bp = c.pos2.at((size_t)vd::ll(w[1])), up;
            { LOCK(cs_main); up = idx->GetUndoPos(); }
            const std::string bf = c.path2(bp);
            auto hdr = c.plain(bf, bp.nPos - 8, 8, c.key2);
            uint32_t size = hdr[4] | (hdr[5] << 8) | (hdr[6] << 16) | ((uint32_t)hdr[7] << 24);
            std::string out = std::to_string(bp.nFile) + " " + std::to_string(bp.nPos) + " " + std::to_string(size) + " " +
                              std::to_string(c.file_size(bf)) + " " + vd::hex(c.plain(bf, bp.nPos - 8, 8 + (uint64_t)size + 24, c.key2));
            if (!up.IsNull()) {
                const std::string uf = c.path(up, true);
                auto uh = c.plain(uf, up.nPos - 8, 8, c.key);
                uint32_t usize = uh[4] | (uh[5] << 8) | (uh[6] << 16) | ((uint32_t)uh[7] << 24);
                out += " | " + std::to_string(up.nFile) + " " + std::to_string(up.nPos) + " " + std::to_string(usize) + " " +
                       vd::hex(c.plain(uf, up.nPos - 8, 8 + (uint64_t)usize + 32 + 8, c.key));
            }
            return out;
        }
        // rec <height> <slicehex> <tail_known> <rel_off> <mask> : flip a byte of the stored block record, then ReadRawBlock and ReadBlock
        if (w.size() == 6 && w[0] == "rec") {
            ChainFiles& c = chain();
            const CBlockIndex* idx = c.index((int)vd::ll(w[1]));
            if (!idx) return "none";
            FlatFilePos bp = c.pos2.at((size_t)vd::ll(w[1]));
            const std::string bf = c.path2(bp);
            auto expect = vd::unhex(w[2]);
            if (c.plain(bf, bp.nPos - 8, expect.size(), c.key2) != expect) return "MISMATCH stored bytes differ from the case";
            const uint64_t at = bp.nPos - 8 + vd::ull(w[4]);
            const unsigned char mask = (unsigned char)vd::ull(w[5]);
            if (mask) c.flip(bf, at, mask);
            std::string out;
            auto raw = c.bm2->ReadRawBlock(bp);
            out += raw ? "raw=ok:" + vd::hex(reinterpret_cast<const unsigned char*>(raw->data()), reinterpret_cast<const unsigned char*>(raw->data()) + raw->size()) : std::string("raw=err");
            CBlock blk;
            bool ok = c.bm2->ReadBlock(blk, bp, idx->GetBlockHash());
            out += ok ? " blk=1" : " blk=0";
            if (mask) c.flip(bf, at, mask);
            return out;
        }
        // undo <height> <usize> <rel_off> <mask> : flip a byte of the stored undo record (header, payload or checksum), then ReadBlockUndo
        if (w.size() == 5 && w[0] == "undo") {
            ChainFiles& c = chain();
            const CBlockIndex* idx = c.index((int)vd::ll(w[1]));
            if (!idx) return "none";
            FlatFilePos up;
            { LOCK(cs_main); up = idx->GetUndoPos(); }
            if (up.IsNull()) return "none";
            const std::string uf = c.path(up, true);
            const uint64_t at = up.nPos - 8 + vd::ull(w[3]);
            const unsigned char mask = (unsigned char)vd::ull(w[4]);
            if (mask) c.flip(uf, at, mask);
            CBlockUndo u;
            bool ok = c.bm().ReadBlockUndo(u, *idx);
            if (mask) c.flip(uf, at, mask);
            return ok ? "undo=1" : "undo=0";
        }
        return "BADCASE";
    });
}
