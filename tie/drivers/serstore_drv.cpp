// C++ side of the block-file storage checks (C17): the real Obfuscation::operator() applied to a
// buffer placed at a chosen address modulo 8.
#include <drv_common.h>
#include <cassert>
#include <cstring>
#include <array>
#include <util/obfuscation.h>

int main(int argc, char** argv)
{
    return vd::main_loop([&](const std::vector<std::string>& w, const std::string&) -> std::string {
        if (w.size() == 5 && w[0] == "obf") {
            auto key = vd::unhex(w[1]);
            if (key.size() != Obfuscation::KEY_SIZE) return "BADCASE";
            const size_t off = vd::ull(w[2]);
            const size_t mis = vd::ull(w[3]) % 8;
            auto data = vd::unhex(w[4]);
            std::vector<unsigned char> store(data.size() + 32);
            unsigned char* base = store.data();
            while (reinterpret_cast<uintptr_t>(base) % 8 != 0) ++base;   // aligned start
            unsigned char* p = base + mis;                                // address = mis (mod 8)
            if (!data.empty()) std::memcpy(p, data.data(), data.size());
            std::array<std::byte, Obfuscation::KEY_SIZE> kb;
            std::memcpy(kb.data(), key.data(), Obfuscation::KEY_SIZE);
            Obfuscation obf{kb};
            obf(std::span<std::byte>{reinterpret_cast<std::byte*>(p), data.size()}, off);
            return vd::hex(p, p + data.size());
        }
        return "BADCASE";
    });
}
