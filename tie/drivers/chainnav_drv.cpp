// C++ side of the chain navigation family (C54): block trees are built through the node's own
// BlockManager::AddToBlockIndex (pprev, nHeight, BuildSkip, nChainWork), then queried with the real
// CBlockIndex::GetAncestor, LastCommonAncestor, CChain::SetTip/FindFork/operator[], LocatorEntries and
// GetBitsProof.
#include <drv_common.h>
#include <arith_uint256.h>
#include <chain.h>
#include <node/blockstorage.h>
#include <primitives/block.h>
#include <test/util/setup_common.h>
#include <uint256.h>
#include <validation.h>

#include <map>
#include <memory>

static std::string hex256(const arith_uint256& a) { return ArithToUint256(a).GetHex(); }

int main(int argc, char** argv)
{
    std::unique_ptr<TestingSetup> node;
    uint64_t salt = 0;

    return vd::main_loop([&](const std::vector<std::string>& w, const std::string&) -> std::string {
        if (w.size() == 2 && w[0] == "proof") {
            return hex256(GetBitsProof((uint32_t)vd::ull(w[1])));
        }
        if (w.size() >= 4 && w[0] == "tree") {
            if (!node) node = std::make_unique<TestingSetup>(ChainType::REGTEST);
            node::BlockManager& bm = node->m_node.chainman->m_blockman;
            size_t i = 1;
            size_t nb = std::stoul(w.at(i++));
            std::vector<uint32_t> bits;
            for (size_t k = 0; k < nb; ++k) bits.push_back((uint32_t)vd::ull(w.at(i++)));
            size_t n = std::stoul(w.at(i++));
            std::vector<CBlockIndex*> blocks;
            std::map<uint256, size_t> id_of;
            ++salt;
            {
                LOCK(cs_main);
                CBlockIndex* best = nullptr;
                for (size_t b = 0; b < n; ++b) {
                    CBlockHeader h;
                    h.nVersion = 1;
                    if (b == 0) {
                        // a private genesis: its predecessor hash is not in the index
                        uint256 fake;
                        *fake.begin() = 0xee;
                        for (int k = 0; k < 8; ++k) *(fake.begin() + 8 + k) = (unsigned char)(salt >> (8 * k));
                        h.hashPrevBlock = fake;
                    } else {
                        size_t p = std::stoul(w.at(i++));
                        h.hashPrevBlock = blocks.at(p)->GetBlockHash();
                    }
                    h.nBits = bits[b % nb];
                    h.nTime = (uint32_t)(1000 + b);
                    h.nNonce = (uint32_t)b;
                    for (int k = 0; k < 8; ++k) *(h.hashMerkleRoot.begin() + k) = (unsigned char)(salt >> (8 * k));
                    CBlockIndex* pi = bm.AddToBlockIndex(h, best);
                    id_of[pi->GetBlockHash()] = b;
                    blocks.push_back(pi);
                }
            }
            auto id = [&](const CBlockIndex* p) -> std::string {
                if (!p) return "null";
                auto it = id_of.find(p->GetBlockHash());
                return it == id_of.end() ? std::string("FOREIGN") : std::to_string(it->second);
            };
            if (w.at(i) != "|") return "BADCASE";
            ++i;
            std::string out;
            auto emit = [&](const std::string& s) { if (!out.empty()) out += " "; out += s; };
            while (i < w.size()) {
                const std::string& q = w[i++];
                if (q == "a") {
                    const CBlockIndex* b = blocks.at(std::stoul(w.at(i++)));
                    int h = (int)vd::ll(w.at(i++));
                    emit(id(b->GetAncestor(h)));
                } else if (q == "s") {
                    emit(id(blocks.at(std::stoul(w.at(i++)))->pskip));
                } else if (q == "h") {
                    emit(std::to_string(blocks.at(std::stoul(w.at(i++)))->nHeight));
                } else if (q == "w") {
                    emit(hex256(blocks.at(std::stoul(w.at(i++)))->nChainWork));
                } else if (q == "l") {
                    const CBlockIndex* a = blocks.at(std::stoul(w.at(i++)));
                    const CBlockIndex* b = blocks.at(std::stoul(w.at(i++)));
                    emit(id(LastCommonAncestor(a, b)));
                } else if (q == "f") {
                    CBlockIndex* tip = blocks.at(std::stoul(w.at(i++)));
                    const CBlockIndex* b = blocks.at(std::stoul(w.at(i++)));
                    CChain c;
                    c.SetTip(*tip);
                    emit(id(c.FindFork(*b)));
                } else if (q == "c") {
                    CBlockIndex* tip = blocks.at(std::stoul(w.at(i++)));
                    int h = (int)vd::ll(w.at(i++));
                    CChain c;
                    c.SetTip(*tip);
                    emit(id(c[h]));
                } else if (q == "loc") {
                    const CBlockIndex* b = blocks.at(std::stoul(w.at(i++)));
                    std::string s;
                    for (const uint256& hsh : LocatorEntries(b)) {
                        auto it = id_of.find(hsh);
                        if (!s.empty()) s += ",";
                        s += (it == id_of.end() ? std::string("FOREIGN") : std::to_string(it->second));
                    }
                    emit(s);
                } else {
                    return "BADCASE";
                }
            }
            return out;
        }
        return "BADCASE";
    });
}
