// C++ side of C25: drives the REAL TxGraph (MakeTxGraph) with an operation script over a small
// universe of transactions and prints, at every `q` step, everything the public interface answers
// for main and staging.
//
// case:  <max_cluster_count> <max_cluster_size> <acceptable_cost> <U> | op ; op ; ...
// ops:   add i fee size | rm i | dep p c | fee i f | destroy i | start | commit | abort | trim |
//        work n | q <skipmask> [subset ...]        (subset = ids joined by '.')
// output: one segment per `q` (dump) and per `trim` (T=<removed ids>), joined by " | ".
//
// Driver-side bookkeeping (none of it comes from the graph under test):
//  * used[i]: a Ref can be given to AddTransaction once; `add` of a used id is skipped.
//  * live_m / live_s: which ids were added and not removed at each level, from the script alone
//    (Trim results are taken from what Trim returned).
//  * gh[level][a][d]: transitive closure of ALL dependencies ever requested at that level between
//    then-live transactions (never shrunk by removals). AddDependency(p,c) is skipped when p == c or
//    gh[c][p]: the interface forbids a parent that is already a descendant of the child, and the
//    closure over removed transactions is a superset of the real descendant relation.
#include <drv_common.h>
#include <txgraph.h>
#include <util/feefrac.h>

#include <algorithm>
#include <array>
#include <memory>
#include <optional>

namespace {
struct Tx : public TxGraph::Ref {
    int id;
    explicit Tx(int i) : id(i) {}
};

constexpr int MAXU = 16;
using Mat = std::array<std::array<bool, MAXU>, MAXU>;

std::string ids(std::vector<int> v, bool sort = true)
{
    if (sort) std::sort(v.begin(), v.end());
    if (v.empty()) return "-";
    std::string s;
    for (size_t i = 0; i < v.size(); ++i) s += (i ? "." : "") + std::to_string(v[i]);
    return s;
}
std::vector<int> refs_ids(const std::vector<TxGraph::Ref*>& v)
{
    std::vector<int> o;
    for (auto* r : v) o.push_back(r ? static_cast<Tx*>(r)->id : -1);
    return o;
}
std::string fr(const FeeFrac& f) { return std::to_string(f.fee) + ":" + std::to_string(f.size); }

std::vector<std::string> split(const std::string& s, const std::string& sep)
{
    std::vector<std::string> out;
    size_t p = 0;
    while (true) {
        size_t q = s.find(sep, p);
        if (q == std::string::npos) { out.push_back(s.substr(p)); break; }
        out.push_back(s.substr(p, q - p));
        p = q + sep.size();
    }
    return out;
}
} // namespace

int main()
{
    return vd::main_loop([&](const std::vector<std::string>&, const std::string& line) -> std::string {
        auto parts = split(line, " | ");
        if (parts.size() < 1) return "BADCASE";
        auto hd = vd::words(parts[0]);
        if (hd.size() < 4) return "BADCASE";
        unsigned maxcount = std::stoul(hd[0]);
        uint64_t maxsize = std::stoull(hd[1]);
        uint64_t cost = std::stoull(hd[2]);
        int U = std::stoi(hd[3]);
        if (U > MAXU || U < 1 || maxcount < 1 || maxcount > MAX_CLUSTER_COUNT_LIMIT) return "BADCASE";
        std::vector<std::string> ops;
        if (parts.size() > 1 && !parts[1].empty()) ops = split(parts[1], " ; ");

        auto fallback = [](const TxGraph::Ref& a, const TxGraph::Ref& b) noexcept {
            return static_cast<const Tx&>(a).id <=> static_cast<const Tx&>(b).id;
        };
        // Refs must outlive nothing in particular (they may outlive the graph), but the graph is
        // destroyed first here so that ~Ref of live transactions does not run removals.
        std::vector<std::unique_ptr<Tx>> refs(U);
        Tx empty_ref(-1);
        auto real = MakeTxGraph(maxcount, maxsize, cost, fallback);
        std::vector<bool> used(U, false), live_m(U, false), live_s(U, false);
        bool staging = false;
        Mat gh_m{}, gh_s{};
        std::vector<std::string> out;

        auto ref_of = [&](int i) -> Tx& { return (i >= 0 && i < U && refs[i]) ? *refs[i] : empty_ref; };
        auto top_live = [&]() -> std::vector<bool>& { return staging ? live_s : live_m; };

        auto dump_level = [&](bool is_main, const std::vector<std::vector<int>>& subsets) -> std::string {
            const char* pf = is_main ? "m." : "s.";
            auto level = is_main ? TxGraph::Level::MAIN : TxGraph::Level::TOP;
            std::string s;
            s += std::string(pf) + "n=" + std::to_string(real->GetTransactionCount(level));
            bool ov = real->IsOversized(level);
            s += std::string(" ") + pf + "ov=" + (ov ? "1" : "0");
            std::vector<int> ex;
            for (int i = 0; i < U; ++i) if (real->Exists(ref_of(i), level)) ex.push_back(i);
            s += std::string(" ") + pf + "ex=" + ids(ex);
            if (ov) return s;
            // force application of everything that is pending at this level
            real->CountDistinctClusters({}, level);
            std::string anc, desc, clu;
            for (int i : ex) {
                auto a = refs_ids(real->GetAncestors(ref_of(i), level));
                auto d = refs_ids(real->GetDescendants(ref_of(i), level));
                auto c = refs_ids(real->GetCluster(ref_of(i), level));
                anc += (anc.empty() ? "" : ",") + std::to_string(i) + ":" + ids(a);
                desc += (desc.empty() ? "" : ",") + std::to_string(i) + ":" + ids(d);
                clu += (clu.empty() ? "" : ",") + std::to_string(i) + ":" + ids(c, /*sort=*/false);
            }
            s += std::string(" ") + pf + "anc=" + (anc.empty() ? "-" : anc);
            s += std::string(" ") + pf + "desc=" + (desc.empty() ? "-" : desc);
            s += std::string(" ") + pf + "clu=" + (clu.empty() ? "-" : clu);
            // queries on non-existing / never-added refs must give empty answers
            std::string ne;
            for (int i = 0; i < U; ++i) {
                if (std::find(ex.begin(), ex.end(), i) != ex.end()) continue;
                size_t k = real->GetAncestors(ref_of(i), level).size() + real->GetDescendants(ref_of(i), level).size() +
                           real->GetCluster(ref_of(i), level).size();
                if (k) ne += (ne.empty() ? "" : ".") + std::to_string(i);
            }
            s += std::string(" ") + pf + "ne=" + (ne.empty() ? "-" : ne);
            std::string cdc, au, du;
            for (const auto& sub : subsets) {
                std::vector<const TxGraph::Ref*> args;
                for (int i : sub) args.push_back(&ref_of(i));
                cdc += (cdc.empty() ? "" : ",") + std::to_string(real->CountDistinctClusters(args, level));
                au += (au.empty() ? "" : ",") + ids(refs_ids(real->GetAncestorsUnion(args, level)));
                du += (du.empty() ? "" : ",") + ids(refs_ids(real->GetDescendantsUnion(args, level)));
            }
            s += std::string(" ") + pf + "cdc=" + (cdc.empty() ? "-" : cdc);
            s += std::string(" ") + pf + "au=" + (au.empty() ? "-" : au);
            s += std::string(" ") + pf + "du=" + (du.empty() ? "-" : du);
            if (!is_main) return s;
            // ordering answers of the main graph
            std::string cf, cmp;
            for (int i : ex) cf += (cf.empty() ? "" : ",") + std::to_string(i) + ":" + fr(real->GetMainChunkFeerate(ref_of(i)));
            for (int i : ex) {
                std::string row;
                for (int j : ex) {
                    auto c = real->CompareMainOrder(ref_of(i), ref_of(j));
                    row += c < 0 ? '<' : c > 0 ? '>' : '=';
                }
                cmp += (cmp.empty() ? "" : ",") + row;
            }
            s += " cf=" + (cf.empty() ? std::string("-") : cf);
            s += " cmp=" + (cmp.empty() ? std::string("-") : cmp);
            return s;
        };

        auto builder_walk = [&](unsigned skipmask) -> std::string {
            // a chunk is printed as ids:fee:size, a skipped one is prefixed with '!'
            std::string s;
            auto builder = real->GetBlockBuilder();
            unsigned k = 0;
            while (auto chunk = builder->GetCurrentChunk()) {
                auto again = builder->GetCurrentChunk();
                bool same = again && again->first == chunk->first && again->second == chunk->second;
                bool skip = (skipmask >> (k % 16)) & 1;
                s += (s.empty() ? "" : ",") + std::string(skip ? "!" : "") + (same ? "" : "?") +
                     ids(refs_ids(chunk->first), false) + ":" + fr(chunk->second);
                if (skip) builder->Skip(); else builder->Include();
                ++k;
                if (k > 64) { s += ",LOOP"; break; }
            }
            return s.empty() ? "-" : s;
        };

        auto dump = [&](unsigned skipmask, const std::vector<std::vector<int>>& subsets) -> std::string {
            std::string s = std::string("st=") + (real->HaveStaging() ? "1" : "0");
            std::string frs;
            for (int i = 0; i < U; ++i) {
                auto f = real->GetIndividualFeerate(ref_of(i));
                if (!f.IsEmpty()) frs += (frs.empty() ? "" : ",") + std::to_string(i) + ":" + fr(f);
            }
            s += " fr=" + (frs.empty() ? std::string("-") : frs);
            s += " " + dump_level(true, subsets);
            bool m_ov = real->IsOversized(TxGraph::Level::MAIN);
            bool s_ov = false;
            if (real->HaveStaging()) {
                s += " " + dump_level(false, subsets);
                s_ov = real->IsOversized(TxGraph::Level::TOP);
            }
            if (!m_ov) {
                s += " bb=" + builder_walk(0);
                if (skipmask) s += " bbs=" + builder_walk(skipmask);
                auto [wc, wf] = real->GetWorstMainChunk();
                s += " wc=" + ids(refs_ids(wc), false) + ":" + fr(wf);
            }
            if (real->HaveStaging() && !m_ov && !s_ov) {
                auto [dm, ds] = real->GetMainStagingDiagrams();
                std::string a, b;
                for (auto& f : dm) a += (a.empty() ? "" : ",") + fr(f);
                for (auto& f : ds) b += (b.empty() ? "" : ",") + fr(f);
                s += " dgm=" + (a.empty() ? std::string("-") : a) + " dgs=" + (b.empty() ? std::string("-") : b);
            }
            return s;
        };

        auto close_add = [&](Mat& g, int p, int c) {
            // all (a,d) with a in anc*(p), d in desc*(c)
            std::vector<int> as{p}, ds{c};
            for (int a = 0; a < U; ++a) if (g[a][p]) as.push_back(a);
            for (int d = 0; d < U; ++d) if (g[c][d]) ds.push_back(d);
            for (int a : as) for (int d : ds) g[a][d] = true;
        };

        for (const auto& op : ops) {
            auto w = vd::words(op);
            if (w.empty()) continue;
            const std::string& o = w[0];
            if (o == "add") {
                int i = std::stoi(w.at(1));
                int64_t fee = std::stoll(w.at(2));
                int32_t size = std::stoi(w.at(3));
                if (i < 0 || i >= U || used[i] || size <= 0) continue;
                used[i] = true;
                refs[i] = std::make_unique<Tx>(i);
                real->AddTransaction(*refs[i], FeePerWeight{fee, size});
                top_live()[i] = true;
            } else if (o == "rm") {
                int i = std::stoi(w.at(1));
                if (i < 0 || i >= U) continue;
                real->RemoveTransaction(ref_of(i));
                top_live()[i] = false;
            } else if (o == "dep") {
                int p = std::stoi(w.at(1)), c = std::stoi(w.at(2));
                if (p < 0 || p >= U || c < 0 || c >= U) continue;
                Mat& g = staging ? gh_s : gh_m;
                if (p == c || g[c][p]) continue; // would violate the interface precondition
                real->AddDependency(ref_of(p), ref_of(c));
                if (top_live()[p] && top_live()[c]) close_add(g, p, c);
            } else if (o == "fee") {
                int i = std::stoi(w.at(1));
                if (i < 0 || i >= U) continue;
                real->SetTransactionFee(ref_of(i), std::stoll(w.at(2)));
            } else if (o == "destroy") {
                int i = std::stoi(w.at(1));
                if (i < 0 || i >= U) continue;
                refs[i].reset(); // ~Ref -> UnlinkRef: removed from every level
                live_m[i] = false;
                live_s[i] = false;
            } else if (o == "start") {
                if (staging) continue;
                real->StartStaging();
                staging = true;
                live_s = live_m;
                gh_s = gh_m;
            } else if (o == "commit") {
                if (!staging) continue;
                real->CommitStaging();
                staging = false;
                live_m = live_s;
                gh_m = gh_s;
            } else if (o == "abort") {
                if (!staging) continue;
                real->AbortStaging();
                staging = false;
            } else if (o == "trim") {
                auto removed = refs_ids(real->Trim());
                for (int i : removed) if (i >= 0 && i < U) top_live()[i] = false;
                out.push_back("T=" + ids(removed));
            } else if (o == "work") {
                real->DoWork(std::stoull(w.at(1)));
            } else if (o == "q") {
                unsigned skipmask = w.size() > 1 ? std::stoul(w[1]) : 0;
                std::vector<std::vector<int>> subsets;
                for (size_t k = 2; k < w.size(); ++k) {
                    std::vector<int> sub;
                    if (w[k] != "-") for (auto& t : split(w[k], ".")) sub.push_back(std::stoi(t));
                    subsets.push_back(sub);
                }
                real->SanityCheck();
                out.push_back(dump(skipmask, subsets));
            } else {
                return "BADCASE op " + o;
            }
            real->SanityCheck();
        }
        real.reset();
        std::string res;
        for (size_t i = 0; i < out.size(); ++i) res += (i ? " | " : "") + out[i];
        return res.empty() ? "-" : res;
    });
}
