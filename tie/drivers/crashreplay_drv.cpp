// C++ side of C16: the real CCoinsViewDB::BatchWrite, Chainstate::FlushStateToDisk, Chainstate::ReplayBlocks
// and Chainstate::LoadChainTip on a regtest TestChain100Setup, with real blocks and transactions.
//
// A scenario (see ocaml/crashreplay_driver.ml for the case format) is built as real blocks on top of the
// fixture chain; the chainstate is flushed at the old tip a, moved to the new tip b, and flushed again with a
// tiny batch size.  A log callback takes a snapshot of the coins database (all coins, best block, head blocks)
// right before every WriteBatch of BatchWrite ("Writing partial batch" / "Writing final batch"), i.e. the
// durable state after 0, 1, 2, ... batches.  For EVERY such crash point the database is put back to the
// snapshot, the in-memory cache and chain are dropped (a restart), and the real ReplayBlocks + LoadChainTip
// run; the recovered best block and the complete coin set (database cursor) are printed.  The same is done
// one level down for crashes inside the flush that ends ReplayBlocks.
#include <drv_common.h>
#define private public
#define protected public
#include <txdb.h>
#include <validation.h>
#include <chain.h>
#include <coins.h>
#include <dbwrapper.h>
#undef private
#undef protected
#include <test/util/setup_common.h>
#include <consensus/merkle.h>
#include <consensus/validation.h>
#include <logging.h>
#include <pow.h>
#include <script/sign.h>
#include <script/signingprovider.h>
#include <algorithm>
#include <map>
#include <set>

namespace {
struct CoinKey {
    COutPoint* outpoint;
    uint8_t key{'C'};
    explicit CoinKey(const COutPoint* p) : outpoint(const_cast<COutPoint*>(p)) {}
    SERIALIZE_METHODS(CoinKey, obj) { READWRITE(obj.key, obj.outpoint->hash, VARINT(obj.outpoint->n)); }
};
constexpr uint8_t KEY_BEST{'B'};
constexpr uint8_t KEY_HEADS{'H'};

struct Snapshot {
    std::vector<std::pair<COutPoint, Coin>> coins;
    uint256 best;
    std::vector<uint256> heads;
};

struct ScTx { int label; std::vector<std::pair<int, int>> ins; std::vector<std::string> outs; };
struct ScBlock { int label, parent; CAmount cbv; std::vector<ScTx> txs; };
} // namespace

int main()
{
    TestChain100Setup setup{ChainType::REGTEST};
    const int P = 130;
    setup.mineBlocks(P - 100);
    ChainstateManager& cm = *setup.m_node.chainman;
    Chainstate& cs = cm.ActiveChainstate();
    CCoinsViewDB& cdb = WITH_LOCK(cs_main, return std::ref(cs.CoinsDB()));
    const Consensus::Params& cons = cm.GetConsensus();
    LogInstance().EnableCategory(BCLog::COINDB);
    LogInstance().EnableCategory(BCLog::BENCH);

    std::map<Txid, int> txlabel;       // real txid -> scenario label
    std::map<uint256, int> blocklabel; // real block hash -> scenario label
    CBlockIndex* F0;
    std::vector<CTransactionRef> base_cb(P + 1);
    {
        LOCK(cs_main);
        F0 = cs.m_chain.Tip();
        if (F0->nHeight != P) { std::cout << "setup failed" << std::endl; return 1; }
        for (int h = 1; h <= P; ++h) {
            CBlock blk;
            if (!cm.m_blockman.ReadBlock(blk, *cs.m_chain[h])) return 1;
            base_cb[h] = blk.vtx[0];
            txlabel[blk.vtx[0]->GetHash()] = h;
        }
        blocklabel[F0->GetBlockHash()] = 0;
    }
    {
        BlockValidationState st;
        cs.FlushStateToDisk(st, FlushStateMode::FORCE_FLUSH);
    }
    FillableSigningProvider keystore;
    keystore.AddKey(setup.coinbaseKey);
    const uint64_t normal_batch = cdb.m_options.batch_write_bytes;
    uint64_t counter = 0;

    // ---- database snapshots ----
    auto take = [&]() {
        Snapshot s;
        s.best = cdb.GetBestBlock();
        s.heads = cdb.GetHeadBlocks();
        std::unique_ptr<CCoinsViewCursor> cur = cdb.Cursor();
        while (cur->Valid()) {
            COutPoint o; Coin c;
            if (cur->GetKey(o) && cur->GetValue(c)) s.coins.emplace_back(o, c);
            cur->Next();
        }
        return s;
    };
    auto restore = [&](const Snapshot& s) {
        CDBBatch batch(*cdb.m_db);
        {
            std::unique_ptr<CCoinsViewCursor> cur = cdb.Cursor();
            while (cur->Valid()) {
                COutPoint o;
                if (cur->GetKey(o)) batch.Erase(CoinKey(&o));
                cur->Next();
            }
        }
        for (const auto& [o, c] : s.coins) batch.Write(CoinKey(&o), c);
        if (s.best.IsNull()) batch.Erase(KEY_BEST); else batch.Write(KEY_BEST, s.best);
        if (s.heads.empty()) batch.Erase(KEY_HEADS); else batch.Write(KEY_HEADS, s.heads);
        cdb.m_db->WriteBatch(batch);
    };

    // ---- the log hook: events of FlushStateToDisk in order, a snapshot before every coin batch ----
    bool armed = false;
    std::vector<Snapshot> snaps;
    std::string order;
    LogInstance().PushBackCallback([&](const std::string& s) {
        if (!armed) return;
        if (s.find("Writing partial batch") != std::string::npos || s.find("Writing final batch") != std::string::npos) {
            snaps.push_back(take());
            if (order.empty() || order.back() != 'C') order += 'C';
        } else if (s.find("write block and undo data to disk") != std::string::npos) {
            if (order.empty() || order.back() != 'F') order += 'F';
        } else if (s.find("write block index to disk") != std::string::npos) {
            if (order.empty() || order.back() != 'I') order += 'I';
        } else if (s.find("unlink pruned files") != std::string::npos) {
            if (order.empty() || order.back() != 'U') order += 'U';
        }
    });

    // ---- a restart: forget the cache and the active chain, ReplayBlocks, LoadChainTip ----
    auto restart = [&]() -> std::string {
        LOCK(cs_main);
        cs.m_coins_views->InitCache(0);
        cs.m_chain.vChain.clear();
        cs.setBlockIndexCandidates.clear();
        if (!cs.ReplayBlocks()) return "fail:replay";
        if (cs.CoinsTip().GetBestBlock().IsNull()) return "fail:nobest";
        if (!cs.LoadChainTip()) return "fail:loadtip";
        return "ok";
    };

    return vd::main_loop([&](const std::vector<std::string>& w, const std::string&) -> std::string {
        if (w.at(0) != "reorg") return "BADCASE";
        size_t p = 1;
        auto nexti = [&]() { return std::stoll(w.at(p++)); };
        if (nexti() != P) return "BADCASE premine";
        const uint64_t Q = (uint64_t)nexti();
        const bool second = nexti() == 1;
        const int nblocks = (int)nexti();
        std::vector<ScBlock> scb;
        for (int i = 0; i < nblocks; ++i) {
            if (w.at(p++) != "b") return "BADCASE b";
            ScBlock b;
            b.label = (int)nexti(); b.parent = (int)nexti(); b.cbv = nexti();
            int ntx = (int)nexti();
            for (int j = 0; j < ntx; ++j) {
                if (w.at(p++) != "t") return "BADCASE t";
                ScTx t;
                t.label = (int)nexti();
                int nin = (int)nexti();
                for (int k = 0; k < nin; ++k) { int a = (int)nexti(); int v = (int)nexti(); t.ins.emplace_back(a, v); }
                int nout = (int)nexti();
                for (int k = 0; k < nout; ++k) t.outs.push_back(w.at(p++));
                b.txs.push_back(t);
            }
            scb.push_back(b);
        }
        const int la = (int)nexti(), lb = (int)nexti();

        // ---- build the real transactions and blocks ----
        std::map<int, CTransactionRef> txs; // by label
        for (int h = 1; h <= P; ++h) txs[h] = base_cb[h];
        std::map<int, std::shared_ptr<const CBlock>> blocks;
        std::map<int, uint256> bhash;
        std::map<int, int> bheight, bparent;
        std::map<int, uint32_t> btime;
        bhash[0] = F0->GetBlockHash(); bheight[0] = P; btime[0] = F0->nTime;
        std::vector<uint256> case_hashes;
        for (const ScBlock& b : scb) {
            if (!bhash.count(b.parent)) return "BADCASE parent";
            auto blk = std::make_shared<CBlock>();
            const int height = bheight[b.parent] + 1;
            blk->nVersion = 0x20000000;
            blk->hashPrevBlock = bhash[b.parent];
            blk->nTime = btime[b.parent] + 1;
            blk->nBits = 0x207fffff;
            blk->nNonce = 0;
            CMutableTransaction cb;
            cb.version = 2;
            cb.vin.resize(1);
            cb.vin[0].prevout.SetNull();
            cb.vin[0].scriptSig = CScript() << height << CScriptNum((int64_t)++counter) << OP_0;
            cb.vout.resize(2);
            cb.vout[0].scriptPubKey = CScript() << OP_TRUE;
            cb.vout[0].nValue = b.cbv;
            cb.vout[1].scriptPubKey = CScript() << OP_RETURN;
            cb.vout[1].nValue = 0;
            CTransactionRef cbref = MakeTransactionRef(std::move(cb));
            txs[1000 + b.label] = cbref;
            txlabel[cbref->GetHash()] = 1000 + b.label;
            blk->vtx.push_back(cbref);
            for (const ScTx& t : b.txs) {
                if (!txs.count(t.label)) {
                    CMutableTransaction mtx;
                    mtx.version = 2;
                    for (const auto& [il, iv] : t.ins) {
                        if (!txs.count(il)) return "BADCASE input";
                        mtx.vin.emplace_back(COutPoint(txs[il]->GetHash(), (uint32_t)iv));
                    }
                    for (const std::string& o : t.outs) {
                        if (o == "u") mtx.vout.emplace_back(0, CScript() << OP_RETURN);
                        else mtx.vout.emplace_back((CAmount)std::stoll(o), CScript() << OP_TRUE);
                    }
                    for (size_t i = 0; i < t.ins.size(); ++i) {
                        const CTransactionRef& prev = txs[t.ins[i].first];
                        if ((size_t)t.ins[i].second >= prev->vout.size()) return "BADCASE vout";
                        const CTxOut& po = prev->vout[t.ins[i].second];
                        if (t.ins[i].first <= P) { // a fixture coinbase: pay-to-pubkey of coinbaseKey
                            SignatureData sd;
                            if (!ProduceSignature(keystore, MutableTransactionSignatureCreator(mtx, (unsigned int)i, po.nValue, SignOptions{.sighash_type = SIGHASH_ALL}), po.scriptPubKey, sd)) return "BADCASE sign";
                            UpdateInput(mtx.vin[i], sd);
                        }
                    }
                    CTransactionRef ref = MakeTransactionRef(std::move(mtx));
                    txs[t.label] = ref;
                    txlabel[ref->GetHash()] = t.label;
                }
                blk->vtx.push_back(txs[t.label]);
            }
            blk->hashMerkleRoot = BlockMerkleRoot(*blk);
            while (!CheckProofOfWork(blk->GetHash(), blk->nBits, cons)) ++blk->nNonce;
            blocks[b.label] = blk;
            bhash[b.label] = blk->GetHash();
            bheight[b.label] = height;
            bparent[b.label] = b.parent;
            btime[b.label] = blk->nTime;
            blocklabel[blk->GetHash()] = b.label;
            case_hashes.push_back(blk->GetHash());
        }
        if (!bhash.count(la) || !bhash.count(lb)) return "BADCASE tips";
        auto path = [&](int l) { std::vector<int> v; while (l != 0) { v.push_back(l); l = bparent[l]; } std::reverse(v.begin(), v.end()); return v; };
        const std::vector<int> pa = path(la), pb = path(lb);
        size_t common = 0;
        while (common < pa.size() && common < pb.size() && pa[common] == pb[common]) ++common;
        auto tip_label = [&]() { LOCK(cs_main); auto it = blocklabel.find(cs.m_chain.Tip()->GetBlockHash()); return it == blocklabel.end() ? -2 : it->second; };
        auto submit = [&](int l) { cm.ProcessNewBlock(blocks[l], /*force_processing=*/true, /*min_pow_checked=*/true, nullptr); };
        auto index_of = [&](int l) { LOCK(cs_main); return cm.m_blockman.LookupBlockIndex(bhash[l]); };
        auto cleanup = [&]() {
            // back to F0: invalidate every block of this case that sits directly on F0
            for (const ScBlock& b : scb) {
                if (b.parent != 0) continue;
                CBlockIndex* pi = index_of(b.label);
                if (!pi) continue;
                BlockValidationState st;
                cs.InvalidateBlock(st, pi);
            }
            BlockValidationState st;
            cs.ActivateBestChain(st);
            cs.FlushStateToDisk(st, FlushStateMode::FORCE_FLUSH);
        };
        std::string result;
        auto fail = [&](const std::string& why) { armed = false; cdb.m_options.batch_write_bytes = normal_batch; cleanup(); return "BADCASE " + why + " tip=" + std::to_string(tip_label()); };

        // 1. the node is at the old tip a, fully flushed
        for (int l : pa) submit(l);
        if (tip_label() != la) return fail("cannot reach a");
        {
            BlockValidationState st;
            if (!cs.FlushStateToDisk(st, FlushStateMode::FORCE_FLUSH)) return fail("flush a");
        }
        // 2. the node moves to the new tip b (by work when b has more, otherwise the old branch is invalidated), nothing flushed
        bool invalidated = false;
        for (size_t i = common; i < pb.size(); ++i) submit(pb[i]);
        if (tip_label() != lb) {
            if (common < pa.size()) {
                BlockValidationState st;
                cs.InvalidateBlock(st, index_of(pa[common]));
                cs.ActivateBestChain(st);
                invalidated = true;
            }
        }
        if (tip_label() != lb) return fail("cannot reach b");
        const arith_uint256 work_a = index_of(la)->nChainWork;
        // 3. the interrupted flush: every batch boundary is a crash point
        snaps.clear(); order.clear();
        cdb.m_options.batch_write_bytes = Q;
        armed = true;
        {
            BlockValidationState st;
            if (!cs.FlushStateToDisk(st, FlushStateMode::FORCE_FLUSH)) return fail("flush b");
        }
        armed = false;
        std::vector<Snapshot> level1 = snaps;
        level1.push_back(take());
        const std::string order1 = order;
        const int nb = (int)level1.size() - 1;

        // ---- printing coin sets ----
        std::vector<std::string> set_text;
        auto coin_text = [&](const Snapshot& s) {
            struct C { long long l; uint32_t v; int h; bool cb; CAmount val; };
            std::vector<C> cs_;
            for (const auto& [o, c] : s.coins) {
                auto it = txlabel.find(o.hash);
                cs_.push_back(C{it == txlabel.end() ? -1 : it->second, o.n, (int)c.nHeight, c.IsCoinBase(), c.out.nValue});
            }
            std::sort(cs_.begin(), cs_.end(), [](const C& x, const C& y) { return x.l != y.l ? x.l < y.l : x.v < y.v; });
            std::string out;
            long long lo = 0, hi = 0;
            auto flush_run = [&]() { if (lo > 0) { out += (out.empty() ? "" : " ") + ("G" + std::to_string(lo) + "-" + std::to_string(hi)); lo = 0; } };
            for (const C& c : cs_) {
                const bool canon = c.l >= 1 && c.l <= P && c.v == 0 && c.h == c.l && c.cb && c.val == 5000000000LL;
                if (canon) {
                    if (lo > 0 && c.l == hi + 1) hi = c.l; else { flush_run(); lo = hi = c.l; }
                } else {
                    flush_run();
                    out += (out.empty() ? "" : " ") + (std::to_string(c.l) + "." + std::to_string(c.v) + "." + std::to_string(c.h) + "." + (c.cb ? "1" : "0") + "." + std::to_string(c.val));
                }
            }
            flush_run();
            return out;
        };
        auto set_id = [&](const Snapshot& s) {
            std::string t = coin_text(s);
            for (size_t i = 0; i < set_text.size(); ++i) if (set_text[i] == t) return (int)i;
            set_text.push_back(t);
            return (int)set_text.size() - 1;
        };
        auto best_label = [&](const uint256& h) { if (h.IsNull()) return -1; auto it = blocklabel.find(h); return it == blocklabel.end() ? -2 : it->second; };

        std::vector<std::string> recs;
        bool work_ok = true;
        auto after = [&](const std::string& status) {
            if (status != "ok") return status + " -1 0";
            Snapshot s = take();
            return status + " " + std::to_string(best_label(s.best)) + " " + std::to_string(set_id(s));
        };
        for (int k = 0; k <= nb; ++k) {
            restore(level1[k]);
            const bool marker = !level1[k].heads.empty();
            std::string rec = "R " + std::to_string(k) + " " + (marker ? "1" : "0") + " " + std::to_string(best_label(level1[k].best)) + " " + std::to_string(set_id(level1[k])) + " ";
            snaps.clear();
            const bool do_second = second && marker && (k == 1 || k == nb / 2 || k == nb - 1);
            armed = do_second;
            std::string status = restart();
            armed = false;
            std::vector<Snapshot> level2 = snaps;
            recs.push_back(rec + after(status));
            if (status == "ok" && !invalidated) {
                // the node resumes connecting its stored blocks
                BlockValidationState st;
                {
                    LOCK(cs_main);
                    cs.PopulateBlockIndexCandidates();
                }
                cs.ActivateBestChain(st);
                LOCK(cs_main);
                if (cs.m_chain.Tip()->nChainWork < work_a) work_ok = false;
            }
            if (do_second) {
                for (size_t k2 = 0; k2 < level2.size(); ++k2) {
                    restore(level2[k2]);
                    std::string st2 = restart();
                    recs.push_back("Q " + std::to_string(k) + " " + std::to_string(k2) + " " + (level2[k2].heads.empty() ? "0" : "1") + " " + after(st2));
                }
            }
        }
        // ---- leave the node in the completed state, then return to F0 ----
        restore(level1[nb]);
        restart();
        cdb.m_options.batch_write_bytes = normal_batch;
        {
            LOCK(cs_main);
            cs.PopulateBlockIndexCandidates();
        }
        cleanup();
        if (tip_label() != 0) return "BADCASE cleanup tip=" + std::to_string(tip_label());

        std::string out = "ok a=" + std::to_string(la) + " b=" + std::to_string(lb) + " order=" + order1 + " nb=" + std::to_string(nb) +
                          " w=" + (invalidated ? "na" : (work_ok ? "1" : "0"));
        for (size_t i = 0; i < set_text.size(); ++i) out += " | S " + std::to_string(i) + " " + set_text[i];
        for (const std::string& r : recs) out += " | " + r;
        return out;
    });
}
