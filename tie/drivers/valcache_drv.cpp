// C++ side of C13: the real CuckooCache::cache (op sequences, full state dump) and the real
// CheckInputScripts on one ValidationCache over a history of calls, twinned with fresh caches.
// Case formats: see ocaml/valcache_driver.ml.
#define private public
#include <cuckoocache.h>
#undef private
#include <drv_common.h>
#include <coins.h>
#include <consensus/validation.h>
#include <key.h>
#include <primitives/transaction.h>
#include <script/interpreter.h>
#include <script/script.h>
#include <script/sigcache.h>
#include <script/signingprovider.h>
#include <test/util/setup_common.h>
#include <uint256.h>
#include <util/chaintype.h>
#include <util/hasher.h>
#include <validation.h>

#include <memory>

// non-static in validation.cpp, declared here as src/test/txvalidationcache_tests.cpp does
bool CheckInputScripts(const CTransaction& tx, TxValidationState& state,
                       const CCoinsViewCache& inputs, script_verify_flags flags, bool cacheSigStore,
                       bool cacheFullScriptStore, PrecomputedTransactionData& txdata,
                       ValidationCache& validation_cache,
                       std::vector<CScriptCheck>* pvChecks) EXCLUSIVE_LOCKS_REQUIRED(cs_main);

namespace {
using W = std::vector<std::string>;
uint256 u256_of(const std::string& h)
{
    auto b = vd::unhex(h);
    if (b.size() != 32) throw std::runtime_error("element must be 32 bytes");
    uint256 u;
    std::copy(b.begin(), b.end(), u.begin());
    return u;
}

std::string cuckoo_case(const W& w)
{
    uint32_t size = (uint32_t)vd::ull(w.at(1));
    CuckooCache::cache<uint256, SignatureCacheHasher> c;
    c.setup(size);
    std::string ans;
    for (size_t i = 2; i < w.size(); ++i) {
        const std::string& o = w[i];
        uint256 e = u256_of(o.substr(1));
        if (o[0] == 'i') { c.insert(e); ans.push_back('.'); }
        else if (o[0] == 'c') ans.push_back(c.contains(e, false) ? '1' : '0');
        else if (o[0] == 'e') ans.push_back(c.contains(e, true) ? '1' : '0');
        else return "BADCASE";
    }
    std::string tab, col, ep;
    for (uint32_t i = 0; i < c.size; ++i) {
        if (i) tab += ",";
        tab += vd::hex(c.table[i].begin(), c.table[i].end());
        col.push_back(c.collection_flags.bit_is_set(i) ? '1' : '0');
        ep.push_back(c.epoch_flags[i] ? '1' : '0');
    }
    return ans + " table=" + tab + " collect=" + col + " epoch=" + ep + " counter=" + std::to_string(c.epoch_heuristic_counter);
}

// secp256k1 group order, big endian
const unsigned char ORDER_BE[32] = {0xFF,0xFF,0xFF,0xFF,0xFF,0xFF,0xFF,0xFF,0xFF,0xFF,0xFF,0xFF,0xFF,0xFF,0xFF,0xFE,
                                    0xBA,0xAE,0xDC,0xE6,0xAF,0x48,0xA0,0x3B,0xBF,0xD2,0x5E,0x8C,0xD0,0x36,0x41,0x41};
std::vector<unsigned char> negate_s(const std::vector<unsigned char>& der)
{
    size_t lenR = der.at(3), lenS = der.at(5 + lenR);
    std::vector<unsigned char> S(der.begin() + 6 + lenR, der.begin() + 6 + lenR + lenS);
    while (S.size() > 32 && S[0] == 0) S.erase(S.begin());
    std::vector<unsigned char> s32(32 - S.size(), 0);
    s32.insert(s32.end(), S.begin(), S.end());
    std::vector<unsigned char> out(32);
    int borrow = 0;
    for (int i = 31; i >= 0; --i) { int v = (int)ORDER_BE[i] - (int)s32[i] - borrow; borrow = v < 0; out[i] = (unsigned char)(v & 0xff); }
    while (out.size() > 1 && out[0] == 0) out.erase(out.begin());
    if (out[0] & 0x80) out.insert(out.begin(), 0);
    std::vector<unsigned char> res{0x30, 0, 0x02, (unsigned char)lenR};
    res.insert(res.end(), der.begin() + 4, der.begin() + 4 + lenR);
    res.push_back(0x02); res.push_back((unsigned char)out.size());
    res.insert(res.end(), out.begin(), out.end());
    res[1] = (unsigned char)(res.size() - 2);
    return res;
}

// The transaction pool (see the rules table the generator writes into every case):
//   0 P2PK, good signature                     1 P2PK, high-S signature (invalid iff LOW_S)
//   2 P2PK, hash type 0x04 (invalid iff STRICTENC)      3 P2PK, corrupted signature (always invalid)
//   4 <A> CHECKSIGVERIFY <B> CHECKSIG spent with A's signature twice (always invalid; same sighash and signature, other key)
//   5 two inputs: a good P2PK and a corrupted one (always invalid)
//   6 P2WPKH, good witness                     7 the same transaction (same txid) with a corrupted witness signature (invalid iff WITNESS)
//   8 P2TR key path with a garbage 64-byte signature (invalid iff TAPROOT)
//   9 legacy OP_CODESEPARATOR <A> OP_CHECKSIG, good signature (invalid iff CONST_SCRIPTCODE)
//  10 P2TR script path, OP_SUCCESS leaf (invalid iff TAPROOT and DISCOURAGE_OP_SUCCESS)
//  11 P2TR script path, leaf version 0xc2 (invalid iff TAPROOT and DISCOURAGE_UPGRADABLE_TAPROOT_VERSION)
//  12 P2TR script path, <33-byte key> OP_CHECKSIG with a non-empty signature (invalid iff TAPROOT and DISCOURAGE_UPGRADABLE_PUBKEYTYPE)
struct Pool {
    std::vector<CTransactionRef> txs;
    std::unique_ptr<CCoinsViewCache> view;
    Pool()
    {
        view = std::make_unique<CCoinsViewCache>(&CoinsViewEmpty::Get());
        CKey a, b;
        std::vector<unsigned char> ka(32, 0x11), kb(32, 0x22);
        a.Set(ka.begin(), ka.end(), true);
        b.Set(kb.begin(), kb.end(), true);
        const CPubKey pa = a.GetPubKey(), pb = b.GetPubKey();
        const CScript p2pk = CScript() << ToByteVector(pa) << OP_CHECKSIG;
        const CScript two = CScript() << ToByteVector(pa) << OP_CHECKSIGVERIFY << ToByteVector(pb) << OP_CHECKSIG;
        const CScript wpkh = CScript() << OP_0 << ToByteVector(pa.GetID());
        const CScript wpkh_code = CScript() << OP_DUP << OP_HASH160 << ToByteVector(pa.GetID()) << OP_EQUALVERIFY << OP_CHECKSIG;
        int next = 1;
        auto fund = [&](const CScript& spk) {
            uint256 h;
            *h.begin() = (unsigned char)next++;
            COutPoint op(Txid::FromUint256(h), 0);
            view->AddCoin(op, Coin(CTxOut(50000, spk), 1, false), false);
            return op;
        };
        auto base_tx = [&](std::vector<COutPoint> ins) {
            CMutableTransaction m;
            m.version = 2;
            for (auto& o : ins) m.vin.emplace_back(o);
            m.vout.emplace_back(40000, p2pk);
            return m;
        };
        auto sign = [&](const CMutableTransaction& m, unsigned i, const CScript& code, int ht, SigVersion sv, int mut) {
            uint256 d = SignatureHash(code, m, i, ht, 50000, sv);
            std::vector<unsigned char> s;
            a.Sign(d, s);
            if (mut == 1) s = negate_s(s);
            if (mut == 2) s[4 + s[3] - 1] ^= 1;
            s.push_back((unsigned char)ht);
            return s;
        };
        for (int kind = 0; kind < 4; ++kind) {
            CMutableTransaction m = base_tx({fund(p2pk)});
            m.vin[0].scriptSig = CScript() << sign(m, 0, p2pk, kind == 2 ? 4 : 1, SigVersion::BASE, kind == 1 ? 1 : kind == 3 ? 2 : 0);
            txs.push_back(MakeTransactionRef(m));
        }
        {
            CMutableTransaction m = base_tx({fund(two)});
            auto s = sign(m, 0, two, 1, SigVersion::BASE, 0);
            m.vin[0].scriptSig = CScript() << s << s;
            txs.push_back(MakeTransactionRef(m));
        }
        {
            CMutableTransaction m = base_tx({fund(p2pk), fund(p2pk)});
            m.vin[0].scriptSig = CScript() << sign(m, 0, p2pk, 1, SigVersion::BASE, 0);
            m.vin[1].scriptSig = CScript() << sign(m, 1, p2pk, 1, SigVersion::BASE, 2);
            txs.push_back(MakeTransactionRef(m));
        }
        {
            CMutableTransaction m = base_tx({fund(wpkh)});
            m.vin[0].scriptWitness.stack = {sign(m, 0, wpkh_code, 1, SigVersion::WITNESS_V0, 0), ToByteVector(pa)};
            txs.push_back(MakeTransactionRef(m));
            m.vin[0].scriptWitness.stack = {sign(m, 0, wpkh_code, 1, SigVersion::WITNESS_V0, 2), ToByteVector(pa)};
            txs.push_back(MakeTransactionRef(m));
        }
        {
            const CScript p2tr = CScript() << OP_1 << ToByteVector(XOnlyPubKey(pa));
            CMutableTransaction m = base_tx({fund(p2tr)});
            m.vin[0].scriptWitness.stack = {std::vector<unsigned char>(64, 0x42)};
            txs.push_back(MakeTransactionRef(m));
        }
        {
            const CScript cs = CScript() << OP_CODESEPARATOR << ToByteVector(pa) << OP_CHECKSIG;
            CMutableTransaction m = base_tx({fund(cs)});
            m.vin[0].scriptSig = CScript() << sign(m, 0, p2pk, 1, SigVersion::BASE, 0);
            txs.push_back(MakeTransactionRef(m));
        }
        auto script_path = [&](const std::vector<unsigned char>& leaf, int leaf_version, std::vector<std::vector<unsigned char>> args) {
            TaprootBuilder builder;
            builder.Add(0, leaf, leaf_version);
            builder.Finalize(XOnlyPubKey(pa));
            const CScript spk = CScript() << OP_1 << ToByteVector(builder.GetOutput());
            const auto spend = builder.GetSpendData();
            const auto& ctrl = *spend.scripts.at({leaf, leaf_version}).begin();
            CMutableTransaction m = base_tx({fund(spk)});
            args.push_back(leaf);
            args.push_back(ctrl);
            m.vin[0].scriptWitness.stack = args;
            txs.push_back(MakeTransactionRef(m));
        };
        script_path({0x50}, 0xc0, {});
        script_path({0x51}, 0xc2, {});
        {
            CScript leaf = CScript() << ToByteVector(pa) << OP_CHECKSIG;
            script_path(std::vector<unsigned char>(leaf.begin(), leaf.end()), 0xc0, {{0x01}});
        }
    }
};

bool one_call(const Pool& pool, ValidationCache& vc, size_t t, uint64_t fl, bool sigstore, bool fullstore, bool deferred) EXCLUSIVE_LOCKS_REQUIRED(cs_main)
{
    const CTransaction& tx = *pool.txs.at(t);
    TxValidationState state;
    PrecomputedTransactionData txdata;
    std::vector<CScriptCheck> checks;
    bool ok = CheckInputScripts(tx, state, *pool.view, script_verify_flags::from_int(fl), sigstore, fullstore, txdata, vc, deferred ? &checks : nullptr);
    if (!ok) return false;
    for (auto& c : checks) {
        if (c().has_value()) return false;
    }
    return true;
}

std::string hist_case(const Pool& pool, const W& w)
{
    size_t p = 1;
    size_t sc_elems = vd::ull(w.at(p++)), sg_elems = vd::ull(w.at(p++));
    size_t ntx = vd::ull(w.at(p++));
    if (ntx != pool.txs.size()) return "BADCASE pool size";
    p += ntx;
    if (w.at(p++) != "ops") return "BADCASE";
    ValidationCache warm(sc_elems * 32, sg_elems * 32);
    std::string ws = "w=", fs = "f=";
    LOCK(cs_main);
    for (; p + 4 < w.size(); p += 5) {
        size_t t = vd::ull(w[p]);
        uint64_t fl = vd::ull(w[p + 1]);
        bool ss = w[p + 2] == "1", fst = w[p + 3] == "1", df = w[p + 4] == "1";
        ws.push_back(one_call(pool, warm, t, fl, ss, fst, df) ? '1' : '0');
        ValidationCache fresh(sc_elems * 32, sg_elems * 32);
        fs.push_back(one_call(pool, fresh, t, fl, ss, fst, df) ? '1' : '0');
    }
    return ws + " " + fs;
}
} // namespace

int main()
{
    BasicTestingSetup setup{ChainType::REGTEST};
    Pool pool;
    return vd::main_loop([&](const W& w, const std::string&) -> std::string {
        if (w.empty()) return "BADCASE";
        if (w[0] == "cuckoo") return cuckoo_case(w);
        if (w[0] == "hist") return hist_case(pool, w);
        return "BADCASE";
    });
}
