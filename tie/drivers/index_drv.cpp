// C++ side of C21 parts B/C: the real CoinStatsIndex, TxIndex and BlockFilterIndex (on-disk databases
// in the fixture's datadir) on a regtest TestChain100Setup driven through mined blocks with real
// transactions, InvalidateBlock / ReconsiderBlock reorgs, index restarts and chainstate flushes.
//
// case:   ix <op>...
//   start:<c|t|f>+   create the listed index objects (c coinstats, t txindex, f basic blockfilter), Init() and Sync()
//   stop             destroy the index objects (their databases stay in the datadir; nothing is committed by this)
//   flush            Chainstate::ForceFlushStateToDisk() (emits ChainStateFlushed -> BaseIndex::Commit)
//   mine:<n>         n empty blocks
//   blk:<burn>:<tx>/<tx>...   one block; tx = <nin>,<nout>,<opret>,<fee>,<chain>: spend <nin> of our mature coins
//                    (or, chain=1, output 0 of the previous tx of this block) into <nout> outputs
//                    (alternating P2PK-to-us / anyone-can-spend scripts of varying length) plus, when opret > 0, an
//                    OP_RETURN output carrying <opret> satoshi; <fee> stays unclaimed; burn lowers the coinbase value
//   inval:<d>        InvalidateBlock of the block d-1 below the tip (d blocks are disconnected)
//   recon            ResetBlockFailureFlags of the last invalidated block + ActivateBestChain
//   chk | chkh       observations at the tip: index entries and from-scratch recomputation (chkh: the model also
//                    predicts the from-scratch MuHash; after chk that hash is printed with a ~ mark)
//   chk:<d>          the same index observations for the active block d below the tip (no recomputation of the UTXO set)
// output: <observations> || <transcript>
//   the transcript gives the model everything the node saw: blocks (with undo data), the notifications
//   BlockConnected / ChainStateFlushed in the order they were delivered, tip and last-flushed block at
//   start/flush time, and the requests.
#include <drv_common.h>
#include <addresstype.h>
#include <blockfilter.h>
#include <chain.h>
#include <chainparams.h>
#include <coins.h>
#include <consensus/validation.h>
#include <index/blockfilterindex.h>
#include <index/coinstatsindex.h>
#include <index/txindex.h>
#include <interfaces/chain.h>
#include <kernel/coinstats.h>
#include <node/blockstorage.h>
#include <node/context.h>
#include <pow.h>
#include <primitives/block.h>
#include <primitives/transaction.h>
#include <script/script.h>
#include <test/util/setup_common.h>
#include <test/util/mining.h>
#include <undo.h>
#include <validation.h>
#include <validationinterface.h>
#include <node/miner.h>

#include <algorithm>
#include <map>
#include <memory>
#include <set>

using namespace std::chrono_literals;

namespace {
std::string hx(const uint256& h) { return vd::hex(h.begin(), h.end()); }
std::string hxs(const CScript& s) { return vd::hex(s.begin(), s.end()); }

struct Recorder final : public CValidationInterface {
    std::vector<std::string>* tr;
    explicit Recorder(std::vector<std::string>* t) : tr(t) {}
    void BlockConnected(const kernel::ChainstateRole&, const std::shared_ptr<const CBlock>&, const CBlockIndex* pindex) override
    {
        tr->push_back("C:" + hx(pindex->GetBlockHash()));
    }
    void BlockChecked(const std::shared_ptr<const CBlock>&, const BlockValidationState& state) override
    {
        if (!state.IsValid()) { std::string m = state.ToString(); for (char& c : m) if (c == ' ' || c == ':') c = '_'; tr->push_back("ERR:invalid-block_" + m); }
    }
    void ChainStateFlushed(const kernel::ChainstateRole&, const CBlockLocator& locator) override
    {
        tr->push_back("F:" + hx(locator.vHave.front()));
    }
};

struct Sim {
    std::unique_ptr<TestChain100Setup> setup;
    std::vector<std::string> tr;      // transcript
    std::vector<std::string> obs;     // observations
    std::shared_ptr<Recorder> rec;
    std::unique_ptr<CoinStatsIndex> cs;
    std::unique_ptr<TxIndex> txi;
    std::unique_ptr<BlockFilterIndex> bfi;
    std::set<uint256> dumped;
    std::vector<CBlockIndex*> invalidated;
    std::vector<Txid> seen_txids;
    CScript our_script;

    ChainstateManager& cm() { return *setup->m_node.chainman; }
    Chainstate& cst() { return cm().ActiveChainstate(); }
    void drain() { setup->m_node.validation_signals->SyncWithValidationInterfaceQueue(); }
    CBlockIndex* tip() { LOCK(cs_main); return cst().m_chain.Tip(); }

    // B:<hash>,<prev>,<height>,<filterhash>,<tx>;<tx>...   tx = txid~cb~in+in~out+out
    void dump_block(const CBlockIndex* pi)
    {
        if (!dumped.insert(pi->GetBlockHash()).second) return;
        CBlock block;
        if (!cm().m_blockman.ReadBlock(block, *pi)) { tr.push_back("ERR:readblock"); return; }
        CBlockUndo undo;
        if (pi->nHeight > 0 && !cm().m_blockman.ReadBlockUndo(undo, *pi)) { tr.push_back("ERR:readundo"); return; }
        BlockFilter filter(BlockFilterType::BASIC, block, undo);   // the reference computation of the BIP158 filter
        std::string s = "B:" + hx(pi->GetBlockHash()) + "," + (pi->pprev ? hx(pi->pprev->GetBlockHash()) : hx(uint256::ZERO)) + "," +
                        std::to_string(pi->nHeight) + "," + hx(filter.GetHash()) + ",";
        for (size_t i = 0; i < block.vtx.size(); ++i) {
            const CTransaction& tx = *block.vtx[i];
            if (i) s += ";";
            s += hx(tx.GetHash().ToUint256()) + "~" + (tx.IsCoinBase() ? "1" : "0") + "~";
            if (!tx.IsCoinBase()) {
                const CTxUndo& tu = undo.vtxundo.at(i - 1);
                for (size_t j = 0; j < tx.vin.size(); ++j) {
                    const Coin& c = tu.vprevout.at(j);
                    if (j) s += "+";
                    s += hx(tx.vin[j].prevout.hash.ToUint256()) + "." + std::to_string(tx.vin[j].prevout.n) + "." +
                         std::to_string(c.out.nValue) + "." + hxs(c.out.scriptPubKey) + "." + std::to_string(c.nHeight) + "." + (c.fCoinBase ? "1" : "0");
                }
            }
            s += "~";
            for (size_t j = 0; j < tx.vout.size(); ++j) {
                if (j) s += "+";
                s += std::to_string(tx.vout[j].nValue) + "." + hxs(tx.vout[j].scriptPubKey);
            }
            seen_txids.push_back(tx.GetHash());
        }
        // the block record goes before the notification that announced the block
        const std::string note = "C:" + hx(pi->GetBlockHash());
        auto at = std::find(tr.begin(), tr.end(), note);
        tr.insert(at, s);
    }
    void dump_chain()
    {
        std::vector<const CBlockIndex*> v;
        { LOCK(cs_main); for (const CBlockIndex* p = cst().m_chain.Tip(); p; p = p->pprev) v.push_back(p); }
        for (auto it = v.rbegin(); it != v.rend(); ++it) dump_block(*it);
    }
    void note_view()
    {
        LOCK(cs_main);
        const CBlockIndex* t = cst().m_chain.Tip();
        const CBlockIndex* lf = cst().GetLastFlushedBlock();
        tr.push_back("T:" + (t ? hx(t->GetBlockHash()) : std::string("-")));
        tr.push_back("L:" + (lf ? hx(lf->GetBlockHash()) : std::string("-")));
    }

    // our spendable coins on the active chain, in chain order
    struct Spendable { CTransactionRef tx; uint32_t n; int height; };
    std::vector<Spendable> spendables()
    {
        std::vector<Spendable> out;
        std::vector<const CBlockIndex*> v;
        int tiph;
        { LOCK(cs_main); tiph = cst().m_chain.Height(); for (const CBlockIndex* p = cst().m_chain.Tip(); p && p->nHeight > 0; p = p->pprev) v.push_back(p); }
        for (auto it = v.rbegin(); it != v.rend(); ++it) {
            CBlock block;
            if (!cm().m_blockman.ReadBlock(block, **it)) continue;
            for (const auto& tx : block.vtx) {
                if (tx->IsCoinBase() && (*it)->nHeight + COINBASE_MATURITY > tiph + 1) continue;
                for (uint32_t n = 0; n < tx->vout.size(); ++n) {
                    if (tx->vout[n].scriptPubKey != our_script) continue;
                    LOCK(cs_main);
                    if (!cst().CoinsTip().HaveCoin(COutPoint(tx->GetHash(), n))) continue;
                    out.push_back({tx, n, (*it)->nHeight});
                }
            }
        }
        return out;
    }

    bool process(CBlock& block)
    {
        while (!CheckProofOfWork(block.GetHash(), block.nBits, cm().GetConsensus())) ++block.nNonce;
        auto sp = std::make_shared<const CBlock>(block);
        bool new_block = false;
        bool ok = cm().ProcessNewBlock(sp, true, true, &new_block);
        setup->m_clock += 1s;
        drain();
        const CBlockIndex* pi;
        { LOCK(cs_main); pi = cm().m_blockman.LookupBlockIndex(block.GetHash()); }
        bool active = false;
        { LOCK(cs_main); active = pi && cst().m_chain.Contains(*pi); }
        if (!ok || !active) { tr.push_back("ERR:block-not-connected"); return false; }
        dump_chain();
        return true;
    }

    std::string stats_str(const kernel::CCoinsStats& s)
    {
        return hx(s.hashSerialized) + "," + std::to_string(s.nTransactionOutputs) + "," + std::to_string(s.nBogoSize) + "," +
               (s.total_amount ? std::to_string(*s.total_amount) : std::string("none")) + "," + std::to_string(s.total_subsidy) + "," +
               s.total_prevout_spent_amount.ToString() + "," + s.total_new_outputs_ex_coinbase_amount.ToString() + "," +
               s.total_coinbase_amount.ToString() + "," + std::to_string(s.total_unspendables_genesis_block) + "," +
               std::to_string(s.total_unspendables_bip30) + "," + std::to_string(s.total_unspendables_scripts) + "," +
               std::to_string(s.total_unspendables_unclaimed_rewards);
    }

    void index_obs(const CBlockIndex* pi)
    {
        tr.push_back("Q:" + hx(pi->GetBlockHash()));
        std::string o = "at=" + std::to_string(pi->nHeight);
        o += " fatal=" + std::to_string(setup->m_node.exit_status.load() != EXIT_SUCCESS ? 1 : 0);
        if (cs) {
            auto sm = cs->GetSummary();
            o += " cs.synced=" + std::to_string(sm.synced ? 1 : 0);
            auto st = cs->LookUpStats(*pi);
            o += " cs=" + (st ? stats_str(*st) : std::string("none"));
        }
        if (bfi) {
            o += " bf.synced=" + std::to_string(bfi->GetSummary().synced ? 1 : 0);
            uint256 header;
            BlockFilter filter;
            bool okh = bfi->LookupFilterHeader(pi, header);
            bool okf = bfi->LookupFilter(pi, filter);
            o += " bf=" + (okf ? hx(filter.GetHash()) : std::string("none")) + "," + (okh ? hx(header) : std::string("none"));
        }
        obs.push_back(o);
    }
    void tx_obs()
    {
        if (!txi) return;
        tr.push_back("X");
        std::string o = "tx.synced=" + std::to_string(txi->GetSummary().synced ? 1 : 0) + " tx=";
        // every transaction seen in this case (the last 40) and one unknown txid
        size_t from = seen_txids.size() > 40 ? seen_txids.size() - 40 : 0;
        for (size_t i = from; i < seen_txids.size(); ++i) {
            auto r = txi->FindTx(seen_txids[i]);
            o += (i > from ? "," : "") + (r ? hx(r->block_hash).substr(0, 16) : std::string("none"));
        }
        auto r = txi->FindTx(Txid::FromUint256(uint256{1}));
        o += std::string(",") + (r ? "found" : "none");
        obs.push_back(o);
    }
    void scratch_obs(bool predict_hash)
    {
        // from scratch: the UTXO statistics of the coins database (coins cache written through without
        // a ChainStateFlushed notification), and the BIP157 header chain from the reference filter code
        kernel::CCoinsStats st;
        {
            LOCK(cs_main);
            cst().CoinsTip().Sync();
        }
        auto s = kernel::ComputeUTXOStats(kernel::CoinStatsHashType::MUHASH, cst().CoinsDB(), cm().m_blockman, {});
        std::string o = "scr=";
        if (s) o += (predict_hash ? "" : "~") + hx(s->hashSerialized) + "," + std::to_string(s->nTransactionOutputs) + "," + std::to_string(s->nBogoSize) + "," +
                    (s->total_amount ? std::to_string(*s->total_amount) : std::string("none"));
        else o += "none";
        // header chain
        std::vector<const CBlockIndex*> v;
        { LOCK(cs_main); for (const CBlockIndex* p = cst().m_chain.Tip(); p; p = p->pprev) v.push_back(p); }
        uint256 header;
        uint256 fhash;
        for (auto it = v.rbegin(); it != v.rend(); ++it) {
            CBlock block; CBlockUndo undo;
            cm().m_blockman.ReadBlock(block, **it);
            if ((*it)->nHeight > 0) cm().m_blockman.ReadBlockUndo(undo, **it);
            BlockFilter f(BlockFilterType::BASIC, block, undo);
            fhash = f.GetHash();
            header = f.ComputeHeader(header);
        }
        o += " bfscr=" + hx(fhash) + "," + hx(header);
        tr.push_back(predict_hash ? "R1" : "R0");
        obs.push_back(o);
    }
};

std::string run_case(const std::vector<std::string>& w)
{
    Sim S;
    S.setup = std::make_unique<TestChain100Setup>();
    TestChain100Setup& T = *S.setup;
    S.our_script = CScript() << ToByteVector(T.coinbaseKey.GetPubKey()) << OP_CHECKSIG;
    S.tr.push_back("I:" + std::to_string(Params().GetConsensus().nSubsidyHalvingInterval));
    S.rec = std::make_shared<Recorder>(&S.tr);
    S.dump_chain();
    T.m_node.validation_signals->RegisterSharedValidationInterface(S.rec);

    for (size_t wi = 1; wi < w.size(); ++wi) {
        const std::string& op = w[wi];
        auto arg = [&](size_t k) -> std::string {
            std::vector<std::string> parts; std::string cur;
            for (char c : op) { if (c == ':') { parts.push_back(cur); cur.clear(); } else cur.push_back(c); }
            parts.push_back(cur);
            return k < parts.size() ? parts[k] : std::string();
        };
        const std::string name = arg(0);
        if (name == "start") {
            S.note_view();
            const std::string which = arg(1);
            S.tr.push_back("start:" + which);
            if (which.find('c') != std::string::npos && !S.cs) {
                S.cs = std::make_unique<CoinStatsIndex>(interfaces::MakeChain(T.m_node), 1 << 20, /*f_memory=*/false);
                if (S.cs->Init()) S.cs->Sync(); else S.obs.push_back("cs.initfail");
            }
            if (which.find('t') != std::string::npos && !S.txi) {
                S.txi = std::make_unique<TxIndex>(interfaces::MakeChain(T.m_node), 1 << 20, /*f_memory=*/false);
                if (S.txi->Init()) S.txi->Sync(); else S.obs.push_back("tx.initfail");
            }
            if (which.find('f') != std::string::npos && !S.bfi) {
                S.bfi = std::make_unique<BlockFilterIndex>(interfaces::MakeChain(T.m_node), BlockFilterType::BASIC, 1 << 20, /*f_memory=*/false);
                if (S.bfi->Init()) S.bfi->Sync(); else S.obs.push_back("bf.initfail");
            }
            S.drain();
        } else if (name == "stop") {
            S.drain();
            if (S.cs) { S.cs->Stop(); S.cs.reset(); }
            if (S.txi) { S.txi->Stop(); S.txi.reset(); }
            if (S.bfi) { S.bfi->Stop(); S.bfi.reset(); }
            S.tr.push_back("stop");
        } else if (name == "flush") {
            S.cst().ForceFlushStateToDisk(/*wipe_cache=*/false);
            {
                LOCK(cs_main);
                const CBlockIndex* lf = S.cst().GetLastFlushedBlock();
                S.tr.push_back("L:" + (lf ? hx(lf->GetBlockHash()) : std::string("-")));
            }
            S.drain();
        } else if (name == "mine") {
            int n = std::stoi(arg(1));
            for (int i = 0; i < n; ++i) {
                CBlock b = T.CreateBlock({}, S.our_script);
                if (!S.process(b)) break;
            }
        } else if (name == "blk") {
            CAmount burn = std::stoll(arg(1));
            std::vector<CMutableTransaction> txs;
            std::vector<Sim::Spendable> avail = S.spendables();
            size_t next_avail = 0;
            std::string specs = arg(2);
            std::vector<std::string> specv; { std::string cur; for (char c : specs) { if (c == '/') { specv.push_back(cur); cur.clear(); } else cur.push_back(c); } if (!cur.empty()) specv.push_back(cur); }
            int tiph; { LOCK(cs_main); tiph = S.cst().m_chain.Height(); }
            for (const std::string& sp : specv) {
                std::vector<long long> f; { std::string cur; for (char c : sp) { if (c == ',') { f.push_back(std::stoll(cur)); cur.clear(); } else cur.push_back(c); } f.push_back(std::stoll(cur)); }
                while (f.size() < 5) f.push_back(0);
                size_t nin = (size_t)f[0], nout = (size_t)std::max<long long>(1, f[1]); CAmount opret = f[2], fee = f[3]; bool chain = f[4] != 0;
                std::vector<CTransactionRef> in_txs; std::vector<COutPoint> ins; CAmount total = 0; int in_height = 1;
                if (chain && !txs.empty()) {
                    CTransactionRef prev = MakeTransactionRef(txs.back());
                    if (prev->vout[0].scriptPubKey == S.our_script) {
                        in_txs.push_back(prev); ins.emplace_back(prev->GetHash(), 0); total += prev->vout[0].nValue; in_height = tiph + 1;
                    }
                }
                if (ins.empty()) {
                    for (size_t k = 0; k < nin && next_avail < avail.size(); ++k, ++next_avail) {
                        if (std::find(in_txs.begin(), in_txs.end(), avail[next_avail].tx) == in_txs.end()) in_txs.push_back(avail[next_avail].tx);
                        ins.emplace_back(avail[next_avail].tx->GetHash(), avail[next_avail].n);
                        total += avail[next_avail].tx->vout[avail[next_avail].n].nValue; in_height = avail[next_avail].height;
                    }
                }
                if (ins.empty()) continue;
                if (fee + opret >= total) { fee = 0; opret = 0; }
                std::vector<CTxOut> outs;
                CAmount each = (total - fee - opret) / (CAmount)nout;
                for (size_t k = 0; k < nout; ++k) {
                    CScript spk;
                    if (k % 2 == 0) spk = S.our_script;
                    else { spk = CScript() << std::vector<unsigned char>(1 + (k * 37) % 300, (unsigned char)k) << OP_DROP << OP_TRUE; }
                    outs.emplace_back(k == 0 ? total - fee - opret - each * (CAmount)(nout - 1) : each, spk);
                }
                if (opret > 0) outs.emplace_back(opret, CScript() << OP_RETURN << std::vector<unsigned char>{0xc2, 0x21});
                // inputs created at different heights: AddCoins in CreateValidTransaction takes one height; it only matters for signing
                CMutableTransaction mtx = T.CreateValidMempoolTransaction(in_txs, ins, in_height, {T.coinbaseKey}, outs, /*submit=*/false);
                txs.push_back(mtx);
            }
            CBlock b = T.CreateBlock(txs, S.our_script);
            if (burn > 0) {
                CMutableTransaction cb(*b.vtx[0]);
                if (cb.vout[0].nValue > burn) cb.vout[0].nValue -= burn;
                b.vtx[0] = MakeTransactionRef(cb);
                node::RegenerateCommitments(b, S.cm());
            }
            S.process(b);
        } else if (name == "inval") {
            int d = std::max(1, std::stoi(arg(1)));
            CBlockIndex* target;
            { LOCK(cs_main); int h = S.cst().m_chain.Height() - d + 1; if (h < 1) h = 1; target = S.cst().m_chain[h]; }
            BlockValidationState st;
            S.cst().InvalidateBlock(st, target);
            S.invalidated.push_back(target);
            { BlockValidationState st2; S.cst().ActivateBestChain(st2); }   // as the invalidateblock RPC does
            S.drain();
            S.dump_chain();
        } else if (name == "recon") {
            if (!S.invalidated.empty()) {
                CBlockIndex* target = S.invalidated.back(); S.invalidated.pop_back();
                { LOCK(cs_main); S.cst().ResetBlockFailureFlags(target); S.cm().RecalculateBestHeader(); }   // as the reconsiderblock RPC does
                BlockValidationState st;
                S.cst().ActivateBestChain(st);
                S.drain();
                S.dump_chain();
            }
        } else if (name == "chk" || name == "chkh") {
            S.drain();
            S.note_view();
            if (S.cs) S.cs->BlockUntilSyncedToCurrentChain();
            if (S.txi) S.txi->BlockUntilSyncedToCurrentChain();
            if (S.bfi) S.bfi->BlockUntilSyncedToCurrentChain();
            const CBlockIndex* pi = S.tip();
            if (!arg(1).empty()) {
                int d = std::stoi(arg(1));
                LOCK(cs_main);
                int h = std::max(0, pi->nHeight - d);
                pi = S.cst().m_chain[h];
                S.index_obs(pi);
            } else {
                S.index_obs(pi);
                S.tx_obs();
                S.scratch_obs(name == "chkh");
            }
        } else {
            return "BADCASE " + op;
        }
    }
    S.drain();
    T.m_node.validation_signals->UnregisterSharedValidationInterface(S.rec);
    if (S.cs) { S.cs->Stop(); S.cs.reset(); }
    if (S.txi) { S.txi->Stop(); S.txi.reset(); }
    if (S.bfi) { S.bfi->Stop(); S.bfi.reset(); }
    std::string out;
    for (const auto& o : S.obs) { if (!out.empty()) out += " ; "; out += o; }
    if (out.empty()) out = "-";
    out += " ||";
    for (const auto& t : S.tr) out += " " + t;
    return out;
}
} // namespace

int main()
{
    return vd::main_loop([&](const std::vector<std::string>& w, const std::string&) -> std::string {
        if (w.empty() || w[0] != "ix") return "BADCASE";
        return run_case(w);
    });
}
