// C++ side of the Crypto family (C49): calls the real hashers / ciphers of the current tree, feeding
// the message in exactly the fragments the case line prescribes (one Write / Update / Crypt per fragment).
#include <drv_common.h>
#include <crypto/sha256.h>
#include <crypto/sha1.h>
#include <crypto/sha512.h>
#include <crypto/ripemd160.h>
#include <crypto/hmac_sha256.h>
#include <crypto/hmac_sha512.h>
#include <crypto/hkdf_sha256_32.h>
#include <algorithm>
#include <map>
#include <span>

namespace {
// "3,0,61" -> {3,0,61};  "-" -> {} (no call at all)
std::vector<size_t> sizes(const std::string& s)
{
    std::vector<size_t> out;
    if (s == "-") return out;
    size_t pos = 0;
    while (pos <= s.size()) {
        size_t c = s.find(',', pos);
        if (c == std::string::npos) c = s.size();
        out.push_back(std::stoul(s.substr(pos, c - pos)));
        pos = c + 1;
    }
    return out;
}

// Feed `msg` to h in the given fragments. A fragment is copied to its own heap block of exactly its
// size so that the pointer given to Write has no readable neighbours (alignment / overread differences show).
template <typename H>
void feed(H& h, const std::vector<unsigned char>& msg, const std::vector<size_t>& sz)
{
    size_t off = 0;
    for (size_t n : sz) {
        if (off + n > msg.size()) throw std::runtime_error("fragment sizes exceed the message");
        std::vector<unsigned char> piece(msg.begin() + off, msg.begin() + off + n);
        h.Write(piece.data(), piece.size());
        off += n;
    }
    if (off != msg.size()) throw std::runtime_error("fragment sizes do not cover the message");
}

// every SHA-256 implementation selectable at run time (on CPUs lacking one the selection falls back
// and the name repeats; the result must be identical in any case)
const sha256_implementation::UseImplementation IMPLS[] = {
    sha256_implementation::STANDARD, sha256_implementation::USE_SSE4, sha256_implementation::USE_SSE4_AND_AVX2,
    sha256_implementation::USE_SSE4_AND_SHANI, sha256_implementation::USE_ALL};

template <typename F>
std::string all_sha256_impls(F f)
{
    std::vector<std::pair<std::string, std::string>> res;
    for (auto impl : IMPLS) {
        std::string name = SHA256AutoDetect(impl);
        res.emplace_back(name, f());
    }
    SHA256AutoDetect();
    bool same = true;
    for (auto& r : res) same = same && r.second == res[0].second;
    if (same) return res[0].second;
    std::string out = "MISMATCH";
    for (auto& r : res) out += " [" + r.first + "]=" + r.second;
    return out;
}
} // namespace

int main(int argc, char** argv)
{
    return vd::main_loop([&](const std::vector<std::string>& w, const std::string&) -> std::string {
        if (w.size() == 3 && w[0] == "sha256") {
            auto msg = vd::unhex(w[1]);
            auto sz = sizes(w[2]);
            return all_sha256_impls([&] {
                CSHA256 h;
                feed(h, msg, sz);
                unsigned char out[CSHA256::OUTPUT_SIZE];
                h.Finalize(out);
                return vd::hex(out, out + sizeof(out));
            });
        }
        if (w.size() == 2 && w[0] == "sha256d64") {
            auto in = vd::unhex(w[1]);
            if (in.size() % 64) return std::string("BADCASE");
            return all_sha256_impls([&] {
                std::vector<unsigned char> out(in.size() / 2);
                SHA256D64(out.data(), in.data(), in.size() / 64);
                return vd::hex(out);
            });
        }
        if (w.size() == 3 && (w[0] == "sha1" || w[0] == "sha512" || w[0] == "ripemd160")) {
            auto msg = vd::unhex(w[1]);
            auto sz = sizes(w[2]);
            auto run = [&](auto h) {
                feed(h, msg, sz);
                unsigned char out[decltype(h)::OUTPUT_SIZE];
                h.Finalize(out);
                return vd::hex(out, out + sizeof(out));
            };
            if (w[0] == "sha1") return run(CSHA1());
            if (w[0] == "sha512") return run(CSHA512());
            return run(CRIPEMD160());
        }
        if (w.size() == 4 && (w[0] == "hmac256" || w[0] == "hmac512")) {
            auto key = vd::unhex(w[1]);
            auto msg = vd::unhex(w[2]);
            auto sz = sizes(w[3]);
            // the key in its own exact-size block as well
            std::vector<unsigned char> k(key);
            if (w[0] == "hmac256") {
                return all_sha256_impls([&] {
                    CHMAC_SHA256 h(k.data(), k.size());
                    feed(h, msg, sz);
                    unsigned char out[CHMAC_SHA256::OUTPUT_SIZE];
                    h.Finalize(out);
                    return vd::hex(out, out + sizeof(out));
                });
            }
            CHMAC_SHA512 h(k.data(), k.size());
            feed(h, msg, sz);
            unsigned char out[CHMAC_SHA512::OUTPUT_SIZE];
            h.Finalize(out);
            return vd::hex(out, out + sizeof(out));
        }
        if (w.size() == 4 && w[0] == "hkdf") {
            auto ikm = vd::unhex(w[1]);
            auto salt = vd::unhex(w[2]);
            auto info = vd::unhex(w[3]);
            if (info.size() > 128) return std::string("BADCASE");   // Expand32 asserts info.size() <= 128
            CHKDF_HMAC_SHA256_L32 hk(ikm.data(), ikm.size(), std::string(salt.begin(), salt.end()));
            unsigned char out[32];
            hk.Expand32(std::string(info.begin(), info.end()), out);
            return vd::hex(out, out + sizeof(out));
        }
        if (w.size() == 1 && w[0] == "sha256impls") {
            std::string out;
            for (auto impl : IMPLS) out += (out.empty() ? "" : "|") + SHA256AutoDetect(impl);
            SHA256AutoDetect();
            return out;
        }
        return "BADCASE";
    });
}
