// C++ side of the Crypto family (C49): calls the real hashers / ciphers of the current tree, feeding
// the message in exactly the fragments the case line prescribes (one Write / Update / Crypt per fragment).
#include <drv_common.h>
#include <crypto/sha256.h>
#include <crypto/sha1.h>
#include <crypto/sha512.h>
#include <crypto/ripemd160.h>
#include <crypto/hmac_sha256.h>
#include <crypto/hmac_sha512.h>
#include <crypto/hkdf_sha256_32.h>
#include <crypto/chacha20.h>
#include <crypto/poly1305.h>
#include <crypto/chacha20poly1305.h>
#include <span.h>
#include <crypto/siphash.h>
#include <crypto/sha3.h>
#include <uint256.h>
#include <crypto/aes.h>
#include <hash.h>
#include <algorithm>
#include <map>
#include <span>

namespace {
// "3,0,61" -> {3,0,61};  "-" -> {} (no call at all)
std::vector<size_t> sizes(const std::string& s)
{
    std::vector<size_t> out;
    if (s == "-") return out;
    size_t pos = 0;
    while (pos <= s.size()) {
        size_t c = s.find(',', pos);
        if (c == std::string::npos) c = s.size();
        out.push_back(std::stoul(s.substr(pos, c - pos)));
        pos = c + 1;
    }
    return out;
}

// Feed `msg` to h in the given fragments. A fragment is copied to its own heap block of exactly its
// size so that the pointer given to Write has no readable neighbours (alignment / overread differences show).
template <typename H>
void feed(H& h, const std::vector<unsigned char>& msg, const std::vector<size_t>& sz)
{
    size_t off = 0;
    for (size_t n : sz) {
        if (off + n > msg.size()) throw std::runtime_error("fragment sizes exceed the message");
        std::vector<unsigned char> piece(msg.begin() + off, msg.begin() + off + n);
        h.Write(piece.data(), piece.size());
        off += n;
    }
    if (off != msg.size()) throw std::runtime_error("fragment sizes do not cover the message");
}

// every SHA-256 implementation selectable at run time (on CPUs lacking one the selection falls back
// and the name repeats; the result must be identical in any case)
std::vector<std::byte> bytes_of(const std::vector<unsigned char>& v)
{
    std::vector<std::byte> out(v.size());
    for (size_t i = 0; i < v.size(); ++i) out[i] = std::byte{v[i]};
    return out;
}
std::string hexb(const std::vector<std::byte>& v)
{
    std::vector<unsigned char> u(v.size());
    for (size_t i = 0; i < v.size(); ++i) u[i] = std::to_integer<unsigned char>(v[i]);
    return vd::hex(u);
}
std::vector<std::string> split(const std::string& s, char sep)
{
    std::vector<std::string> out;
    size_t pos = 0;
    while (pos <= s.size()) {
        size_t c = s.find(sep, pos);
        if (c == std::string::npos) c = s.size();
        out.push_back(s.substr(pos, c - pos));
        pos = c + 1;
    }
    return out;
}
void flip(std::vector<std::byte>& v, size_t bit)
{
    if (bit / 8 < v.size()) v[bit / 8] ^= std::byte(1u << (bit % 8));
}

// ---- snippet starts here ----
// Like feed(), for hashers whose Write takes std::span<const unsigned char> (CSipHasher, SHA3_256).
template <typename H>
void feed_span(H& h, const std::vector<unsigned char>& msg, const std::vector<size_t>& sz)
{
    size_t off = 0;
    for (size_t n : sz) {
        if (off + n > msg.size()) throw std::runtime_error("fragment sizes exceed the message");
        std::vector<unsigned char> piece(msg.begin() + off, msg.begin() + off + n);
        h.Write(std::span<const unsigned char>{piece.data(), piece.size()});
        off += n;
    }
    if (off != msg.size()) throw std::runtime_error("fragment sizes do not cover the message");
}

uint256 u256_from_bytes(const std::vector<unsigned char>& v)
{
    if (v.size() != 32) throw std::runtime_error("uint256 needs 32 bytes");
    return uint256{std::span<const unsigned char>{v.data(), v.size()}};   // memory order: byte i = v[i]
}

// returns true and sets `out` when the line is one of the SipHash / SHA3 cases
bool sip_sha3_case(const std::vector<std::string>& w, std::string& out)
{
    // siphash <k0> <k1> <hexmsg> <sizes>  ->  decimal uint64
    if (w.size() == 5 && w[0] == "siphash") {
        CSipHasher h(vd::ull(w[1]), vd::ull(w[2]));
        feed_span(h, vd::unhex(w[3]), sizes(w[4]));
        out = std::to_string(h.Finalize());
        return true;
    }
    // siphash_w64 <k0> <k1> <hexmsg, multiple of 8 bytes>: Write(uint64_t) per 8 bytes (little endian)
    if (w.size() == 4 && w[0] == "siphash_w64") {
        auto msg = vd::unhex(w[3]);
        if (msg.size() % 8) { out = "BADCASE"; return true; }
        CSipHasher h(vd::ull(w[1]), vd::ull(w[2]));
        for (size_t i = 0; i < msg.size(); i += 8) {
            uint64_t v = 0;
            for (int j = 7; j >= 0; --j) v = (v << 8) | msg[i + j];
            h.Write(v);
        }
        out = std::to_string(h.Finalize());
        return true;
    }
    // siphash_u256 <k0> <k1> <hex32>
    if (w.size() == 4 && w[0] == "siphash_u256") {
        const PresaltedSipHasher h(vd::ull(w[1]), vd::ull(w[2]));
        out = std::to_string(h(u256_from_bytes(vd::unhex(w[3]))));
        return true;
    }
    // siphash_u256x <k0> <k1> <hex32> <extra>
    if (w.size() == 5 && w[0] == "siphash_u256x") {
        const PresaltedSipHasher h(vd::ull(w[1]), vd::ull(w[2]));
        out = std::to_string(h(u256_from_bytes(vd::unhex(w[3])), (uint32_t)vd::ull(w[4])));
        return true;
    }
    // siphash13uj <k0> <k1> <blocks>: blocks = comma separated, each 16 hex digits (normal block, the
    // LE64 bytes) or 64 hex digits (jumbo block), "-" for none
    if (w.size() == 4 && w[0] == "siphash13uj") {
        SipHasher13UJ h(vd::ull(w[1]), vd::ull(w[2]));
        if (w[3] != "-") {
            std::istringstream is(w[3]);
            std::string b;
            while (std::getline(is, b, ',')) {
                auto bytes = vd::unhex(b);
                if (bytes.size() == 8) {
                    uint64_t v = 0;
                    for (int j = 7; j >= 0; --j) v = (v << 8) | bytes[j];
                    h.Write(v);
                } else if (bytes.size() == 32) {
                    h.WriteJumbo(u256_from_bytes(bytes));
                } else { out = "BADCASE"; return true; }
            }
        }
        out = std::to_string(h.Finalize());
        return true;
    }
    // sha3 <hexmsg> <sizes>  ->  hex digest
    if (w.size() == 3 && w[0] == "sha3") {
        SHA3_256 h;
        feed_span(h, vd::unhex(w[1]), sizes(w[2]));
        unsigned char d[SHA3_256::OUTPUT_SIZE];
        h.Finalize(d);
        out = vd::hex(d, d + sizeof(d));
        return true;
    }
    // keccakf <hex200>: the permutation on 25 little-endian lanes
    if (w.size() == 2 && w[0] == "keccakf") {
        auto in = vd::unhex(w[1]);
        if (in.size() != 200) { out = "BADCASE"; return true; }
        uint64_t st[25];
        for (int i = 0; i < 25; ++i) { st[i] = 0; for (int j = 7; j >= 0; --j) st[i] = (st[i] << 8) | in[8 * i + j]; }
        KeccakF(st);
        std::vector<unsigned char> o;
        for (int i = 0; i < 25; ++i) for (int j = 0; j < 8; ++j) o.push_back((unsigned char)(st[i] >> (8 * j)));
        out = vd::hex(o);
        return true;
    }
    return false;
}

const sha256_implementation::UseImplementation IMPLS[] = {
    sha256_implementation::STANDARD, sha256_implementation::USE_SSE4, sha256_implementation::USE_SSE4_AND_AVX2,
    sha256_implementation::USE_SSE4_AND_SHANI, sha256_implementation::USE_ALL};

template <typename F>
std::string all_sha256_impls(F f)
{
    std::vector<std::pair<std::string, std::string>> res;
    for (auto impl : IMPLS) {
        std::string name = SHA256AutoDetect(impl);
        res.emplace_back(name, f());
    }
    SHA256AutoDetect();
    bool same = true;
    for (auto& r : res) same = same && r.second == res[0].second;
    if (same) return res[0].second;
    std::string out = "MISMATCH";
    for (auto& r : res) out += " [" + r.first + "]=" + r.second;
    return out;
}
constexpr size_t CANARY = 32;
std::string aes_case(const std::vector<std::string>& w, bool& handled)
{
    handled = true;
    if ((w[0] == "aes256_enc" || w[0] == "aes256_dec") && w.size() == 3) {
        auto key = vd::unhex(w[1]); auto in = vd::unhex(w[2]);
        if (key.size() != AES256_KEYSIZE || in.size() != AES_BLOCKSIZE) throw std::runtime_error("bad sizes");
        std::vector<unsigned char> out(AES_BLOCKSIZE + CANARY, 0xa5);
        if (w[0] == "aes256_enc") AES256Encrypt(key.data()).Encrypt(out.data(), in.data());
        else AES256Decrypt(key.data()).Decrypt(out.data(), in.data());
        for (size_t i = AES_BLOCKSIZE; i < out.size(); ++i) if (out[i] != 0xa5) return "OVERRUN";
        return vd::hex(out.begin(), out.begin() + AES_BLOCKSIZE);
    }
    if ((w[0] == "aes256cbc_enc" || w[0] == "aes256cbc_dec") && w.size() == 5) {
        auto key = vd::unhex(w[1]); auto iv = vd::unhex(w[2]); auto data = vd::unhex(w[3]);
        const bool pad = (w[4] == "1");
        if (key.size() != AES256_KEYSIZE || iv.size() != AES_BLOCKSIZE) throw std::runtime_error("bad sizes");
        // aes.h gives no bound; the callers (wallet/crypter.cpp) allocate size + AES_BLOCKSIZE for Encrypt and size for Decrypt
        const size_t cap = data.size() + AES_BLOCKSIZE;
        std::vector<unsigned char> out(cap + CANARY, 0xa5);
        // an empty vector may have data() == nullptr, which the functions treat like size 0: pass a valid pointer
        unsigned char dummy = 0;
        const unsigned char* p = data.empty() ? &dummy : data.data();
        int n;
        if (w[0] == "aes256cbc_enc") n = AES256CBCEncrypt(key.data(), iv.data(), pad).Encrypt(p, (int)data.size(), out.data());
        else n = AES256CBCDecrypt(key.data(), iv.data(), pad).Decrypt(p, (int)data.size(), out.data());
        for (size_t i = cap; i < out.size(); ++i) if (out[i] != 0xa5) return "OVERRUN";
        if (n < 0 || (size_t)n > cap) return "BADLEN " + std::to_string(n);
        return vd::hex(out.begin(), out.begin() + n);
    }
    handled = false;
    return "";
}

// composite hashers of hash.h, MurmurHash3, and the CBC plaintext round trip
bool wrap_case(const std::vector<std::string>& w, std::string& out)
{
    if (w.size() == 3 && (w[0] == "hash256" || w[0] == "hash160")) {
        auto msg = vd::unhex(w[1]);
        auto sz = sizes(w[2]);
        if (w[0] == "hash256") {
            out = all_sha256_impls([&] { CHash256 h; feed_span(h, msg, sz); unsigned char d[CHash256::OUTPUT_SIZE]; h.Finalize(d); return vd::hex(d, d + sizeof(d)); });
        } else {
            CHash160 h; feed_span(h, msg, sz); unsigned char d[CHash160::OUTPUT_SIZE]; h.Finalize(d); out = vd::hex(d, d + sizeof(d));
        }
        return true;
    }
    if (w.size() == 4 && w[0] == "taggedhash") {
        auto tag = vd::unhex(w[1]);
        auto msg = vd::unhex(w[2]);
        HashWriter hw = TaggedHash(std::string(tag.begin(), tag.end()));
        size_t off = 0;
        for (size_t n : sizes(w[3])) {
            if (off + n > msg.size()) throw std::runtime_error("fragment sizes exceed the message");
            std::vector<std::byte> piece(n);
            for (size_t i = 0; i < n; ++i) piece[i] = std::byte{msg[off + i]};
            hw.write(piece);
            off += n;
        }
        if (off != msg.size()) throw std::runtime_error("fragment sizes do not cover the message");
        uint256 r = hw.GetSHA256();
        out = vd::hex(r.begin(), r.end());
        return true;
    }
    if (w.size() == 5 && w[0] == "bip32hash") {
        auto cc = vd::unhex(w[1]);
        auto data = vd::unhex(w[4]);
        if (cc.size() != 32 || data.size() != 32) { out = "BADCASE"; return true; }
        ChainCode chain{std::span<const unsigned char>{cc.data(), cc.size()}};
        unsigned char o[64];
        BIP32Hash(chain, (unsigned int)vd::ull(w[2]), (unsigned char)vd::ull(w[3]), data.data(), o);
        out = vd::hex(o, o + 64);
        return true;
    }
    if (w.size() == 3 && w[0] == "murmur3") {
        auto d = vd::unhex(w[2]);
        out = std::to_string(MurmurHash3((unsigned int)vd::ull(w[1]), d));
        return true;
    }
    if (w.size() == 5 && w[0] == "aes256cbc_pt") {
        auto key = vd::unhex(w[1]); auto iv = vd::unhex(w[2]); auto plain = vd::unhex(w[3]);
        const bool pad = (w[4] == "1");
        if (key.size() != AES256_KEYSIZE || iv.size() != AES_BLOCKSIZE) throw std::runtime_error("bad sizes");
        unsigned char dummy = 0;
        std::vector<unsigned char> ct(plain.size() + AES_BLOCKSIZE + CANARY, 0xa5);
        int n = AES256CBCEncrypt(key.data(), iv.data(), false).Encrypt(plain.empty() ? &dummy : plain.data(), (int)plain.size(), ct.data());
        if (n < 0 || (size_t)n > plain.size() + AES_BLOCKSIZE) { out = "BADLEN"; return true; }
        std::vector<unsigned char> back((size_t)n + AES_BLOCKSIZE + CANARY, 0xa5);
        int k = AES256CBCDecrypt(key.data(), iv.data(), pad).Decrypt(n ? ct.data() : &dummy, n, back.data());
        for (size_t i = (size_t)n + AES_BLOCKSIZE; i < back.size(); ++i) if (back[i] != 0xa5) { out = "OVERRUN"; return true; }
        if (k < 0 || k > n) { out = "BADLEN"; return true; }
        out = vd::hex(ct.begin(), ct.begin() + n) + " " + vd::hex(back.begin(), back.begin() + k);
        return true;
    }
    return false;
}
} // namespace

int main(int argc, char** argv)
{
    return vd::main_loop([&](const std::vector<std::string>& w, const std::string&) -> std::string {
        if (w.size() == 3 && w[0] == "sha256") {
            auto msg = vd::unhex(w[1]);
            auto sz = sizes(w[2]);
            return all_sha256_impls([&] {
                CSHA256 h;
                feed(h, msg, sz);
                unsigned char out[CSHA256::OUTPUT_SIZE];
                h.Finalize(out);
                return vd::hex(out, out + sizeof(out));
            });
        }
        if (w.size() == 2 && w[0] == "sha256d64") {
            auto in = vd::unhex(w[1]);
            if (in.size() % 64) return std::string("BADCASE");
            return all_sha256_impls([&] {
                std::vector<unsigned char> out(in.size() / 2);
                SHA256D64(out.data(), in.data(), in.size() / 64);
                return vd::hex(out);
            });
        }
        if (w.size() == 3 && (w[0] == "sha1" || w[0] == "sha512" || w[0] == "ripemd160")) {
            auto msg = vd::unhex(w[1]);
            auto sz = sizes(w[2]);
            auto run = [&](auto h) {
                feed(h, msg, sz);
                unsigned char out[decltype(h)::OUTPUT_SIZE];
                h.Finalize(out);
                return vd::hex(out, out + sizeof(out));
            };
            if (w[0] == "sha1") return run(CSHA1());
            if (w[0] == "sha512") return run(CSHA512());
            return run(CRIPEMD160());
        }
        if (w.size() == 4 && (w[0] == "hmac256" || w[0] == "hmac512")) {
            auto key = vd::unhex(w[1]);
            auto msg = vd::unhex(w[2]);
            auto sz = sizes(w[3]);
            // the key in its own exact-size block as well
            std::vector<unsigned char> k(key);
            if (w[0] == "hmac256") {
                return all_sha256_impls([&] {
                    CHMAC_SHA256 h(k.data(), k.size());
                    feed(h, msg, sz);
                    unsigned char out[CHMAC_SHA256::OUTPUT_SIZE];
                    h.Finalize(out);
                    return vd::hex(out, out + sizeof(out));
                });
            }
            CHMAC_SHA512 h(k.data(), k.size());
            feed(h, msg, sz);
            unsigned char out[CHMAC_SHA512::OUTPUT_SIZE];
            h.Finalize(out);
            return vd::hex(out, out + sizeof(out));
        }
        if (w.size() == 4 && w[0] == "hkdf") {
            auto ikm = vd::unhex(w[1]);
            auto salt = vd::unhex(w[2]);
            auto info = vd::unhex(w[3]);
            if (info.size() > 128) return std::string("BADCASE");   // Expand32 asserts info.size() <= 128
            CHKDF_HMAC_SHA256_L32 hk(ikm.data(), ikm.size(), std::string(salt.begin(), salt.end()));
            unsigned char out[32];
            hk.Expand32(std::string(info.begin(), info.end()), out);
            return vd::hex(out, out + sizeof(out));
        }
        if (w.size() == 7 && w[0] == "chacha20") {
            auto key = bytes_of(vd::unhex(w[1]));
            auto data = bytes_of(vd::unhex(w[5]));
            ChaCha20 c{key};
            c.Seek({(uint32_t)vd::ull(w[2]), (uint64_t)vd::ull(w[3])}, (uint32_t)vd::ull(w[4]));
            std::vector<std::byte> res;
            size_t off = 0;
            if (w[6] != "-") {
                for (const auto& t : split(w[6], ',')) {
                    size_t n = std::stoul(t.substr(1));
                    std::vector<std::byte> out(n);
                    if (t[0] == 'c') {
                        if (off + n > data.size()) throw std::runtime_error("ops exceed data");
                        std::vector<std::byte> piece(data.begin() + off, data.begin() + off + n);
                        c.Crypt(piece, out);
                        off += n;
                    } else {
                        c.Keystream(out);
                    }
                    res.insert(res.end(), out.begin(), out.end());
                }
            }
            return hexb(res);
        }
        if (w.size() == 4 && w[0] == "fschacha") {
            auto key = bytes_of(vd::unhex(w[1]));
            FSChaCha20 c{key, (uint32_t)vd::ull(w[2])};
            std::string out;
            for (const auto& t : split(w[3], ',')) {
                auto d = bytes_of(vd::unhex(t));
                std::vector<std::byte> o(d.size());
                c.Crypt(d, o);
                out += (out.empty() ? "" : ",") + hexb(o);
            }
            return out;
        }
        if (w.size() == 4 && w[0] == "poly1305") {
            auto key = bytes_of(vd::unhex(w[1]));
            auto msg = bytes_of(vd::unhex(w[2]));
            auto sz = sizes(w[3]);
            Poly1305 p{key};
            size_t off = 0;
            for (size_t n : sz) {
                if (off + n > msg.size()) throw std::runtime_error("fragment sizes exceed the message");
                std::vector<std::byte> piece(msg.begin() + off, msg.begin() + off + n);
                p.Update(piece);
                off += n;
            }
            if (off != msg.size()) throw std::runtime_error("fragment sizes do not cover the message");
            std::vector<std::byte> tag(Poly1305::TAGLEN);
            p.Finalize(tag);
            return hexb(tag);
        }
        if (w.size() == 7 && (w[0] == "aead_enc" || w[0] == "aead_dec")) {
            auto key = bytes_of(vd::unhex(w[1]));
            AEADChaCha20Poly1305::Nonce96 nonce{(uint32_t)vd::ull(w[2]), (uint64_t)vd::ull(w[3])};
            auto aad = bytes_of(vd::unhex(w[4]));
            auto in = bytes_of(vd::unhex(w[5]));
            size_t len1 = std::stoul(w[6]);
            AEADChaCha20Poly1305 a{key};
            if (w[0] == "aead_enc") {
                if (len1 > in.size()) return std::string("BADCASE");
                std::vector<std::byte> p1(in.begin(), in.begin() + len1), p2(in.begin() + len1, in.end());
                std::vector<std::byte> out(in.size() + AEADChaCha20Poly1305::EXPANSION);
                a.Encrypt(p1, p2, aad, nonce, out);
                return hexb(out);
            }
            if (in.size() < AEADChaCha20Poly1305::EXPANSION || len1 > in.size() - AEADChaCha20Poly1305::EXPANSION) return std::string("BADCASE");
            std::vector<std::byte> p1(len1), p2(in.size() - AEADChaCha20Poly1305::EXPANSION - len1);
            bool ok = a.Decrypt(in, aad, nonce, p1, p2);
            return ok ? "ok " + hexb(p1) + " " + hexb(p2) : std::string("fail");
        }
        if (w.size() == 9 && w[0] == "aead_tamper") {
            auto key = bytes_of(vd::unhex(w[1]));
            AEADChaCha20Poly1305::Nonce96 nonce{(uint32_t)vd::ull(w[2]), (uint64_t)vd::ull(w[3])};
            auto aad = bytes_of(vd::unhex(w[4]));
            auto pl = bytes_of(vd::unhex(w[5]));
            size_t len1 = std::stoul(w[6]);
            size_t bit = std::stoul(w[8]);
            if (len1 > pl.size()) return std::string("BADCASE");
            std::vector<std::byte> out(pl.size() + AEADChaCha20Poly1305::EXPANSION);
            {
                AEADChaCha20Poly1305 a{key};
                a.Encrypt(pl, aad, nonce, out);
            }
            if (w[7] == "ct") flip(out, bit);
            else if (w[7] == "tag") flip(out, 8 * pl.size() + bit);
            else if (w[7] == "aad") flip(aad, bit);
            AEADChaCha20Poly1305 b{key};
            std::vector<std::byte> p1(len1), p2(pl.size() - len1);
            bool ok = b.Decrypt(out, aad, nonce, p1, p2);
            return ok ? "ok " + hexb(p1) + " " + hexb(p2) : std::string("fail");
        }
        if (w.size() == 4 && w[0] == "fsaead") {
            auto key = bytes_of(vd::unhex(w[1]));
            uint32_t interval = (uint32_t)vd::ull(w[2]);
            FSChaCha20Poly1305 enc{key, interval}, dec{key, interval};
            std::string out;
            bool all_ok = true;
            for (const auto& t : split(w[3], ',')) {
                auto pa = split(t, ':');
                if (pa.size() != 2) return std::string("BADCASE");
                auto pl = bytes_of(vd::unhex(pa[0]));
                auto aad = bytes_of(vd::unhex(pa[1]));
                std::vector<std::byte> c(pl.size() + FSChaCha20Poly1305::EXPANSION);
                enc.Encrypt(pl, aad, c);
                out += (out.empty() ? "" : ",") + hexb(c);
                std::vector<std::byte> back(pl.size());
                bool ok = dec.Decrypt(c, aad, back);
                all_ok = all_ok && ok && back == pl;
            }
            return out + (all_ok ? " dec=ok" : " dec=FAIL");
        }
        { std::string r; if (sip_sha3_case(w, r)) return r; }
        { bool h = false; std::string r = aes_case(w, h); if (h) return r; }
        { std::string r; if (wrap_case(w, r)) return r; }
        if (w.size() == 1 && w[0] == "sha256impls") {
            std::string out;
            for (auto impl : IMPLS) out += (out.empty() ? "" : "|") + SHA256AutoDetect(impl);
            SHA256AutoDetect();
            return out;
        }
        return "BADCASE";
    });
}
