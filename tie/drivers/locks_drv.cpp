// C++ side of C05 (family locks), function level: calls the real IsFinalTx, CBlockIndex::GetMedianTimePast,
// CalculateSequenceLocks / EvaluateSequenceLocks / SequenceLocks and Consensus::CheckTxInputs of the current
// tree on synthetic CBlockIndex chains (chosen, possibly non-monotone, times) and a synthetic coins view.
//
// cases:
//   final <version> <locktime> <height> <time> <nseq> <seq>*                       -> 0|1
//   mtp <n> <t>*n                                                                   -> MTP of every block, by height
//   seqlock <version> <flags> <n> <t>*n <nin> {<seq> <coinheight>}*nin              -> <minHeight> <minTime> <evaluate> <SequenceLocks> <prevHeights afterwards>*
//   maturity <spendheight> <nin> {<coinheight> <coinbase 0|1>}*nin                  -> ok | <reject reason>
#include <drv_common.h>
#include <arith_uint256.h>
#include <chain.h>
#include <coins.h>
#include <consensus/amount.h>
#include <consensus/tx_verify.h>
#include <consensus/validation.h>
#include <primitives/transaction.h>
#include <script/script.h>
#include <uint256.h>

#include <csetjmp>
#include <csignal>
#include <memory>

namespace {
// A failing assert()/Assert() inside the functions under test must not take the whole run down: it is reported as
// the result of that case ("CRASH SIGABRT").
sigjmp_buf g_jmp;
void on_abort(int) { siglongjmp(g_jmp, 1); }
void install_abort_handler()
{
    struct sigaction sa {};
    sa.sa_handler = on_abort;
    sigemptyset(&sa.sa_mask);
    sa.sa_flags = SA_NODEFER;
    sigaction(SIGABRT, &sa, nullptr);
}

struct SynthChain {
    std::vector<std::unique_ptr<CBlockIndex>> v;
    explicit SynthChain(const std::vector<uint32_t>& times)
    {
        for (size_t i = 0; i < times.size(); ++i) {
            auto idx = std::make_unique<CBlockIndex>();
            idx->nHeight = (int)i;
            idx->nTime = times[i];
            idx->pprev = i ? v[i - 1].get() : nullptr;
            idx->BuildSkip();
            v.push_back(std::move(idx));
        }
    }
    CBlockIndex& tip() { return *v.back(); }
};

CMutableTransaction make_tx(uint32_t version, uint32_t locktime, const std::vector<uint32_t>& seqs)
{
    CMutableTransaction mtx;
    mtx.version = version;
    mtx.nLockTime = locktime;
    for (size_t i = 0; i < seqs.size(); ++i) {
        CTxIn in;
        in.prevout = COutPoint(Txid::FromUint256(ArithToUint256(arith_uint256(1000 + i))), (uint32_t)i);
        in.nSequence = seqs[i];
        mtx.vin.push_back(in);
    }
    mtx.vout.emplace_back(1000, CScript() << OP_TRUE);
    return mtx;
}
} // namespace

int main()
{
    install_abort_handler();
    return vd::main_loop([&](const std::vector<std::string>& w, const std::string&) -> std::string {
        if (w.empty()) return "BADCASE";
        size_t p = 1;
        if (w[0] == "final") {
            uint32_t version = (uint32_t)vd::ull(w.at(p++));
            uint32_t locktime = (uint32_t)vd::ull(w.at(p++));
            int height = (int)vd::ll(w.at(p++));
            int64_t time = vd::ll(w.at(p++));
            size_t n = vd::ull(w.at(p++));
            std::vector<uint32_t> seqs;
            for (size_t i = 0; i < n; ++i) seqs.push_back((uint32_t)vd::ull(w.at(p++)));
            const CTransaction tx{make_tx(version, locktime, seqs)};
            return IsFinalTx(tx, height, time) ? "1" : "0";
        }
        if (w[0] == "mtp") {
            size_t n = vd::ull(w.at(p++));
            std::vector<uint32_t> times;
            for (size_t i = 0; i < n; ++i) times.push_back((uint32_t)vd::ull(w.at(p++)));
            SynthChain c(times);
            std::string out;
            for (size_t i = 0; i < n; ++i) out += (i ? " " : "") + std::to_string(c.v[i]->GetMedianTimePast());
            return out.empty() ? "-" : out;
        }
        if (w[0] == "seqlock") {
            uint32_t version = (uint32_t)vd::ull(w.at(p++));
            int flags = (int)vd::ll(w.at(p++));
            size_t n = vd::ull(w.at(p++));
            std::vector<uint32_t> times;
            for (size_t i = 0; i < n; ++i) times.push_back((uint32_t)vd::ull(w.at(p++)));
            size_t nin = vd::ull(w.at(p++));
            std::vector<uint32_t> seqs;
            std::vector<int> prev;
            for (size_t i = 0; i < nin; ++i) {
                seqs.push_back((uint32_t)vd::ull(w.at(p++)));
                prev.push_back((int)vd::ll(w.at(p++)));
            }
            if (n < 2) return "abort";   // EvaluateSequenceLocks asserts block.pprev
            SynthChain c(times);
            const CTransaction tx{make_tx(version, 0, seqs)};
            // CalculateSequenceLocks Assert()s that the ancestor exists: such a case would kill the process
            if (version >= 2 && (flags & LOCKTIME_VERIFY_SEQUENCE)) {
                for (size_t i = 0; i < nin; ++i) {
                    if (seqs[i] & CTxIn::SEQUENCE_LOCKTIME_DISABLE_FLAG) continue;
                    if ((seqs[i] & CTxIn::SEQUENCE_LOCKTIME_TYPE_FLAG) && std::max(prev[i] - 1, 0) > c.tip().nHeight) return "abort";
                }
            }
            std::vector<int> prev1 = prev, prev2 = prev;
            if (sigsetjmp(g_jmp, 1)) return "CRASH SIGABRT";
            const auto lp = CalculateSequenceLocks(tx, flags, prev1, c.tip());
            const bool ev = EvaluateSequenceLocks(c.tip(), lp);
            const bool sl = SequenceLocks(tx, flags, prev2, c.tip());
            std::string out = std::to_string(lp.first) + " " + std::to_string(lp.second) + " " + (ev ? "1" : "0") + " " + (sl ? "1" : "0");
            for (int h : prev1) out += " " + std::to_string(h);
            if (prev1 != prev2) out += " PREVHEIGHTS-DIFFER";
            return out;
        }
        if (w[0] == "maturity") {
            int spend = (int)vd::ll(w.at(p++));
            size_t nin = vd::ull(w.at(p++));
            CCoinsViewCache coins{&CoinsViewEmpty::Get()};
            std::vector<uint32_t> seqs(nin, CTxIn::SEQUENCE_FINAL);
            CMutableTransaction mtx = make_tx(2, 0, seqs);
            for (size_t i = 0; i < nin; ++i) {
                int ch = (int)vd::ll(w.at(p++));
                bool cb = vd::ull(w.at(p++)) != 0;
                coins.AddCoin(mtx.vin[i].prevout, Coin(CTxOut(5000, CScript() << OP_TRUE), ch, cb), false);
            }
            const CTransaction tx{mtx};
            TxValidationState st;
            CAmount fee = 0;
            const bool ok = Consensus::CheckTxInputs(tx, st, coins, spend, fee);
            return ok ? "ok" : st.GetRejectReason();
        }
        return "BADCASE";
    });
}
