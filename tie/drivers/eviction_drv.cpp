// C++ side of the eviction family (C59): calls the real SelectNodeToEvict /
// ProtectEvictionCandidatesByRatio of the current tree.
//   sel <tag> <cand> ...    -> none | <id>
//   ratio <tag> <cand> ...  -> remaining ids, sorted | -
//   <cand> = id,connected,ping,block,tx,relevant,relay,bloom,netgroup,prefer,local,network,noban,conntype
#include <drv_common.h>
#include <node/eviction.h>
#include <netaddress.h>
#include <util/time.h>

#include <algorithm>
#include <chrono>
#include <optional>
#include <vector>

static NodeEvictionCandidate parse_cand(const std::string& s)
{
    std::vector<std::string> f;
    size_t start = 0;
    while (true) {
        size_t p = s.find(',', start);
        if (p == std::string::npos) { f.push_back(s.substr(start)); break; }
        f.push_back(s.substr(start, p - start));
        start = p + 1;
    }
    if (f.size() != 14) throw std::runtime_error("bad candidate");
    NodeEvictionCandidate c{};
    c.id = (NodeId)std::stoll(f[0]);
    c.m_connected = NodeClock::time_point{NodeClock::duration{(NodeClock::duration::rep)std::stoll(f[1])}};
    c.m_min_ping_time = decltype(c.m_min_ping_time){(decltype(c.m_min_ping_time)::rep)std::stoll(f[2])};
    c.m_last_block_time = std::chrono::seconds{std::stoll(f[3])};
    c.m_last_tx_time = std::chrono::seconds{std::stoll(f[4])};
    c.fRelevantServices = f[5] == "1";
    c.m_relay_txs = f[6] == "1";
    c.fBloomFilter = f[7] == "1";
    c.nKeyedNetGroup = (uint64_t)std::stoull(f[8]);
    c.prefer_evict = f[9] == "1";
    c.m_is_local = f[10] == "1";
    c.m_network = (Network)std::stoi(f[11]);
    c.m_noban = f[12] == "1";
    c.m_conn_type = (ConnectionType)std::stoi(f[13]);
    return c;
}

int main(int argc, char** argv)
{
    return vd::main_loop([&](const std::vector<std::string>& w, const std::string&) -> std::string {
        if (w.size() < 2) return "BADCASE";
        std::vector<NodeEvictionCandidate> v;
        for (size_t i = 2; i < w.size(); ++i) v.push_back(parse_cand(w[i]));
        if (w[0] == "sel") {
            const std::optional<NodeId> r = SelectNodeToEvict(std::move(v));
            return r ? std::to_string(*r) : std::string("none");
        }
        if (w[0] == "ratio") {
            ProtectEvictionCandidatesByRatio(v);
            std::vector<NodeId> ids;
            for (const auto& c : v) ids.push_back(c.id);
            std::sort(ids.begin(), ids.end());
            std::string out;
            for (NodeId i : ids) { if (!out.empty()) out += " "; out += std::to_string(i); }
            return out.empty() ? "-" : out;
        }
        return "BADCASE";
    });
}
