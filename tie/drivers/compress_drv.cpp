// C++ side of the coin/UTXO encoding checks (C18): calls the real CompressAmount/DecompressAmount,
// ScriptCompression, Coin::Serialize/Unserialize, TxInUndoFormatter and VARINT of the current tree.
#include <drv_common.h>
#include <coins.h>
#include <compressor.h>
#include <primitives/transaction.h>
#include <script/script.h>
#include <serialize.h>
#include <streams.h>
#include <undo.h>

#include <csetjmp>
#include <csignal>
#include <ios>

// An assert() inside the code under test (e.g. in CompressAmount) must not take the whole run down:
// the case is reported as "abort" and the next case is processed.
static sigjmp_buf g_abort_env;
static void on_abort(int) { siglongjmp(g_abort_env, 1); }

static std::string err_class(const std::exception& e)
{
    const std::string w{e.what()};
    if (w.find("end of data") != std::string::npos) return "err EOF";
    if (w.find("size too large") != std::string::npos) return "err LARGE";
    if (w.find("non-canonical") != std::string::npos) return "err NONCANON";
    return "err OTHER";
}

static std::string hexs(const DataStream& ds)
{
    std::vector<unsigned char> v;
    for (auto b : ds) v.push_back((unsigned char)b);
    return vd::hex(v);
}

static DataStream stream_of(const std::string& h)
{
    auto v = vd::unhex(h);
    DataStream ds;
    ds.write(std::as_bytes(std::span<const unsigned char>{v}));
    return ds;
}

static CScript script_of(const std::string& h)
{
    auto v = vd::unhex(h);
    return CScript(v.begin(), v.end());
}

static std::string coin_str(const Coin& c)
{
    return std::to_string((unsigned)c.nHeight) + " " + (c.fCoinBase ? "1" : "0") + " " + std::to_string(c.out.nValue) + " " +
           vd::hex(c.out.scriptPubKey.begin(), c.out.scriptPubKey.end());
}

template <typename F>
static std::string guarded(F f)
{
    try {
        return f();
    } catch (const std::ios_base::failure& e) {
        return err_class(e);
    }
}

template <typename I>
static std::string varint_case(unsigned long long n)
{
    DataStream ds;
    ds << VARINT((I)n);
    std::string enc = hexs(ds);
    return enc + " " + guarded([&] {
               I v = 0;
               ds >> VARINT(v);
               return "ok " + std::to_string((unsigned long long)v) + " " + std::to_string(ds.size());
           });
}

template <typename I>
static std::string dvarint_case(const std::string& h)
{
    DataStream ds = stream_of(h);
    return guarded([&] {
        I v = 0;
        ds >> VARINT(v);
        return "ok " + std::to_string((unsigned long long)v) + " " + std::to_string(ds.size());
    });
}

int main(int argc, char** argv)
{
    std::signal(SIGABRT, on_abort);
    return vd::main_loop([&](const std::vector<std::string>& w, const std::string&) -> std::string {
        if (sigsetjmp(g_abort_env, 1) != 0) {
            std::signal(SIGABRT, on_abort);
            return "abort";
        }
        if (w.size() == 2 && w[0] == "amt") {
            uint64_t c = CompressAmount(vd::ull(w[1]));
            return std::to_string(c) + " " + std::to_string(DecompressAmount(c));
        }
        if (w.size() == 2 && w[0] == "damt") return std::to_string(DecompressAmount(vd::ull(w[1])));
        if (w.size() == 2 && w[0] == "special") return std::to_string(GetSpecialScriptSize((unsigned int)vd::ull(w[1])));
        if (w.size() == 3 && w[0] == "varint") {
            return w[1] == "32" ? varint_case<uint32_t>(vd::ull(w[2])) : varint_case<uint64_t>(vd::ull(w[2]));
        }
        if (w.size() == 3 && w[0] == "dvarint") {
            return w[1] == "32" ? dvarint_case<uint32_t>(w[2]) : dvarint_case<uint64_t>(w[2]);
        }
        if (w.size() == 2 && w[0] == "script") {
            const CScript s = script_of(w[1]);
            DataStream ds;
            ds << Using<ScriptCompression>(s);
            std::string enc = hexs(ds);
            return enc + " " + guarded([&] {
                       CScript out;
                       ds >> Using<ScriptCompression>(out);
                       return "ok " + vd::hex(out.begin(), out.end()) + " " + std::to_string(ds.size());
                   });
        }
        if (w.size() == 3 && w[0] == "dscript") {
            DataStream ds = stream_of(w[2]);
            return guarded([&] {
                CScript out = script_of(w[1]);
                ds >> Using<ScriptCompression>(out);
                return "ok " + vd::hex(out.begin(), out.end()) + " " + std::to_string(ds.size());
            });
        }
        if (w.size() == 5 && (w[0] == "coin" || w[0] == "undo")) {
            const bool undo = w[0] == "undo";
            const CAmount v = (CAmount)vd::ll(w[3]);
            if (!undo && v == -1) return "assert"; // Coin::Serialize asserts !IsSpent()
            Coin c(CTxOut(v, script_of(w[4])), (int)vd::ll(w[1]), w[2] == "1");
            DataStream ds;
            if (undo) ds << Using<TxInUndoFormatter>(c); else ds << c;
            std::string enc = hexs(ds);
            return enc + " " + guarded([&] {
                       Coin back;
                       if (undo) ds >> Using<TxInUndoFormatter>(back); else ds >> back;
                       return "ok " + coin_str(back) + " " + std::to_string(ds.size());
                   });
        }
        if (w.size() == 2 && (w[0] == "dcoin" || w[0] == "dundo")) {
            const bool undo = w[0] == "dundo";
            DataStream ds = stream_of(w[1]);
            return guarded([&] {
                Coin back;
                if (undo) ds >> Using<TxInUndoFormatter>(back); else ds >> back;
                return "ok " + coin_str(back) + " " + std::to_string(ds.size());
            });
        }
        return "BADCASE";
    });
}
