// C++ side of the `coins` family (C15): a stack of REAL CCoinsViewCache / CoinsViewOverlay objects of
// the current tree over an in-driver map view ("mem") or a real in-memory CCoinsViewDB ("ldb"),
// driven by an operation script.  After every operation it prints what the caller observed and what
// every view answers (PeekCoin, which does not modify any cache) for every outpoint of the universe;
// at the end it dumps every cache: counters as reported, counters recomputed from the entries and the
// flagged list (what SanityCheck compares), and every entry with its flags.
//
//   case:  ops <mem|ldb> <U> <kinds top..bottom, c|o each> <k=coin,...|-> <op>*
//   op  :  add d k coin ow | spend d k | get d k | have d k | access d k | peek d k | uncache d k |
//          flush d | sync d | reset d | push c|o | pop          (d = depth from the top, 0 = top)
//   coin:  value:height:coinbase:scriptlen:unspendable
#include <drv_common.h>
#include <coins.h>
#include <primitives/transaction.h>
#include <script/script.h>
#include <txdb.h>
#include <uint256.h>
#include <util/threadpool.h>

#include <algorithm>
#include <map>
#include <memory>
#include <optional>
#include <stdexcept>

namespace {

struct BadCase : std::runtime_error { using std::runtime_error::runtime_error; };

COutPoint outpoint_of(unsigned k)
{
    uint256 h;
    h.data()[0] = (unsigned char)(k + 1);
    h.data()[7] = (unsigned char)(0xA0 ^ k);
    return COutPoint(Txid::FromUint256(h), k % 3);
}

std::vector<std::string> split(const std::string& s, char sep)
{
    std::vector<std::string> out;
    std::string cur;
    for (char c : s) {
        if (c == sep) { out.push_back(cur); cur.clear(); } else cur.push_back(c);
    }
    out.push_back(cur);
    return out;
}

Coin parse_coin(const std::string& t)
{
    auto f = split(t, ':');
    if (f.size() != 5) throw BadCase("coin");
    const long long value = vd::ll(f[0]);
    const int height = (int)vd::ll(f[1]);
    const bool cb = f[2] == "1";
    const size_t slen = (size_t)vd::ll(f[3]);
    const bool unsp = f[4] == "1";
    std::vector<unsigned char> s(slen, 0x51); // OP_1 ...
    if (unsp && slen > 0) s[0] = 0x6a;        // OP_RETURN: IsUnspendable()
    return Coin(CTxOut(value, CScript(s.begin(), s.end())), height, cb);
}

std::string show_coin(const Coin& c)
{
    if (c.IsSpent()) return "-";
    return std::to_string(c.out.nValue) + ":" + std::to_string((unsigned)c.nHeight) + ":" + (c.fCoinBase ? "1" : "0") + ":" +
           std::to_string(c.out.scriptPubKey.size()) + ":" + (c.out.scriptPubKey.IsUnspendable() ? "1" : "0");
}
std::string show_coin(const std::optional<Coin>& c) { return c ? show_coin(*c) : std::string("-"); }

// Bottom view kept in the driver: writes unspent coins, erases spent ones (dirty entries only),
// exactly what CCoinsViewDB::BatchWrite does to its key space.
class MemView : public CoinsViewEmpty
{
public:
    std::map<COutPoint, Coin> m;
    std::optional<Coin> GetCoin(const COutPoint& o) const override
    {
        if (auto it{m.find(o)}; it != m.end() && !it->second.IsSpent()) return it->second;
        return std::nullopt;
    }
    void BatchWrite(CoinsViewCacheCursor& cursor, const uint256&) override
    {
        for (auto it{cursor.Begin()}; it != cursor.End(); it = cursor.NextAndMaybeErase(*it)) {
            if (it->second.IsDirty()) {
                if (it->second.coin.IsSpent()) m.erase(it->first); else m[it->first] = it->second.coin;
            }
        }
    }
};

// access to the protected state of a cache, for the dump only
struct CacheIface {
    virtual ~CacheIface() = default;
    virtual CCoinsViewCache& cache() = 0;
    virtual CCoinsMap& map() = 0;
    virtual CoinsCachePair& sentinel() = 0;
    virtual size_t usage() = 0;
    virtual void do_reset() = 0;
    virtual bool overlay() = 0;
};
template <typename B, bool OV>
struct Acc final : B, CacheIface {
    using B::B;
    CCoinsViewCache& cache() override { return *this; }
    CCoinsMap& map() override { return this->cacheCoins; }
    CoinsCachePair& sentinel() override { return this->m_sentinel; }
    size_t usage() override { return this->cachedCoinsUsage; }
    void do_reset() override { this->Reset(); }
    bool overlay() override { return OV; }
};

const uint256 BLOCK_HASH{uint256::ONE};

struct Stack {
    std::unique_ptr<MemView> mem;
    std::unique_ptr<CCoinsViewDB> ldb;
    std::vector<std::unique_ptr<CacheIface>> layers; // back() = top
    std::shared_ptr<ThreadPool> pool{std::make_shared<ThreadPool>("verif")};

    CCoinsView* bottom() { return mem ? static_cast<CCoinsView*>(mem.get()) : static_cast<CCoinsView*>(ldb.get()); }
    void push(bool ov)
    {
        CCoinsView* base = layers.empty() ? bottom() : static_cast<CCoinsView*>(&layers.back()->cache());
        if (ov) layers.push_back(std::make_unique<Acc<CoinsViewOverlay, true>>(base, pool, /*deterministic=*/true));
        else layers.push_back(std::make_unique<Acc<CCoinsViewCache, false>>(base, /*deterministic=*/true));
    }
    CacheIface* at(size_t d) { return d < layers.size() ? layers[layers.size() - 1 - d].get() : nullptr; }
};

std::string views(Stack& st, unsigned U)
{
    std::string out;
    for (size_t d = 0; d <= st.layers.size(); ++d) {
        CCoinsView* v = d < st.layers.size() ? static_cast<CCoinsView*>(&st.at(d)->cache()) : st.bottom();
        if (d) out += " ";
        for (unsigned k = 0; k < U; ++k) {
            if (k) out += ",";
            out += show_coin(v->PeekCoin(outpoint_of(k)));
        }
    }
    return out;
}

std::string dump_layer(CacheIface& L, unsigned U)
{
    CCoinsViewCache& c = L.cache();
    CCoinsMap& m = L.map();
    size_t rdirty = 0, rusage = 0, rsize = 0;
    for (const auto& [k, e] : m) { ++rsize; if (e.IsDirty()) ++rdirty; rusage += e.coin.DynamicMemoryUsage(); }
    size_t linked = 0;
    {
        CoinsCachePair& s = L.sentinel();
        for (auto it = s.second.Next(); it != &s && linked <= rsize + 1; it = it->second.Next()) ++linked;
    }
    std::string out = std::string(L.overlay() ? "o" : "c") + " " + std::to_string(c.GetCacheSize()) + " " + std::to_string(c.GetDirtyCount()) +
                      " " + std::to_string(L.usage()) + " " + std::to_string(rsize) + " " + std::to_string(rdirty) + " " +
                      std::to_string(rusage) + " " + std::to_string(linked) + " ";
    std::string ents;
    for (unsigned k = 0; k < U; ++k) {
        auto it = m.find(outpoint_of(k));
        if (it == m.end()) continue;
        if (!ents.empty()) ents += ",";
        const auto& e = it->second;
        ents += std::to_string(k) + "=" + show_coin(e.coin) + "=" + std::to_string(e.coin.DynamicMemoryUsage()) + "=" +
                (e.IsDirty() ? (e.IsFresh() ? "df" : "d") : (e.IsFresh() ? "f" : "n"));
    }
    // entries outside the universe would be a driver bug
    if (rsize != (size_t)std::count(ents.begin(), ents.end(), '=') / 3) ents += ",EXTRA";
    return out + (ents.empty() ? "-" : ents);
}

std::string run_case(const std::vector<std::string>& w)
{
    if (w.size() < 5 || w[0] != "ops") return "BADCASE";
    Stack st;
    const unsigned U = (unsigned)vd::ull(w[2]);
    if (w[1] == "mem") st.mem = std::make_unique<MemView>();
    else if (w[1] == "ldb") st.ldb = std::make_unique<CCoinsViewDB>(DBParams{.path = "verif_coins", .cache_bytes = 1 << 20, .memory_only = true}, CoinsViewOptions{});
    else return "BADCASE";
    if (w[4] != "-") {
        CCoinsViewCache tmp(st.bottom(), true);
        for (const auto& kv : split(w[4], ',')) {
            auto p = split(kv, '=');
            if (p.size() != 2) return "BADCASE";
            tmp.AddCoin(outpoint_of((unsigned)vd::ull(p[0])), parse_coin(p[1]), true);
        }
        tmp.SetBestBlock(BLOCK_HASH);
        tmp.Flush();
    }
    for (auto it = w[3].rbegin(); it != w[3].rend(); ++it) st.push(*it == 'o');

    std::string out;
    size_t i = 5;
    bool first = true;
    bool stopped = false;
    auto need = [&](size_t n) { if (i + n > w.size()) throw BadCase("short op"); };
    while (i < w.size() && !stopped) {
        const std::string& name = w[i];
        std::string ob;
        try {
            if (name == "push") {
                need(2);
                st.push(w[i + 1] == "o");
                i += 2;
                ob = "u";
            } else if (name == "pop") {
                i += 1;
                if (st.layers.size() < 2) { ob = "badlayer"; stopped = true; }
                else { st.layers.pop_back(); ob = "u"; }
            } else if (name == "flush" || name == "sync" || name == "reset") {
                need(2);
                CacheIface* L = st.at((size_t)vd::ull(w[i + 1]));
                i += 2;
                if (!L) { ob = "badlayer"; stopped = true; }
                else {
                    if (name == "reset") L->do_reset();
                    else {
                        L->cache().SetBestBlock(BLOCK_HASH); // CCoinsViewDB::BatchWrite asserts a non-null hash
                        if (name == "flush") L->cache().Flush(); else L->cache().Sync();
                    }
                    ob = "u";
                }
            } else if (name == "add") {
                need(5);
                CacheIface* L = st.at((size_t)vd::ull(w[i + 1]));
                const COutPoint o = outpoint_of((unsigned)vd::ull(w[i + 2]));
                Coin c = parse_coin(w[i + 3]);
                const bool ow = w[i + 4] == "1";
                i += 5;
                if (!L) { ob = "badlayer"; stopped = true; }
                else { L->cache().AddCoin(o, std::move(c), ow); ob = "u"; }
            } else if (name == "spend" || name == "get" || name == "have" || name == "access" || name == "peek" || name == "uncache") {
                need(3);
                CacheIface* L = st.at((size_t)vd::ull(w[i + 1]));
                const COutPoint o = outpoint_of((unsigned)vd::ull(w[i + 2]));
                i += 3;
                if (!L) { ob = "badlayer"; stopped = true; }
                else if (name == "spend") {
                    Coin moved;
                    const bool r = L->cache().SpendCoin(o, &moved);
                    ob = std::string("s:") + (r ? "1" : "0") + "=" + show_coin(moved);
                } else if (name == "get") ob = "c:" + show_coin(L->cache().GetCoin(o));
                else if (name == "have") ob = std::string("b:") + (L->cache().HaveCoin(o) ? "1" : "0");
                else if (name == "access") ob = "c:" + show_coin(L->cache().AccessCoin(o));
                else if (name == "peek") ob = "c:" + show_coin(L->cache().PeekCoin(o));
                else { L->cache().Uncache(o); ob = "u"; }
            } else {
                return "BADCASE";
            }
        } catch (const std::logic_error& e) {
            const std::string what = e.what();
            if (what.find("overwrite") != std::string::npos) ob = "throw:overwrite";
            else if (what.find("FRESH flag misapplied") != std::string::npos) ob = "throw:fresh";
            else ob = "throw:other";
            stopped = true;
        }
        if (!first) out += " ; ";
        first = false;
        out += ob;
        if (!stopped) out += " / " + views(st, U);
    }
    if (!stopped) {
        out += " #";
        for (size_t d = 0; d < st.layers.size(); ++d) out += std::string(d ? " @ " : " ") + dump_layer(*st.at(d), U);
    }
    return out;
}

} // namespace

int main(int, char**)
{
    return vd::main_loop([&](const std::vector<std::string>& w, const std::string&) -> std::string {
        try {
            return run_case(w);
        } catch (const BadCase&) {
            return "BADCASE";
        }
    });
}
