// C++ side of the EC family (C50): calls the real libsecp256k1 API of the current tree
// (secp256k1_ecdsa_signature_parse_compact / normalize / verify, ec_seckey_verify / negate / tweak_add /
// tweak_mul, ec_pubkey_parse / serialize / create / negate / tweak_add, xonly_pubkey_*), and the node's
// wrappers CPubKey::CheckLowS / CPubKey::Verify / XOnlyPubKey. All values travel as hex. One line per case.
#include <drv_common.h>
#include <key.h>
#include <pubkey.h>
#include <uint256.h>
#include <secp256k1.h>
#include <secp256k1_extrakeys.h>
#include <secp256k1_schnorrsig.h>

#include <cstring>

static secp256k1_context* g_ctx = nullptr;

static bool get32(const std::string& h, unsigned char* out)
{
    auto v = vd::unhex(h);
    if (v.size() != 32) return false;
    memcpy(out, v.data(), 32);
    return true;
}
static std::string ser(const secp256k1_pubkey& pk, bool compressed)
{
    unsigned char out[65];
    size_t len = 65;
    secp256k1_ec_pubkey_serialize(g_ctx, out, &len, &pk, compressed ? SECP256K1_EC_COMPRESSED : SECP256K1_EC_UNCOMPRESSED);
    return vd::hex(out, out + len);
}
static bool parse_sig(const std::string& r, const std::string& s, secp256k1_ecdsa_signature& sig)
{
    unsigned char c64[64];
    if (!get32(r, c64) || !get32(s, c64 + 32)) return false;
    return secp256k1_ecdsa_signature_parse_compact(g_ctx, &sig, c64) != 0;
}
static std::vector<unsigned char> der_of(const secp256k1_ecdsa_signature& sig)
{
    unsigned char der[80];
    size_t len = 80;
    secp256k1_ecdsa_signature_serialize_der(g_ctx, der, &len, &sig);
    return std::vector<unsigned char>(der, der + len);
}

int main(int argc, char** argv)
{
    ECC_Context ecc;
    g_ctx = secp256k1_context_create(SECP256K1_CONTEXT_NONE);
    return vd::main_loop([&](const std::vector<std::string>& w, const std::string&) -> std::string {
        if (w.empty()) return "BADCASE";
        const std::string& op = w[0];
        unsigned char a[32], b[32];
        if (op == "signorm" && w.size() == 3) {
            secp256k1_ecdsa_signature sig, out;
            if (!parse_sig(w[1], w[2], sig)) return "parsefail";
            int high = secp256k1_ecdsa_signature_normalize(g_ctx, &out, &sig);
            int high2 = secp256k1_ecdsa_signature_normalize(g_ctx, nullptr, &out);    // normal form is a fixed point
            unsigned char c64[64];
            secp256k1_ecdsa_signature_serialize_compact(g_ctx, c64, &out);
            bool lows = CPubKey::CheckLowS(der_of(sig));
            return std::to_string(high) + " " + vd::hex(c64, c64 + 32) + " " + vd::hex(c64 + 32, c64 + 64) + " " + std::to_string(high2) + " " + (lows ? "1" : "0");
        }
        if (op == "seckey_verify" && w.size() == 2) {
            if (!get32(w[1], a)) return "BADCASE";
            CKey ck;
            ck.Set(a, a + 32, true);      // CKey::Set keeps the key iff CKey::Check (= secp256k1_ec_seckey_verify)
            return std::to_string(secp256k1_ec_seckey_verify(g_ctx, a)) + " " + (ck.IsValid() ? "1" : "0");
        }
        if (op == "seckey_negate" && w.size() == 2) {
            if (!get32(w[1], a)) return "BADCASE";
            int r = secp256k1_ec_seckey_negate(g_ctx, a);
            return std::to_string(r) + " " + vd::hex(a, a + 32);
        }
        if ((op == "seckey_tweak_add" || op == "seckey_tweak_mul") && w.size() == 3) {
            if (!get32(w[1], a) || !get32(w[2], b)) return "BADCASE";
            int r = op == "seckey_tweak_add" ? secp256k1_ec_seckey_tweak_add(g_ctx, a, b) : secp256k1_ec_seckey_tweak_mul(g_ctx, a, b);
            return std::to_string(r) + " " + vd::hex(a, a + 32);
        }
        if (op == "pubkey_parse" && w.size() == 2) {
            auto v = vd::unhex(w[1]);
            secp256k1_pubkey pk;
            CPubKey cpk(v.begin(), v.end());
            std::string node = cpk.IsFullyValid() ? "1" : "0";     // CPubKey::Set (length by header) + IsFullyValid
            unsigned char dummy = 0;                               // input must not be NULL even when the length is 0
            if (!secp256k1_ec_pubkey_parse(g_ctx, &pk, v.empty() ? &dummy : v.data(), v.size())) return "fail " + node;
            return ser(pk, true) + " " + ser(pk, false) + " " + node;
        }
        if (op == "pubkey_create" && w.size() == 2) {
            if (!get32(w[1], a)) return "BADCASE";
            secp256k1_pubkey pk;
            if (!secp256k1_ec_pubkey_create(g_ctx, &pk, a)) return "fail";
            return ser(pk, true);
        }
        if (op == "pubkey_negate" && w.size() == 2) {
            auto v = vd::unhex(w[1]);
            secp256k1_pubkey pk;
            if (!secp256k1_ec_pubkey_parse(g_ctx, &pk, v.data(), v.size())) return "fail";
            secp256k1_ec_pubkey_negate(g_ctx, &pk);
            return ser(pk, true);
        }
        if (op == "pubkey_tweak_add" && w.size() == 3) {
            auto v = vd::unhex(w[1]);
            secp256k1_pubkey pk;
            if (!get32(w[2], b)) return "BADCASE";
            if (!secp256k1_ec_pubkey_parse(g_ctx, &pk, v.data(), v.size())) return "parsefail";
            if (!secp256k1_ec_pubkey_tweak_add(g_ctx, &pk, b)) return "fail";
            return ser(pk, true);
        }
        if (op == "xonly_from" && w.size() == 2) {
            auto v = vd::unhex(w[1]);
            secp256k1_pubkey pk;
            if (!secp256k1_ec_pubkey_parse(g_ctx, &pk, v.data(), v.size())) return "parsefail";
            secp256k1_xonly_pubkey x;
            int parity = -1;
            if (!secp256k1_xonly_pubkey_from_pubkey(g_ctx, &x, &parity, &pk)) return "fail";
            unsigned char out[32];
            secp256k1_xonly_pubkey_serialize(g_ctx, out, &x);
            // the x-only key seen as a full key has even y: serialise the underlying point
            secp256k1_pubkey asfull;
            memcpy(&asfull, &x, sizeof(asfull));
            return vd::hex(out, out + 32) + " " + std::to_string(parity) + " " + ser(asfull, true);
        }
        if (op == "xonly_parse" && w.size() == 2) {
            if (!get32(w[1], a)) return "BADCASE";
            secp256k1_xonly_pubkey x;
            XOnlyPubKey node{std::span<const unsigned char>(a, 32)};
            std::string nv = node.IsFullyValid() ? "1" : "0";
            if (!secp256k1_xonly_pubkey_parse(g_ctx, &x, a)) return "fail " + nv;
            secp256k1_pubkey asfull;
            memcpy(&asfull, &x, sizeof(asfull));
            return ser(asfull, true) + " " + nv;
        }
        // xonly_tweak_add <xonly32> <tweak32>
        if (op == "xonly_tweak_add" && w.size() == 3) {
            if (!get32(w[1], a) || !get32(w[2], b)) return "BADCASE";
            secp256k1_xonly_pubkey x;
            if (!secp256k1_xonly_pubkey_parse(g_ctx, &x, a)) return "parsefail";
            secp256k1_pubkey out;
            if (!secp256k1_xonly_pubkey_tweak_add(g_ctx, &out, &x, b)) return "fail";
            secp256k1_xonly_pubkey ox;
            int parity = -1;
            secp256k1_xonly_pubkey_from_pubkey(g_ctx, &ox, &parity, &out);
            unsigned char o32[32];
            secp256k1_xonly_pubkey_serialize(g_ctx, o32, &ox);
            int chk = secp256k1_xonly_pubkey_tweak_add_check(g_ctx, o32, parity, &x, b);
            int chk_wrong = secp256k1_xonly_pubkey_tweak_add_check(g_ctx, o32, 1 - parity, &x, b);
            return ser(out, true) + " " + std::to_string(parity) + " " + std::to_string(chk) + " " + std::to_string(chk_wrong);
        }
        // verify <pub> <msg32> <r> <s> : strict library verification, and the node's CPubKey::Verify on the DER form
        if (op == "verify" && w.size() == 5) {
            auto v = vd::unhex(w[1]);
            secp256k1_pubkey pk;
            if (!get32(w[2], a)) return "BADCASE";
            if (!secp256k1_ec_pubkey_parse(g_ctx, &pk, v.data(), v.size())) return "parsefail";
            secp256k1_ecdsa_signature sig;
            if (!parse_sig(w[3], w[4], sig)) return "sigparsefail";
            int strict = secp256k1_ecdsa_verify(g_ctx, &sig, a, &pk);
            CPubKey cpk(v.begin(), v.end());
            uint256 hash{std::span<const unsigned char>(a, 32)};
            bool node = cpk.Verify(hash, der_of(sig));
            return std::to_string(strict) + " " + (node ? "1" : "0");
        }
        // sign <key32> <msg32> : CKey::Sign (RFC6979, low-S); prints compact (r, s) and the public key
        if (op == "sign" && w.size() == 3) {
            if (!get32(w[1], a) || !get32(w[2], b)) return "BADCASE";
            CKey key;
            key.Set(a, a + 32, true);
            if (!key.IsValid()) return "invalidkey";
            std::vector<unsigned char> der;
            uint256 hash{std::span<const unsigned char>(b, 32)};
            if (!key.Sign(hash, der)) return "fail";
            secp256k1_ecdsa_signature sig;
            if (!secp256k1_ecdsa_signature_parse_der(g_ctx, &sig, der.data(), der.size())) return "badder";
            unsigned char c64[64];
            secp256k1_ecdsa_signature_serialize_compact(g_ctx, c64, &sig);
            CPubKey pub = key.GetPubKey();
            return vd::hex(pub.begin(), pub.end()) + " " + vd::hex(c64, c64 + 32) + " " + vd::hex(c64 + 32, c64 + 64);
        }
        return "BADCASE";
    });
}
