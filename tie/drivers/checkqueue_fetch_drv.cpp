// C++ side of C14, second mechanism: parallel prevout fetching (CoinsViewOverlay over a CCoinsViewCache over an
// in-memory CCoinsViewDB, real ThreadPool).
//
// case line:  fetch <threads> <reps> | <tx> ; <tx> ; ... | <access> <access> ... | <present> <present> ...
//   tx      = comma-separated inputs:  c<k> = outpoint 0 of the (non-block) transaction k, a coin of the base view if k is
//             listed under <present>;  t<j> = output 0 of the j-th transaction of this block (1-based)
//   access  = c<k> | t<j>   outpoints in the order the validation thread asks the overlay for them (AccessCoin)
//   present = k             the base (database) holds coin c<k> with value k + 1
// The whole scenario is run <reps> times with a fresh overlay; output (must be the same every time):
//   <value or '-' per access> | untouched=<the cache between overlay and database is still empty> consumed=<AllInputsConsumed>
#include <drv_common.h>

#include <coins.h>
#include <primitives/block.h>
#include <primitives/transaction.h>
#include <txdb.h>
#include <uint256.h>
#include <util/byte_units.h>
#include <util/threadpool.h>

#include <map>
#include <memory>

namespace {
std::vector<std::string> split(const std::string& s, char sep)
{
    std::vector<std::string> out;
    std::string cur;
    for (char c : s) {
        if (c == sep) { out.push_back(cur); cur.clear(); } else cur.push_back(c);
    }
    out.push_back(cur);
    return out;
}
Txid coin_txid(int k)
{
    uint256 h;
    h.data()[0] = (unsigned char)(k & 0xff);
    h.data()[1] = (unsigned char)((k >> 8) & 0xff);
    h.data()[31] = 0xC0;
    return Txid::FromUint256(h);
}
} // namespace

int main()
{
    return vd::main_loop([&](const std::vector<std::string>& w, const std::string& line) -> std::string {
        auto segs = split(line, '|');
        if (segs.size() != 4 || w.size() < 3 || w[0] != "fetch") return "BADCASE";
        int threads = (int)vd::ll(w[1]);
        int reps = (int)vd::ll(w[2]);
        // the block
        CBlock block;
        {
            CMutableTransaction cb;
            cb.vin.emplace_back();
            block.vtx.push_back(MakeTransactionRef(cb));
        }
        std::vector<Txid> txids;   // of the block's transactions, 1-based index = position
        auto outpoint_of = [&](const std::string& tok) -> COutPoint {
            int k = (int)vd::ll(tok.substr(1));
            if (tok[0] == 'c') return COutPoint(coin_txid(k), 0);
            if (tok[0] == 't') { if (k < 1 || k > (int)txids.size()) throw std::runtime_error("BADCASE"); return COutPoint(txids[k - 1], 0); }
            throw std::runtime_error("BADCASE");
        };
        for (const auto& t : split(segs[1], ';')) {
            auto toks = vd::words(t);
            if (toks.empty()) continue;
            CMutableTransaction tx;
            for (const auto& in : split(toks[0], ',')) tx.vin.emplace_back(outpoint_of(in));
            tx.nLockTime = (uint32_t)txids.size() + 1;
            txids.push_back(tx.GetHash());
            block.vtx.push_back(MakeTransactionRef(tx));
        }
        std::vector<COutPoint> accesses;
        for (const auto& a : vd::words(segs[2])) accesses.push_back(outpoint_of(a));
        std::string first;
        bool same = true;
        for (int r = 0; r < reps; ++r) {
            CCoinsViewDB db{{.path = "", .cache_bytes = 1_MiB, .memory_only = true}, {}};
            {
                CCoinsViewCache fill{&db};
                fill.SetBestBlock(uint256::ONE);
                for (const auto& p : vd::words(segs[3])) {
                    int k = (int)vd::ll(p);
                    Coin coin;
                    coin.out.nValue = k + 1;
                    coin.out.scriptPubKey = CScript() << OP_TRUE;
                    coin.nHeight = 1;
                    fill.AddCoin(COutPoint(coin_txid(k), 0), std::move(coin), false);
                }
                fill.Flush();
            }
            CCoinsViewCache main_cache{&db};
            auto pool = std::make_shared<ThreadPool>("verif_fetch");
            if (threads > 0) pool->Start(threads);
            std::string out;
            {
                CoinsViewOverlay view{&main_cache, pool};
                const auto guard{view.StartFetching(block)};
                for (const auto& o : accesses) {
                    const Coin& c = view.AccessCoin(o);
                    out += (c.IsSpent() ? std::string("-") : std::to_string(c.out.nValue)) + " ";
                }
                out += "| untouched=" + std::string(main_cache.GetCacheSize() == 0 ? "1" : "0") + " consumed=" + (view.AllInputsConsumed() ? "1" : "0");
            }
            if (threads > 0) pool->Stop();
            if (r == 0) first = out; else if (out != first) same = false;
        }
        return first + (same ? "" : " UNSTABLE");
    });
}
