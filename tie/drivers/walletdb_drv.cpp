// C++ side of C43 (family walletdb): wallet state survives restarts and crashes consistently.
//
// A REAL descriptor CWallet on the REAL SQLiteDatabase over a file (walletdb_common.h).  After the operations the
// in-memory observable state is printed next to the state of a second CWallet loaded (CWallet::LoadExisting) from a copy
// of the database file; `@j:` in front of an operation copies the file (+ journal) just before the operation's j-th
// mutating database call (what a killed process leaves behind) and loads that copy too.
//
//   case : kp <keypool size> <op>*
//   op   : new:<t> | chg:<t>                         new receiving / change address of output type t (0..3)
//          label:<a>:<name>:<r|s|n>                  SetAddressBook(a, name, purpose receive/send/none); name - = empty
//          del:<a>                                   DelAddressBook (one database transaction)
//          spent:<a>:<0|1>                           SetAddressPreviouslySpent
//          rr:<a>:<id>:<val> | rrdel:<a>:<id>        SetAddressReceiveRequest / EraseAddressReceiveRequest
//          lock:<n>:<0|1> | unlock:<n> | unlockall   LockCoin(outpoint n, persist) / UnlockCoin / UnlockAllCoins
//          tx:<k>:<a> | rmtx:<k>[,<k>..]             AddToWallet(tx k paying a) / RemoveTxs (one database transaction)
//          top:<slot>:<n>                            that descriptor's TopUp(n) (one database transaction)
//          flag                                      SetWalletFlag(WALLET_FLAG_AVOID_REUSE)
//          import:<k>:<range>                        AddWalletDescriptor(wpkh(<xprv k>/0/*), range [0, range))
//          reload | crash                            as in keypool_drv.cpp
//   a    : m<slot>.<idx> (an address of the wallet's own descriptor), x<k> (a foreign address)
//   out  : one token per op (result), then  M{<state>} D{<state>}  (memory, reloaded copy), and for every @j op
//          P{<state before>} S{<state of the snapshot> | - (fewer calls) | LOADFAIL} Q{<state after>}
//   state: descriptors next/range_end ... ;A address book ;L locked coins ;T transactions ;O order pos ;F flags ;N #spkm ;K #keys
#include <drv_common.h>
#include <algorithm>
#include <deque>
#include <filesystem>
#include <fstream>
#include <map>
#include <memory>
#include <optional>
#include <set>
#include <semaphore>
#include <sstream>
#include <string>
#include <vector>
#include <sync.h>
#include <streams.h>
#include <script/descriptor.h>
#include <script/signingprovider.h>
#include <wallet/db.h>
#include <wallet/sqlite.h>
#define private public
#define protected public
#include <wallet/scriptpubkeyman.h>
#include <wallet/wallet.h>
#undef private
#undef protected
#include <hash.h>
#include <key.h>
#include <wallet/transaction.h>
#include "walletdb_common.h"

using namespace wallet;
using namespace wdb;

namespace {
constexpr int MAXI = 48;

std::vector<std::string> split(const std::string& s, char sep)
{
    std::vector<std::string> out;
    std::string cur;
    for (char c : s) {
        if (c == sep) { out.push_back(cur); cur.clear(); } else cur.push_back(c);
    }
    out.push_back(cur);
    return out;
}

struct Env : public BasicTestingSetup {
    WalletContext ctx;
    ScratchCleaner cleaner;
    int ncase{0};
    Env() { ctx.args = &m_args; }
};

uint256 h256(const std::string& tag, int k)
{
    HashWriter h;
    h << tag << k;
    return h.GetSHA256();
}

struct Run {
    Env& env;
    std::shared_ptr<FaultCtl> ctl{std::make_shared<FaultCtl>()};
    std::shared_ptr<FaultCtl> ctl2{std::make_shared<FaultCtl>()}; // for the observer wallets
    std::shared_ptr<CWallet> w;
    std::string dir;
    int gen{0}, nsnap{0};
    int kp;
    std::map<std::string, std::string> tok_of_addr;   // encoded address -> token
    std::map<std::string, CTxDestination> dest_of_tok;
    std::map<Txid, int> tx_name;
    std::map<int, Txid> tx_id;
    std::map<int, CTransactionRef> tx_ref;
    std::string problem;
    std::string extra;

    Run(Env& e, int kp_) : env(e), kp(kp_)
    {
        dir = scratch_root() + "/c" + std::to_string(env.ncase++);
        std::filesystem::remove_all(dir);
        env.m_args.ForceSetArg("-keypool", std::to_string(kp));
        bilingual_str error;
        std::vector<bilingual_str> warnings;
        w = CWallet::CreateNew(env.ctx, "", open_db(file(), ctl), WALLET_FLAG_DESCRIPTORS, /*born_encrypted=*/false, error, warnings);
        if (!w) throw std::runtime_error("create failed: " + error.original);
        table(*w);
        ctl->count_abort = true;
    }
    ~Run()
    {
        w.reset();
        std::error_code ec;
        std::filesystem::remove_all(dir, ec);
    }
    std::string file() const { return dir + "/g" + std::to_string(gen) + "/wallet.dat"; }

    static DescriptorScriptPubKeyMan* slot_spkm(CWallet& wal, int s)
    {
        return dynamic_cast<DescriptorScriptPubKeyMan*>(wal.GetScriptPubKeyMan(slot_types()[s % 4], s >= 4));
    }

    void add_tok(const CTxDestination& d, const std::string& tok)
    {
        const std::string a = EncodeDestination(d);
        auto [it, fresh] = tok_of_addr.emplace(a, tok);
        if (!fresh && it->second != tok) problem = "ADDRESS-TABLE-NOT-INJECTIVE";
        dest_of_tok[tok] = d;
    }
    void table_desc(const WalletDescriptor& wd, const std::string& prefix)
    {
        for (int i = 0; i < MAXI; ++i) {
            FlatSigningProvider keys;
            std::vector<CScript> out;
            if (!wd.descriptor->ExpandFromCache(i, wd.cache, out, keys) || out.size() != 1) throw std::runtime_error("cannot expand");
            CTxDestination d;
            if (!ExtractDestination(out[0], d)) throw std::runtime_error("no destination");
            add_tok(d, prefix + std::to_string(i));
        }
    }
    void table(CWallet& wal)
    {
        for (int s = 0; s < 8; ++s) {
            auto* m = slot_spkm(wal, s);
            if (!m) throw std::runtime_error("no spkm for slot");
            table_desc(m->GetWalletDescriptor(), "m" + std::to_string(s) + ".");
        }
    }
    CTxDestination dest(const std::string& tok)
    {
        auto it = dest_of_tok.find(tok);
        if (it != dest_of_tok.end()) return it->second;
        if (tok.size() > 1 && tok[0] == 'x') {
            const uint256 h = h256("foreign", std::stoi(tok.substr(1)));
            uint160 id;
            std::copy(h.begin(), h.begin() + 20, id.begin());
            CTxDestination d{WitnessV0KeyHash(id)};
            add_tok(d, tok);
            return d;
        }
        throw std::runtime_error("unknown address token " + tok);
    }
    std::string tok(const CTxDestination& d) const
    {
        auto it = tok_of_addr.find(EncodeDestination(d));
        return it == tok_of_addr.end() ? "?" : it->second;
    }
    static COutPoint outpoint(int n) { return COutPoint(Txid::FromUint256(h256("outpoint", n / 3)), n % 3); }
    int outpoint_name(const COutPoint& o) const
    {
        for (int n = 0; n < 60; ++n) if (outpoint(n) == o) return n;
        return -1;
    }

    // observable state of a wallet
    std::string dump(CWallet& wal)
    {
        std::ostringstream os;
        LOCK(wal.cs_wallet);
        for (int s = 0; s < 8; ++s) {
            auto* m = slot_spkm(wal, s);
            if (!m) { os << (s ? " " : "") << "-"; continue; }
            LOCK(m->cs_desc_man);
            os << (s ? " " : "") << m->m_wallet_descriptor.next_index << "/" << m->m_wallet_descriptor.range_end;
        }
        // address book (entries that carry nothing are skipped: operator[] creates them in memory)
        std::vector<std::string> ab;
        for (const auto& [d, data] : wal.m_address_book) {
            if (!data.label && !data.purpose && !data.previously_spent && data.receive_requests.empty()) continue;
            std::string e = tok(d) + "=" + (data.label ? (data.label->empty() ? "-" : *data.label) : "~") + "|";
            e += data.purpose ? (*data.purpose == AddressPurpose::RECEIVE ? "r" : *data.purpose == AddressPurpose::SEND ? "s" : "f") : "n";
            e += data.previously_spent ? "|u" : "|";
            for (const auto& [id, val] : data.receive_requests) e += "|" + id + ">" + val;
            ab.push_back(e);
        }
        std::sort(ab.begin(), ab.end());
        os << " ;A";
        for (auto& e : ab) os << " " << e;
        std::vector<std::string> lk;
        for (const auto& [o, persist] : wal.m_locked_coins) {
            const int n = outpoint_name(o);
            char buf[32];
            snprintf(buf, sizeof buf, "%03d:%d", n, persist ? 1 : 0);
            lk.push_back(buf);
        }
        std::sort(lk.begin(), lk.end());
        os << " ;L";
        for (auto& e : lk) os << " " << e;
        std::vector<std::string> txs;
        for (const auto& [id, wtx] : wal.mapWallet) {
            auto it = tx_name.find(id);
            char buf[48];
            snprintf(buf, sizeof buf, "%03d@%lld", it == tx_name.end() ? -1 : it->second, (long long)wtx.nOrderPos);
            txs.push_back(buf);
        }
        std::sort(txs.begin(), txs.end());
        os << " ;T";
        for (auto& e : txs) os << " " << e;
        os << " ;O" << wal.nOrderPosNext;
        os << " ;F" << ((wal.GetWalletFlags() & WALLET_FLAG_AVOID_REUSE) ? 1 : 0);
        os << " ;N" << wal.m_spk_managers.size();
        size_t keys = 0;
        for (const auto& [id, m] : wal.m_spk_managers) {
            auto* dm = dynamic_cast<DescriptorScriptPubKeyMan*>(m.get());
            if (dm) { LOCK(dm->cs_desc_man); keys += dm->m_map_keys.size() + dm->m_map_crypted_keys.size(); }
        }
        os << " ;K" << keys;
        return os.str();
    }

    // state of a wallet loaded from a copy of `src`
    std::string observe(const std::string& src)
    {
        const std::string dst = dir + "/obs" + std::to_string(nsnap++) + "/wallet.dat";
        FaultCtl::copy_db(src, dst);
        return observe_copy(dst);
    }
    std::string observe_copy(const std::string& dst)
    {
        bilingual_str error;
        std::vector<bilingual_str> warnings;
        std::shared_ptr<CWallet> o;
        try {
            o = CWallet::LoadExisting(env.ctx, "", open_db(dst, ctl2), error, warnings);
        } catch (const std::exception& e) {
            return std::string("LOADFAIL ") + e.what();
        }
        if (!o) return "LOADFAIL " + error.original;
        std::string s = dump(*o);
        o.reset();
        return s;
    }

    void reopen(bool clean)
    {
        const std::string old = file();
        ++gen;
        if (clean) {
            w.reset();
            FaultCtl::copy_db(old, file());
        } else {
            FaultCtl::copy_db(old, file());
            w.reset();
        }
        bilingual_str error;
        std::vector<bilingual_str> warnings;
        w = CWallet::LoadExisting(env.ctx, "", open_db(file(), ctl), error, warnings);
        if (!w) throw std::runtime_error("load failed: " + error.original);
    }

    std::string op(const std::string& tok0)
    {
        std::string t = tok0;
        int snap = -1;
        if (t[0] == '@') {
            const size_t c = t.find(':');
            snap = std::stoi(t.substr(1, c - 1));
            t = t.substr(c + 1);
        }
        ctl->reset();
        std::string pre;
        const std::string snapfile = dir + "/snap" + std::to_string(nsnap++) + "/wallet.dat";
        if (snap >= 0) {
            pre = observe(file());
            ctl->snap_at = snap; ctl->snap_src = file(); ctl->snap_dst = snapfile;
        }
        std::string r;
        try {
            r = op1(t);
        } catch (const std::exception& e) {
            r = "X";
            if (std::getenv("VERIF_DRV_DEBUG")) std::cerr << "exception: " << e.what() << "\n";
        }
        if (snap >= 0) {
            const bool snapped = ctl->snapped;
            ctl->snap_at = -1;
            extra += " P{" + pre + "} S{" + (snapped ? observe_copy(snapfile) : std::string("-")) + "} Q{" + observe(file()) + "}";
        }
        if (ctl->keep_log && !ctl->log.empty()) { r += "["; for (auto& l : ctl->log) r += l + ","; r += "]"; ctl->log.clear(); }
        return r;
    }

    std::string op1(const std::string& t)
    {
        auto f = split(t, ':');
        const std::string& o = f[0];
        if (o == "new" || o == "chg") {
            const int ty = std::stoi(f.at(1));
            auto r = o == "new" ? w->GetNewDestination(slot_types()[ty], "") : w->GetNewChangeDestination(slot_types()[ty]);
            if (!r) return "E";
            return tok(*r);
        }
        if (o == "label") {
            const std::string name = f.at(2) == "-" ? "" : f.at(2);
            std::optional<AddressPurpose> p;
            if (f.at(3) == "r") p = AddressPurpose::RECEIVE;
            if (f.at(3) == "s") p = AddressPurpose::SEND;
            return w->SetAddressBook(dest(f.at(1)), name, p) ? "1" : "0";
        }
        if (o == "del") return w->DelAddressBook(dest(f.at(1))) ? "1" : "0";
        if (o == "spent") {
            LOCK(w->cs_wallet);
            WalletBatch batch(w->GetDatabase());
            return w->SetAddressPreviouslySpent(batch, dest(f.at(1)), f.at(2) == "1") ? "1" : "0";
        }
        if (o == "rr") {
            LOCK(w->cs_wallet);
            WalletBatch batch(w->GetDatabase());
            return w->SetAddressReceiveRequest(batch, dest(f.at(1)), f.at(2), f.at(3)) ? "1" : "0";
        }
        if (o == "rrdel") {
            LOCK(w->cs_wallet);
            WalletBatch batch(w->GetDatabase());
            return w->EraseAddressReceiveRequest(batch, dest(f.at(1)), f.at(2)) ? "1" : "0";
        }
        if (o == "lock") { LOCK(w->cs_wallet); return w->LockCoin(outpoint(std::stoi(f.at(1))), f.at(2) == "1") ? "1" : "0"; }
        if (o == "unlock") { LOCK(w->cs_wallet); return w->UnlockCoin(outpoint(std::stoi(f.at(1)))) ? "1" : "0"; }
        if (o == "unlockall") { LOCK(w->cs_wallet); return w->UnlockAllCoins() ? "1" : "0"; }
        if (o == "tx") {
            const int k = std::stoi(f.at(1));
            CMutableTransaction mtx;
            mtx.vin.emplace_back(COutPoint(Txid::FromUint256(h256("txin", k)), 0));
            mtx.vout.emplace_back(CAmount{1000 + k}, GetScriptForDestination(dest(f.at(2))));
            CTransactionRef tx = MakeTransactionRef(mtx);
            tx_name[tx->GetHash()] = k; tx_id[k] = tx->GetHash();
            return w->AddToWallet(tx, TxStateInactive{}) ? "1" : "0";
        }
        if (o == "rmtx") {
            std::vector<Txid> ids;
            for (auto& s : split(f.at(1), ',')) {
                const int k = std::stoi(s);
                auto it = tx_id.find(k);
                ids.push_back(it == tx_id.end() ? Txid::FromUint256(h256("nosuchtx", k)) : it->second);
            }
            LOCK(w->cs_wallet);
            return w->RemoveTxs(ids) ? "1" : "0";
        }
        if (o == "top") { LOCK(w->cs_wallet); return slot_spkm(*w, std::stoi(f.at(1)))->TopUp((unsigned)std::stoul(f.at(2))) ? "1" : "0"; }
        if (o == "flag") { w->SetWalletFlag(WALLET_FLAG_AVOID_REUSE); return "1"; }
        if (o == "import") {
            const int k = std::stoi(f.at(1)), range = std::stoi(f.at(2));
            CKey seed;
            const uint256 h = h256("import", k);
            seed.Set(h.begin(), h.end(), true);
            CExtKey master;
            master.SetSeed(seed);
            FlatSigningProvider keys;
            std::string error;
            auto descs = Parse("wpkh(" + EncodeExtKey(master) + "/0/*)", keys, error, false);
            if (descs.size() != 1) return "Eparse";
            WalletDescriptor wd(std::move(descs.at(0)), /*creation_time=*/1, 0, range, 0);
            LOCK(w->cs_wallet);
            auto r = w->AddWalletDescriptor(wd, keys, "", false);
            if (!r) return "0";
            table_desc(r->get().GetWalletDescriptor(), "i" + std::to_string(k) + ".");
            return "1";
        }
        if (o == "reload") { reopen(true); return "L"; }
        if (o == "crash") { reopen(false); return "L"; }
        if (o == "log") { ctl->keep_log = true; return "-"; }
        return "BADOP";
    }
};
} // namespace

int main(int argc, char** argv)
{
    Env env;
    return vd::main_loop([&](const std::vector<std::string>& w, const std::string& line) -> std::string {
        if (w.size() < 2 || w[0] != "kp") return "BADCASE";
        Run run(env, std::stoi(w[1]));
        std::string out;
        for (size_t i = 2; i < w.size(); ++i) out += (out.empty() ? "" : " ") + run.op(w[i]);
        if (!run.problem.empty()) return run.problem;
        out += " M{" + run.dump(*run.w) + "} D{" + run.observe(run.file()) + "}" + run.extra;
        return out;
    });
}
