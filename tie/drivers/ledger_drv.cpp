// C++ side of the `ledger` family (C01, C02, C09): the `chainsim` driver.  Runs an operation script
// against the REAL node (ChainstateManager of a fresh TestChain100Setup: regtest, 100 blocks on top of
// genesis, coinbases f1..f100 paying 50 BTC to the fixture key) with REAL blocks and transactions, and
// prints what the node did: per op the BlockChecked verdicts and the tip, and at `dump` the UTXO set.
//
// case line:  [nobip34 ;] op ; op ; ...
//   tx <name> <in>,<in>,.. <out>,<out>,..      define a transaction (not yet in any block)
//        in  = <src>:<n><+|->   src = f<k> (fixture coinbase of height k), a tx name, a block name (its
//              coinbase) or an unknown name (an outpoint that never existed); + / - = build a valid /
//              deliberately invalid scriptSig or witness for it;   or `null` (a null prevout)
//        out = <value><kind>    w = P2WSH(OP_TRUE), k = P2PKH(fixture key), r = OP_RETURN (unspendable),
//                               x = 10001-byte script (unspendable by size)
//   mine <blk> <parent> <cbouts> <tx>*         build a block on <parent> (F = fixture tip, or a block name):
//        coinbase paying <cbouts> (same syntax; a witness commitment output is always appended) followed
//        by the named transactions in that order.  <cbouts> = dup:<blk2> reuses blk2's coinbase verbatim.
//   submit <blk>        ProcessNewBlock(block, force_processing=true, min_pow_checked=true)
//   invalidate <blk> / reconsider <blk>        the bodies of the two RPCs (incl. ActivateBestChain)
//   flush               ForceFlushStateToDisk
//   dump                tip + every outpoint of every known transaction that CoinsTip() has, + total
//   dumpdb              flush, then iterate the coins database: the node's whole UTXO set + ComputeUTXOStats total
// output: tokens separated by " | ":
//   submit:     s<0|1> <blk>=<verdict>,... > <tip>      (every BlockChecked callback during the op, in order)
//   invalidate: i<ok|err> <events> > <tip>     reconsider: r<ok|err> <events> > <tip>
//   dump:       d <tip> <height> <total> fmiss=<k.k...|-> <name:n,value,height,cb> ...   (sorted by name, then n;
//               fixture coinbases still in their initial state are not listed: fmiss names those that are not)
//   dumpdb:     D <tip> <height> <total> <stats total> fmiss=.. <entries as above>
//
// function-level cases (no chain):
//   fn <h> <ncoins> {<value> <height> <cb>}* <nin> {<coin index | -1 = an outpoint not in the view>}* <nout> {<value>}*
//        builds a CCoinsViewCache holding the coins (a coin of value -1 is the null coin: not added), a
//        transaction spending the listed ones, and calls
//        Consensus::CheckTxInputs(tx, state, view, h, fee):  `ok <fee>` | <reject reason> | EXC
// Every case runs in a forked worker; if the node aborts (an assertion fires) the case reports CRASH.
#define VERIF_NO_TEST_GLOBALS
#include <drv_common.h>
#include <unistd.h>
extern const std::function<void(const std::string&)> G_TEST_LOG_FUN;
extern const std::function<std::vector<const char*>()> G_TEST_COMMAND_LINE_ARGUMENTS;
extern const std::function<std::string()> G_TEST_GET_FULL_NAME;
const std::function<void(const std::string&)> G_TEST_LOG_FUN{};
const std::function<std::vector<const char*>()> G_TEST_COMMAND_LINE_ARGUMENTS{[]() { return std::vector<const char*>{}; }};
const std::function<std::string()> G_TEST_GET_FULL_NAME{[]() { return std::string{"verif_ledger_"} + std::to_string(getpid()); }};

#include <chain.h>
#include <chainparams.h>
#include <coins.h>
#include <consensus/amount.h>
#include <consensus/merkle.h>
#include <consensus/tx_verify.h>
#include <consensus/validation.h>
#include <kernel/coinstats.h>
#include <key.h>
#include <node/blockstorage.h>
#include <pow.h>
#include <primitives/block.h>
#include <primitives/transaction.h>
#include <script/interpreter.h>
#include <script/script.h>
#include <addresstype.h>
#include <test/util/script.h>
#include <test/util/setup_common.h>
#include <txdb.h>
#include <uint256.h>
#include <univalue.h>
#include <validation.h>
#include <validationinterface.h>

#include <algorithm>
#include <cstdlib>
#include <filesystem>
#include <fstream>
#include <map>
#include <memory>
#include <sys/wait.h>

// defined (non-static, no header) in src/rpc/blockchain.cpp: the bodies of the two RPCs
void InvalidateBlock(ChainstateManager& chainman, const uint256 block_hash);
void ReconsiderBlock(ChainstateManager& chainman, uint256 block_hash);

namespace {
std::vector<std::string> split(const std::string& s, char sep)
{
    std::vector<std::string> out;
    std::string cur;
    for (char c : s) {
        if (c == sep) { out.push_back(cur); cur.clear(); } else cur.push_back(c);
    }
    out.push_back(cur);
    return out;
}

std::string canon_reason(const BlockValidationState& st)
{
    if (st.IsValid()) return "ok";
    std::string r = st.GetRejectReason();
    if (r.rfind("block-script-verify-flag-failed", 0) == 0 || r.rfind("mandatory-script-verify-flag-failed", 0) == 0) return "script-verify-failed";
    return r.empty() ? "invalid" : r;
}

struct TxDef {
    CTransactionRef tx;
    std::string kinds; // per output: w k r x p(fixture P2PK) c(commitment)
};
struct Blk {
    std::shared_ptr<CBlock> block; // null for the fixture tip
    uint256 hash;
    int height{0};
    uint32_t time{0};
};

struct Events final : public CValidationInterface {
    std::vector<std::pair<uint256, std::string>> ev;
    void BlockChecked(const std::shared_ptr<const CBlock>& block, const BlockValidationState& st) override
    {
        ev.emplace_back(block->GetHash(), canon_reason(st));
    }
};

struct Run {
    std::unique_ptr<TestChain100Setup> setup;
    std::shared_ptr<Events> events;
    std::map<std::string, TxDef> txs;
    std::vector<std::string> tx_order;
    std::map<Txid, std::string> tx_names;
    std::map<std::string, Blk> blocks;
    std::map<uint256, std::string> block_names;
    const CBlockIndex* fixture_tip{nullptr};
    int counter{0};
    CScript p2pk, p2pkh;

    ChainstateManager& cm() { return *setup->m_node.chainman; }

    explicit Run(bool nobip34)
    {
        TestOpts opts;
        opts.extra_args = {"-nodebuglogfile", "-nodebug"};
        if (nobip34) opts.extra_args.push_back("-testactivationheight=bip34@100000");
        setup = std::make_unique<TestChain100Setup>(ChainType::REGTEST, opts);
        events = std::make_shared<Events>();
        setup->m_node.validation_signals->RegisterSharedValidationInterface(events);
        p2pk = CScript() << ToByteVector(setup->coinbaseKey.GetPubKey()) << OP_CHECKSIG;
        p2pkh = GetScriptForDestination(PKHash(setup->coinbaseKey.GetPubKey()));
        LOCK(cs_main);
        const CChain& ch = cm().ActiveChain();
        fixture_tip = ch.Tip();
        Blk f;
        f.hash = fixture_tip->GetBlockHash();
        f.height = fixture_tip->nHeight;
        f.time = fixture_tip->nTime;
        blocks["F"] = f;
        block_names[f.hash] = "F";
        for (int h = 1; h <= ch.Height(); ++h) {
            const CTransactionRef& cb = setup->m_coinbase_txns.at(h - 1);
            TxDef d;
            d.tx = cb;
            d.kinds = "p";
            for (size_t i = 1; i < cb->vout.size(); ++i) d.kinds.push_back('c');
            std::string n = "f" + std::to_string(h);
            txs[n] = d;
            tx_order.push_back(n);
            tx_names[cb->GetHash()] = n;
        }
    }

    CTxOut make_out(const std::string& spec, char& kind)
    {
        if (spec.size() < 2) throw std::runtime_error("bad out " + spec);
        kind = spec.back();
        CAmount v = vd::ll(spec.substr(0, spec.size() - 1));
        CTxOut o;
        o.nValue = v;
        switch (kind) {
        case 'w': o.scriptPubKey = P2WSH_OP_TRUE; break;
        case 'k': o.scriptPubKey = p2pkh; break;
        case 'r': o.scriptPubKey = CScript() << OP_RETURN << CScriptNum(++counter); break;
        case 'x': { std::vector<unsigned char> b(MAX_SCRIPT_SIZE + 1, (unsigned char)OP_TRUE); o.scriptPubKey = CScript(b.begin(), b.end()); break; }
        default: throw std::runtime_error("bad out kind " + spec);
        }
        return o;
    }

    std::vector<unsigned char> sign(const CScript& code, const CMutableTransaction& mtx, unsigned nin)
    {
        uint256 hash = SignatureHash(code, mtx, nin, SIGHASH_ALL, 0, SigVersion::BASE);
        std::vector<unsigned char> sig;
        if (!setup->coinbaseKey.Sign(hash, sig)) throw std::runtime_error("sign failed");
        sig.push_back((unsigned char)SIGHASH_ALL);
        return sig;
    }

    void def_tx(const std::string& name, const std::string& ins, const std::string& outs)
    {
        if (txs.count(name) || blocks.count(name)) throw std::runtime_error("duplicate name " + name);
        CMutableTransaction mtx;
        mtx.version = 2;
        mtx.nLockTime = (uint32_t)(++counter); // ignored (all sequences final); makes every definition a distinct txid
        struct In { char kind; bool ok; };
        std::vector<In> meta;
        for (const std::string& s : split(ins, ',')) {
            CTxIn in;
            in.nSequence = CTxIn::SEQUENCE_FINAL;
            In m{'?', true};
            if (s == "null") {
                in.prevout.SetNull();
                in.scriptSig = CScript() << OP_1 << OP_1; // 2 bytes: a valid coinbase scriptSig length
            } else {
                if (s.size() < 4) throw std::runtime_error("bad in " + s);
                m.ok = s.back() == '+';
                if (!m.ok && s.back() != '-') throw std::runtime_error("bad in " + s);
                std::string body = s.substr(0, s.size() - 1);
                size_t c = body.rfind(':');
                if (c == std::string::npos) throw std::runtime_error("bad in " + s);
                std::string src = body.substr(0, c);
                uint32_t n = (uint32_t)vd::ull(body.substr(c + 1));
                auto it = txs.find(src);
                if (it != txs.end()) {
                    in.prevout = COutPoint(it->second.tx->GetHash(), n);
                    if (n < it->second.kinds.size()) m.kind = it->second.kinds[n];
                } else {
                    // an outpoint of a transaction that never existed
                    uint256 h;
                    for (size_t i = 0; i < src.size() && i < 31; ++i) h.data()[i] = (unsigned char)src[i];
                    h.data()[31] = 0xEE;
                    in.prevout = COutPoint(Txid::FromUint256(h), n);
                }
            }
            mtx.vin.push_back(in);
            meta.push_back(m);
        }
        std::string kinds;
        if (outs != "-") {
            for (const std::string& s : split(outs, ',')) {
                char k;
                mtx.vout.push_back(make_out(s, k));
                kinds.push_back(k);
            }
        }
        for (size_t i = 0; i < mtx.vin.size(); ++i) {
            const In& m = meta[i];
            CTxIn& in = mtx.vin[i];
            static const std::vector<unsigned char> empty;
            switch (m.kind) {
            case 'w':
                in.scriptWitness.stack.push_back(m.ok ? WITNESS_STACK_ELEM_OP_TRUE : std::vector<unsigned char>{(unsigned char)OP_TRUE, (unsigned char)OP_TRUE});
                break;
            case 'k':
                if (m.ok) in.scriptSig = CScript() << sign(p2pkh, mtx, i) << ToByteVector(setup->coinbaseKey.GetPubKey());
                else in.scriptSig = CScript() << empty << ToByteVector(setup->coinbaseKey.GetPubKey());
                break;
            case 'p':
                if (m.ok) in.scriptSig = CScript() << sign(p2pk, mtx, i);
                else in.scriptSig = CScript() << empty;
                break;
            default: break;
            }
        }
        TxDef d;
        d.tx = MakeTransactionRef(mtx);
        d.kinds = kinds;
        if (tx_names.count(d.tx->GetHash())) throw std::runtime_error("txid collision " + name);
        txs[name] = d;
        tx_order.push_back(name);
        tx_names[d.tx->GetHash()] = name;
    }

    void mine(const std::vector<std::string>& w)
    {
        const std::string& name = w.at(1);
        if (txs.count(name) || blocks.count(name)) throw std::runtime_error("duplicate name " + name);
        const Blk& p = blocks.at(w.at(2));
        const Consensus::Params& cons = cm().GetConsensus();
        Blk b;
        b.height = p.height + 1;
        b.time = p.time + 1;
        auto blk = std::make_shared<CBlock>();
        blk->nVersion = 0x20000000;
        blk->hashPrevBlock = p.hash;
        blk->nTime = b.time;
        blk->nBits = fixture_tip->nBits;
        blk->nNonce = 0;
        std::string kinds;
        const std::string& cbs = w.at(3);
        if (cbs.rfind("dup:", 0) == 0) {
            const TxDef& other = txs.at(cbs.substr(4));
            blk->vtx.push_back(other.tx);
            kinds = other.kinds;
        } else {
            CMutableTransaction cb;
            cb.version = 2;
            cb.vin.resize(1);
            cb.vin[0].prevout.SetNull();
            cb.vin[0].scriptSig = CScript() << b.height << CScriptNum(++counter) << OP_0;
            cb.vin[0].nSequence = CTxIn::SEQUENCE_FINAL;
            if (cbs != "-") {
                for (const std::string& s : split(cbs, ',')) {
                    char k;
                    cb.vout.push_back(make_out(s, k));
                    kinds.push_back(k);
                }
            }
            blk->vtx.push_back(MakeTransactionRef(std::move(cb)));
        }
        for (size_t i = 4; i < w.size(); ++i) blk->vtx.push_back(txs.at(w[i]).tx);
        size_t before = blk->vtx[0]->vout.size();
        cm().GenerateCoinbaseCommitment(*blk, fixture_tip);
        for (size_t i = before; i < blk->vtx[0]->vout.size(); ++i) kinds.push_back('c');
        blk->hashMerkleRoot = BlockMerkleRoot(*blk);
        while (!CheckProofOfWork(blk->GetHash(), blk->nBits, cons)) ++blk->nNonce;
        b.block = blk;
        b.hash = blk->GetHash();
        blocks[name] = b;
        block_names[b.hash] = name;
        TxDef d;
        d.tx = blk->vtx[0];
        d.kinds = kinds;
        txs[name] = d;
        if (!tx_names.count(d.tx->GetHash())) { tx_names[d.tx->GetHash()] = name; tx_order.push_back(name); }
    }

    std::string block_name(const uint256& h) const
    {
        auto it = block_names.find(h);
        return it == block_names.end() ? "unknown" : it->second;
    }
    std::string tip()
    {
        LOCK(cs_main);
        return block_name(cm().ActiveChain().Tip()->GetBlockHash());
    }
    std::string take_events()
    {
        std::string out;
        for (const auto& [h, r] : events->ev) {
            if (!out.empty()) out += ",";
            out += block_name(h) + "=" + r;
        }
        events->ev.clear();
        if (out.empty()) out = "-";
        return out;
    }

    struct Entry { std::string name; uint32_t n; CAmount v; int h; bool cb; };
    static std::string fmt_entries(std::vector<Entry>& es, CAmount& total)
    {
        // Fixture coinbases still in their initial state (f<k>:0 = 50 BTC, height k, coinbase) are not listed one
        // by one: the token fmiss=<k>.<k>... names the ones that are NOT (spent, or listed explicitly because they differ).
        std::sort(es.begin(), es.end(), [](const Entry& a, const Entry& b) { return a.name != b.name ? a.name < b.name : a.n < b.n; });
        std::string out;
        total = 0;
        std::vector<bool> pristine(101, false);
        for (const Entry& e : es) {
            total += e.v;
            if (e.name.size() >= 2 && e.name[0] == 'f' && isdigit((unsigned char)e.name[1])) {
                int k = atoi(e.name.c_str() + 1);
                if (k >= 1 && k <= 100 && e.n == 0 && e.v == 50 * COIN && e.h == k && e.cb) { pristine[k] = true; continue; }
            }
            out += " " + e.name + ":" + std::to_string(e.n) + "," + std::to_string(e.v) + "," + std::to_string(e.h) + "," + (e.cb ? "1" : "0");
        }
        std::string miss;
        for (int k = 1; k <= 100; ++k) if (!pristine[k]) miss += (miss.empty() ? "" : ".") + std::to_string(k);
        return " fmiss=" + (miss.empty() ? std::string("-") : miss) + out;
    }

    std::string dump(bool db)
    {
        std::vector<Entry> es;
        std::string stats = "";
        if (db) {
            cm().ActiveChainstate().ForceFlushStateToDisk();
            LOCK(cs_main);
            std::unique_ptr<CCoinsViewCursor> cur = cm().ActiveChainstate().CoinsDB().Cursor();
            for (; cur->Valid(); cur->Next()) {
                COutPoint k;
                Coin c;
                if (!cur->GetKey(k) || !cur->GetValue(c)) throw std::runtime_error("cursor");
                auto it = tx_names.find(k.hash);
                std::string n = it == tx_names.end() ? "?" + k.hash.ToString().substr(0, 8) : it->second;
                es.push_back(Entry{n, k.n, c.out.nValue, (int)c.nHeight, c.IsCoinBase()});
            }
            auto st = kernel::ComputeUTXOStats(kernel::CoinStatsHashType::NONE, cm().ActiveChainstate().CoinsDB(), cm().m_blockman);
            stats = (st && st->total_amount) ? std::to_string(*st->total_amount) : "none";
        } else {
            LOCK(cs_main);
            CCoinsViewCache& view = cm().ActiveChainstate().CoinsTip();
            for (const std::string& n : tx_order) {
                const TxDef& d = txs.at(n);
                for (uint32_t i = 0; i < d.tx->vout.size(); ++i) {
                    std::optional<Coin> c = view.GetCoin(COutPoint(d.tx->GetHash(), i));
                    if (c) es.push_back(Entry{n, i, c->out.nValue, (int)c->nHeight, c->IsCoinBase()});
                }
            }
        }
        CAmount total;
        std::string body = fmt_entries(es, total);
        int height;
        { LOCK(cs_main); height = cm().ActiveChain().Height(); }
        return std::string(db ? "D " : "d ") + tip() + " " + std::to_string(height) + " " + std::to_string(total) + (db ? " " + stats : "") + body;
    }

    // returns "" for ops that print nothing
    std::string op(const std::vector<std::string>& w)
    {
        if (w[0] == "tx" && w.size() == 4) { def_tx(w[1], w[2], w[3]); return ""; }
        if (w[0] == "mine" && w.size() >= 4) { mine(w); return ""; }
        if (w[0] == "submit" && w.size() == 2) {
            const Blk& b = blocks.at(w[1]);
            if (!b.block) throw std::runtime_error("submit of the fixture tip");
            auto copy = std::make_shared<const CBlock>(*b.block); // CBlock caches fChecked on the object
            bool nb = false;
            bool ok = cm().ProcessNewBlock(copy, /*force_processing=*/true, /*min_pow_checked=*/true, &nb);
            return std::string("s") + (ok ? "1" : "0") + " " + take_events() + " > " + tip();
        }
        if ((w[0] == "invalidate" || w[0] == "reconsider") && w.size() == 2) {
            const Blk& b = blocks.at(w[1]);
            std::string r = "ok";
            try {
                if (w[0] == "invalidate") InvalidateBlock(cm(), b.hash); else ReconsiderBlock(cm(), b.hash);
            } catch (const UniValue&) { r = "err"; }
            return std::string(w[0] == "invalidate" ? "i" : "r") + r + " " + take_events() + " > " + tip();
        }
        if (w[0] == "flush" && w.size() == 1) { cm().ActiveChainstate().ForceFlushStateToDisk(); return ""; }
        if (w[0] == "dump" && w.size() == 1) return dump(false);
        if (w[0] == "dumpdb" && w.size() == 1) return dump(true);
        throw std::runtime_error("BADSCRIPT");
    }
};

std::string run_chain_case(const std::string& line)
{
    std::vector<std::string> ops = split(line, ';');
    bool nobip34 = false;
    size_t start = 0;
    if (!ops.empty()) {
        auto w0 = vd::words(ops[0]);
        if (w0.size() == 1 && w0[0] == "nobip34") { nobip34 = true; start = 1; }
    }
    Run run(nobip34);
    std::string out;
    for (size_t i = start; i < ops.size(); ++i) {
        auto w = vd::words(ops[i]);
        if (w.empty()) continue;
        std::string r;
        if (w[0] == "tx" || w[0] == "mine") {
            // a script that names something undefined, defines a name twice, ... is not a case at all
            try { r = run.op(w); } catch (const std::exception&) { return "BADSCRIPT"; }
        } else {
            if (w.size() >= 2 && (w[0] == "submit" || w[0] == "invalidate" || w[0] == "reconsider") && !run.blocks.count(w[1])) return "BADSCRIPT";
            if (w[0] == "submit" && w.size() == 2 && w[1] == "F") return "BADSCRIPT";
            r = run.op(w);   // what the node throws here is reported as EXC <what>
        }
        if (r.empty()) continue;
        if (!out.empty()) out += " | ";
        out += r;
    }
    if (out.empty()) out = "-";
    if (run.setup->m_node.validation_signals) {
        run.setup->m_node.validation_signals->SyncWithValidationInterfaceQueue();
        run.setup->m_node.validation_signals->UnregisterSharedValidationInterface(run.events);
    }
    return out;
}

// ---- function level: Consensus::CheckTxInputs on a synthetic view ----
std::string run_fn_case(const std::vector<std::string>& w)
{
    size_t p = 1;
    int h = (int)vd::ll(w.at(p++));
    CCoinsViewCache view(&CoinsViewEmpty::Get());
    size_t nc = vd::ull(w.at(p++));
    std::vector<COutPoint> ops;
    for (size_t i = 0; i < nc; ++i) {
        CAmount v = vd::ll(w.at(p++));
        uint32_t ch = (uint32_t)vd::ull(w.at(p++));
        bool cb = w.at(p++) == "1";
        uint256 hh;
        hh.data()[0] = (unsigned char)(i + 1);
        hh.data()[1] = 0x77;
        COutPoint o(Txid::FromUint256(hh), (uint32_t)(i % 3));
        // nValue == -1 is the null marker of CTxOut (Coin::IsSpent): such a coin cannot be in a view
        if (v != -1) view.AddCoin(o, Coin(CTxOut(v, CScript() << OP_TRUE), ch, cb), false);
        ops.push_back(o);
    }
    CMutableTransaction mtx;
    size_t nin = vd::ull(w.at(p++));
    for (size_t i = 0; i < nin; ++i) {
        long long idx = vd::ll(w.at(p++));
        COutPoint o;
        if (idx >= 0) o = ops.at((size_t)idx);
        else { uint256 hh; hh.data()[0] = (unsigned char)(-idx); hh.data()[1] = 0x99; o = COutPoint(Txid::FromUint256(hh), 0); }
        mtx.vin.emplace_back(o);
    }
    size_t nout = vd::ull(w.at(p++));
    for (size_t i = 0; i < nout; ++i) mtx.vout.emplace_back((CAmount)vd::ll(w.at(p++)), CScript() << OP_TRUE);
    CTransaction tx(mtx);
    TxValidationState st;
    CAmount fee = 0;
    bool ok = Consensus::CheckTxInputs(tx, st, view, h, fee);
    if (ok) return "ok " + std::to_string(fee);
    return st.GetRejectReason();
}

std::string guarded(const std::string& line)
{
    try {
        auto w = vd::words(line);
        if (!w.empty() && w[0] == "fn") {
            try { return run_fn_case(w); } catch (const std::out_of_range&) { return "BADCASE"; } catch (const std::exception&) { return "EXC"; }
        }
        return run_chain_case(line);
    } catch (const std::exception& e) {
        if (std::string(e.what()) == "BADSCRIPT") return "BADSCRIPT";
        return std::string("EXC ") + e.what();
    }
}

void cleanup_dir()
{
    std::error_code ec;
    std::filesystem::remove(std::filesystem::temp_directory_path() / "test_common bitcoin" / G_TEST_GET_FULL_NAME(), ec);
}
} // namespace

int main(int argc, char** argv)
{
    std::vector<std::string> lines;
    std::string line;
    while (std::getline(std::cin, line)) lines.push_back(line);
    const size_t n = lines.size();
    if (n == 0) return 0;
    size_t workers = std::min<size_t>(10, std::max<size_t>(1, n / 3));
    if (const char* e = getenv("VERIF_LEDGER_WORKERS")) workers = std::max(1, atoi(e));
    // no thread and no fixture exists yet: fork is safe.  A worker handles its cases in order and appends one
    // result line per case to its file; if it dies (an assertion of the node fires) the case it was on is
    // reported as CRASH and a new worker takes over the rest.
    std::string base = "/tmp/verif_ledger_" + std::to_string(getpid()) + "_";
    std::vector<std::string> result(n);
    std::vector<std::vector<size_t>> batches(workers);
    for (size_t i = 0; i < n; ++i) batches[i % workers].push_back(i);
    int round = 0;
    while (!batches.empty()) {
        std::vector<pid_t> pids;
        for (size_t k = 0; k < batches.size(); ++k) {
            pid_t p = fork();
            if (p < 0) { perror("fork"); return 2; }
            if (p == 0) {
                // the node logs assertion failures to stderr; keep the runner's stderr readable
                std::ofstream f(base + std::to_string(k));
                for (size_t i : batches[k]) { f << guarded(lines[i]) << "\n"; f.flush(); }
                f.close();
                cleanup_dir();
                _exit(0);
            }
            pids.push_back(p);
        }
        for (pid_t p : pids) { int st = 0; waitpid(p, &st, 0); }
        std::vector<std::vector<size_t>> next;
        for (size_t k = 0; k < batches.size(); ++k) {
            std::ifstream f(base + std::to_string(k));
            std::string l;
            size_t j = 0;
            while (j < batches[k].size() && std::getline(f, l)) result[batches[k][j++]] = l;
            f.close();
            std::remove((base + std::to_string(k)).c_str());
            if (j < batches[k].size()) {
                result[batches[k][j]] = "CRASH the node aborted (assertion or uncaught exception) while running this case";
                std::vector<size_t> rest(batches[k].begin() + j + 1, batches[k].end());
                if (!rest.empty()) next.push_back(rest);
            }
        }
        batches = next;
        if (++round > 100000) break;
    }
    for (size_t i = 0; i < n; ++i) std::cout << result[i] << "\n";
    std::cout.flush();
    return 0;
}
