// Prints constants, tables and per-chain parameters of the *compiled* tree as Coq definitions
// (coq/gen/Params_gen.v). Trusted to print what it reads; no source parsing is involved.
#include <drv_common.h>
#include <consensus/amount.h>
#include <consensus/consensus.h>
#include <consensus/params.h>
#include <kernel/chainparams.h>
#include <arith_uint256.h>
#include <policy/policy.h>
#include <script/interpreter.h>
#include <script/script.h>
#include <validation.h>
#include <util/chaintype.h>

#include <functional>
struct VerifParamReg { static std::vector<std::function<void()>>& all() { static std::vector<std::function<void()>> v; return v; } VerifParamReg(std::function<void()> f) { all().push_back(f); } };
// tie/params/<name>.h files add their own constants:  VERIF_PARAMS(name) { DZ(CONST); ... }
#define VERIF_PARAMS(n) static void verif_dump_##n(); static VerifParamReg verif_reg_##n(verif_dump_##n); static void verif_dump_##n()
static void defz(const char* n, long long v) { std::cout << "Definition " << n << " : Z := (" << v << ")%Z.\n"; }
static void defzu(const char* n, unsigned long long v) { std::cout << "Definition " << n << " : Z := (" << v << ")%Z.\n"; }
#define DZ(x) defz(#x, (long long)(x))
#define DZU(x) defzu(#x, (unsigned long long)(x))
static std::string z256(const uint256& u) { return "(0x" + u.GetHex() + ")%Z"; }
static const char* b(bool x) { return x ? "true" : "false"; }

static void chain(const char* name, const CChainParams& p)
{
    const Consensus::Params& c = p.GetConsensus();
    std::cout << "Definition chain_" << name << " : chain_params := {|\n"
              << "  cp_name := \"" << name << "\";\n"
              << "  cp_halving_interval := (" << c.nSubsidyHalvingInterval << ")%Z;\n"
              << "  cp_pow_limit := " << z256(c.powLimit) << ";\n"
              << "  cp_allow_min_difficulty := " << b(c.fPowAllowMinDifficultyBlocks) << ";\n"
              << "  cp_enforce_bip94 := " << b(c.enforce_BIP94) << ";\n"
              << "  cp_no_retargeting := " << b(c.fPowNoRetargeting) << ";\n"
              << "  cp_target_spacing := (" << c.nPowTargetSpacing << ")%Z;\n"
              << "  cp_target_timespan := (" << c.nPowTargetTimespan << ")%Z;\n"
              << "  cp_bip34_height := (" << c.BIP34Height << ")%Z;\n"
              << "  cp_bip65_height := (" << c.BIP65Height << ")%Z;\n"
              << "  cp_bip66_height := (" << c.BIP66Height << ")%Z;\n"
              << "  cp_csv_height := (" << c.CSVHeight << ")%Z;\n"
              << "  cp_segwit_height := (" << c.SegwitHeight << ")%Z;\n"
              << "  cp_min_chain_work := " << z256(c.nMinimumChainWork) << ";\n"
              << "|}.\n";
}

#include <params_all.h>   // generated: includes every tie/params/*.h in sorted order

int main()
{
    std::cout << "(* GENERATED on every run by tie/dump_params.cpp from the compiled tree. Do not edit. *)\n"
              << "From Coq Require Import ZArith String List.\nFrom BV Require Import lib.ChainParams.\nImport ListNotations.\nLocal Open Scope string_scope.\n\n";
    DZ(COIN);
    DZ(MAX_MONEY);
    DZU(MAX_BLOCK_SERIALIZED_SIZE);
    DZU(MAX_BLOCK_WEIGHT);
    DZ(MAX_BLOCK_SIGOPS_COST);
    DZ(COINBASE_MATURITY);
    DZ(WITNESS_SCALE_FACTOR);
    DZU(MIN_TRANSACTION_WEIGHT);
    DZ(MAX_TIMEWARP);
    DZ(LOCKTIME_THRESHOLD);
    DZU(MAX_SCRIPT_ELEMENT_SIZE);
    DZ(MAX_OPS_PER_SCRIPT);
    DZ(MAX_PUBKEYS_PER_MULTISIG);
    DZ(MAX_SCRIPT_SIZE);
    DZ(MAX_STACK_SIZE);
    // the subsidy at height 0 on mainnet, as computed by the code (ties 50*COIN)
    {
        auto m = CChainParams::Main();
        defz("INITIAL_SUBSIDY", GetBlockSubsidy(0, m->GetConsensus()));
    }
    std::cout << "\n";
    chain("main", *CChainParams::Main());
    chain("test", *CChainParams::TestNet());
    chain("testnet4", *CChainParams::TestNet4());
    chain("signet", *CChainParams::SigNet());
    chain("regtest", *CChainParams::RegTest());
    std::cout << "\n";
    for (auto& f : VerifParamReg::all()) f();
    std::cout << "Definition all_chains : list chain_params := [chain_main; chain_test; chain_testnet4; chain_signet; chain_regtest].\n";
    return 0;
}
