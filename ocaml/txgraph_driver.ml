(* Model side of the txgraph family (C25).
   Both modes read "<case> => <implementation output>" (props/C25.py feeds the implementation's
   output to the model run as well: the removed sets returned by Trim() and the ordering answers
   cannot be predicted, only validated).
   model: runs the extracted interface-level model (Model.step) on the script, taking Trim()'s removed
          sets from the implementation, and prints the dump in the C++ driver's format with every
          STRUCTURAL answer computed by the model (existence, counts, oversize, ancestors, descendants,
          clusters as sets, distinct-cluster counts, unions, individual feerates); the ordering tokens
          are echoed from the implementation when the model says they must be present.
   holds: evaluates, after every step of the script, the extracted Coq predicates Model.trim_checks /
          Model.query_checks on what the implementation printed (numbered clauses; the first failing
          clause is named). *)
open Conv

let split_str (sep : string) (s : string) : string list = Str.split_delim (Str.regexp_string sep) s

let nat_of_string s = nat_of_int (int_of_string s)
let ids_of_string (s : string) : Model.nat list =
  if s = "-" || s = "" then [] else List.map nat_of_string (String.split_on_char '.' s)
let ints_of_nats l = List.map int_of_nat l
let string_of_ids ?(sort = true) (l : Model.nat list) : string =
  let l = ints_of_nats l in
  let l = if sort then List.sort_uniq compare l else l in
  if l = [] then "-" else String.concat "." (List.map string_of_int l)
let ff_of_strings f s : Model.z * Model.z = (z_of_string f, z_of_string s)
let string_of_ff ((f, s) : Model.z * Model.z) = string_of_z f ^ ":" ^ string_of_z s

type case = { mc : Model.z; ms : Model.z; ops : string list list }

let parse_case (l : string) : case =
  match split_str " | " l with
  | hd :: rest ->
    (match words hd with
     | mc :: ms :: _cost :: _u :: _ ->
       let ops = match rest with
         | [] -> []
         | o :: _ -> List.filter (fun x -> x <> []) (List.map words (split_str " ; " o)) in
       { mc = z_of_string mc; ms = z_of_string ms; ops }
     | _ -> failwith "case header")
  | [] -> failwith "case format"

(* ---- parsing of one dump segment ---- *)
let tokens_of_segment (seg : string) : (string * string) list =
  List.filter_map (fun t ->
      match String.index_opt t '=' with
      | Some i -> Some (String.sub t 0 i, String.sub t (i + 1) (String.length t - i - 1))
      | None -> None) (words seg)

let items (v : string) : string list = if v = "-" || v = "" then [] else String.split_on_char ',' v

let parse_per_id (v : string) : (Model.nat * Model.nat list) list =
  List.map (fun it -> match String.split_on_char ':' it with
      | [i; l] -> (nat_of_string i, ids_of_string l)
      | _ -> failwith "per-id item") (items v)
let parse_id_ff (v : string) : (Model.nat * (Model.z * Model.z)) list =
  List.map (fun it -> match String.split_on_char ':' it with
      | [i; f; s] -> (nat_of_string i, ff_of_strings f s)
      | _ -> failwith "id:fee:size item") (items v)
let parse_ffs (v : string) : (Model.z * Model.z) list =
  List.map (fun it -> match String.split_on_char ':' it with
      | [f; s] -> ff_of_strings f s
      | _ -> failwith "fee:size item") (items v)
exception Unstable
let parse_chunk (it : string) : bool * (Model.nat list * (Model.z * Model.z)) =
  let skip = String.length it > 0 && it.[0] = '!' in
  let it = if skip then String.sub it 1 (String.length it - 1) else it in
  if String.length it > 0 && it.[0] = '?' then raise Unstable;
  match String.split_on_char ':' it with
  | [l; f; s] -> (skip, (ids_of_string l, ff_of_strings f s))
  | _ -> failwith ("chunk item " ^ it)
let parse_cmp (v : string) : Model.comparison list list =
  List.map (fun row -> List.init (String.length row) (fun k ->
      match row.[k] with '<' -> Model.Lt | '>' -> Model.Gt | '=' -> Model.Eq | _ -> failwith "cmp char")) (items v)

let get tk k = List.assoc_opt k tk
let get_d tk k d = match get tk k with Some v -> v | None -> d

(* one answer per subset of the `q` step; an empty answer is "-", and so is the empty list of answers *)
let per_subset (nsub : int) (v : string) : string list = if nsub = 0 then [] else String.split_on_char ',' v

let parse_lobs (nsub : int) (tk : (string * string) list) (pf : string) : Model.lobs option =
  match get tk (pf ^ "n") with
  | None -> None
  | Some n ->
    let detail = get tk (pf ^ "anc") <> None in
    Some { Model.o_n = z_of_string n;
           o_ov = (get_d tk (pf ^ "ov") "0" = "1");
           o_ex = ids_of_string (get_d tk (pf ^ "ex") "-");
           o_detail = detail;
           o_anc = parse_per_id (get_d tk (pf ^ "anc") "-");
           o_desc = parse_per_id (get_d tk (pf ^ "desc") "-");
           o_clu = parse_per_id (get_d tk (pf ^ "clu") "-");
           o_ne = ids_of_string (get_d tk (pf ^ "ne") "-");
           o_cdc = List.map z_of_string (per_subset nsub (get_d tk (pf ^ "cdc") "-"));
           o_au = List.map ids_of_string (per_subset nsub (get_d tk (pf ^ "au") "-"));
           o_du = List.map ids_of_string (per_subset nsub (get_d tk (pf ^ "du") "-")) }

let empty_lobs : Model.lobs =
  { Model.o_n = z_of_int (-1); o_ov = false; o_ex = []; o_detail = false; o_anc = []; o_desc = []; o_clu = [];
    o_ne = []; o_cdc = []; o_au = []; o_du = [] }

let parse_qobs (nsub : int) (seg : string) : Model.qobs =
  let tk = tokens_of_segment seg in
  let order =
    match get tk "cf" with
    | None -> None
    | Some cf ->
      let wc = match parse_chunk (get_d tk "wc" "-:0:0") with (_, c) -> c in
      Some { Model.b_cf = parse_id_ff cf;
             b_cmp = parse_cmp (get_d tk "cmp" "-");
             b_bb = List.map (fun it -> snd (parse_chunk it)) (items (get_d tk "bb" "-"));
             b_has_walk = (get tk "bbs" <> None);
             b_walk = List.map parse_chunk (items (get_d tk "bbs" "-"));
             b_wc = wc } in
  let diag = match get tk "dgm", get tk "dgs" with
    | Some a, Some b -> Some (parse_ffs a, parse_ffs b)
    | _ -> None in
  { Model.q_st = (get_d tk "st" "0" = "1");
    q_fr = parse_id_ff (get_d tk "fr" "-");
    q_main = (match parse_lobs nsub tk "m." with Some o -> o | None -> empty_lobs);
    q_stag = parse_lobs nsub tk "s.";
    q_order = order;
    q_diag = diag }

let parse_subsets (w : string list) : Model.nat list list =
  match w with
  | _q :: _mask :: subs -> List.map ids_of_string subs
  | _ -> []

let op_of_words (w : string list) (trim_hint : Model.nat list) : Model.op option =
  match w with
  | ["add"; i; f; s] -> Some (Model.OAdd (nat_of_string i, z_of_string f, z_of_string s))
  | ["rm"; i] -> Some (Model.ORm (nat_of_string i))
  | ["dep"; p; c] -> Some (Model.ODep (nat_of_string p, nat_of_string c))
  | ["fee"; i; f] -> Some (Model.OFee (nat_of_string i, z_of_string f))
  | ["destroy"; i] -> Some (Model.ODestroy (nat_of_string i))
  | ["start"] -> Some Model.OStart
  | ["commit"] -> Some Model.OCommit
  | ["abort"] -> Some Model.OAbort
  | ["trim"] -> Some (Model.OTrim trim_hint)
  | "work" :: _ -> Some Model.OWork
  | "q" :: _ -> Some Model.OQuery
  | _ -> None

let check_name (c : int) : string =
  let lvl, c = if c >= 100 then ("staging-", c - 100) else ("", c) in
  lvl ^ (match c with
      | 1 -> "transaction-count" | 2 -> "oversized" | 3 -> "exists" | 4 -> "inspectors-available"
      | 5 -> "ancestors" | 6 -> "descendants" | 7 -> "cluster" | 8 -> "nonexistent-answers-nonempty"
      | 9 -> "count-distinct-clusters" | 10 -> "ancestors-union" | 11 -> "descendants-union"
      | 20 -> "feerates-out-of-range" | 21 -> "cluster-linearization-not-topological" | 22 -> "chunk-feerate-or-connectivity"
      | 23 -> "order-not-a-permutation" | 24 -> "order-not-topological" | 25 -> "compare-main-order-inconsistent"
      | 26 -> "order-vs-cluster-linearization" | 27 -> "builder-chunks-vs-order-chunking" | 28 -> "builder-chunk-not-a-cluster-chunk"
      | 29 -> "builder-feerates-increase" | 30 -> "worst-chunk" | 31 -> "builder-skip-walk" | 32 -> "builder-walk-incomplete"
      | 40 -> "staging-linearization-not-topological" | 41 -> "diagram-not-sorted" | 42 -> "diagram-vs-cluster-chunks"
      | 50 -> "trim-nonempty-iff-oversized" | 51 -> "trim-removed-not-live" | 52 -> "trim-keeps-child-of-removed-parent"
      | 53 -> "trim-wrong-clusters" | 54 -> "trim-result-oversized"
      | 60 -> "have-staging" | 61 -> "individual-feerates" | 62 -> "staging-dump-presence" | 63 -> "order-answers-presence"
      | 64 -> "diagram-presence"
      | n -> "clause-" ^ string_of_int n)

(* ---- model mode: structural dump from the model ---- *)
let dump_level (lv : Model.level) (ov : bool) (pf : string) (subsets : Model.nat list list) (impl : (string * string) list) : string list =
  let idl = List.sort compare (ints_of_nats (Model.ids lv)) in
  let base = [ pf ^ "n=" ^ string_of_int (List.length idl);
               pf ^ "ov=" ^ (if ov then "1" else "0");
               pf ^ "ex=" ^ (if idl = [] then "-" else String.concat "." (List.map string_of_int idl)) ] in
  if ov then base else begin
    let per f = if idl = [] then "-" else
        String.concat "," (List.map (fun i -> string_of_int i ^ ":" ^ string_of_ids (f lv (nat_of_int i))) idl) in
    (* GetCluster's ORDER is the implementation's; echoed if it denotes the model's clusters *)
    let clu_model = per Model.q_cluster in
    let clu =
      match get impl (pf ^ "clu") with
      | Some v when (try String.concat "," (List.map (fun (i, l) -> string_of_int (int_of_nat i) ^ ":" ^ string_of_ids l) (parse_per_id v)) = clu_model
                     with _ -> false) -> v
      | _ -> clu_model in
    let sub f = if subsets = [] then "-" else String.concat "," (List.map f subsets) in
    base @ [ pf ^ "anc=" ^ per Model.q_ancestors;
             pf ^ "desc=" ^ per Model.q_descendants;
             pf ^ "clu=" ^ clu;
             pf ^ "ne=-";
             pf ^ "cdc=" ^ sub (fun s -> string_of_z (Model.q_count_distinct lv s));
             pf ^ "au=" ^ sub (fun s -> string_of_ids (Model.q_anc_union lv s));
             pf ^ "du=" ^ sub (fun s -> string_of_ids (Model.q_desc_union lv s)) ]
  end

let dump_model (s : Model.state) (w : string list) (impl_seg : string) : string =
  let impl = tokens_of_segment impl_seg in
  let subsets = parse_subsets w in
  let skipmask = match w with _ :: m :: _ -> int_of_string m | _ -> 0 in
  let mov = Model.main_oversized s and sov = Model.stag_oversized s in
  let all = List.sort_uniq compare (ints_of_nats (Model.ids s.Model.s_main @ (match s.Model.s_stag with Some l -> Model.ids l | None -> []))) in
  let frs = List.filter_map (fun i -> match Model.q_feerate s (nat_of_int i) with
      | Some f -> Some (string_of_int i ^ ":" ^ string_of_ff f) | None -> None) all in
  let echo k = k ^ "=" ^ (match get impl k with Some v -> v | None -> "?") in
  let t = [ "st=" ^ (match s.Model.s_stag with Some _ -> "1" | None -> "0");
            "fr=" ^ (if frs = [] then "-" else String.concat "," frs) ]
          @ dump_level s.Model.s_main mov "m." subsets impl
          @ (if mov then [] else [echo "cf"; echo "cmp"])
          @ (match s.Model.s_stag with Some l -> dump_level l sov "s." subsets impl | None -> [])
          @ (if mov then [] else [echo "bb"] @ (if skipmask <> 0 then [echo "bbs"] else []) @ [echo "wc"])
          @ (match s.Model.s_stag with Some _ when not mov && not sov -> [echo "dgm"; echo "dgs"] | _ -> []) in
  String.concat " " t

let is_bad_output (impl : string) =
  let p pre = String.length impl >= String.length pre && String.sub impl 0 (String.length pre) = pre in
  p "CRASH" || p "EXC" || p "BADCASE"

let segments (impl : string) : string list = if impl = "-" || impl = "" then [] else split_str " | " impl

let trim_hint_of (seg : string option) : Model.nat list option =
  match seg with
  | Some s when String.length s >= 2 && String.sub s 0 2 = "T=" -> Some (ids_of_string (String.sub s 2 (String.length s - 2)))
  | _ -> None

let model _args (line : string) : string =
  let (case, impl) = split_arrow line in
  let c = parse_case case in
  let segs = ref (if is_bad_output impl then [] else segments impl) in
  let pop () = match !segs with [] -> None | x :: r -> segs := r; Some x in
  let s = ref (Model.init_state c.mc c.ms) in
  let out = ref [] in
  List.iter (fun w ->
      match w with
      | ["trim"] ->
        let seg = pop () in
        (match trim_hint_of seg with
         | Some h -> s := Model.step !s (Model.OTrim h); out := ("T=" ^ string_of_ids h) :: !out
         | None -> out := "T=?" :: !out)
      | "q" :: _ ->
        s := Model.step !s Model.OQuery;
        let seg = match pop () with Some x -> x | None -> "" in
        out := dump_model !s w seg :: !out
      | _ -> (match op_of_words w [] with Some o -> s := Model.step !s o | None -> failwith "bad op")
    ) c.ops;
  if !out = [] then "-" else String.concat " | " (List.rev !out)

let holds _args (case : string) (impl : string) : string =
  if is_bad_output impl then "fail implementation-crashed " ^ impl else
    let c = parse_case case in
    let segs = ref (segments impl) in
    let pop () = match !segs with [] -> None | x :: r -> segs := r; Some x in
    let s = ref (Model.init_state c.mc c.ms) in
    let res = ref None in
    let k = ref 0 in
    let fail why = if !res = None then res := Some (Printf.sprintf "fail %s step=%d" why !k) in
    List.iter (fun w ->
        incr k;
        if !res = None then
          match w with
          | ["trim"] ->
            (match trim_hint_of (pop ()) with
             | Some h ->
               (match Model.first_failure (Model.trim_checks (!s).Model.s_mc (!s).Model.s_ms (Model.top !s) h) with
                | Some code -> fail (check_name (int_of_nat code))
                | None -> ());
               s := Model.step !s (Model.OTrim h)
             | None -> fail "missing-trim-output")
          | "q" :: _ ->
            s := Model.step !s Model.OQuery;
            (match pop () with
             | None -> fail "missing-dump"
             | Some seg ->
               (match (try Some (parse_qobs (List.length (parse_subsets w)) seg) with Unstable -> None) with
                | None -> fail "builder-current-chunk-unstable"
                | Some o ->
                  (match Model.first_failure (Model.query_checks !s (parse_subsets w) o) with
                   | Some code -> fail (check_name (int_of_nat code))
                   | None -> ())))
          | _ -> (match op_of_words w [] with Some o -> s := Model.step !s o | None -> fail "bad-op")
      ) c.ops;
    match !res with Some r -> r | None -> "ok"

let () = main_loop ~model ~holds
