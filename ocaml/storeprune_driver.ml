(* Model side of C19 (pruning).
   prune <tip> <manual> <ibd> <best> <target> <snapbase|-1> <nlocks> l.. <nfiles> {size undo hfirst hlast}*
   disc <h> <nlocks> l..   *)
open Conv
let rec take k ws = if k = 0 then ([], ws) else match ws with x :: r -> let (a, b) = take (k - 1) r in (x :: a, b) | [] -> failwith "short"
let parse ws = match ws with
  | "prune" :: tip :: manual :: ibd :: best :: target :: snap :: nl :: r ->
    let (ls, r) = take (int_of_string nl) r in
    (match r with
     | nf :: r ->
       let rec files k r acc = if k = 0 then List.rev acc else match r with
         | s :: u :: hf :: hl :: r' -> files (k - 1) r' ({ Model.f_size = z_of_string s; Model.f_undo = z_of_string u; Model.f_hfirst = z_of_string hf; Model.f_hlast = z_of_string hl } :: acc)
         | _ -> failwith "bad files" in
       let fl = files (int_of_string nf) r [] in
       let e = { Model.pe_tip = z_of_string tip; Model.pe_prune_target = z_of_string target; Model.pe_num_chainstates = z_of_int 1;
                 Model.pe_prune_after_height = Model.rEGTEST_PRUNE_AFTER_HEIGHT; Model.pe_ibd = (ibd = "1");
                 Model.pe_best_header_height = z_of_string best;
                 Model.pe_snapshot_base = (if snap = "-1" then None else Some (z_of_string snap));
                 Model.pe_locks = List.map z_of_string ls } in
       (e, fl, z_of_string manual)
     | _ -> failwith "bad")
  | _ -> failwith "bad case"
let show l = String.concat " " ("ok" :: List.map string_of_z l)
let model _ l = match words l with
  | "disc" :: h :: _ :: ls -> String.concat " " (List.map string_of_z (Model.locks_after_disconnect (z_of_string h) (List.map z_of_string ls)))
  | ws -> let (e, fl, m) = parse ws in show (Model.flush_prune e fl m)
(* the property's predicate on what the implementation pruned *)
let holds _ c impl = match words c with
  | "disc" :: h :: _ :: ls ->
    let hz = zt_of_string h in
    let outs = List.map zt_of_string (words impl) in
    if List.length outs = List.length ls && List.for_all2 (fun o l -> Z.leq o (Z.pred hz) && Z.leq o (zt_of_string l)) outs ls then "ok"
    else "fail a prune lock stays above the disconnected block's predecessor"
  | ws ->
    let (e, fl, _) = parse ws in
    (match words impl with
     | "ok" :: pr ->
       (match int_of_z (Model.pruned_verdict e fl (List.map z_of_string pr)) with
        | 0 -> "ok"
        | 1 -> "fail clamp0-corner: tip < 288 and a pruned file's highest block is the genesis block (GetPruneRange clamps max_prune at 0)"
        | 2 -> "fail clamp1-corner: prune lock at height 0 or 1 and a pruned file's highest block is <= 1 (last_prune clamped at 1)"
        | _ -> "fail a pruned file holds a block within 288 of the tip, at/above a prune lock, or at/below an unvalidated snapshot base")
     | _ -> "fail flush failed")
let () = main_loop ~model ~holds
