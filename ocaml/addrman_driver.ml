(* Model side of C37 (addrman).
   argv: model|holds <oracle file>
   case: "<script> ## <hints>"  (hints = the implementation's nondeterministic choices, see tie/drivers/addrman_drv.cpp)
   script ops:  t now | a k src time services penalty want0 | g k time | at k count time | c k time | sv k services | r |
                stc want | ga max pct net filtered seed | sel new_only netmask seed | sz net in_new | rl *)
open Conv

(* ---- oracle: the real bucket / position / CNetAddr functions, tabulated by the C++ driver ---- *)
let key_props : (int, bool * bool * int * int * int * int) Hashtbl.t = Hashtbl.create 64   (* routable valid network netclass addr_of tried_bucket *)
let bpn : (int, int array) Hashtbl.t = Hashtbl.create 64
let bpt : (int, int array) Hashtbl.t = Hashtbl.create 64
let nbt : (int, int array) Hashtbl.t = Hashtbl.create 64

let load_oracle path =
  let ic = open_in path in
  (try
     while true do
       let ws = words (input_line ic) in
       match ws with
       | "key" :: k :: r :: v :: net :: cls :: ao :: tb :: _ ->
         Hashtbl.replace key_props (int_of_string k) (r = "1", v = "1", int_of_string net, int_of_string cls, int_of_string ao, int_of_string tb)
       | "bpn" :: k :: ps -> Hashtbl.replace bpn (int_of_string k) (Array.of_list (List.map int_of_string ps))
       | "bpt" :: k :: ps -> Hashtbl.replace bpt (int_of_string k) (Array.of_list (List.map int_of_string ps))
       | "nb" :: k :: ps -> Hashtbl.replace nbt (int_of_string k) (Array.of_list (List.map int_of_string ps))
       | _ -> ()
     done
   with End_of_file -> ());
  close_in ic

let prop k = try Hashtbl.find key_props (int_of_z k) with Not_found -> (false, false, 0, 0, 9999, -1)
let tried_bucket k = let (_, _, _, _, _, tb) = prop k in z_of_int tb
let new_bucket k src = (try z_of_int (Hashtbl.find nbt (int_of_z k)).(int_of_z src) with _ -> z_of_int (-1))
let bucket_pos fnew b k =
  (try z_of_int (Hashtbl.find (if fnew then bpn else bpt) (int_of_z k)).(int_of_z b) with _ -> z_of_int (-1))
let routable k = let (r, _, _, _, _, _) = prop k in r
let valid k = let (_, v, _, _, _, _) = prop k in v
let network k = let (_, _, n, _, _, _) = prop k in z_of_int n
let netclass k = let (_, _, _, c, _, _) = prop k in z_of_int c
let addr_of k = let (_, _, _, _, a, _) = prop k in z_of_int a
let cfg = Model.real_cfg

(* ---- canonical dumps (must match Drv::dump / Drv::obs) ---- *)
let fnv (s : string) : string =
  let h = ref 0x14650fb0739d0383L in
  String.iter (fun ch -> h := Int64.mul (Int64.logxor !h (Int64.of_int (Char.code ch))) 0x100000001b3L) s;
  Printf.sprintf "%Lx" (Int64.logand !h 0x3fffffffffffffffL)

let b01 b = if b then "1" else "0"
let sz = string_of_z
let slot_cmp ((b1, p1), _) ((b2, p2), _) = compare (int_of_z b1, int_of_z p1) (int_of_z b2, int_of_z p2)
let dump (s : Model.st) : string =
  let buf = Buffer.create 1024 in
  let add = Buffer.add_string buf in
  add (Printf.sprintf "idc=%s lg=%s nn=%s nt=%s I[" (sz s.Model.s_idcount) (sz s.Model.s_last_good) (sz s.Model.s_nnew) (sz s.Model.s_ntried));
  List.iter (fun (id, a) ->
      add (Printf.sprintf " %s:%s:%s:%s:%s:%s:%s:%s:%s:%s:%s:%s" (sz id) (sz a.Model.a_key) (sz a.Model.a_src) (sz a.Model.a_time) (sz a.Model.a_services)
             (sz a.Model.a_last_try) (sz a.Model.a_last_count) (sz a.Model.a_last_success) (sz a.Model.a_attempts) (sz a.Model.a_ref) (b01 a.Model.a_tried) (sz a.Model.a_rpos)))
    (List.sort (fun (i, _) (j, _) -> compare (int_of_z i) (int_of_z j)) s.Model.s_info);
  add " ] A[";
  List.iter (fun (k, id) -> add (Printf.sprintf " %s:%s" (sz k) (sz id))) (List.sort (fun (i, _) (j, _) -> compare (int_of_z i) (int_of_z j)) s.Model.s_addr);
  add " ] R[";
  List.iter (fun id -> add (" " ^ sz id)) s.Model.s_random;
  add " ] T[";
  List.iter (fun ((b, p), id) -> add (Printf.sprintf " %s.%s:%s" (sz b) (sz p) (sz id))) (List.sort slot_cmp s.Model.s_tried);
  add " ] N[";
  List.iter (fun ((b, p), id) -> add (Printf.sprintf " %s.%s:%s" (sz b) (sz p) (sz id))) (List.sort slot_cmp s.Model.s_new);
  add " ] C[";
  List.iter (fun id -> add (" " ^ sz id)) s.Model.s_coll;
  add " ] NC[";
  List.iter (fun (n, (a, b)) -> if int_of_z a <> 0 || int_of_z b <> 0 then add (Printf.sprintf " %s:%s:%s" (sz n) (sz a) (sz b)))
    (List.sort (fun (i, _) (j, _) -> compare (int_of_z i) (int_of_z j)) s.Model.s_netcnt);
  add " ]";
  Buffer.contents buf

let obs (s : Model.st) : string =
  let buf = Buffer.create 1024 in
  let add = Buffer.add_string buf in
  let keyof id = match Model.zfind id s.Model.s_info with Some a -> sz a.Model.a_key | None -> "-2" in
  add (Printf.sprintf "nn=%s nt=%s I[" (sz s.Model.s_nnew) (sz s.Model.s_ntried));
  List.iter (fun (_, a) ->
      add (Printf.sprintf " %s:%s:%s:%s:%s:%s:%s" (sz a.Model.a_key) (sz a.Model.a_src) (sz a.Model.a_time) (sz a.Model.a_services)
             (sz a.Model.a_last_success) (sz a.Model.a_attempts) (b01 a.Model.a_tried)))
    (List.sort (fun (_, a) (_, b) -> compare (int_of_z a.Model.a_key) (int_of_z b.Model.a_key)) s.Model.s_info);
  add " ] T[";
  List.iter (fun ((b, p), id) -> add (Printf.sprintf " %s.%s:%s" (sz b) (sz p) (keyof id))) (List.sort slot_cmp s.Model.s_tried);
  add " ] N[";
  List.iter (fun ((b, p), id) -> add (Printf.sprintf " %s.%s:%s" (sz b) (sz p) (keyof id))) (List.sort slot_cmp s.Model.s_new);
  add " ]";
  Buffer.contents buf

let check s = Model.check_addrman cfg tried_bucket bucket_pos network s

let split_hints (l : string) : string * string list =
  let re = Str.regexp_string " ##" in
  match (try Some (Str.search_forward re l 0) with Not_found -> None) with
  | Some i -> (String.sub l 0 i, words (String.sub l (i + 3) (String.length l - i - 3)))
  | None -> (l, [])

(* runs a script; returns the per-op tokens (ret, check code, fingerprint) and the final state *)
let run (line : string) : (string * string * string * string) list * Model.st =
  let (script, hints) = split_hints line in
  let hints = ref hints in
  let hint () = match !hints with h :: r -> hints := r; Some h | [] -> None in
  let ws = ref (words script) in
  let next () = match !ws with w :: r -> ws := r; w | [] -> failwith "short script" in
  let nz () = z_of_string (next ()) in
  let s = ref Model.init_state in
  let now = ref (z_of_int 1700000000) in
  let out = ref [] in
  let emit op ret = out := (op, ret, sz (check !s), fnv (dump !s)) :: !out in
  let fail c = "FAIL" ^ sz c in
  while !ws <> [] do
    let op = next () in
    match op with
    | "t" -> now := nz (); emit op "-"
    | "a" ->
      let k = nz () in let src = nz () in let time = nz () in let svc = nz () in let pen = nz () in let want0 = next () in
      (match Model.add_single cfg new_bucket bucket_pos routable network addr_of !s k time svc src pen !now (if want0 = "0" then z_of_int 1 else z_of_int 0) with
       | Model.Ok (s', b) -> s := s'; emit op (b01 b)
       | Model.Fail c -> emit op (fail c))
    | "g" ->
      let k = nz () in let time = nz () in
      (match Model.good cfg tried_bucket new_bucket bucket_pos network !s k true time with
       | Model.Ok (s', b) -> s := s'; emit op (b01 b)
       | Model.Fail c -> emit op (fail c))
    | "at" -> let k = nz () in let cf = next () in let time = nz () in s := Model.attempt !s k (cf <> "0") time; emit op "-"
    | "c" -> let k = nz () in let time = nz () in s := Model.connected !s k time; emit op "-"
    | "sv" -> let k = nz () in let svc = nz () in s := Model.set_services_op !s k svc; emit op "-"
    | "r" ->
      (match Model.resolve_collisions cfg tried_bucket new_bucket bucket_pos valid network !s !now with
       | Model.Ok s' -> s := s'; emit op "-"
       | Model.Fail c -> emit op (fail c))
    | "stc" ->
      let want = int_of_string (next ()) in
      let n = List.length !s.Model.s_coll in
      let draw = if n = 0 then 0 else want mod n in
      (match Model.select_tried_collision tried_bucket bucket_pos !s (z_of_int draw) with
       | Model.Ok (s', None) -> s := s'; emit op "none"
       | Model.Ok (s', Some (k, lt)) -> s := s'; emit op (sz k ^ ":" ^ sz lt)
       | Model.Fail c -> emit op (fail c))
    | "ga" ->
      let maxa = nz () in let pct = nz () in let net = nz () in let filtered = next () in let _seed = next () in
      let n = match hint () with Some h -> int_of_string h | None -> 0 in
      let draws = List.init n (fun _ -> match hint () with Some h -> z_of_string h | None -> z_of_int 0) in
      (match Model.getaddr cfg netclass !s maxa pct net (filtered <> "0") !now draws with
       | Model.Ok (s', ks) -> s := s'; emit op (if ks = [] then "none" else String.concat "," (List.map sz ks))
       | Model.Fail c -> emit op (fail c))
    | "sel" ->
      let new_only = next () <> "0" in let mask = int_of_string (next ()) in let _seed = next () in
      let nets = List.filter_map (fun n -> if mask land (1 lsl n) <> 0 then Some (z_of_int n) else None) [0; 1; 2; 3; 4; 5; 6; 7] in
      let k = match hint () with Some h -> int_of_string h | None -> -1 in
      let plan = Model.select_plan !s new_only nets in
      let ret =
        if k < 0 then (match plan with None -> "none" | Some _ -> "!a-viable-entry-exists-by-the-counts")
        else match plan with
          | None -> "!counts-say-nothing-to-select"
          | Some side ->
            let kz = z_of_int k in
            if not (Model.select_result_ok tried_bucket bucket_pos network !s new_only nets kz) then "!result-not-an-eligible-entry"
            else match Model.zfind kz !s.Model.s_addr with
              | None -> "!unknown"
              | Some id -> (match Model.zfind id !s.Model.s_info with
                  | None -> "!unknown"
                  | Some a ->
                    (match side with
                     | Some want_tried when want_tried <> a.Model.a_tried -> "!result-from-the-wrong-table"
                     | _ -> sz kz ^ ":" ^ sz a.Model.a_last_try))
      in
      emit op ret
    | "sz" -> let net = nz () in let in_new = nz () in emit op (sz (Model.size_op !s net in_new))
    | "rl" ->
      let n = match hint () with Some h -> int_of_string h | None -> -1 in
      let order = if n < 0 then List.map fst !s.Model.s_info
        else List.init n (fun _ -> match hint () with Some h -> z_of_string h | None -> z_of_int 0) in
      let before = fnv (obs !s) in
      (match Model.serialize cfg !s order with
       | Model.Fail c -> emit op (fail c)
       | Model.Ok f ->
         (match Model.unserialize cfg tried_bucket new_bucket bucket_pos valid network f true with
          | Model.Ok s' -> s := s'; emit op ("ok:" ^ before ^ ":" ^ fnv (obs s'))
          | Model.Fail c -> emit op ("exc" ^ sz c)))
    | _ -> failwith ("bad op " ^ op)
  done;
  (List.rev !out, !s)

let model _ line =
  let (toks, s) = run line in
  String.concat " " (List.map (fun (_, r, c, h) -> r ^ "/" ^ c ^ "/" ^ h) toks) ^ " | " ^ dump s

(* the property's predicate on what the implementation did: CheckAddrman() = 0 after every operation, a reload preserves
   every address with its statistics and table placement, Select answers are eligible entries *)
let holds _ case impl =
  if String.length impl >= 5 && (String.sub impl 0 5 = "CRASH" || String.sub impl 0 3 = "EXC") then "fail the implementation aborted: " ^ impl
  else begin
    let front = match Str.bounded_split (Str.regexp_string " | ") impl 2 with f :: _ -> f | [] -> "" in
    let itoks = List.map (fun t -> Str.split (Str.regexp_string "/") t) (words front) in
    let (mtoks, _) = run case in
    if List.length itoks <> List.length mtoks then "fail malformed implementation output"
    else
      let rec go its mts = match its, mts with
        | [ret; chk; _] :: ir, (op, mret, _, _) :: mr ->
          if chk <> "0" then "fail CheckAddrman returned " ^ chk ^ " after " ^ op
          else if op = "rl" then
            (match Str.split (Str.regexp_string ":") ret with
             | ["ok"; a; b] when a = b -> go ir mr
             | _ -> "fail reloading the serialized address manager lost or changed entries")
          else if op = "sel" && ret <> mret then "fail Select: " ^ mret
          else go ir mr
        | [], [] -> "ok"
        | _ -> "fail malformed implementation output"
      in go itoks mtoks
  end

let () =
  (match Array.to_list Sys.argv with
   | _ :: _ :: path :: _ -> load_oracle path
   | _ -> ());
  main_loop ~model ~holds
