(* Model side of the block-file storage checks (C17): extracted SerStore (+ SerTx for blocks). *)
open Conv
module M = Model

let rec take n l = if n <= 0 then [] else match l with x :: r -> x :: take (n - 1) r | [] -> []
let rec drop n l = if n <= 0 then l else match l with _ :: r -> drop (n - 1) r | [] -> []

(* the record in a slice of the plaintext block file that starts 8 bytes before the payload *)
let rec_parts slice =
  let magic = take 4 slice in
  let size = match drop 4 slice with a :: b :: c :: d :: _ -> int_of_n a + 256 * (int_of_n b + 256 * (int_of_n c + 256 * int_of_n d)) | _ -> 0 in
  let payload = take size (drop 8 slice) in
  (magic, size, payload)

let rec_model slice rel_off mask =
  let (magic, _, payload) = rec_parts slice in
  let orig_header = take 80 payload in
  let file = M.flip_byte slice (nat_of_int rel_off) (n_of_int mask) in
  let header_ok h = M.bytes_eq (M.ser_header h) orig_header in
  let raw = M.read_raw_block magic file (z_of_int 8) in
  let blk = M.read_block header_ok magic file (z_of_int 8) in
  (match raw with Some d -> "raw=ok:" ^ hex_of_bytes d | None -> "raw=err") ^ (if blk then " blk=1" else " blk=0")

let model _ l = match words l with
  | ["obf"; key; off; mis; data] ->
    hex_of_bytes (M.obfuscate (bytes_of_hex key) (z_of_string off) (z_of_string mis) (bytes_of_hex data))
  | ["rec"; _; slice; _; rel_off; mask] -> rec_model (bytes_of_hex slice) (int_of_string rel_off) (int_of_string mask)
  | ["undo"; _; usize; rel_off; mask] ->
    if M.undo_read_ok_after_flip (z_of_string usize) (z_of_string rel_off) (n_of_string mask) then "undo=1" else "undo=0"
  | _ -> "BADCASE"

(* C17's own predicate on what the implementation returned.
   obf:  the bytes are data XOR key stream (extracted xor_stream; address independence / involution follow)
   rec:  uncorrupted record: ReadRawBlock returns exactly the stored payload and ReadBlock succeeds;
         corrupted magic, or size field above MAX_SIZE: both reads must fail; corrupted header byte:
         ReadBlock must fail (the header no longer hashes to the indexed block); other corruptions:
         the implementation must do what the reference reader does
   undo: uncorrupted: ReadBlockUndo succeeds; a flipped payload or checksum byte: it must fail *)
let max_size = 33554432
let holds args c impl =
  let same () = if model args c = impl then "ok" else "fail differs from the reference reader: expected " ^ model args c in
  match words c with
  | ["obf"; key; off; _; data] ->
    let spec = hex_of_bytes (M.xor_stream (bytes_of_hex key) (z_of_string off) (bytes_of_hex data)) in
    if spec = impl then "ok" else "fail obfuscated bytes are not data XOR key stream: expected " ^ spec
  | ["rec"; _; slice; _; rel_off; mask] ->
    let sl = bytes_of_hex slice in
    let (_, size, payload) = rec_parts sl in
    let ro = int_of_string rel_off and mk = int_of_string mask in
    if mk = 0 then
      (if impl = "raw=ok:" ^ hex_of_bytes payload ^ " blk=1" then "ok" else "fail stored block is not read back byte for byte")
    else if ro < 4 then (if impl = "raw=err blk=0" then "ok" else "fail corrupted record magic not reported as a read failure")
    else if ro < 8 then
      (let file = M.flip_byte sl (nat_of_int ro) (n_of_int mk) in
       let (_, size', _) = rec_parts file in
       if size' > max_size then (if impl = "raw=err blk=0" then "ok" else "fail size field above MAX_SIZE not reported as a read failure")
       else same ())
    else if ro < 88 && ro < 8 + size then
      (match words impl with
       | [_; "blk=0"] -> same ()
       | _ -> "fail a block whose stored header was corrupted was returned by ReadBlock")
    else same ()
  | ["undo"; _; usize; rel_off; mask] ->
    let us = int_of_string usize and ro = int_of_string rel_off and mk = int_of_string mask in
    if mk = 0 then (if impl = "undo=1" then "ok" else "fail stored undo data is not read back")
    else if ro >= 8 && ro < 8 + us + 32 then (if impl = "undo=0" then "ok" else "fail corrupted undo record not reported as a read failure")
    else same ()
  | _ -> "na"

let () = main_loop ~model ~holds
