(* Model side of the block-file storage checks (C17): extracted SerStore. *)
open Conv
module M = Model

let model _ l = match words l with
  | ["obf"; key; off; mis; data] ->
    hex_of_bytes (M.obfuscate (bytes_of_hex key) (z_of_string off) (z_of_string mis) (bytes_of_hex data))
  | _ -> "BADCASE"

(* the property's predicate for the obfuscation layer: the result does not depend on the buffer's
   address and is the key stream XOR (extracted xor_stream), so applying it twice restores the data *)
let holds _ c impl = match words c with
  | ["obf"; key; off; _; data] ->
    let spec = hex_of_bytes (M.xor_stream (bytes_of_hex key) (z_of_string off) (bytes_of_hex data)) in
    if spec = impl then "ok" else "fail obfuscated bytes are not data XOR key stream: expected " ^ spec
  | _ -> "na"

let () = main_loop ~model ~holds
