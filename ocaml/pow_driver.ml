(* Model side of the pow family (C07). *)
open Conv
let chain i = List.nth Model.all_chains (int_of_string i)
let pad64 s = if String.length s < 64 then String.make (64 - String.length s) '0' ^ s else s
let hex256 z = pad64 (hex_of_z z)
let z_of_hex s = z_of_string ("0x" ^ s)
let b01 = string_of_bool01
let two256m1 = z_of_zt (Z.pred (Z.shift_left Z.one 256))
let zt = zt_of_z
let zsub a b = z_of_zt (Z.sub (zt a) (zt b))
let zadd a b = z_of_zt (Z.add (zt a) (zt b))
let zmul a b = z_of_zt (Z.mul (zt a) (zt b))
let zeq a b = Z.equal (zt a) (zt b)

let opt_bool = function Some true -> "1" | Some false -> "0" | None -> "none"
let opt_z = function Some z -> string_of_z z | None -> "none"

(* segments <count>:<t0>:<dt>:<bits> in height order -> chain, tip first *)
let chain_of_segments ws =
  let l = ref [] in
  List.iter (fun s ->
      match String.split_on_char ':' s with
      | [n; t0; dt; bits] ->
        let n = int_of_string n and t0 = Z.of_string t0 and dt = Z.of_string dt and bits = z_of_string bits in
        for k = 0 to n - 1 do
          let t = Z.add t0 (Z.mul (Z.of_int k) dt) in
          let t = Z.erem t (Z.shift_left Z.one 32) in
          l := { Model.b_time = z_of_zt t; Model.b_bits = bits } :: !l
        done
      | _ -> failwith "bad segment") ws;
  !l

let valid_bits c bits = match Model.derive_target bits c.Model.cp_pow_limit with Some _ -> true | None -> false
let in_u32 z = Z.geq (zt z) Z.zero && Z.lt (zt z) (Z.shift_left Z.one 32)

let verdict = function
  | Model.HdrOk -> "ok" | Model.HighHash -> "high-hash" | Model.BadDiffBits -> "bad-diffbits"
  | Model.TimeTooOld -> "time-too-old" | Model.TimeWarp -> "time-timewarp-attack"
  | Model.TimeTooNew -> "time-too-new" | Model.HdrBug -> "BUG"

(* the hdr case on regtest: times are relative to the genesis block's time *)
let regtest () = List.find (fun c -> c.Model.cp_no_retargeting) Model.all_chains
let hdr_setup ws =
  match ws with
  | now :: bitsdelta :: hashmode :: times ->
    let c = regtest () in
    let limit_bits = Model.get_compact c.Model.cp_pow_limit false in
    let genesis = { Model.b_time = z_of_int 0; Model.b_bits = limit_bits } in
    let rec go prev = function
      | [] -> failwith "no final header"
      | [t] ->
        let t = z_of_string t in
        let req = Model.get_next_work_required c prev t in
        (c, prev, t, req)
      | t :: rest ->
        let t = z_of_string t in
        (match Model.get_next_work_required c prev t with
         | Some bits -> go ({ Model.b_time = t; Model.b_bits = bits } :: prev) rest
         | None -> failwith "no required bits")
    in
    let (c, prev, t, req) = go [genesis] times in
    let bits = match req with Some r -> zadd r (z_of_string bitsdelta) | None -> z_of_int 0 in
    let hash = if hashmode = "1" then two256m1 else z_of_int 0 in
    (c, prev, t, req, bits, hash, z_of_string now)
  | _ -> failwith "bad hdr case"

let model _ l = match words l with
  | ["setc"; c] ->
    let d = Model.set_compact (z_of_string c) in
    hex256 d.Model.cd_value ^ " " ^ b01 d.Model.cd_negative ^ " " ^ b01 d.Model.cd_overflow
  | ["getc"; x] -> string_of_z (Model.get_compact (z_of_hex x) false)
  | ["pow"; c; h; bits] -> b01 (Model.check_pow (chain c).Model.cp_pow_limit (z_of_hex h) (z_of_string bits))
  | ["calc"; c; lastbits; firstbits; tfirst; tlast; k] ->
    let ch = chain c in
    let lb = z_of_string lastbits in
    (match Model.calc_next_work ch lb (z_of_string firstbits) (z_of_string tfirst) (z_of_string tlast) with
     | Some r ->
       let h = zmul (z_of_string k) (Model.interval ch) in
       string_of_z r ^ " " ^ opt_bool (Model.permitted_transition ch h lb r)
     | None -> "none")
  | ["perm"; c; h; o; n] -> opt_bool (Model.permitted_transition (chain c) (z_of_string h) (z_of_string o) (z_of_string n))
  | "next" :: c :: bt :: segs ->
    let ch = chain c in
    let l = chain_of_segments segs in
    (match l, Model.get_next_work_required ch l (z_of_string bt) with
     | last :: _, Some r ->
       let h = zadd (Model.height_of l) (z_of_int 1) in
       string_of_z r ^ " " ^ opt_bool (Model.permitted_transition ch h last.Model.b_bits r)
     | _, _ -> "none")
  | "mtp" :: times ->
    let l = List.rev_map (fun t -> { Model.b_time = z_of_string t; Model.b_bits = z_of_int 0 }) times in
    opt_z (Model.median_time_past l)
  | "hdr" :: ws ->
    let (c, prev, t, req, bits, hash, now) = hdr_setup ws in
    opt_z req ^ " " ^ opt_z (Model.median_time_past prev) ^ " " ^ verdict (Model.accept_header c prev hash t bits now)
  | _ -> "BADCASE"

(* the property's own predicates, evaluated on what the implementation returned *)
let holds _ cs impl =
  let same () = if model [] cs = impl then "ok" else "na" in
  match words cs, words impl with
  | ["setc"; c], [v; neg; ovf] ->
    if Model.holds_set_compact (z_of_string c) (z_of_hex v) (bool_of_string01 neg) (bool_of_string01 ovf) then "ok"
    else "fail SetCompact differs from mantissa*256^(size-3) / sign / overflow reference"
  | ["getc"; x], [c] ->
    if Model.holds_get_compact (z_of_hex x) (z_of_string c) then "ok"
    else "fail GetCompact is not the reference encoding (mpi size, top three bytes)"
  | ["pow"; c; h; bits], [r] ->
    if b01 (Model.check_pow_spec (chain c).Model.cp_pow_limit (z_of_hex h) (z_of_string bits)) = r then "ok"
    else "fail CheckProofOfWork differs from: sign clear, 0 < target <= powLimit, hash <= target"
  | ["calc"; c; lastbits; firstbits; tfirst; tlast; k], [r; perm] ->
    let ch = chain c in
    let lb = z_of_string lastbits and fb = z_of_string firstbits in
    let used = if ch.Model.cp_enforce_bip94 then fb else lb in
    if not (in_u32 lb && in_u32 fb) then same ()
    else if ch.Model.cp_no_retargeting then
      (if not (zeq (z_of_string r) lb) then "fail no-retargeting chain changed nBits"
       else if valid_bits ch lb && perm <> "1" then "fail required nBits rejected by PermittedDifficultyTransition" else "ok")
    else (match Model.derive_target used ch.Model.cp_pow_limit with
        | Some old ->
          let actual = zsub (z_of_string tlast) (z_of_string tfirst) in
          if not (Model.holds_retarget ch old actual (z_of_string r)) then
            "fail retarget result is not the encoding of min(old*clamp(timespan)/T, powLimit) within [old/4, 4*old]"
          else if valid_bits ch lb && perm <> "1" then "fail required nBits rejected by PermittedDifficultyTransition"
          else "ok"
        | None -> same ())
  | "next" :: c :: bt :: segs, [r; perm] ->
    let ch = chain c in
    let l = chain_of_segments segs in
    if List.for_all (fun b -> valid_bits ch b.Model.b_bits) l then
      (match Model.get_next_work_required ch l (z_of_string bt) with
       | Some mr ->
         if string_of_z mr <> r then "fail GetNextWorkRequired differs from the retargeting rules: " ^ string_of_z mr
         else if perm <> "1" then "fail required nBits rejected by PermittedDifficultyTransition"
         else "ok"
       | None -> "fail model has no required work")
    else same ()
  | "perm" :: _, _ -> if model [] cs = impl then "ok" else "fail PermittedDifficultyTransition differs from its transcription"
  | "mtp" :: _, _ -> if model [] cs = impl then "ok" else "fail GetMedianTimePast is not the median of the last 11 times"
  | "hdr" :: ws, [_; _; v] ->
    let (c, prev, t, req, bits, hash, now) = hdr_setup ws in
    if v = "ok" then
      (match Model.accept_header c prev hash t bits now with
       | Model.HdrOk -> "ok"
       | r -> "fail header accepted although the rules reject it: " ^ verdict r)
    else "ok"
  | _ -> "na"

let () = main_loop ~model ~holds
