(* Model side of the EC family (C50): the extracted secp256k1 model on the same case lines as ec_drv.cpp. *)
open Conv
module M = Model

let hx = hex_of_bytes
let unhx = bytes_of_hex
let b01 b = if b then "1" else "0"
let ser c p = hx (M.ec_pubkey_serialize c p)
let be32 z = hx (M.scalar_bytes z)

let model _ l = match words l with
  | ["signorm"; r; s] ->
    (match M.sig_parse_compact (unhx r @ unhx s) with
     | None -> "parsefail"
     | Some rs ->
       let (high, (r', s')) = M.sig_normalize rs in
       let (high2, _) = M.sig_normalize (r', s') in
       String.concat " " [b01 high; be32 r'; be32 s'; b01 high2; b01 (not high)])
  | ["seckey_verify"; k] -> let v = M.ec_seckey_verify (unhx k) in b01 v ^ " " ^ b01 v
  | ["seckey_negate"; k] -> let (r, o) = M.ec_seckey_negate (unhx k) in b01 r ^ " " ^ hx o
  | ["seckey_tweak_add"; k; t] -> let (r, o) = M.ec_seckey_tweak_add (unhx k) (unhx t) in b01 r ^ " " ^ hx o
  | ["seckey_tweak_mul"; k; t] -> let (r, o) = M.ec_seckey_tweak_mul (unhx k) (unhx t) in b01 r ^ " " ^ hx o
  | ["pubkey_parse"; p] ->
    let b = unhx p in
    (match M.ec_pubkey_parse b with
     | None -> "fail 0"
     | Some pt -> ser true pt ^ " " ^ ser false pt ^ " 1")
  | ["pubkey_create"; k] -> (match M.ec_pubkey_create (unhx k) with Some pt -> ser true pt | None -> "fail")
  | ["pubkey_negate"; p] -> (match M.ec_pubkey_parse (unhx p) with Some pt -> ser true (M.ec_pubkey_negate pt) | None -> "fail")
  | ["pubkey_tweak_add"; p; t] ->
    (match M.ec_pubkey_parse (unhx p) with
     | None -> "parsefail"
     | Some pt -> (match M.ec_pubkey_tweak_add pt (unhx t) with Some q -> ser true q | None -> "fail"))
  | ["xonly_from"; p] ->
    (match M.ec_pubkey_parse (unhx p) with
     | None -> "parsefail"
     | Some pt -> let (q, par) = M.xonly_from_pubkey pt in hx (M.xonly_serialize q) ^ " " ^ b01 par ^ " " ^ ser true q)
  | ["xonly_parse"; x] -> (match M.xonly_parse (unhx x) with Some q -> ser true q ^ " 1" | None -> "fail 0")
  | ["xonly_tweak_add"; x; t] ->
    (match M.xonly_parse (unhx x) with
     | None -> "parsefail"
     | Some pt ->
       (match M.xonly_tweak_add pt (unhx t) with
        | None -> "fail"
        | Some q ->
          let (qx, par) = M.xonly_from_pubkey q in
          let o32 = M.xonly_serialize qx in
          String.concat " " [ser true q; b01 par; b01 (M.xonly_tweak_add_check o32 par pt (unhx t));
                             b01 (M.xonly_tweak_add_check o32 (not par) pt (unhx t))]))
  | ["verify"; p; m; r; s] ->
    (match M.ec_pubkey_parse (unhx p) with
     | None -> "parsefail"
     | Some pt ->
       (match M.sig_parse_compact (unhx r @ unhx s) with
        | None -> "sigparsefail"
        | Some rs -> b01 (M.ecdsa_verify rs (unhx m) pt) ^ " " ^ b01 (M.node_ecdsa_verify rs (unhx m) pt)))
  | ["sign"; k; m] ->
    (* CKey::Sign: RFC6979 nonce, low-S, low-R grinding; the signature must be byte-equal *)
    if not (M.ec_seckey_verify (unhx k)) then "invalidkey" else
    (match M.ckey_sign_exec (unhx m) (unhx k), M.ec_pubkey_create (unhx k) with
     | Some (r, s), Some pk -> ser true pk ^ " " ^ be32 r ^ " " ^ be32 s
     | _ -> "fail")
  | _ -> "BADCASE"

let zt h = Z.of_string ("0x" ^ h)
let n_zt = zt_of_z M.secp_n
let half_zt = Z.shift_right n_zt 1

(* the property's own predicate, evaluated on what the implementation returned *)
let holds args c impl =
  let expect_model () = if model args c = impl then "ok" else "fail differs-from-spec: implementation output differs from the specification value" in
  match words c with
  | ["signorm"; r; s] ->
    let rz = zt r and sz = zt s in
    if Z.geq rz n_zt || Z.geq sz n_zt then (if impl = "parsefail" then "ok" else "fail sig-parse: r or s >= n accepted")
    else (match words impl with
        | [high; r'; s'; high2; lows] ->
          let is_high = Z.gt sz half_zt in
          let want_s = if is_high then Z.sub n_zt sz else sz in
          if (high = "1") <> is_high then "fail low-s: is_high(s) differs from s > n/2"
          else if not (Z.equal (zt s') want_s) || not (Z.equal (zt r') rz) then "fail low-s: normalised signature is not (r, min(s, n-s))"
          else if high2 <> "0" then "fail low-s: the normalised signature is still reported high"
          else if (lows = "1") = is_high then "fail low-s: CPubKey::CheckLowS differs from s <= n/2"
          else "ok"
        | _ -> "fail sig-parse: r, s < n rejected")
  | ["sign"; k; m] ->
    (match words impl with
     | [pub; r; s] ->
       (match M.ec_pubkey_parse (unhx pub), M.ec_pubkey_create (unhx k) with
        | Some pt, Some pk when pt = pk ->
          if Z.gt (zt s) half_zt then "fail sign: CKey::Sign produced a high-S signature"
          else if M.ecdsa_verify (z_of_zt (zt r), z_of_zt (zt s)) (unhx m) pt then "ok"
          else "fail sign: the signature does not verify under the curve's mathematics"
        | _ -> "fail sign: public key is not key*G")
     | _ -> if impl = "invalidkey" && model args c = "invalidkey" then "ok" else "fail sign: unexpected outcome")
  | _ -> expect_model ()

let () = main_loop ~model ~holds
