(* Model side of the container family (C61): prevector, VecDeque, (bitdeque, pool).
   case:  pv <N> <op> <op> ...      |   vd <op> <op> ...
   Ops are mnemonic tokens (see props/C61.py); they are turned into (opcode, args) pairs for the extracted
   decoders.  Output: the observable state after every operation, separated by spaces. *)
open Conv

let zlist s = if s = "-" || s = "" then [] else List.map z_of_string (String.split_on_char ',' s)
let show_list l = if l = [] then "-" else String.concat "," (List.map string_of_z l)
let parse_list s = if s = "-" then [] else List.map z_of_string (String.split_on_char ',' s)
let zi = z_of_int
let zs = z_of_string

let pv_op tok : Model.z * Model.z list =
  match String.split_on_char ':' tok with
  | ["pb"; v] -> (zi 0, [zs v])
  | ["pop"] -> (zi 1, [])
  | ["ins"; p; v] -> (zi 2, [zs p; zs v])
  | ["insn"; p; n; v] -> (zi 3, [zs p; zs n; zs v])
  | ["insr"; p; l] -> (zi 4, zs p :: zlist l)
  | ["er"; p] -> (zi 5, [zs p])
  | ["err"; a; b] -> (zi 6, [zs a; zs b])
  | ["rs"; n] -> (zi 7, [zs n])
  | ["rv"; n] -> (zi 8, [zs n])
  | ["stf"] -> (zi 9, [])
  | ["clr"] -> (zi 10, [])
  | ["asg"; n; v] -> (zi 11, [zs n; zs v])
  | ["asr"; l] -> (zi 12, zlist l)
  | ["up"; p; v] -> (zi 13, [zs p; zs v])
  | ["ru"; n; l] -> (zi 14, zs n :: zlist l)
  | ["swap"] -> (zi 15, [])
  | ["mova"] -> (zi 16, [])
  | ["cpa"] -> (zi 17, [])
  | ["cpc"] -> (zi 18, [])
  | ["movc"] -> (zi 19, [])
  | ["cf"; n; v] -> (zi 20, [zs n; zs v])
  | ["cr"; l] -> (zi 21, zlist l)
  | ["cn"; n] -> (zi 22, [zs n])
  | _ -> (zi 999, [])

let vd_op tok : Model.z * Model.z list =
  match String.split_on_char ':' tok with
  | ["pb"; v] -> (zi 0, [zs v])
  | ["pf"; v] -> (zi 1, [zs v])
  | ["popb"] -> (zi 2, [])
  | ["popf"] -> (zi 3, [])
  | ["rs"; n] -> (zi 4, [zs n])
  | ["clr"] -> (zi 5, [])
  | ["rv"; n] -> (zi 6, [zs n])
  | ["stf"] -> (zi 7, [])
  | ["set"; i; v] -> (zi 8, [zs i; zs v])
  | ["swap"] -> (zi 9, [])
  | ["mova"] -> (zi 10, [])
  | ["cpa"] -> (zi 11, [])
  | ["cpc"] -> (zi 12, [])
  | ["movc"] -> (zi 13, [])
  | _ -> (zi 999, [])

let bd_op tok : Model.z * Model.z list =
  match String.split_on_char ':' tok with
  | ["pb"; v] -> (zi 0, [zs v])
  | ["pf"; v] -> (zi 1, [zs v])
  | ["popb"] -> (zi 2, [])
  | ["popf"] -> (zi 3, [])
  | ["rs"; n] -> (zi 4, [zs n])
  | ["clr"] -> (zi 5, [])
  | ["asg"; n; v] -> (zi 6, [zs n; zs v])
  | ["asr"; l] -> (zi 7, zlist l)
  | ["ins"; p; v] -> (zi 8, [zs p; zs v])
  | ["insn"; p; n; v] -> (zi 9, [zs p; zs n; zs v])
  | ["insr"; p; l] -> (zi 10, zs p :: zlist l)
  | ["er"; p] -> (zi 11, [zs p])
  | ["err"; a; b] -> (zi 12, [zs a; zs b])
  | ["set"; i; v] -> (zi 13, [zs i; zs v])
  | ["swap"] -> (zi 14, [])
  | ["cpa"] -> (zi 15, [])
  | _ -> (zi 999, [])

let pool_op tok : Model.z * Model.z list =
  match String.split_on_char ':' tok with
  | ["a"; b; al] -> (zi 0, [zs b; zs al])
  | ["f"; i] -> (zi 1, [zs i])
  | _ -> (zi 999, [])

(* one pool step:  res/nchunks/avail/k=a,a;k=a   (free lists that are empty are omitted; none: -) *)
let show_pool_step ((((res, n), av), fl)) =
  let lists = List.filter (fun (_, l) -> l <> []) (List.mapi (fun k l -> (k, l)) fl) in
  let fls = if lists = [] then "-" else
      String.concat ";" (List.map (fun (k, l) -> string_of_int k ^ "=" ^ String.concat "," (List.map string_of_z l)) lists) in
  Printf.sprintf "%s/%s/%s/%s" (string_of_z res) (string_of_z n) (string_of_z av) fls

let parse_pool_step nfl s =
  if s = "UB" then None
  else match String.split_on_char '/' s with
    | [res; n; av; fls] ->
      let arr = Array.make nfl [] in
      if fls <> "-" then
        List.iter (fun e -> match String.split_on_char '=' e with
            | [k; l] -> arr.(int_of_string k) <- List.map z_of_string (String.split_on_char ',' l)
            | _ -> failwith "malformed free list") (String.split_on_char ';' fls);
      Some (((zs res, zs n), zs av), Array.to_list arr)
    | _ -> failwith "malformed pool step"

let model _ l = match words l with
  | "pv" :: n :: ops ->
    (match Model.pv_trace_raw (zs n) (List.map pv_op ops) with
     | None -> "BADCASE"
     | Some tr ->
       String.concat " " (List.map (function
           | None -> "UB"
           | Some ((ca, la), (cb, lb)) ->
             Printf.sprintf "%s:%s/%s:%s" (string_of_z ca) (show_list la) (string_of_z cb) (show_list lb)) tr))
  | "vd" :: ops ->
    (match Model.vd_trace_raw (List.map vd_op ops) with
     | None -> "BADCASE"
     | Some tr ->
       String.concat " " (List.map (function
           | None -> "UB"
           | Some (((ca, oa), la), ((cb, ob), lb)) ->
             Printf.sprintf "%s.%s:%s/%s.%s:%s" (string_of_z ca) (string_of_z oa) (show_list la)
               (string_of_z cb) (string_of_z ob) (show_list lb)) tr))
  | "bd" :: b :: ops ->
    (match Model.bd_trace_raw (zs b) (List.map bd_op ops) with
     | None -> "BADCASE"
     | Some tr ->
       String.concat " " (List.map (function
           | None -> "UB"
           | Some ((((na, pa), ea), la), (((nb, pb), eb), lb)) ->
             Printf.sprintf "%s.%s.%s:%s/%s.%s.%s:%s" (string_of_z na) (string_of_z pa) (string_of_z ea) (show_list la)
               (string_of_z nb) (string_of_z pb) (string_of_z eb) (show_list lb)) tr))
  | "pool" :: maxb :: al :: cb :: ops ->
    (match Model.pool_trace_raw (zs maxb) (zs al) (zs cb) (List.map pool_op ops) with
     | None -> "ASSERT"
     | Some tr -> String.concat " " (List.map (function None -> "UB" | Some o -> show_pool_step o) tr))
  | _ -> "BADCASE"

(* contents part of one printed step: "<hdrA>:<elemsA>/<hdrB>:<elemsB>" -> Some (la, lb); "UB" -> None *)
let parse_step s =
  if s = "UB" then None
  else match String.split_on_char '/' s with
    | [a; b] ->
      let elems x = match String.split_on_char ':' x with
        | [_; l] -> parse_list l
        | _ -> failwith "malformed step" in
      Some (elems a, elems b)
    | _ -> failwith "malformed step"

(* the property's own predicate: the printed contents are the std container's contents after every op *)
let crashed impl = String.length impl >= 5 && String.sub impl 0 5 = "CRASH"
let holds _ c impl =
  if crashed impl then "fail the implementation crashed on this script (" ^ impl ^ ")" else
  match words c with
  | "pv" :: _ :: ops ->
    (try
       let obs = List.map parse_step (words impl) in
       if Model.holds_pv (List.map pv_op ops) obs then "ok"
       else "fail prevector contents differ from std::vector semantics of the script"
     with _ -> "fail malformed implementation output")
  | "vd" :: ops ->
    (try
       let obs = List.map parse_step (words impl) in
       if Model.holds_vd (List.map vd_op ops) obs then "ok"
       else "fail VecDeque contents differ from std::deque semantics of the script"
     with _ -> "fail malformed implementation output")
  | "bd" :: _ :: ops ->
    (try
       let obs = List.map parse_step (words impl) in
       if Model.holds_bd (List.map bd_op ops) obs then "ok"
       else "fail bitdeque contents differ from std::deque<bool> semantics of the script"
     with _ -> "fail malformed implementation output")
  | "pool" :: maxb :: al :: cb :: ops ->
    (try
       let ea = max 8 (int_of_string al) in
       let nfl = int_of_string maxb / ea + 1 in
       let obs = List.map (parse_pool_step nfl) (words impl) in
       if Model.holds_pool (zs maxb) (zs al) (zs cb) (List.map pool_op ops) obs then "ok"
       else "fail pool: a returned block is misaligned / outside its chunk / overlaps a live allocation, or live+free+unused bytes differ from chunks*chunk_size"
     with _ -> "fail malformed implementation output")
  | _ -> "na"

let () = main_loop ~model ~holds
