(* Model side of C21 part A (MuHash3072).
   mh <cmd>...   with registers 0..3 holding MuHash3072 objects:
     i<k>:<hex> Insert   r<k>:<hex> Remove   n<k>:<hex> singleton constructor   c<k> empty
     m<k><j>  reg k *= reg j    d<k><j>  reg k /= reg j
     f<k> Finalize (prints the 32 bytes)   s<k> serialize (prints 768 bytes)   u<k>:<hex768> unserialize
   output: the printed values separated by spaces ("-" when nothing is printed) *)
open Conv
let digit c = Char.code c - Char.code '0'
let arg w = match String.index_opt w ':' with
  | Some i -> bytes_of_hex (String.sub w (i + 1) (String.length w - i - 1))
  | None -> failwith "missing :"
let parse_cmd (w : string) : Model.mh_cmd =
  let k = nat_of_int (digit w.[1]) in
  match w.[0] with
  | 'i' -> Model.CIns (k, arg w)
  | 'r' -> Model.CRem (k, arg w)
  | 'n' -> Model.CNew (k, arg w)
  | 'u' -> Model.CUnser (k, arg w)
  | 'c' -> Model.CClear k
  | 'm' -> Model.CMul (k, nat_of_int (digit w.[2]))
  | 'd' -> Model.CDiv (k, nat_of_int (digit w.[2]))
  | 'f' -> Model.CFin k
  | 's' -> Model.CSer k
  | _ -> failwith "bad cmd"
let show = function
  | Model.OHash h -> hex_of_bytes h
  | Model.OBytes b -> hex_of_bytes b
  | Model.OErr -> "ERR"
let model _ l = match words l with
  | "mh" :: cmds ->
    let outs = Model.mh_cmd_run Model.mh_regs0 (List.map parse_cmd cmds) in
    if outs = [] then "-" else String.concat " " (List.map show outs)
  | _ -> "BADCASE"
let holds _ _ _ = "na"
let () = main_loop ~model ~holds
