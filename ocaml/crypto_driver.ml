(* Model side of the Crypto family (C49): computes, with the extracted Coq definitions, the value
   the standard prescribes for each case line (and, for short inputs, also runs the extracted model
   of the C++ streaming object on the same fragmentation and insists that both agree). *)
open Conv

(* "3,0,61" -> [3;0;61];  "-" -> [] (no call at all) *)
let sizes (s : string) : int list =
  if s = "-" then [] else List.map int_of_string (String.split_on_char ',' s)

let rec take n l = if n <= 0 then [] else match l with [] -> [] | x :: r -> x :: take (n - 1) r
let rec drop n l = if n <= 0 then l else match l with [] -> [] | _ :: r -> drop (n - 1) r
let rec split_chunks (l : 'a list) (sz : int list) : 'a list list =
  match sz with [] -> [] | n :: r -> take n l :: split_chunks (drop n l) r

let hex = hex_of_bytes
let unhex = bytes_of_hex

let agree (spec : Model.n list) (stream : Model.n list) : string =
  if spec = stream then hex spec else "MODEL-INCONSISTENT spec=" ^ hex spec ^ " stream=" ^ hex stream

(* the one-shot specification value is computed once per (primitive, message) *)
let cache : (string, Model.n list) Hashtbl.t = Hashtbl.create 1000
let memo key f = match Hashtbl.find_opt cache key with
  | Some v -> v
  | None -> let v = f () in Hashtbl.replace cache key v; v

(* every [stream_every]-th case of a primitive (and every short one) also runs the model of the C++ object *)
let counter = ref 0
let also_stream len = incr counter; len <= 130 || !counter mod 4 = 0

let md name spec stream m ch =
  let msg = unhex m in
  let s = memo (name ^ m) (fun () -> spec msg) in
  if also_stream (List.length msg) then agree s (stream (split_chunks msg (sizes ch))) else hex s

let z64 = Model.zeros (nat_of_int 64)
let z128 = Model.zeros (nat_of_int 128)


let z16 = Model.zeros (nat_of_int 16)
let two32 = Z.shift_left Z.one 32

(* "c5,k3,c64" over the data string: Crypt of the next n data bytes / Keystream of n bytes *)
let parse_ops (data : Model.n list) (spec : string) : Model.cc_op list =
  let rec go data = function
    | [] -> []
    | t :: r ->
      let n = int_of_string (String.sub t 1 (String.length t - 1)) in
      if t.[0] = 'c' then Model.OpCrypt (take n data) :: go (drop n data) r
      else Model.OpKeystream (nat_of_int n) :: go data r
  in if spec = "-" then [] else go data (String.split_on_char ',' spec)

let only_crypt spec = spec <> "-" && List.for_all (fun t -> t.[0] = 'c') (String.split_on_char ',' spec)

let flip_bit (l : Model.n list) (bit : int) : Model.n list =
  List.mapi (fun i b -> if i = bit / 8 then n_of_int ((int_of_n b) lxor (1 lsl (bit mod 8))) else b) l

let dec_result = function
  | None -> "fail"
  | Some (p1, p2) -> "ok " ^ hex p1 ^ " " ^ hex p2
(* ---- snippet ---- *)
let agree_z (spec : Model.z) (stream : Model.z) : string =
  if spec = stream then string_of_z spec
  else "MODEL-INCONSISTENT spec=" ^ string_of_z spec ^ " stream=" ^ string_of_z stream
let agree_b = agree
let le64 (bytes : Model.n list) : Model.z =
  z_of_zt (List.fold_right (fun b acc -> Z.add (zt_of_n b) (Z.shift_left acc 8)) bytes Z.zero)
let rec groups8 l = match l with [] -> [] | _ -> take 8 l :: groups8 (drop 8 l)
let z8 = Model.zeros (nat_of_int 8)

let sip_sha3_model (ws : string list) : string option = match ws with
  | ["siphash"; k0; k1; m; ch] ->
    let k0 = z_of_string k0 and k1 = z_of_string k1 and msg = unhex m in
    Some (agree_z (Model.siphash24_spec k0 k1 msg) (Model.csiphasher_stream k0 k1 (split_chunks msg (sizes ch))))
  | ["siphash_w64"; k0; k1; m] ->
    let k0 = z_of_string k0 and k1 = z_of_string k1 and msg = unhex m in
    let ops = List.map (fun g -> Model.SipU64 (le64 g)) (groups8 msg) in
    (match Model.csiphasher_run k0 k1 ops with
     | Some r -> Some (agree_z (Model.siphash24_spec k0 k1 msg) r)
     | None -> Some "ASSERT")
  | ["siphash_u256"; k0; k1; v] ->
    let k0 = z_of_string k0 and k1 = z_of_string k1 and v = unhex v in
    Some (agree_z (Model.siphash24_spec k0 k1 v) (Model.presalted_siphash_u256 k0 k1 v))
  | ["siphash_u256x"; k0; k1; v; x] ->
    let k0 = z_of_string k0 and k1 = z_of_string k1 and v = unhex v and x = z_of_string x in
    let xb = List.init 4 (fun i -> n_of_zt (Z.logand (Z.shift_right (zt_of_z x) (8 * i)) (Z.of_int 255))) in
    Some (agree_z (Model.siphash24_spec k0 k1 (v @ xb)) (Model.presalted_siphash_u256_extra k0 k1 v x))
  | ["siphash13uj"; k0; k1; bl] ->
    let k0 = z_of_string k0 and k1 = z_of_string k1 in
    let blocks = if bl = "-" then [] else
      List.map (fun b -> let bytes = unhex b in
                 if List.length bytes = 8 then Model.UJNormal (le64 bytes) else Model.UJJumbo bytes)
               (String.split_on_char ',' bl) in
    Some (agree_z (Model.siphash13uj_spec k0 k1 blocks) (Model.uj_stream k0 k1 blocks))
  | ["sha3"; m; ch] ->
    let msg = unhex m in
    Some (agree_b (Model.sha3_256_spec msg) (Model.sha3_stream z8 (split_chunks msg (sizes ch))))
  | ["keccakf"; st] ->
    let lanes = List.map le64 (groups8 (unhex st)) in
    let out l = List.concat_map (fun v -> List.init 8 (fun i -> n_of_zt (Z.logand (Z.shift_right (zt_of_z v) (8 * i)) (Z.of_int 255)))) l in
    Some (agree_b (out (Model.keccak_f lanes)) (out (Model.keccakf_cpp lanes)))
  | _ -> None


(* ---- AES (model/CryptoAES.v) ---- *)
let aes_model (ws : string list) : string option = match ws with
  | ["aes256_enc"; k; b] -> Some (hex (Model.aes256_encrypt_block_spec (unhex k) (unhex b)))
  | ["aes256_dec"; k; b] -> Some (hex (Model.aes256_decrypt_block_spec (unhex k) (unhex b)))
  | ["aes256cbc_enc"; k; iv; d; pad] ->
    let key = unhex k and iv = unhex iv and data = unhex d and pad = (pad = "1") in
    let m = Model.cbc_encrypt key iv data pad in
    let n = List.length data in
    (* where SP 800-38A / RFC 5652 prescribe the output, the model must also agree with the specification
       (theorems cbc_encrypt_is_sp80038a / cbc_encrypt_nopad_is_sp80038a) *)
    if pad && n > 0 then Some (agree (Model.cbc_encrypt_spec key iv (Model.pkcs7_pad data)) m)
    else if (not pad) && n mod 16 = 0 then Some (agree (Model.cbc_encrypt_spec key iv data) m)
    else Some (hex m)
  | ["aes256cbc_dec"; k; iv; d; pad] ->
    let key = unhex k and iv = unhex iv and data = unhex d and pad = (pad = "1") in
    let m = Model.cbc_decrypt key iv data pad in
    let n = List.length data in
    if n mod 16 <> 0 then Some (hex m)
    else
      let plain = Model.cbc_decrypt_spec key iv data in
      if not pad then Some (agree plain m)
      else Some (agree (match Model.pkcs7_unpad plain with Some d -> d | None -> []) m)
  | _ -> None

(* ---- composite hashers, SHA256D64 dispatch, limb-level Poly1305 ---- *)
let wrap_model (ws : string list) : string option = match ws with
  | ["hash256"; m; ch] -> let msg = unhex m in
    Some (agree (Model.hash256_spec msg) (Model.chash256_stream z64 z64 (split_chunks msg (sizes ch))))
  | ["hash160"; m; ch] -> let msg = unhex m in
    Some (agree (Model.hash160_spec msg) (Model.chash160_stream z64 z64 (split_chunks msg (sizes ch))))
  | ["taggedhash"; t; m; ch] -> let tag = unhex t and msg = unhex m in
    Some (agree (Model.tagged_hash_spec tag msg) (Model.tagged_hash_stream z64 tag (split_chunks msg (sizes ch))))
  | ["bip32hash"; cc; n; h; d] ->
    let cc = unhex cc and d = unhex d and hb = n_of_int (int_of_string h) and n = z_of_string n in
    Some (agree (Model.bip32_hash_spec cc n hb d) (Model.bip32_hash_model z128 cc n hb d))
  | ["murmur3"; seed; d] -> Some (string_of_z (Model.murmurhash3 (z_of_string seed) (unhex d)))
  | ["aes256cbc_pt"; k; iv; p; pad] ->
    (* CBC-encrypt the given plaintext blocks without padding, then decrypt with the given padding flag *)
    let key = unhex k and iv = unhex iv and plain = unhex p and pad = (pad = "1") in
    let ct = Model.cbc_encrypt key iv plain false in
    let out = Model.cbc_decrypt key iv ct pad in
    let spec = if not pad then plain else (match Model.pkcs7_unpad plain with Some d -> d | None -> []) in
    Some (hex ct ^ " " ^ (if List.length plain mod 16 = 0 then agree spec out else hex out))
  | _ -> None

let model _ l = match words l with
  | ["sha256"; m; ch] -> md "sha256" Model.sha256_spec Model.csha256_stream m ch
  | ["sha1"; m; ch] -> md "sha1" Model.sha1_spec Model.csha1_stream m ch
  | ["sha512"; m; ch] -> md "sha512" Model.sha512_spec Model.csha512_stream m ch
  | ["ripemd160"; m; ch] -> md "ripemd160" Model.ripemd160_spec Model.cripemd160_stream m ch
  | ["sha256d64"; m] ->
    let inp = unhex m in
    let nb = nat_of_int (List.length inp / 64) in
    let spec = Model.sha256d64_spec nb inp in
    let ok = List.for_all (fun (a, b, c) -> Model.sha256d64_dispatch a b c nb inp = spec)
        [(true, true, true); (false, true, false); (false, false, true); (false, false, false)] in
    if ok then hex spec else "MODEL-INCONSISTENT sha256d64 dispatch"
  | ["hmac256"; k; m; ch] ->
    let key = unhex k and msg = unhex m in
    let s = memo ("hmac256" ^ k ^ "|" ^ m) (fun () -> Model.hmac_sha256_spec key msg) in
    if also_stream (List.length msg) then agree s (Model.chmac_sha256_stream z64 key (split_chunks msg (sizes ch))) else hex s
  | ["hmac512"; k; m; ch] ->
    let key = unhex k and msg = unhex m in
    let s = memo ("hmac512" ^ k ^ "|" ^ m) (fun () -> Model.hmac_sha512_spec key msg) in
    if also_stream (List.length msg) then agree s (Model.chmac_sha512_stream z128 key (split_chunks msg (sizes ch))) else hex s
  | ["hkdf"; ikm; salt; info] ->
    let ikm = unhex ikm and salt = unhex salt and info = unhex info in
    agree (Model.hkdf_sha256_spec salt ikm info (nat_of_int 32)) (Model.chkdf_sha256_l32 z64 ikm salt info)
  | ["chacha20"; k; nf; ns; ctr; d; ops] ->
    let key = unhex k and data = unhex d in
    let c = Model.chacha20_seek (Model.chacha20_new z64 key) (z_of_string nf) (z_of_string ns) (z_of_string ctr) in
    let (outs, _) = Model.cc_run_ops c (parse_ops data ops) in
    let res = List.concat outs in
    (* when only Crypt calls are made and the 32-bit counter cannot wrap, RFC 8439 prescribes the result *)
    let blocks = (List.length data + 63) / 64 in
    if only_crypt ops && Z.leq (Z.add (Z.of_string ctr) (Z.of_int blocks)) two32 then
      agree (Model.chacha20_encrypt key (z_of_string ctr) (Model.bip324_nonce (z_of_string nf) (z_of_string ns)) data) res
    else hex res
  | ["fschacha"; k; interval; chunks] ->
    let key = unhex k in
    let cs = List.map unhex (String.split_on_char ',' chunks) in
    let (outs, _) = Model.fschacha20_crypt_seq (Model.fschacha20_new z64 key (z_of_string interval)) cs in
    String.concat "," (List.map hex outs)
  | ["poly1305"; k; m; ch] ->
    let key = unhex k and msg = unhex m in
    let r = agree (Model.poly1305_spec key msg) (Model.poly1305_stream z16 key (split_chunks msg (sizes ch))) in
    let limb = Model.donna_stream z16 key (split_chunks msg (sizes ch)) in
    if hex limb = r then r else "MODEL-INCONSISTENT limbs=" ^ hex limb ^ " spec=" ^ r
  | ["aead_enc"; k; nf; ns; aad; pl; len1] ->
    let key = unhex k and aad = unhex aad and pl = unhex pl and l1 = int_of_string len1 in
    let spec = Model.aead_encrypt_spec key (Model.bip324_nonce (z_of_string nf) (z_of_string ns)) aad pl in
    let (out, _) = Model.aead_encrypt z16 (Model.chacha20_new z64 key) (take l1 pl) (drop l1 pl) aad (z_of_string nf) (z_of_string ns) in
    agree spec out
  | ["aead_dec"; k; nf; ns; aad; ci; len1] ->
    let key = unhex k and aad = unhex aad and ci = unhex ci and l1 = int_of_string len1 in
    let spec = (match Model.aead_decrypt_spec key (Model.bip324_nonce (z_of_string nf) (z_of_string ns)) aad ci with
        | None -> None | Some pt -> Some (take l1 pt, drop l1 pt)) in
    let (res, _) = Model.aead_decrypt z16 (Model.chacha20_new z64 key) ci aad (z_of_string nf) (z_of_string ns) (nat_of_int l1) in
    if dec_result spec = dec_result res then dec_result spec
    else "MODEL-INCONSISTENT spec=" ^ dec_result spec ^ " model=" ^ dec_result res
  | ["aead_tamper"; k; nf; ns; aad; pl; len1; what; bit] ->
    (* encrypt, flip one bit of the ciphertext body / tag / aad (or nothing), decrypt on a fresh object *)
    let key = unhex k and aad = unhex aad and pl = unhex pl and l1 = int_of_string len1 and bit = int_of_string bit in
    let nonce = Model.bip324_nonce (z_of_string nf) (z_of_string ns) in
    let out = Model.aead_encrypt_spec key nonce aad pl in
    let n = List.length pl in
    let (out', aad') = (match what with
        | "ct" -> (flip_bit out bit, aad)
        | "tag" -> (flip_bit out (8 * n + bit), aad)
        | "aad" -> (out, flip_bit aad bit)
        | _ -> (out, aad)) in
    let spec = (match Model.aead_decrypt_spec key nonce aad' out' with
        | None -> None | Some pt -> Some (take l1 pt, drop l1 pt)) in
    let (res, _) = Model.aead_decrypt z16 (Model.chacha20_new z64 key) out' aad' (z_of_string nf) (z_of_string ns) (nat_of_int l1) in
    if dec_result spec = dec_result res then dec_result spec
    else "MODEL-INCONSISTENT spec=" ^ dec_result spec ^ " model=" ^ dec_result res
  | ["fsaead"; k; interval; pkts] ->
    (* packets "plainhex:aadhex,..." encrypted in sequence by one FSChaCha20Poly1305; then decrypted by a second one *)
    let key = unhex k and iv = int_of_string interval in
    let ps = List.map (fun t -> match String.split_on_char ':' t with
        | [p; a] -> (unhex p, unhex a) | _ -> failwith "packet") (String.split_on_char ',' pkts) in
    let (outs, _) = Model.fsaead_encrypt_seq z16 (Model.fsaead_new z64 key (z_of_int iv)) ps in
    let specs = List.mapi (fun i (p, a) -> Model.bip324_packet_spec key (nat_of_int iv) (nat_of_int i) a p) ps in
    if List.map hex outs <> List.map hex specs then "MODEL-INCONSISTENT fsaead"
    else begin
      (* decrypt side *)
      let f = ref (Model.fsaead_new z64 key (z_of_int iv)) in
      let ok = List.for_all2 (fun o (p, a) ->
          let (res, f') = Model.fsaead_decrypt z16 !f o a (nat_of_int (List.length p)) in
          f := f'; (match res with Some (p1, p2) -> p1 = p && p2 = [] | None -> false)) outs ps in
      String.concat "," (List.map hex outs) ^ (if ok then " dec=ok" else " dec=FAIL")
    end
  | ws -> (match sip_sha3_model ws with Some r -> r | None ->
           (match aes_model ws with Some r -> r | None ->
              (match wrap_model ws with Some r -> r | None -> "BADCASE")))

let holds _ _ _ = "na"
let () = main_loop ~model ~holds
