(* Model side of the Crypto family (C49): computes, with the extracted Coq definitions, the value
   the standard prescribes for each case line (and, for short inputs, also runs the extracted model
   of the C++ streaming object on the same fragmentation and insists that both agree). *)
open Conv

(* "3,0,61" -> [3;0;61];  "-" -> [] (no call at all) *)
let sizes (s : string) : int list =
  if s = "-" then [] else List.map int_of_string (String.split_on_char ',' s)

let rec take n l = if n <= 0 then [] else match l with [] -> [] | x :: r -> x :: take (n - 1) r
let rec drop n l = if n <= 0 then l else match l with [] -> [] | _ :: r -> drop (n - 1) r
let rec split_chunks (l : 'a list) (sz : int list) : 'a list list =
  match sz with [] -> [] | n :: r -> take n l :: split_chunks (drop n l) r

let hex = hex_of_bytes
let unhex = bytes_of_hex

let agree (spec : Model.n list) (stream : Model.n list) : string =
  if spec = stream then hex spec else "MODEL-INCONSISTENT spec=" ^ hex spec ^ " stream=" ^ hex stream

(* the one-shot specification value is computed once per (primitive, message) *)
let cache : (string, Model.n list) Hashtbl.t = Hashtbl.create 1000
let memo key f = match Hashtbl.find_opt cache key with
  | Some v -> v
  | None -> let v = f () in Hashtbl.replace cache key v; v

(* every [stream_every]-th case of a primitive (and every short one) also runs the model of the C++ object *)
let counter = ref 0
let also_stream len = incr counter; len <= 130 || !counter mod 4 = 0

let md name spec stream m ch =
  let msg = unhex m in
  let s = memo (name ^ m) (fun () -> spec msg) in
  if also_stream (List.length msg) then agree s (stream (split_chunks msg (sizes ch))) else hex s

let z64 = Model.zeros (nat_of_int 64)
let z128 = Model.zeros (nat_of_int 128)

let model _ l = match words l with
  | ["sha256"; m; ch] -> md "sha256" Model.sha256_spec Model.csha256_stream m ch
  | ["sha1"; m; ch] -> md "sha1" Model.sha1_spec Model.csha1_stream m ch
  | ["sha512"; m; ch] -> md "sha512" Model.sha512_spec Model.csha512_stream m ch
  | ["ripemd160"; m; ch] -> md "ripemd160" Model.ripemd160_spec Model.cripemd160_stream m ch
  | ["sha256d64"; m] ->
    let inp = unhex m in
    hex (Model.sha256d64_spec (nat_of_int (List.length inp / 64)) inp)
  | ["hmac256"; k; m; ch] ->
    let key = unhex k and msg = unhex m in
    let s = memo ("hmac256" ^ k ^ "|" ^ m) (fun () -> Model.hmac_sha256_spec key msg) in
    if also_stream (List.length msg) then agree s (Model.chmac_sha256_stream z64 key (split_chunks msg (sizes ch))) else hex s
  | ["hmac512"; k; m; ch] ->
    let key = unhex k and msg = unhex m in
    let s = memo ("hmac512" ^ k ^ "|" ^ m) (fun () -> Model.hmac_sha512_spec key msg) in
    if also_stream (List.length msg) then agree s (Model.chmac_sha512_stream z128 key (split_chunks msg (sizes ch))) else hex s
  | ["hkdf"; ikm; salt; info] ->
    let ikm = unhex ikm and salt = unhex salt and info = unhex info in
    agree (Model.hkdf_sha256_spec salt ikm info (nat_of_int 32)) (Model.chkdf_sha256_l32 z64 ikm salt info)
  | _ -> "BADCASE"

let holds _ _ _ = "na"
let () = main_loop ~model ~holds
