(* Model side of the coin selection check (C40).
   case:  <algo> <sffo> <target> <cost_of_change> <change_target> <change_fee> <min_viable_change>
          <max_weight> <bump_discount> <feerate> <long_term_feerate> <rng seed> <group>*
   group: value:input_bytes:bump_fee[,value:input_bytes:bump_fee]*
   output (both sides):  P <value,eff,fee,ltfee,weight>* R ok <g.k,...> <value> <eff> <weight> <waste> <done> <tries>
                         P ... R none <w|p>
   For the randomised algorithms (srd, knap) the model prints `R *` (any result; judged by `holds`). *)
open Conv

type case = { algo : Model.algo; algo_s : string; prm : Model.sparams; pool : Model.group list; ncoins : int list }

let split c s = String.split_on_char c s

let parse l =
  match words l with
  | a :: sffo :: target :: coc :: ct :: cfee :: mvc :: maxw :: disc :: rate :: ltrate :: _seed :: groups ->
    let algo = (match a with "bnb" -> Model.ABnB | "cg" -> Model.ACG | "srd" -> Model.ASRD | "knap" -> Model.AKnap
                             | _ -> failwith "algo") in
    let rate = z_of_string rate and ltrate = z_of_string ltrate in
    let coins g = List.map (fun c -> match split ':' c with
        | [v; b; bump] -> { Model.co_value = z_of_string v; Model.co_bytes = z_of_string b; Model.co_bump = z_of_string bump }
        | _ -> failwith "coin") (split ',' g) in
    let cl = List.map coins groups in
    { algo; algo_s = a;
      prm = { Model.p_sffo = (sffo = "1"); Model.p_target = z_of_string target; Model.p_coc = z_of_string coc;
              Model.p_change_target = z_of_string ct; Model.p_change_fee = z_of_string cfee;
              Model.p_min_viable = z_of_string mvc; Model.p_maxw = z_of_string maxw; Model.p_disc = z_of_string disc };
      pool = List.map (Model.group_of rate ltrate) cl;
      ncoins = List.map List.length cl }
  | _ -> failwith "bad case"

let pool_txt c =
  "P" ^ String.concat "" (List.map (fun g ->
      Printf.sprintf " %s,%s,%s,%s,%s" (string_of_z g.Model.g_value) (string_of_z g.Model.g_eff) (string_of_z g.Model.g_fee)
        (string_of_z g.Model.g_ltf) (string_of_z g.Model.g_weight)) c.pool)

(* all coins of the groups at the given positions, as the C++ driver prints them *)
let ids_of c (gs : int list) =
  let s = String.concat "," (List.concat_map (fun g ->
      List.init (List.nth c.ncoins g) (fun k -> Printf.sprintf "%d.%d" g k)) gs) in
  if s = "" then "-" else s

let show_result c (r : Model.sresult) tries =
  Printf.sprintf "ok %s %s %s %s %s %s %s" (ids_of c (List.map int_of_nat r.Model.r_sel))
    (string_of_z r.Model.r_value) (string_of_z r.Model.r_eff) (string_of_z r.Model.r_weight) (string_of_z r.Model.r_waste)
    (string_of_bool01 r.Model.r_done) tries

let model _ l =
  let c = parse l in
  let res =
    match c.algo with
    | Model.ABnB ->
      (match Model.select_coins_bnb c.prm.Model.p_sffo c.pool c.prm.Model.p_target c.prm.Model.p_coc c.prm.Model.p_maxw with
       | (Model.BnbSome (_, _, _, completed, tries), orig) ->
         (match Model.result_of c.prm c.pool (Model.sort_nat orig) completed with
          | Some r -> show_result c r (string_of_z tries)
          | None -> "MODELERR")
       | (Model.BnbNone w, _) -> "none " ^ (if w then "w" else "p")
       | (Model.BnbErr, _) -> "UB")
    | Model.ACG ->
      (match Model.coin_grinder c.prm.Model.p_sffo c.pool c.prm.Model.p_target c.prm.Model.p_change_target c.prm.Model.p_maxw with
       | (Model.BnbSome (_, _, _, completed, tries), orig) ->
         (match Model.result_of c.prm c.pool (Model.sort_nat orig) completed with
          | Some r -> show_result c r (string_of_z tries)
          | None -> "MODELERR")
       | (Model.BnbNone w, _) -> "none " ^ (if w then "w" else "p")
       | (Model.BnbErr, _) -> "UB")
    | _ -> "*" in
  pool_txt c ^ " R " ^ res

(* the number of groups up to which the brute-force reference is evaluated *)
let brute_limit = 13

let holds _ cl impl =
  let c = parse cl in
  let marker = " R " in
  let i = (try Str.search_forward (Str.regexp_string marker) impl 0 with Not_found -> -1) in
  if i < 0 then "fail malformed output: " ^ impl else
  let p = String.sub impl 0 i and r = String.sub impl (i + 3) (String.length impl - i - 3) in
  if p <> pool_txt c then "fail OutputGroup totals differ from value/fee/long-term fee/weight sums: model " ^ pool_txt c else
  let noffered = List.length (Model.offered_groups c.algo c.prm.Model.p_sffo c.pool) in
  match words r with
  | ["none"; _] ->
    if noffered > brute_limit && (c.algo = Model.ABnB || c.algo = Model.ACG) then "na"
    else if Model.none_check c.algo c.prm c.pool then "ok"
    else "ok note: no selection returned although an admissible subset of the offered pool exists (not a clause of C40's statement)"
  | ["ok"; ids; value; eff; weight; waste; don; _tries] ->
    if waste = "UNDER" then "fail selected amount is below the target" else
    (* distinct group numbers, in the order printed (sorted); the coin list must be exactly all coins of these groups *)
    let gs = if ids = "-" then [] else
        List.fold_left (fun acc id -> let g = int_of_string (List.hd (split '.' id)) in
                         match acc with h :: _ when h = g -> acc | _ -> g :: acc) [] (split ',' ids) |> List.rev in
    if ids_of c gs <> ids then "fail selected coins are not whole groups of the pool, each once: " ^ ids else
    let res = { Model.r_sel = List.map nat_of_int gs; Model.r_value = z_of_string value; Model.r_eff = z_of_string eff;
                Model.r_weight = z_of_string weight; Model.r_waste = z_of_string waste; Model.r_done = (don = "1") } in
    if not (Model.valid_selection c.algo c.prm c.pool res) then
      "fail selection is not a valid, sufficient subset within the weight limit with the stated totals/waste"
    else if don = "1" && noffered <= brute_limit && not (Model.optimal_check c.algo c.prm c.pool res) then
      (* two classes in which the UNCHANGED tree is known to deviate (known_findings.json) are told apart *)
      let og = Model.offered_groups c.algo c.prm.Model.p_sffo c.pool in
      let high g = Model.Z.ltb g.Model.g_ltf g.Model.g_fee in
      let maxeff = List.fold_left (fun m g -> if Model.Z.ltb m g.Model.g_eff then g.Model.g_eff else m) (z_of_int (-1)) og in
      let tops = List.filter (fun g -> Model.Z.eqb g.Model.g_eff maxeff) og in
      let mixed = List.exists (fun g0 -> List.exists (fun g -> high g <> high g0) og) tops in
      let rec ties = function [] -> false | g :: r -> List.exists (fun h -> Model.Z.eqb h.Model.g_eff g.Model.g_eff) r || ties r in
      if c.algo = Model.ABnB && mixed then
        "fail bnb-feerate-high-from-largest-utxo: complete search reported but a subset with a strictly better waste exists (waste pruning keyed on utxo_pool[0] only)"
      else if c.algo = Model.ABnB && ties og
              && Model.Z.ltb c.prm.Model.p_maxw (List.fold_left (fun a g -> Model.Z.add a g.Model.g_weight) Model.Z0 og) then
        (* only when the weight limit can bind at all: with an unconstraining limit a tie-related
           optimality failure is NOT the recorded finding and stays a plain failure *)
        "fail bnb-clone-skip-ignores-weight: complete search reported but a subset with a strictly better waste exists (a clone tied on effective value was skipped although only it fits the weight limit)"
      else "fail complete search reported but a subset with a strictly better objective exists"
    else "ok"
  | _ -> "fail malformed result: " ^ r

let () = main_loop ~model ~holds
