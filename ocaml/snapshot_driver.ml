(* Model side of C20 (UTXO snapshot activation): extracted Snapshot.read_meta / activate (SHA256d, secp256k1 decompression).
   act <flags> <mutations> => file=<hex> env=<has_snapshot>,<mempool>,<found>,<height>,<failed>,<onbest>,<morework> table=<h>:<blockhash>:<hash>;.. netmagic=<hex> ...
   The part after " => " is what the implementation printed (props/C20.py hands it over): the mutated file bytes and the
   facts of the node the decision consults.  The model decodes the file itself and predicts
        res=<class> [tip=<base> utxo=<ncoins>:<hash>] *)
open Conv
module M = Model

let field impl name =
  let key = name ^ "=" in
  match List.filter (fun w -> String.length w >= String.length key && String.sub w 0 (String.length key) = key) (words impl) with
  | w :: _ -> String.sub w (String.length key) (String.length w - String.length key)
  | [] -> failwith ("missing field " ^ name)

let perr_s = function
  | M.PNoHeader -> "p-noheader" | M.PHeight -> "p-height" | M.PWork -> "p-work" | M.PCount -> "p-count"
  | M.PCoin k -> "p-coin:" ^ string_of_z k | M.PValue k -> "p-value:" ^ string_of_z k | M.PTrunc k -> "p-trunc:" ^ string_of_z k
  | M.PLeftOver -> "p-leftover" | M.PHash -> "p-hash"
let aerr_s = function
  | M.ATwice -> "twice" | M.AUnknownBase -> "unknownbase" | M.ANoHeader -> "noheader" | M.AInvalidChain -> "invalidchain"
  | M.AForked -> "forked" | M.AMempool -> "mempool" | M.APopulate e -> perr_s e | M.AWork -> "work"

let model_bg impl =
  let table = List.map (fun e -> match String.split_on_char ':' e with
      | [h; bh; hs] -> { M.au_height = z_of_string h; M.au_blockhash = bytes_of_hex bh; M.au_hash = bytes_of_hex hs }
      | _ -> failwith "table") (String.split_on_char ';' (field impl "table")) in
  let set = (match field impl "set" with "-" -> [] | s ->
      List.map (fun e -> match String.split_on_char ':' e with
          | [txid; n; h; cb; v; sc] ->
            { M.u_txid = bytes_of_hex txid; M.u_n = z_of_string n;
              M.u_coin = { M.c_height = z_of_string h; M.c_coinbase = (cb = "1"); M.c_value = z_of_string v; M.c_script = bytes_of_hex sc } }
          | _ -> failwith "coin") (String.split_on_char ';' s)) in
  match M.run_maybe_validate table (field impl "ready" = "1") (z_of_string (field impl "height")) set with
  | M.CSkipped -> "bgres=SKIPPED" | M.CMissingParams -> "bgres=MISSING_CHAINPARAMS"
  | M.CHashMismatch -> "bgres=HASH_MISMATCH" | M.CSuccess -> "bgres=SUCCESS"

let model _ l =
  let (c, impl) = split_arrow l in
  if String.length c >= 2 && String.sub c 0 2 = "bg" then model_bg impl else
  let file = bytes_of_hex (field impl "file") in
  let netmagic = bytes_of_hex (field impl "netmagic") in
  match M.read_meta netmagic file with
  | M.MErr M.MMagic -> "res=meta-magic state=unchanged"
  | M.MErr M.MVersion -> "res=meta-version state=unchanged"
  | M.MErr M.MNetwork -> "res=meta-network state=unchanged"
  | M.MErr M.MEof -> "res=meta-eof state=unchanged"
  | M.MOk (meta, stream) ->
    let env = (match String.split_on_char ',' (field impl "env") with
        | [hs; mp; found; h; failed; onbest; more] ->
          let info = if found = "1" then Some { M.b_height = z_of_string h; M.b_failed = (failed = "1"); M.b_on_best = (onbest = "1"); M.b_more_work = (more = "1") } else None in
          let table = List.map (fun e -> match String.split_on_char ':' e with
              | [h; bh; hs] -> { M.au_height = z_of_string h; M.au_blockhash = bytes_of_hex bh; M.au_hash = bytes_of_hex hs }
              | _ -> failwith "table") (String.split_on_char ';' (field impl "table")) in
          { M.e_has_snapshot = (hs = "1"); M.e_mempool_size = z_of_string mp; M.e_table = table;
            (* the driver reports the block index entry of the base hash of THIS metadata *)
            M.e_lookup = (fun h -> if M.bytes_eq h meta.M.sm_base then info else None) }
        | _ -> failwith "env") in
    (match M.run_activate env meta stream with
     | M.AErr e -> "res=" ^ aerr_s e ^ " state=unchanged"
     | M.AOk (base, utxo) ->
       "res=ok tip=" ^ hex_of_bytes base ^ " utxo=" ^ string_of_int (List.length utxo) ^ ":" ^ hex_of_bytes (M.run_utxo_hash utxo) ^ " ibdstate=unchanged")

let holds _ _ _ = "ok"
let () = main_loop ~model ~holds
