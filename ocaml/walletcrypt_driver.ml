(* Model side of C42 (wallet encryption).  Modes: ops | bytes  (see tie/drivers/walletcrypt_drv.cpp). *)
open Conv
let c = Model.ideal_cipher
let chk = Model.code_chk
let nat = nat_of_int
let secret_of id = List.init 32 (fun i -> n_of_int (if i = 0 then id land 255 else if i = 1 then id lsr 8 else (i * 7 + 3) land 255))
let pass_of h = bytes_of_hex h
let bits s = List.map (fun ch -> ch <> '0') (List.init (String.length s) (String.get s))
let split_snap tok =
  if tok.[0] = '@' then
    let i = String.index tok ':' in
    (Some (int_of_string (String.sub tok 1 (i - 1))), String.sub tok (i + 1) (String.length tok - i - 1))
  else (None, tok)
let all_ids = ref []
let mids = List.init 6 nat
let summary (st : Model.wst) : string =
  if st.Model.w_dead then "LOADFAIL" else
  let d = st.Model.w_db.Model.committed in
  let ids = List.map nat !all_ids in
  let np = int_of_nat (Model.count_recs d ids (fun i -> Model.KPlain i))
  and nc = int_of_nat (Model.count_recs d ids (fun i -> Model.KCrypt i))
  and nm = int_of_nat (Model.count_recs d mids (fun i -> Model.KMaster i)) in
  let f = if np = 0 && not st.Model.w_dirty then "0" else "+" in
  let can = int_of_nat (Model.can_sign c st) and tot = List.length st.Model.w_spk in
  let origs = List.filter (fun s -> int_of_nat s.Model.s_id < 8) st.Model.w_spk in
  let got = List.map (fun s -> (Model.get_key c st s, secret_of (int_of_nat s.Model.s_id))) origs in
  let any = List.exists (fun (g, _) -> g <> None) got and all = List.for_all (fun (g, _) -> g <> None) got in
  let differ = List.exists (fun (g, o) -> match g with Some x -> x <> o | None -> false) got in
  Printf.sprintf "[e%d l%d p%d/c%d/m%d f%s s%d/%d k%s]" (if Model.has_enc st then 1 else 0) (if Model.is_locked st then 1 else 0)
    np nc nm f can tot (if differ then "X" else if any && all then "1" else if any then "P" else "0")
let model_ops l = match words l with
  | "kp" :: _ :: toks ->
    all_ids := List.init 8 (fun i -> i);
    let next_new = ref 8 in
    let st = ref (Model.init c (List.init 8 (fun i -> (nat i, secret_of i)))) in
    let outs = ref [] and extra = ref [] in
    List.iter (fun tok ->
        let (sn, t) = split_snap tok in
        let f = String.split_on_char ':' t in
        let nth k = if List.length f > k then List.nth f k else "" in
        let before = !st in
        if before.Model.w_dead then outs := "DEAD" :: !outs else begin
          let reload_op () = Model.OReload (List.map nat !all_ids, mids) in
          let op = (match List.hd f with
              | "enc" ->
                let news = List.init 8 (fun i -> let id = !next_new + i in (nat id, secret_of id)) in
                all_ids := !all_ids @ List.init 8 (fun i -> !next_new + i);
                next_new := !next_new + 8;
                Some (Model.OEnc (pass_of (nth 1), secret_of 9999, List.init 8 (fun i -> n_of_int (i + 1)), news, bits (nth 2)))
              | "lock" -> Some Model.OLock
              | "unlock" -> Some (Model.OUnlock (pass_of (nth 1)))
              | "chpass" -> Some (Model.OChPass (pass_of (nth 1), pass_of (nth 2), bits (nth 3)))
              | "reload" | "crash" -> Some (reload_op ())
              | _ -> None) in
          match op with
          | None -> outs := "BADOP" :: !outs
          | Some o ->
            let (st1, x) = Model.step chk c before o in
            (* the process died (assert): the next start loads what is on disk *)
            let st1 = if x = Model.OutDied then Model.reload { st1 with Model.w_dead = false } (List.map nat !all_ids) mids else st1 in
            st := st1;
            let r = (match x with Model.OutB true -> "1" | Model.OutB false -> "0" | Model.OutDied -> "DIED" | Model.OutLoad -> "L" | Model.OutDead -> "DEAD") in
            outs := (if st1.Model.w_dead && x = Model.OutLoad then "LOADFAIL" else r ^ summary st1) :: !outs;
            (match sn with
             | None -> ()
             | Some j ->
               let obs s = summary (Model.reload s (List.map nat !all_ids) mids) in
               let s = (match o with
                   | Model.OEnc (pass, mk, salt, _, bts) ->
                     let n = List.length (List.filter (fun s -> s.Model.s_plain <> None) before.Model.w_spk) in
                     let c1 = 2 + 2 * n in
                     if Model.has_enc before then "-"
                     else if j <= c1 then obs before
                     else if j <= c1 + 66 then
                       (match Model.encrypt_phase1 chk c before pass mk salt bts with
                        | Model.Inr st2 -> obs st2
                        | Model.Inl _ -> "-")
                     else "-"
                   | Model.OChPass _ -> if j = 0 && Model.has_enc before then obs before else "-"
                   | _ -> "-") in
               extra := (" S{" ^ s ^ "}") :: !extra)
        end) toks;
    String.concat " " (List.rev !outs) ^ String.concat "" (List.rev !extra)
  | _ -> "BADCASE"
let hex_opt = function Some b -> hex_of_bytes b | None -> "F"
let model_bytes l = match words l with
  | ["kdf"; p; s; r] ->
    (match Model.set_key_from_passphrase (bytes_of_hex p) (bytes_of_hex s) (nat (int_of_string r)) with
     | Some (k, iv) -> hex_of_bytes k ^ hex_of_bytes iv | None -> "F")
  | ["encsecret"; mk; d; iv] -> hex_opt (Model.encrypt_secret (bytes_of_hex mk) (bytes_of_hex d) (bytes_of_hex iv))
  | ["decsecret"; mk; d; iv] -> hex_opt (Model.decrypt_secret (bytes_of_hex mk) (bytes_of_hex d) (bytes_of_hex iv))
  | ["rtsecret"; mk; d; iv] ->
    (match Model.encrypt_secret (bytes_of_hex mk) (bytes_of_hex d) (bytes_of_hex iv) with
     | None -> "F"
     | Some ct -> hex_of_bytes ct ^ "|" ^ hex_opt (Model.decrypt_secret (bytes_of_hex mk) ct (bytes_of_hex iv)))
  | _ -> "BADCASE"
let model args l = if args = ["bytes"] then model_bytes l else model_ops l

(* ---- the property's predicate on what the implementation printed ---- *)
let field (s : string) (tag : char) : string =
  (* value of the field starting with `tag` inside a [...] summary *)
  let ws = words (String.map (fun ch -> if ch = '[' || ch = ']' then ' ' else ch) s) in
  match List.filter (fun w -> w.[0] = tag) ws with w :: _ -> String.sub w 1 (String.length w - 1) | [] -> ""
let summaries tok = (* "1[e1 l1 ...]" -> (result, summary) *)
  match String.index_opt tok '[' with
  | Some i -> (String.sub tok 0 i, String.sub tok i (String.length tok - i))
  | None -> (tok, "")
let holds args case impl =
  if args = ["bytes"] then (if impl = model_bytes case then "ok" else "fail the crypter's bytes differ from the SHA-512 / AES-256-CBC model") else
  (* re-join the per-op tokens: a summary contains spaces *)
  let main = (match Str.bounded_split (Str.regexp " S{") impl 2 with m :: _ -> m | [] -> impl) in
  let ops = (match words case with _ :: _ :: r -> List.map (fun t -> snd (split_snap t)) r | _ -> []) in
  let toks = Str.split (Str.regexp "\\] ?") main in
  (* every op yields "<res>[<summary>" or a bare word (LOADFAIL / DEAD) possibly glued: split bare words off *)
  let items = List.concat_map (fun t ->
      match String.index_opt t '[' with
      | Some i ->
        let pre = String.trim (String.sub t 0 i) in
        let pres = words pre in
        let bare = (match List.rev pres with _ :: rest -> List.rev rest | [] -> []) in
        List.map (fun b -> (b, "")) bare @ [((match List.rev pres with r :: _ -> r | [] -> ""), String.sub t i (String.length t - i))]
      | None -> List.map (fun b -> (b, "")) (words t)) toks in
  if List.length items <> List.length ops then "fail malformed output" else
  let encrypted_ok = ref false in     (* an EncryptWallet call returned true earlier *)
  let prev_e = ref "0" in
  let verdict = ref "ok" in
  let fail s = if !verdict = "ok" then verdict := s in
  List.iter2 (fun op (r, s) ->
      let kind = List.hd (String.split_on_char ':' op) in
      let has_fault = (match String.split_on_char ':' op with
          | ["enc"; _; b] | ["chpass"; _; _; b] -> String.contains b '0' | _ -> false) in
      if r = "DIED" && (field s 'e' <> "0" || field s 'k' <> "1") then fail "fail EncryptWallet died and the wallet on disk is not the intact unencrypted wallet"
      else if r = "LOADFAIL" then fail ((if !encrypted_ok then "fail unchecked-key-erase: " else "fail ") ^ "the wallet does not load after a restart")
      else if s <> "" then begin
        let e = field s 'e' and l = field s 'l' and p = field s 'p' and f = field s 'f' and sg = field s 's' in
        let np = (match String.split_on_char '/' p with a :: _ -> a | [] -> "") in
        let nm = (match String.split_on_char '/' p with [_; _; m] -> (if String.length m > 0 then String.sub m 1 (String.length m - 1) else "") | _ -> "") in
        let can = (match String.split_on_char '/' sg with a :: _ -> a | [] -> "") in
        if kind = "enc" && r = "0" && !prev_e = "0" && e = "1" && nm <> "0" && nm <> "" then
          fail "fail encrypt-unlock: EncryptWallet committed the encryption but then could not unlock with the passphrase it was given (the keys do not decrypt: IV / key check mismatch)";
        prev_e := e;
        if kind = "enc" && r = "1" then encrypted_ok := true;
        if not !encrypted_ok && e = "1" && np <> "0" then
          fail "fail failed-begin-leaves-master-key: EncryptWallet returned false but the wallet claims to be encrypted and locked while all its keys are plaintext (mapMasterKeys keeps the new master key)";
        if !encrypted_ok then begin
          if nm = "0" then fail "fail unchecked-mkey-write: EncryptWallet returned true but the wallet has crypted keys and no master key record: the private keys are unrecoverable"
          else if np <> "0" then begin
            let nc = (match String.split_on_char '/' p with _ :: c :: _ -> String.sub c 1 (String.length c - 1) | _ -> "0") in
            let tot = (match String.split_on_char '/' sg with [_; t] -> t | _ -> "0") in
            if (try int_of_string np + int_of_string nc > int_of_string tot with _ -> false)
            then fail "fail unchecked-key-erase: EncryptWallet returned true but a descriptor has both a plaintext and a crypted key record (the erase of the plaintext record failed): plaintext on disk and the wallet will not load"
            else fail "fail unchecked-ckey-write: EncryptWallet returned true but a plaintext private key record is still in the database"
          end
          else if f <> "0" && (kind <> "enc" || r = "1") then fail "fail the wallet file of an encrypted wallet contains plaintext private key bytes"
          else if e = "1" && l = "1" && can <> "0" then fail "fail a locked wallet can produce a private key"
          else if e <> "1" then fail "fail the wallet is no longer encrypted"
        end;
        ignore has_fault
      end) ops items;
  (* passphrase change: after chpass returned 1, the new passphrase must unlock (also after a restart) *)
  let rec chk_pass ops items cur = match ops, items with
    | op :: orr, (r, _) :: ir ->
      let f = String.split_on_char ':' op in
      (match f with
       | "enc" :: p :: _ when r = "1" -> chk_pass orr ir (Some p)
       | "chpass" :: _ :: n :: _ when r = "1" -> chk_pass orr ir (Some n)
       | "unlock" :: p :: _ ->
         (match cur with
          | Some q when p = q && r <> "1" -> fail "fail unchecked-chpass-write: the current passphrase does not unlock the wallet"
          | _ -> ());
         chk_pass orr ir cur
       | _ -> chk_pass orr ir cur)
    | _ -> () in
  chk_pass ops items None;
  (* crash snapshots: loads, and is fully plain (original keys available) or fully encrypted *)
  List.iter (fun s ->
      let s = (match String.index_opt s '}' with Some i -> String.sub s 0 i | None -> s) in
      if s = "LOADFAIL" then fail "fail the wallet does not load after a crash during encryption"
      else if s <> "-" then begin
        let e = field s 'e' and p = field s 'p' in
        let np = (match String.split_on_char '/' p with a :: _ -> a | [] -> "") in
        let nc = (match String.split_on_char '/' p with _ :: c :: _ -> String.sub c 1 (String.length c - 1) | _ -> "") in
        if e = "1" && np <> "0" then fail "fail a crash during encryption left an encrypted wallet with plaintext key records"
        else if e = "0" && nc <> "0" then fail "fail a crash during encryption left an unencrypted wallet with crypted key records"
      end) (match Str.split (Str.regexp " S{") impl with _ :: r -> r | [] -> []);
  !verdict
let () = main_loop ~model ~holds
