(* Model side of the coin/UTXO encoding checks (C18): extracted Compress + SerBase + CompressEC. *)
open Conv
module M = Model

let fv = M.secp_fully_valid
let dec = M.secp_decompress

let err_s = function
  | M.EEof -> "EOF" | M.ETooLarge -> "LARGE" | M.ENonCanonical -> "NONCANON"
  | M.ESuperfluous -> "SUPERFLUOUS" | M.EUnknownOptional -> "UNKNOWNOPT" | M.EOther -> "OTHER"

let hexo = function Some b -> hex_of_bytes b | None -> "none"
let len l = string_of_int (List.length l)
let b01 b = if b then "1" else "0"

let coin_s (c : M.coin) =
  Printf.sprintf "%s %s %s %s" (string_of_z c.M.c_height) (b01 c.M.c_coinbase) (string_of_z c.M.c_value)
    (hex_of_bytes c.M.c_script)
let coin_of h cb v s =
  { M.c_height = z_of_string h; M.c_coinbase = (cb = "1"); M.c_value = z_of_string v; M.c_script = bytes_of_hex s }

let res_coin = function
  | M.Ok (c, rest) -> "ok " ^ coin_s c ^ " " ^ len rest
  | M.Err e -> "err " ^ err_s e
let res_z = function
  | M.Ok (v, rest) -> "ok " ^ string_of_z v ^ " " ^ len rest
  | M.Err e -> "err " ^ err_s e
let res_bytes = function
  | M.Ok (b, rest) -> "ok " ^ hex_of_bytes b ^ " " ^ len rest
  | M.Err e -> "err " ^ err_s e

let model _ l = match words l with
  | ["amt"; n] ->
    let c = M.compress_amount (z_of_string n) in
    string_of_z c ^ " " ^ string_of_z (M.decompress_amount c)
  | ["damt"; x] -> string_of_z (M.decompress_amount (z_of_string x))
  | ["special"; n] -> string_of_int (int_of_nat (M.special_script_size (z_of_string n)))
  | ["varint"; w; n] ->
    (match M.write_varint (z_of_string w) (z_of_string n) with
     | Some b -> hex_of_bytes b ^ " " ^ res_z (M.read_varint (z_of_string w) b)
     | None -> "overrun")
  | ["dvarint"; w; h] -> res_z (M.read_varint (z_of_string w) (bytes_of_hex h))
  | ["script"; h] ->
    (match M.ser_script fv (bytes_of_hex h) with
     | Some b -> hex_of_bytes b ^ " " ^ res_bytes (M.unser_script dec [] b)
     | None -> "overrun")
  | ["dscript"; prev; h] -> res_bytes (M.unser_script dec (bytes_of_hex prev) (bytes_of_hex h))
  | ["coin"; h; cb; v; s] ->
    (match M.ser_coin fv (coin_of h cb v s) with
     | Some b -> hex_of_bytes b ^ " " ^ res_coin (M.unser_coin dec [] b)
     | None -> "assert")
  | ["dcoin"; h] -> res_coin (M.unser_coin dec [] (bytes_of_hex h))
  | ["undo"; h; cb; v; s] ->
    (match M.ser_undo fv (coin_of h cb v s) with
     | Some b -> hex_of_bytes b ^ " " ^ res_coin (M.unser_undo dec [] b)
     | None -> "overrun")
  | ["dundo"; h] -> res_coin (M.unser_undo dec [] (bytes_of_hex h))
  | _ -> "BADCASE"

(* C18's own predicate, evaluated on what the implementation returned.
   amt:    DecompressAmount(CompressAmount(n)) = n                         (n within the proved range)
   script: the script read back equals the script written                  (length <= MAX_SCRIPT_SIZE)
   coin / undo: Coq's holds_coin_roundtrip (sound by holds_coin_roundtrip_sound): the reference
           decoder reads the written coin from the implementation's bytes, consuming all of them,
           and the implementation read back the written coin.
   decode-only cases (damt dvarint dscript dcoin dundo special varint): existing database bytes
           must be read as the reference format reads them, so a difference from the reference
           decoder is a failure. *)
let amount_rt_max = Z.of_string "2049638230412172402"
let max_script_size = 10000

let holds args c impl =
  if impl = "abort" then "fail the implementation aborted (assert) on this input" else
  let same () = if model args c = impl then "ok" else "fail differs from the reference format: expected " ^ model args c in
  match words c with
  | ["amt"; n] ->
    let nz = zt_of_string n in
    if Z.lt nz Z.zero || Z.gt nz amount_rt_max then "na"
    else (match words impl with
        | [_; d] -> if d = Z.to_string nz then "ok" else "fail amount does not round trip: got " ^ d
        | _ -> "fail malformed")
  | ["script"; h] ->
    let s = bytes_of_hex h in
    if List.length s > max_script_size then "na"
    else (match words impl with
        | [_; "ok"; back; "0"] -> if back = hex_of_bytes s then "ok" else "fail script read back differs"
        | _ -> "fail script not read back")
  | ["coin"; h; cb; v; s] | ["undo"; h; cb; v; s] ->
    let undo = (List.hd (words c) = "undo") in
    let cz = coin_of h cb v s in
    let vz = zt_of_string v in
    if Z.lt vz Z.zero || Z.gt vz amount_rt_max || List.length cz.M.c_script > max_script_size then "na"
    else (match words impl with
        | [enc; "ok"; h2; cb2; v2; s2; "0"] ->
          if M.holds_coin_roundtrip dec undo cz (bytes_of_hex enc) (coin_of h2 cb2 v2 s2) then "ok"
          else "fail coin does not round trip through the encoding"
        | _ -> "fail coin not read back")
  | ("damt" | "dvarint" | "dscript" | "dcoin" | "dundo" | "special" | "varint") :: _ -> same ()
  | _ -> "na"

let () = main_loop ~model ~holds
