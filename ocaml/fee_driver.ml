(* Model side of the Fee family (C30): FeeFrac arithmetic, comparisons, CompareChunks, CFeeRate::GetFee. *)
open Conv

let zs = z_of_string
let sz = string_of_z
let b01 = string_of_bool01
let cmp_s = function Model.Lt -> "lt" | Model.Eq -> "eq" | Model.Gt -> "gt"
let pord_s = function
  | Some Model.PLess -> "lt" | Some Model.PEquiv -> "eq" | Some Model.PGreater -> "gt"
  | Some Model.PUnordered -> "un" | None -> "nofuel"
let bool_of_tok t = (t = "1")

(* chunks <n0> {f s}*n0 <n1> {f s}*n1 *)
let parse_chunks ws =
  let rec take n l acc =
    if n = 0 then (List.rev acc, l)
    else match l with
      | f :: s :: r -> take (n - 1) r ((zs f, zs s) :: acc)
      | _ -> failwith "short chunk list"
  in
  match ws with
  | n0 :: r ->
    let (c0, r) = take (int_of_string n0) r [] in
    (match r with
     | n1 :: r -> let (c1, r) = take (int_of_string n1) r [] in
       if r <> [] then failwith "trailing tokens"; (c0, c1)
     | [] -> failwith "missing second list")
  | [] -> failwith "empty"

let model _ l = match words l with
  | ["mul"; a; b] ->
    let (hi, lo) = Model.mul_fallback (zs a) (zs b) in
    String.concat " " [sz hi; sz lo; sz (Model.mul_native (zs a) (zs b))]
  | ["div"; hi; lo; d; down] ->
    let rd = bool_of_tok down in
    let n = Model.Z.add (Model.Z.mul (zs hi) (zs "4294967296")) (zs lo) in
    String.concat " " [sz (Model.div_fallback (zs hi, zs lo) (zs d) rd); sz (Model.div_native n (zs d) rd)]
  | ["eval"; fee; size; at; down] ->
    let rd = bool_of_tok down in
    let (f, s, a) = (zs fee, zs size, zs at) in
    String.concat " " [sz (Model.evaluate_fee rd f s a);
                       sz (Model.div_native (Model.mul_native f a) s rd);
                       sz (Model.div_fallback (Model.mul_fallback f a) s rd)]
  | ["cmp"; f1; s1; f2; s2] ->
    let a = (zs f1, zs s1) and b = (zs f2, zs s2) in
    String.concat " " [cmp_s (Model.byratio_cmp a b); b01 (Model.byratio_eq a b); b01 (Model.byratio_lt a b);
                       b01 (Model.byratio_gt a b); b01 (Model.byratio_le a b); b01 (Model.byratio_ge a b);
                       cmp_s (Model.negsize_cmp a b); b01 (Model.negsize_eq a b);
                       cmp_s (Model.byratio_cmp_fallback a b)]
  | "chunks" :: r ->
    let (c0, c1) = parse_chunks r in pord_s (Model.compare_chunks c0 c1)
  | ["getfee"; fee; size; at] ->
    let fr = Model.cfeerate_make (zs fee) (zs size) in
    let perk = if Model.Z.eqb (snd fr) Model.Z0 then "empty" else sz (Model.get_fee_per_k fr) in
    String.concat " " [sz (Model.get_fee fr (zs at)); perk]
  | _ -> "BADCASE"

(* the property's own predicate, evaluated on what the implementation returned; every clause is the
   exact-arithmetic statement (a*b, floor/ceil of the exact quotient, comparison of the exact cross
   products), not the limb-level model *)
let holds _ c impl =
  let iw = words impl in
  match words c, iw with
  | ["mul"; a; b], [hi; lo; nat] ->
    if Model.holds_mul (zs a) (zs b) (zs hi) (zs lo) (zs nat) then "ok"
    else "fail MulFallback/Mul result is not the exact product a*b"
  | ["div"; hi; lo; d; down], [fb; nat] ->
    if Model.holds_div (zs hi) (zs lo) (zs d) (bool_of_tok down) (zs fb) (zs nat) then "ok"
    else "fail DivFallback/Div is not the exact " ^ (if bool_of_tok down then "floor" else "ceil") ^ " of n/d"
  | ["eval"; fee; size; at; down], [ev; slow; fb] ->
    let rd = bool_of_tok down in
    let h r = Model.holds_eval (zs fee) (zs size) (zs at) rd (zs r) in
    if not (h ev) then "fail EvaluateFee is not the exact " ^ (if rd then "floor" else "ceil") ^ " of fee*at_size/size"
    else if not (h slow) then "fail Div(Mul(fee,at_size),size) is not the exactly rounded quotient"
    else if not (h fb) then "fail DivFallback(MulFallback(fee,at_size),size) is not the exactly rounded quotient"
    else "ok"
  | ["cmp"; f1; s1; f2; s2], [c3; e; l; g; le; ge; nc; ne; fc] ->
    let a = (zs f1, zs s1) and b = (zs f2, zs s2) in
    let sc = Model.spec_cmp a b in
    let want = [cmp_s sc; b01 (sc = Model.Eq); b01 (sc = Model.Lt); b01 (sc = Model.Gt);
                b01 (sc <> Model.Gt); b01 (sc <> Model.Lt);
                cmp_s (Model.spec_negsize_cmp a b); b01 (zs f1 = zs f2 && zs s1 = zs s2);
                cmp_s sc] in
    let names = ["ByRatio<=>"; "ByRatio=="; "ByRatio<"; "ByRatio>"; "ByRatio<="; "ByRatio>=";
                 "ByRatioNegSize<=>"; "ByRatioNegSize=="; "MulFallback pair <=>"] in
    let rec go ns ws is = match ns, ws, is with
      | n :: ns, w :: ws, i :: is -> if w = i then go ns ws is else "fail " ^ n ^ " is not the exact comparison of fee1*size2 with fee2*size1 (ByRatioNegSize: then larger size first) (want " ^ w ^ ")"
      | _ -> "ok" in
    go names want [c3; e; l; g; le; ge; nc; ne; fc]
  | "chunks" :: r, [res] ->
    (* CompareChunks must equal the comparison of the two diagrams; compare_chunks is proved to be that *)
    let (c0, c1) = parse_chunks r in
    let m = pord_s (Model.compare_chunks c0 c1) in
    if m = res then "ok" else "fail CompareChunks differs from the diagram comparison (" ^ m ^ ")"
  | ["getfee"; fee; size; at], [gf; perk] ->
    let want = sz (Model.spec_get_fee (zs fee) (zs size) (zs at)) in
    if want <> gf then "fail GetFee is not ceil(fee*vbytes/size) (with -1 for a negative rate rounding to 0): want " ^ want
    else if perk = "empty" then "ok"
    else if Model.holds_eval (zs fee) (zs size) (zs "1000") true (zs perk) then "ok"
    else "fail GetFeePerK is not floor(fee*1000/size)"
  | _ -> if impl = "BADCASE" then "na" else "fail malformed implementation output"

let () = main_loop ~model ~holds
