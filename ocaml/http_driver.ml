(* Model side of the http family (C52).
   case:  http <fragment hex> <fragment hex> ...      ("-" = empty fragment)
   output: F:<result of feeding the fragments one by one> O:<result of feeding their concatenation at once>
   result = R<method>,<target hex>,<major>.<minor>,<headers hex>,<body hex>;... | E<status>,<major>.<minor>,<headers hex> | S<state>
   headers hex = hex of HTTPHeaders::Stringify() ("key: value\r\n" for each header, then "\r\n") *)
open Conv

let method_name = function
  | Model.M_UNKNOWN -> "UNKNOWN" | Model.M_GET -> "GET" | Model.M_POST -> "POST"
  | Model.M_HEAD -> "HEAD" | Model.M_PUT -> "PUT"
let state_name = function
  | Model.Init -> "Init" | Model.NeedsHeaders -> "NeedsHeaders" | Model.NeedsBody -> "NeedsBody"
  | Model.Complete -> "Complete" | Model.Error -> "Error"

let n i = n_of_int i
let stringify (hl : (Model.n list * Model.n list) list) : Model.n list =
  List.concat (List.map (fun (k, v) -> k @ [n 58; n 32] @ v @ [n 13; n 10]) hl) @ [n 13; n 10]

let show (c : Model.client) : string =
  let (((reqs, err), st)) = Model.observable c in
  let rs = List.map (fun (((((m, target), major), minor), hl), body) ->
      Printf.sprintf "R%s,%s,%s.%s,%s,%s" (method_name m) (hex_of_bytes target) (string_of_z major) (string_of_z minor)
        (hex_of_bytes (stringify hl)) (hex_of_bytes body)) reqs in
  let e = match err with
    | None -> []
    | Some (((e, major), minor), hl) ->
      [Printf.sprintf "E%s,%s.%s,%s" (match e with Model.BadRequest -> "400" | Model.ContentTooLarge -> "413")
         (string_of_z major) (string_of_z minor) (hex_of_bytes (stringify hl))] in
  String.concat ";" (rs @ e @ ["S" ^ state_name st])

let run frags = show (Model.feed_all Model.new_client frags)

let model _ l = match words l with
  | "http" :: fr ->
    let frags = List.map bytes_of_hex fr in
    "F:" ^ run frags ^ " O:" ^ run [List.concat frags]
  | _ -> "BADCASE"

(* the property's own predicate on the implementation's answer: the fragmented delivery gave the
   same dispatched requests / error / state as the one-shot delivery of the same bytes *)
let holds _ c impl = match words c, words impl with
  | "http" :: _, [f; o] when String.length f > 2 && String.length o > 2 ->
    let f' = String.sub f 2 (String.length f - 2) and o' = String.sub o 2 (String.length o - 2) in
    if f' = o' then "ok" else "fail the fragmented delivery was parsed differently from the one-shot delivery of the same bytes"
  | _ -> "fail malformed answer"

let () = main_loop ~model ~holds
