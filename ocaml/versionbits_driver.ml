(* Model side of the versionbits family (C53). *)
open Conv
let rec split_bar acc = function
  | [] -> (List.rev acc, [])
  | "|" :: r -> (List.rev acc, r)
  | x :: r -> split_bar (x :: acc) r

let state_str s = string_of_int (int_of_nat (Model.tstate_name s))
let key s = if s = "null" then None else Some (nat_of_int (int_of_string s))

(* vb <start> <timeout> <minheight> <period> <threshold> <bit> <N> {<parent> <time> <version>}*N | queries *)
let parse ws =
  match ws with
  | start :: timeout :: minh :: period :: thr :: bit :: n :: rest ->
    let p = { Model.vp_start = z_of_string start; Model.vp_timeout = z_of_string timeout;
              Model.vp_min_height = z_of_string minh; Model.vp_period = z_of_string period;
              Model.vp_threshold = z_of_string thr; Model.vp_bit = z_of_string bit } in
    let n = int_of_string n in
    let a = Array.of_list rest in
    let blocks = List.init n (fun i ->
        let par = int_of_string a.(3 * i) in
        (((if par < 0 then None else Some (nat_of_int par)), z_of_string a.(3 * i + 1)), z_of_string a.(3 * i + 2))) in
    (p, Model.vbuild blocks)
  | _ -> failwith "bad vb case"

let stats_str = function
  | Some ((((period, thr), elapsed), count), possible) ->
    String.concat "," [string_of_z period; string_of_z thr; string_of_z elapsed; string_of_z count; string_of_bool01 possible]
  | None -> "BUG"

let rec run p t qs c acc =
  match qs with
  | [] -> List.rev acc
  | "st" :: b :: r ->
    (match Model.get_state_for t p (key b) c with
     | Some (s, c') -> run p t r c' (state_str s :: acc)
     | None -> run p t r c ("BUG" :: acc))
  | "since" :: b :: r ->
    (match Model.get_state_since_height_for t p (key b) c with
     | Some (h, c') -> run p t r c' (string_of_z h :: acc)
     | None -> run p t r c ("BUG" :: acc))
  | "stats" :: b :: r -> run p t r c (stats_str (Model.get_state_statistics_for t p (key b)) :: acc)
  | "clear" :: r -> run p t r [] ("-" :: acc)
  | _ -> failwith "bad query"

let model _ l = match words l with
  | "vb" :: ws ->
    let (hw, qs) = split_bar [] ws in
    let (p, t) = parse hw in
    String.concat " " (run p t qs [] [])
  | _ -> "BADCASE"

(* the property's own predicate: every answer against the specification function of the ancestry
   (state_after), evaluated without any cache *)
let spec_state p t k = match Model.state_after t p k with Some s -> state_str s | None -> "BUG"
let height t b = match Model.vnode_at t b with Some nd -> zt_of_z nd.Model.vn_height | None -> Z.minus_one
let special p =
  let s = zt_of_z p.Model.vp_start in Z.equal s (Z.of_int (-1)) || Z.equal s (Z.of_int (-2))

let spec_since p t k =
  if special p then "0" else
  match Model.state_after t p k with
  | None -> "BUG"
  | Some init ->
    if state_str init = "0" then "0" else
    (match Model.align t p k with
     | None -> "BUG"
     | Some b ->
       let rec go b =
         match Model.prev_boundary t p b with
         | Some pp when spec_state p t (Some pp) = state_str init -> go pp
         | _ -> Z.to_string (Z.succ (height t b)) in
       go b)

let spec_stats p t k =
  let period = zt_of_z p.Model.vp_period and thr = zt_of_z p.Model.vp_threshold in
  match k with
  | None -> String.concat "," [Z.to_string period; Z.to_string thr; "0"; "0"; "0"]
  | Some b ->
    let h = height t b in
    let elapsed = Z.succ (Z.erem h period) in
    let rec count b n acc =
      if n = 0 then acc else
        match Model.vnode_at t b with
        | Some nd ->
          let acc = if Model.condition p nd.Model.vn_version then acc + 1 else acc in
          (match nd.Model.vn_parent with Some q -> count q (n - 1) acc | None -> acc)
        | None -> acc in
    let cnt = count b (Z.to_int elapsed) 0 in
    let m32 = Z.shift_left Z.one 32 in
    let possible = Z.geq (Z.erem (Z.sub period thr) m32) (Z.sub elapsed (Z.of_int cnt)) in
    String.concat "," [Z.to_string period; Z.to_string thr; Z.to_string elapsed; string_of_int cnt; if possible then "1" else "0"]

let rec check p t qs outs =
  match qs, outs with
  | [], [] -> "ok"
  | "st" :: b :: r, o :: os ->
    if spec_state p t (key b) = o then check p t r os
    else "fail GetStateFor(" ^ b ^ ") = " ^ o ^ " but the BIP9 state of that block's period is " ^ spec_state p t (key b)
  | "since" :: b :: r, o :: os ->
    if spec_since p t (key b) = o then check p t r os
    else "fail GetStateSinceHeightFor(" ^ b ^ ") = " ^ o ^ ", the state holds since " ^ spec_since p t (key b)
  | "stats" :: b :: r, o :: os ->
    if spec_stats p t (key b) = o then check p t r os
    else "fail GetStateStatisticsFor(" ^ b ^ ") = " ^ o ^ " expected " ^ spec_stats p t (key b)
  | "clear" :: r, _ :: os -> check p t r os
  | _, _ -> "fail wrong number of results"

let holds _ cs impl = match words cs with
  | "vb" :: ws ->
    let (hw, qs) = split_bar [] ws in
    let (p, t) = parse hw in
    check p t qs (words impl)
  | _ -> "na"

let () = main_loop ~model ~holds
