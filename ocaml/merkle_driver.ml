(* Model side of the merkle family (C04).  The extracted functions take the inner-node hash as an
   argument; here it is instantiated with a real double SHA-256 (merkle_sha256.ml), digests are raw
   32-byte strings, so roots and paths compare byte for byte with the implementation. *)
open Conv
open Merkle_sha256

let deq (a : string) (b : string) = (a = b)
let h2 (a : string) (b : string) = sha256d (a ^ b)
let zero = String.make 32 '\000'
let dig s = let r = raw_of_hex s in if String.length r <> 32 then failwith "leaf is not 32 bytes" else r
let b01 = string_of_bool01

(* <tx> token: "hex" or "nowithex/withex" -> (raw without witness, raw with witness) *)
let tx_forms (tok : string) : string * string =
  match String.index_opt tok '/' with
  | None -> let r = raw_of_hex tok in (r, r)
  | Some i -> (raw_of_hex (String.sub tok 0 i), raw_of_hex (String.sub tok (i + 1) (String.length tok - i - 1)))

let tx_view tok : string Model.tx_view =
  let (nw, wt) = tx_forms tok in
  { Model.tv_txid = sha256d nw; tv_wtxid = sha256d wt; tv_nowit_size = z_of_int (String.length nw);
    tv_has_witness = (nw <> wt) }

let stack_items (s : string) : string list =
  if s = "-" then [] else List.map (fun i -> if i = "e" then "" else raw_of_hex i) (String.split_on_char ',' s)

let block_view hdr cb commit stack txs : string Model.block_view =
  { Model.bv_header_root = dig hdr;
    bv_txs = List.map tx_view txs;
    bv_first_is_coinbase = (cb = "1");
    bv_commitment = (if commit = "-" then None else Some (dig commit));
    bv_cb_witness_stack = List.map (fun it -> (z_of_int (String.length it), if String.length it = 32 then it else zero)) (stack_items stack);
    bv_checked_merkle_root = false; bv_checked_witness_commitment = false }

let path_str p = if p = [] then "-" else String.concat "," (List.map hex_of_raw p)

let model _ l = match words l with
  | "root" :: leaves ->
    let ls = List.map dig leaves in
    (match Model.compute_merkle_root deq h2 zero ls, Model.compute_merkle_root_noflag deq h2 zero ls with
     | Some (r, m), Some r2 -> hex_of_raw r ^ " " ^ b01 m ^ " " ^ hex_of_raw r2
     | _ -> "MODEL-NONE")
  | "txpath" :: pos :: txs ->
    let leaves = List.map (fun t -> (tx_view t).Model.tv_txid) txs in
    let p = int_of_string pos in
    let leaf = if p < List.length leaves then hex_of_raw (List.nth leaves p) else "-" in
    (match Model.compute_merkle_root_noflag deq h2 zero leaves, Model.compute_merkle_path h2 leaves (z_of_string pos) with
     | Some r, Some path -> hex_of_raw r ^ " " ^ leaf ^ " " ^ path_str path
     | _ -> "MODEL-NONE")
  | "block" :: hdr :: cb :: commit :: stack :: txs ->
    let b = block_view hdr cb commit stack txs in
    let nwit = List.length (List.filter (fun t -> t.Model.tv_has_witness) b.Model.bv_txs) in
    let n64 = List.length (List.filter (fun t -> int_of_z t.Model.tv_nowit_size = 64) b.Model.bv_txs) in
    let ob = function Some true -> "1" | Some false -> "0" | None -> "MODEL-NONE" in
    (match Model.block_merkle_root deq h2 zero b, Model.block_witness_merkle_root deq h2 zero b with
     | Some (r, m), Some wr ->
       let cbr = match Model.check_merkle_root deq h2 zero b with
         | Model.V_ok -> "pass"
         | Model.V_mutated Model.BadTxnMrklRoot -> "bad-txnmrklroot"
         | Model.V_mutated Model.BadTxnsDuplicate -> "bad-txns-duplicate"
         | _ -> "MODEL-NONE" in
       let m0 = ob (Model.is_block_mutated deq h2 zero b false) in
       let m1 = ob (Model.is_block_mutated deq h2 zero b true) in
       String.concat " " [cb; commit; stack; string_of_int nwit; string_of_int n64; hex_of_raw r; b01 m; hex_of_raw wr; cbr; m0; m1; m1]
     | _ -> "MODEL-NONE")
  | _ -> "BADCASE"

(* The property's own predicate on what the implementation returned.
   root:   the root is the reference root and the flag is the reference flag ("an aligned equal pair
           exists at some level", computed by the separate function any_level_has_equal_pair)
   txpath: folding the returned path from the leaf gives the returned root (position inside the block)
   block:  verdicts equal the model's (C04_* theorems say what those verdicts imply) *)
let holds args c impl = match words c with
  | "root" :: leaves ->
    let ls = List.map dig leaves in
    (match words impl, Model.compute_merkle_root_noflag deq h2 zero ls with
     | [r; m; r2], Some spec ->
       let flag = Model.any_level_has_equal_pair deq h2 (nat_of_int (List.length ls)) ls in
       if r <> hex_of_raw spec || r2 <> hex_of_raw spec then "fail merkle root differs from the reference root"
       else if m <> b01 flag then "fail mutated flag differs from 'an aligned equal pair exists at some level'"
       else "ok"
     | _ -> "fail malformed")
  | "txpath" :: pos :: txs ->
    let n = List.length txs in
    let p = int_of_string pos in
    (match words impl with
     | [r; leaf; path] ->
       if p >= n then (if path = "-" then "ok" else "fail non-empty path for a position outside the block")
       else
         let pl = if path = "-" then [] else List.map dig (String.split_on_char ',' path) in
         let spec_leaf = (tx_view (List.nth txs p)).Model.tv_txid in
         let leaves = List.map (fun t -> (tx_view t).Model.tv_txid) txs in
         (match Model.compute_merkle_root_noflag deq h2 zero leaves with
          | Some spec_root ->
            if r <> hex_of_raw spec_root then "fail BlockMerkleRoot differs from the reference root"
            else if not (Model.holds_path deq h2 spec_leaf (z_of_int p) pl spec_root) then "fail folding the returned path from the leaf does not give the merkle root"
            else "ok"
          | None -> "na")
     | _ -> "fail malformed")
  | "block" :: _ ->
    if model args c = impl then "ok" else "fail block verdicts differ from the model: " ^ model args c
  | _ -> "na"

let () = main_loop ~model ~holds
