(* Model side of the sigops / blockcheck family (C06).  Case formats: see tie/drivers/sigops_drv.cpp and blockcheck_drv.cpp. *)
open Conv

(* scripts are lists of Z bytes in the model; hex text with "-" for empty, and the run-length form
   rep:<hexbyte>:<count> and concatenation with '+' used for large paddings (expanded identically by the C++ driver) *)
let rec expand_piece (h : string) : int list =
  if String.length h >= 4 && String.sub h 0 4 = "rep:" then
    (match String.split_on_char ':' h with
     | [_; b; n] -> List.init (int_of_string n) (fun _ -> int_of_string ("0x" ^ b))
     | _ -> failwith "bad rep")
  else if h = "-" then []
  else List.init (String.length h / 2) (fun i -> int_of_string ("0x" ^ String.sub h (2 * i) 2))
let ints_of_hex (h : string) : int list = List.concat_map expand_piece (String.split_on_char '+' h)
let small = Array.init 256 z_of_int
let script_of_hex h : Model.z list = List.map (fun b -> small.(b)) (ints_of_hex h)
let hex_of_script (l : Model.z list) = if l = [] then "-" else String.concat "" (List.map (fun b -> Printf.sprintf "%02x" (int_of_z b)) l)
let b01 = string_of_bool01
let flag s = s <> "0"

let rec take k ws = if k = 0 then ([], ws) else match ws with
  | x :: r -> let (a, b) = take (k - 1) r in (x :: a, b)
  | [] -> failwith "short case"

let parse_tx ws =
  match ws with
  | fp :: fw :: cb :: nin :: r ->
    let rec ins k ws = if k = 0 then ([], ws) else match ws with
      | sg :: prev :: n :: rest ->
        let (items, rest) = take (int_of_string n) rest in
        let (l, rest') = ins (k - 1) rest in
        ({ Model.si_script_sig = script_of_hex sg; Model.si_prev_spk = script_of_hex prev; Model.si_witness = List.map script_of_hex items } :: l, rest')
      | _ -> failwith "short case" in
    let (vin, r) = ins (int_of_string nin) r in
    (match r with
     | nout :: r ->
       let (outs, rest) = take (int_of_string nout) r in
       ((flag fp, flag fw, { Model.st_coinbase = flag cb; Model.st_ins = vin; Model.st_outs = List.map script_of_hex outs }), rest)
     | [] -> failwith "short case")
  | _ -> failwith "short case"

let show_ops (ops, ok) =
  String.concat "" (List.map (fun o -> string_of_z o.Model.op_code ^ ":" ^ hex_of_script o.Model.op_data ^ " ") ops) ^ (if ok then "END" else "ERR")
let show_wp = function Some (v, p) -> string_of_z v ^ ":" ^ hex_of_script p | None -> "none"

let reason_str = function
  | Model.Bad_blk_length -> "bad-blk-length" | Model.Bad_cb_missing -> "bad-cb-missing" | Model.Bad_cb_multiple -> "bad-cb-multiple"
  | Model.Bad_blk_sigops -> "bad-blk-sigops" | Model.Bad_cb_height -> "bad-cb-height" | Model.Bad_blk_weight -> "bad-blk-weight"

(* blkchk <bip34 0|1> <height> <stripped> <total> <cb scriptSig> <ntx> {tx ...}*   (see blockcheck_drv.cpp) *)
let parse_blk ws = match ws with
  | bip34 :: height :: stripped :: total :: cbsig :: ntx :: r ->
    let rec txs k ws = if k = 0 then ([], ws) else
        let (t, rest) = parse_tx ws in let (l, rest') = txs (k - 1) rest in (t :: l, rest') in
    let (l, _) = txs (int_of_string ntx) r in
    (flag bip34, z_of_string height, z_of_string stripped, z_of_string total, script_of_hex cbsig, l)
  | _ -> failwith "short case"

let blk_of use_spec (bip34, height, stripped, total, cbsig, l) =
  let btxs = List.map (fun (fp, fw, t) ->
      if use_spec then Some { Model.bt_coinbase = t.Model.st_coinbase; Model.bt_legacy_sigops = Model.spec_legacy t; Model.bt_cost = Model.spec_tx_cost fp fw t }
      else Model.btx_of fp fw t) l in
  if List.exists (fun x -> x = None) btxs then None
  else Some { Model.b_txs = List.map (function Some x -> x | None -> assert false) btxs; Model.b_stripped_size = stripped;
              Model.b_total_size = total; Model.b_cb_script_sig = cbsig }

let model _ l = match words l with
  | ["parse"; s] -> show_ops (Model.parse (script_of_hex s))
  | ["count"; s] -> let s = script_of_hex s in string_of_z (Model.get_sigop_count true s) ^ " " ^ string_of_z (Model.get_sigop_count false s)
  | ["p2sh"; spk; sg] ->
    let spk = script_of_hex spk and sg = script_of_hex sg in
    string_of_z (Model.p2sh_sigop_count spk sg) ^ " " ^ b01 (Model.is_p2sh spk) ^ " " ^ b01 (Model.is_push_only sg)
  | "wit" :: fp :: fw :: sg :: spk :: n :: r ->
    let (items, _) = take (int_of_string n) r in
    let spk = script_of_hex spk in
    let wp = show_wp (Model.is_witness_program spk) in
    (match Model.count_witness_sigops (flag fp) (flag fw) (script_of_hex sg) spk (List.map script_of_hex items) with
     | Some c -> string_of_z c ^ " " ^ wp
     | None -> "abort " ^ wp)
  | "tx" :: r ->
    let ((fp, fw, t), _) = parse_tx r in
    (match Model.tx_sigop_cost fp fw t with
     | Some c -> string_of_z (Model.legacy_sigop_count t) ^ " " ^ string_of_z (Model.p2sh_sigop_count_tx t) ^ " " ^ string_of_z c
     | None -> "abort")
  | ["bip34"; h] -> hex_of_script (Model.script_push_int64 (z_of_string h))
  | "blkchk" :: r ->
    let ((bip34, height, _, _, _, _) as pb) = parse_blk r in
    (match blk_of false pb with
     | None -> "abort"
     | Some b -> (match Model.block_limits_verdict bip34 height b with None -> "ok" | Some x -> reason_str x))
  | _ -> "BADCASE"

(* the property's own predicate, evaluated on what the implementation returned *)
let holds _ c impl = match words c with
  | ["parse"; _] -> "na"     (* the parsed list is the vocabulary of the statement, compared functionally *)
  | ["count"; s] ->
    let s = script_of_hex s in
    let e = string_of_z (Model.spec_sigops true s) ^ " " ^ string_of_z (Model.spec_sigops false s) in
    if e = impl then "ok" else "fail GetSigOpCount differs from the declarative count over the parsed operations: " ^ e
  | ["p2sh"; spk; sg] ->
    let spk = script_of_hex spk and sg = script_of_hex sg in
    let e = string_of_z (Model.spec_p2sh_sigops spk sg) in
    (match words impl with
     | n :: _ -> if n = e then "ok" else "fail P2SH sigop count differs from the accurate count of the redeem script: " ^ e
     | [] -> "fail malformed")
  | "wit" :: fp :: fw :: sg :: spk :: n :: r ->
    if not (flag fp && flag fw) then "na" else
    let (items, _) = take (int_of_string n) r in
    let e = string_of_z (Model.spec_witness_sigops (script_of_hex sg) (script_of_hex spk) (List.map script_of_hex items)) in
    (match words impl with
     | n :: _ -> if n = e then "ok" else "fail witness sigop count differs from the stated rule: " ^ e
     | [] -> "fail malformed")
  | "tx" :: r ->
    let ((fp, fw, t), _) = parse_tx r in
    if fw && not fp then "na" else
    let e = string_of_z (Model.spec_tx_cost fp fw t) in
    (match words impl with
     | [_; _; cost] -> if cost = e then "ok" else "fail transaction sigop cost differs from 4*legacy + 4*P2SH + witness = " ^ e
     | _ -> "fail malformed")
  | ["bip34"; _] -> "na"
  | "blkchk" :: r ->
    let ((bip34, height, _, _, _, _) as pb) = parse_blk r in
    (match blk_of true pb with
     | None -> "na"
     | Some b ->
       let ok = Model.spec_block_ok_b bip34 height b in
       if String.length impl >= 5 && (String.sub impl 0 5 = "SETUP" || String.sub impl 0 5 = "SIZE-") then "fail " ^ impl
       else if (impl = "ok") = ok then "ok"
       else if ok then "fail a block within every limit was rejected: " ^ impl
       else "fail a block violating a structure rule or limit was accepted")
  | _ -> "na"

let () = main_loop ~model ~holds
