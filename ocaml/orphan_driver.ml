(* Model side of the Orphanage family (C35).
   model: runs the extracted model (Model.ostep) on the script and prints the same digest as the C++ driver.
   holds: judges what the IMPLEMENTATION printed, with the property's own clauses, using the extracted recomputation
          functions (the Model.spec_ family): after every operation
          - the printed counters equal their recomputation from the printed orphan/announcer sets;
          - the pool is within its global latency and usage limits;
          - with `entry` = the announcements before the operation changed by the operation's direct effect
            (add one / remove a wtxid / remove a peer / remove exactly the orphans spending an outpoint of the block):
            the announcements afterwards are a subset of `entry`, equal to it when `entry` is within the limits, and
            every announcement of `entry` that is gone belonged to a peer whose DoS score exceeded 1 at `entry`
            (a peer within its share never loses an announcement). *)
open Conv

type txdef = { w : Z.t; base : Z.t; weight : Z.t; nout : Z.t; inputs : (Z.t * Z.t) list }

let split_on tok (ws : string list) : string list list =
  let rec go cur acc = function
    | [] -> List.rev (List.rev cur :: acc)
    | x :: r when x = tok -> go [] (List.rev cur :: acc) r
    | x :: r -> go (x :: cur) acc r
  in go [] [] ws

let parse_outpoints (f : string) : (Z.t * Z.t) list =
  if f = "-" then [] else
    List.map (fun it -> match String.split_on_char ':' it with
        | [a; b] -> (Z.of_string a, Z.of_string b)
        | _ -> failwith "outpoint") (String.split_on_char ',' f)

type case = { g : Z.t; r : Z.t; txs : txdef list; ops : string list list }

let parse_case (l : string) : case =
  match split_on "|" (words l) with
  | [[g; r]; txs; ops] ->
    let txs = List.filter (fun x -> x <> []) (split_on ";" txs) in
    let ops = List.filter (fun x -> x <> []) (split_on ";" ops) in
    { g = Z.of_string g; r = Z.of_string r;
      txs = List.map (function
          | ["t"; w; base; weight; nout; _pad; _wit; ins] ->
            { w = Z.of_string w; base = Z.of_string base; weight = Z.of_string weight; nout = Z.of_string nout;
              inputs = parse_outpoints ins }
          | _ -> failwith "txdef") txs;
      ops }
  | _ -> failwith "case format"

let mk_tx (d : txdef) : Model.otx =
  { Model.x_wtxid = z_of_zt d.w; x_txid = z_of_zt d.base; x_weight = z_of_zt d.weight;
    x_inputs = List.map (fun (a, b) -> (z_of_zt a, z_of_zt b)) d.inputs; x_nout = z_of_zt d.nout }

let tx_table (c : case) =
  let tbl = Hashtbl.create 16 in
  List.iter (fun d -> Hashtbl.replace tbl d.w (mk_tx d)) c.txs;
  fun (w : Model.z) -> match Hashtbl.find_opt tbl (zt_of_z w) with
    | Some t -> t
    | None -> failwith "unknown tx label"

let peers_of_case (c : case) : Z.t list =
  let ps = ref [] in
  List.iter (function
      | ("add" | "ann" | "kids") :: _ :: p :: _ -> ps := Z.of_string p :: !ps
      | ("peer" | "recon") :: p :: _ -> ps := Z.of_string p :: !ps
      | _ -> ()) c.ops;
  List.sort_uniq Z.compare !ps

let weights_segment (c : case) : string =
  let l = List.sort (fun a b -> Z.compare a.w b.w) c.txs in
  String.concat " " (List.map (fun d -> "W" ^ Z.to_string d.w ^ "=" ^ Z.to_string d.weight) l)

let digest (ps : Z.t list) (g : Model.orph) : string =
  let b = Buffer.create 256 in
  Buffer.add_string b (Printf.sprintf " A=%s U=%s W=%s L=%s MU=%s ML=%s"
                         (string_of_z (Model.count_announcements g)) (string_of_z g.Model.g_unique)
                         (string_of_z g.Model.g_usage) (string_of_z (Model.total_latency g))
                         (string_of_z (Model.max_global_usage g)) (string_of_z (Model.max_peer_latency g)));
  List.iter (fun p ->
      let pz = z_of_zt p in
      Buffer.add_string b (Printf.sprintf " P%s=%s,%s,%s,%s" (Z.to_string p) (string_of_z (Model.usage_by_peer g pz))
                             (string_of_z (Model.anns_from_peer g pz)) (string_of_z (Model.latency_from_peer g pz))
                             (string_of_bool01 (Model.have_tx_to_reconsider g pz)))) ps;
  let ws = List.sort_uniq Z.compare (List.map (fun a -> zt_of_z a.Model.o_tx.Model.x_wtxid) g.Model.g_anns) in
  List.iter (fun w ->
      let an = List.sort Z.compare (List.map zt_of_z (Model.announcers_of g (z_of_zt w))) in
      Buffer.add_string b (" O" ^ Z.to_string w ^ "=" ^ String.concat "," (List.map Z.to_string an))) ws;
  Buffer.contents b

let model _ line =
  let c = parse_case line in
  let tx_of = tx_table c in
  let ps = peers_of_case c in
  let b = Buffer.create 4096 in
  Buffer.add_string b (weights_segment c);
  let g = ref (Model.o_empty (z_of_zt c.g) (z_of_zt c.r)) in
  List.iter (fun o ->
      Buffer.add_string b " |";
      let step op =
        let (g1, out) = Model.ostep tx_of !g op in
        g := g1;
        (match out with
         | Model.ONone -> ()
         | Model.OBool v -> Buffer.add_string b (" r=" ^ string_of_bool01 v)
         | Model.OPairs l ->
           let items = List.sort compare (List.map (fun (w, p) -> string_of_z w ^ ":" ^ string_of_z p) l) in
           Buffer.add_string b (" r=" ^ String.concat "," items)
         | Model.OTx None -> Buffer.add_string b " r=-"
         | Model.OTx (Some w) -> Buffer.add_string b (" r=" ^ string_of_z w)) in
      (match o with
       | ["add"; w; p] -> step (Model.OAddTx (z_of_string w, z_of_string p))
       | ["ann"; w; p] -> step (Model.OAddAnnouncer (z_of_string w, z_of_string p))
       | ["erase"; w] -> step (Model.OEraseTx (z_of_string w))
       | ["peer"; p] -> step (Model.OEraseForPeer (z_of_string p))
       | ["block"; sp] -> step (Model.OEraseForBlock (List.map (fun (a, b) -> (z_of_zt a, z_of_zt b)) (parse_outpoints sp)))
       | ["work"; w; salt] -> step (Model.OWork (z_of_string w, z_of_string salt))
       | ["recon"; p] -> step (Model.OReconsider (z_of_string p))
       | ["kids"; w; p] ->
         let l = Model.get_children_from_same_peer !g (tx_of (z_of_string w)).Model.x_txid (z_of_string p) in
         Buffer.add_string b (" r=" ^ String.concat "," (List.map string_of_z l))
       | _ -> failwith "bad op");
      if !g.Model.g_bad then Buffer.add_string b " BAD";
      Buffer.add_string b (digest ps !g)) c.ops;
  Buffer.contents b

(* ---- holds: parse the implementation's digest ---- *)
type obs = { a : Z.t; u : Z.t; wt : Z.t; lat : Z.t; mu : Z.t; ml : Z.t;
             peers : (Z.t * (Z.t * Z.t * Z.t)) list; orphans : (Z.t * Z.t list) list; ret : string }

let parse_seg (seg : string) : obs =
  let a = ref Z.zero and u = ref Z.zero and wt = ref Z.zero and lat = ref Z.zero and mu = ref Z.zero and ml = ref Z.zero in
  let peers = ref [] and orphans = ref [] and ret = ref "" in
  List.iter (fun tok ->
      match String.index_opt tok '=' with
      | None -> if tok = "BAD" || tok = "NOMATCH" then ret := tok
      | Some i ->
        let k = String.sub tok 0 i and v = String.sub tok (i + 1) (String.length tok - i - 1) in
        if k = "r" then ret := v
        else if k = "A" then a := Z.of_string v else if k = "U" then u := Z.of_string v
        else if k = "W" then wt := Z.of_string v else if k = "L" then lat := Z.of_string v
        else if k = "MU" then mu := Z.of_string v else if k = "ML" then ml := Z.of_string v
        else if k.[0] = 'P' then
          (match String.split_on_char ',' v with
           | [x; y; z; _] -> peers := (Z.of_string (String.sub k 1 (String.length k - 1)), (Z.of_string x, Z.of_string y, Z.of_string z)) :: !peers
           | _ -> failwith "peer digest")
        else if k.[0] = 'O' then
          orphans := (Z.of_string (String.sub k 1 (String.length k - 1)),
                      if v = "" then [] else List.map Z.of_string (String.split_on_char ',' v)) :: !orphans
        else ()) (words seg);
  { a = !a; u = !u; wt = !wt; lat = !lat; mu = !mu; ml = !ml; peers = List.rev !peers; orphans = List.rev !orphans; ret = !ret }

(* announcements as model values (sequence numbers are irrelevant to the recomputation functions) *)
let anns_of tx_of (orphans : (Z.t * Z.t list) list) : Model.oann list =
  List.concat_map (fun (w, ps) ->
      List.map (fun p -> { Model.o_tx = tx_of (z_of_zt w); o_peer = z_of_zt p; o_seq = Model.Z0; o_reconsider = false }) ps) orphans

let key (a : Model.oann) = (zt_of_z a.Model.o_tx.Model.x_wtxid, zt_of_z a.Model.o_peer)
let has_key k l = List.exists (fun a -> key a = k) l

let holds _ case impl =
  if String.length impl >= 5 && String.sub impl 0 5 = "CRASH" then "fail the orphanage aborted (assert in SanityCheck or elsewhere): " ^ impl else
  let c = parse_case case in
  let tx_of = tx_table c in
  let g = z_of_zt c.g and r = z_of_zt c.r in
  match Str.split_delim (Str.regexp_string " |") impl with
  | [] -> "fail empty output"
  | _ :: segs ->
    if List.length segs <> List.length c.ops then "fail malformed output (segment count)" else
    let before = ref [] in
    let res = ref "ok" in
    let k = ref 0 in
    List.iter2 (fun o seg ->
        incr k;
        if !res = "ok" then begin
          let fail m = res := Printf.sprintf "fail op %d (%s): %s" !k (String.concat " " o) m in
          let ob = parse_seg seg in
          let after = anns_of tx_of ob.orphans in
          (* 1. printed counters = recomputation from the printed announcer sets *)
          let zs = string_of_z in
          if Z.to_string ob.a <> string_of_int (List.length after) then fail "CountAnnouncements differs from the number of (orphan, announcer) pairs"
          else if Z.to_string ob.u <> zs (Model.spec_unique_count after) then fail "CountUniqueOrphans differs from the number of orphans"
          else if Z.to_string ob.wt <> zs (Model.spec_total_usage after) then fail ("TotalOrphanUsage differs from the sum of the orphans' weights " ^ zs (Model.spec_total_usage after))
          else if Z.to_string ob.lat <> zs (Model.spec_total_latency after) then fail ("TotalLatencyScore differs from its recomputation " ^ zs (Model.spec_total_latency after))
          else if Z.to_string ob.mu <> zs (Model.spec_max_global_usage r after) then fail "MaxGlobalUsage is not reserved * max(peers, 1)"
          else if Z.to_string ob.ml <> zs (Model.spec_max_peer_latency g after) then fail "MaxPeerLatencyScore is not max_global / max(peers, 1)"
          else begin
            List.iter (fun (p, (us, cn, la)) ->
                let d = Model.recompute_peer after (z_of_zt p) in
                if !res = "ok" && (Z.to_string us <> zs d.Model.pd_usage || Z.to_string cn <> zs d.Model.pd_count || Z.to_string la <> zs d.Model.pd_latency)
                then fail (Printf.sprintf "per-peer usage/count/latency of peer %s differ from their recomputation" (Z.to_string p))) ob.peers;
            (* 2. within the global limits *)
            if !res = "ok" && Model.spec_needs_trim g r after then fail "the pool exceeds its global latency or usage limit after the operation";
            (* 3. exactly the affected announcements are gone; evictions only hit peers above their share *)
            if !res = "ok" then begin
              let b = !before in
              let mk w p = { Model.o_tx = tx_of (z_of_string w); o_peer = z_of_string p; o_seq = Model.Z0; o_reconsider = false } in
              let entry = match o with
                | ["add"; w; p] ->
                  let t = tx_of (z_of_string w) in
                  if Z.gt (zt_of_z t.Model.x_weight) (zt_of_z Model.oRPHAN_MAX_TX_WEIGHT) then b
                  else if has_key (Z.of_string w, Z.of_string p) b then b else b @ [mk w p]
                | ["ann"; w; p] ->
                  if not (List.exists (fun a -> fst (key a) = Z.of_string w) b) then b
                  else if has_key (Z.of_string w, Z.of_string p) b then b else b @ [mk w p]
                | ["erase"; w] -> List.filter (fun a -> fst (key a) <> Z.of_string w) b
                | ["peer"; p] -> List.filter (fun a -> snd (key a) <> Z.of_string p) b
                | ["block"; sp] ->
                  let spent = List.map (fun (x, y) -> (z_of_zt x, z_of_zt y)) (parse_outpoints sp) in
                  List.filter (fun a -> not (Model.spends_any spent a)) b
                | _ -> b in
              let gone = List.filter (fun a -> not (has_key (key a) after)) entry in
              let extra = List.filter (fun a -> not (has_key (key a) entry)) after in
              if extra <> [] then
                fail (Printf.sprintf "announcement (orphan %s, peer %s) is present although the operation does not create it (or should have removed it)"
                        (Z.to_string (fst (key (List.hd extra)))) (Z.to_string (snd (key (List.hd extra)))))
              else if gone <> [] && not (Model.spec_needs_trim g r entry) then
                fail (Printf.sprintf "announcement (orphan %s, peer %s) disappeared although the pool was within its limits"
                        (Z.to_string (fst (key (List.hd gone)))) (Z.to_string (snd (key (List.hd gone)))))
              else
                List.iter (fun a ->
                    if !res = "ok" && not (Model.spec_dosy g r entry a.Model.o_peer) then
                      fail (Printf.sprintf "peer %s was within its share (DoS score <= 1) but lost its announcement of orphan %s"
                              (Z.to_string (snd (key a))) (Z.to_string (fst (key a))))) gone
            end
          end;
          before := after
        end) c.ops segs;
    !res

let () = main_loop ~model ~holds
