(* C64 model driver: the extracted TxDownloadMall model on the case lines of tie/drivers/txdownload_drv.cpp.
   The validation parameter V of the model is instantiated here from the kind of each labelled transaction:
   inputs available?  txid already in the mempool / chain?  then the witness decides (valid / stripped / invalid). *)
open Conv

let labels = ["P"; "G"; "Gb"; "Gs"; "Go"; "K"; "X"]
(* txid, wtxid, parents (txids) *)
let z = z_of_int
let txid_of = function "P" -> 5 | "G" | "Gb" | "Gs" | "Go" -> 10 | "K" -> 20 | "X" -> 30 | l -> failwith ("label " ^ l)
let wtxid_of = function "P" -> 5 | "G" -> 11 | "Gb" -> 12 | "Gs" -> 10 | "Go" -> 13 | "K" -> 21 | "X" -> 30 | l -> failwith ("label " ^ l)
let parents_of = function "P" | "X" -> [] | "K" -> [10] | _ -> [5]
let tx_of l : Model.tx = { Model.txid = z (txid_of l); Model.wtxid = z (wtxid_of l); Model.parents = List.map z (parents_of l) }
let name_of_hash (h : int) : string =
  match h with
  | 5 -> "P:w" | 10 -> "G:t" | 11 -> "G:w" | 12 -> "Gb:w" | 13 -> "Go:w" | 20 -> "K:t" | 21 -> "K:w" | 30 -> "X:w"
  | _ -> "?"
let label_of_wtxid (w : int) : string =
  match w with 5 -> "P" | 11 -> "G" | 12 -> "Gb" | 10 -> "Gs" | 13 -> "Go" | 21 -> "K" | 30 -> "X" | _ -> "?"

let verdicts : string list ref = ref []
let vname = function
  | Model.VOk -> "ok" | Model.VMissingInputs -> "missing" | Model.VWitnessStripped -> "stripped"
  | Model.VInputsNotStandard -> "inputsnonstd" | Model.VReconsiderable -> "reconsiderable" | Model.VOther -> "other"

let validate (pool : Model.tx list) (chain : Model.z list) (t : Model.tx) : Model.verdict =
  let txid = int_of_z t.Model.txid and wtxid = int_of_z t.Model.wtxid in
  let in_pool x = List.exists (fun p -> int_of_z p.Model.txid = x) pool in
  let in_chain x = List.exists (fun c -> int_of_z c = x) chain in
  let v =
    if in_pool txid || in_chain txid then Model.VOther
    else if not (List.for_all (fun p -> let p = int_of_z p in in_pool p || in_chain p) t.Model.parents) then Model.VMissingInputs
    else match wtxid with
      | 12 | 13 -> Model.VOther
      | 10 -> Model.VWitnessStripped
      | _ -> Model.VOk in
  verdicts := (name_of_hash wtxid ^ "=" ^ vname v) :: !verdicts;
  v

type cur = { w : string array; mutable i : int }
let next c = if c.i >= Array.length c.w then failwith "short case" else (let x = c.w.(c.i) in c.i <- c.i + 1; x)

let parse (line : string) : int * Model.event list =
  let c = { w = Array.of_list (words line); i = 1 } in
  let np = int_of_string (next c) in
  let nev = int_of_string (next c) in
  let hash kind l = z (if kind = "w" then wtxid_of l else txid_of l) in
  let evs = List.init nev (fun _ ->
    match next c with
    | "I" -> let p = int_of_string (next c) in let k = next c in let l = next c in Model.EInv (z p, (k = "w"), hash k l)
    | "T" -> let p = int_of_string (next c) in let l = next c in Model.ETx (z p, tx_of l)
    | "N" -> let p = int_of_string (next c) in let k = next c in let l = next c in Model.ENotFound (z p, hash k l)
    | "Q" -> Model.EPoll
    | "B" -> let n = int_of_string (next c) in Model.EBlock (List.init n (fun _ -> tx_of (next c)))
    | "D" -> Model.EDisconnect (z (int_of_string (next c)))
    | "C" -> Model.EConnect (z (int_of_string (next c)))
    | "R" -> Model.EReorg
    | k -> failwith ("bad event " ^ k)) in
  (np, List.init np (fun p -> Model.EConnect (z p)) @ evs)

let join l = if l = [] then "-" else String.concat "+" l

let run_case line =
  verdicts := [];
  let (_, evs) = parse line in
  let (s, asked) = Model.run validate Model.dl_empty evs [] in
  let polls = List.map (fun a -> join (List.sort compare (List.map (fun h -> name_of_hash (int_of_z h)) a))) asked in
  let pool = List.filter (fun l -> Model.pool_has_wtxid s (z (wtxid_of l))) labels in
  let orph = List.filter (fun l -> Model.orph_have s (z (wtxid_of l))) labels in
  let names = List.sort compare ["P:w"; "G:t"; "G:w"; "Gb:w"; "Go:w"; "K:t"; "K:w"; "X:w"] in
  let hash_of_name = function "P:w" -> 5 | "G:t" -> 10 | "G:w" -> 11 | "Gb:w" -> 12 | "Go:w" -> 13 | "K:t" -> 20 | "K:w" -> 21 | "X:w" -> 30 | _ -> 0 in
  let inl f = List.filter (fun n -> Model.mem (z (hash_of_name n)) f) names in
  let ah_w = Model.already_have s true (z 11) true and ah_t = Model.already_have s false (z 10) true in
  let vs = List.sort compare !verdicts in
  ("asked=" ^ (if polls = [] then "-" else String.concat ";" polls) ^ " pool=" ^ join (List.sort compare pool)
   ^ " rej=" ^ join (inl s.Model.rej) ^ " rec=" ^ join (inl s.Model.recf) ^ " conf=" ^ join (inl s.Model.conf)
   ^ " orph=" ^ join (List.sort compare orph) ^ " ah=" ^ string_of_bool01 ah_w ^ string_of_bool01 ah_t ^ " verd=" ^ join vs, evs)

let model _args line =
  let w = words line in
  if w = [] || List.hd w <> "c64" then "na" else fst (run_case line)

(* the property on the implementation's observation: the case generator marks with a final "Q" cases in which an
   honest peer announced G by wtxid after the copies; the implementation must then have asked for G:w at a poll after
   that announcement, must never report "already have" for G's wtxid before G is delivered, and must hold G in the
   mempool at the end when G was delivered and its parent was available *)
let field (impl : string) (name : string) : string =
  let key = name ^ "=" in
  match List.find_opt (fun x -> String.length x >= String.length key && String.sub x 0 (String.length key) = key) (words impl) with
  | Some x -> String.sub x (String.length key) (String.length x - String.length key)
  | None -> failwith ("no field " ^ name)
let contains_name (s : string) (n : string) : bool =
  List.exists (fun part -> List.mem n (String.split_on_char '+' part)) (String.split_on_char ';' s)

let holds _args case impl =
  let w = words case in
  if w = [] || List.hd w <> "c64" then "na" else begin
    let (_, evs) = parse case in
    let delivered_g = List.exists (function Model.ETx (_, t) -> int_of_z t.Model.wtxid = 11 | _ -> false) evs in
    let confirmed_g = List.exists (function Model.EBlock txs -> List.exists (fun t -> int_of_z t.Model.txid = 10) txs | _ -> false) evs in
    (* polls after the first announcement of G by wtxid, with G not yet delivered *)
    let rec scan evs announced npolls_before acc =
      match evs with
      | [] -> acc
      | Model.EInv (_, true, h) :: r when int_of_z h = 11 -> scan r true npolls_before acc
      | Model.ETx (_, t) :: _ when int_of_z t.Model.wtxid = 11 -> acc
      | Model.EBlock txs :: _ when List.exists (fun t -> int_of_z t.Model.txid = 10) txs -> acc    (* confirmed: nothing left to ask for *)
      | Model.EDisconnect _ :: _ | Model.ENotFound _ :: _ -> acc      (* the announcement may legitimately go away *)
      | Model.EPoll :: r -> scan r announced (npolls_before + 1) (if announced && acc = None then Some npolls_before else acc)
      | _ :: r -> scan r announced npolls_before acc in
    let first_poll_after = scan evs false 0 None in
    let asked = field impl "asked" in
    let polls = if asked = "-" then [] else String.split_on_char ';' asked in
    let asked_ok = match first_poll_after with
      | None -> true
      | Some k -> (match List.nth_opt polls k with Some p -> List.mem "G:w" (String.split_on_char '+' p) | None -> false) in
    let ah = field impl "ah" in
    let ah_before = (not delivered_g) && (not confirmed_g) && ah.[0] = '1' in
    (* was G valid when delivered?  replay the model's validation decisions: G=ok recorded by the model run *)
    let (mline, _) = run_case case in
    let g_valid = contains_name (field mline "verd") "G:w=ok" in
    let in_pool = contains_name (field impl "pool") "G" in
    let later_confirmed = confirmed_g in
    (* the genuine txid must not be in the reject filter while the genuine transaction is neither in the mempool nor
       confirmed (a copy's failure must not be recorded under the txid: parents are fetched by txid) *)
    let txid_rejected = contains_name (field impl "rej") "G:t" && not in_pool && not confirmed_g in
    if txid_rejected then "fail genuine-txid-in-reject-filter-because-of-a-copy"
    else if Model.holds_c64 ah_before asked_ok (g_valid && not later_confirmed) in_pool then "ok"
    else if ah_before then "fail genuine-wtxid-reported-as-already-known"
    else if not asked_ok then "fail genuine-not-requested-after-honest-announcement"
    else "fail genuine-valid-but-not-accepted"
  end

let () = main_loop ~model ~holds
