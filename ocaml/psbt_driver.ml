(* Model side of the PSBT check (C47).  Cases and outputs: see tie/drivers/psbt_drv.cpp.
   Model outputs use `*` for a token (or the whole line) that the model does not predict; those cases are judged
   by `holds`, which evaluates the extracted predicates on what the implementation returned. *)
open Conv

let magic = [0x70; 0x73; 0x62; 0x74; 0xff]

(* all maps of a PSBT at the key-value level: global, inputs, outputs *)
type maps = Maps of (Model.n list * Model.n list) list list | Bad of string

let decode_all (hex : string) : maps =
  let b = bytes_of_hex hex in
  let rec strip m b = match m, b with
    | [], _ -> Some b
    | x :: m', y :: b' when int_of_n y = x -> strip m' b'
    | _ -> None in
  match strip magic b with
  | None -> Bad "magic"
  | Some b ->
    let rec go b acc =
      match Model.kv_decode b with
      | Model.KvOk (m, rest) -> if rest = [] then Maps (List.rev (m :: acc)) else go rest (m :: acc)
      | Model.KvNoSeparator -> Bad "nosep"
      | Model.KvDuplicate -> Bad "dup"
      | Model.KvBadStream -> Bad "bad" in
    if b = [] then Bad "nosep" else go b []

let key1 t = [n_of_int t]
let u32_of v = Model.Z.of_N (Model.le_dec v)
let get m t = Model.lookup (key1 t) m

(* ComputeTimeLock from the key-value view of an accepted PSBT *)
let lock_of_maps (ms : (Model.n list * Model.n list) list list) : string =
  match ms with
  | [] -> "?"
  | g :: rest ->
    let version = (match get g 0xfb with Some v -> u32_of v | None -> z_of_int 0) in
    let v2 = (string_of_z version = "2") in
    let nin =
      if v2 then (match get g 0x04 with Some v -> (match v with x :: _ when int_of_n x < 253 -> int_of_n x | _ -> -1) | None -> -1)
      else (match get g 0x00 with
          | Some tx -> (match tx with _ :: _ :: _ :: _ :: c :: _ -> int_of_n c | _ -> -1)   (* input count < 253 in the cases *)
          | None -> -1) in
    let fallback =
      if v2 then (match get g 0x03 with Some v -> Some (u32_of v) | None -> None)
      else (match get g 0x00 with
          | Some tx -> let l = List.length tx in
            Some (u32_of (List.filteri (fun i _ -> i >= l - 4) tx))
          | None -> None) in
    let ins = List.filteri (fun i _ -> i < nin) rest in
    let pins = List.map (fun m ->
        { Model.in_time = (match get m 0x11 with Some v -> Some (u32_of v) | None -> None);
          Model.in_height = (match get m 0x12 with Some v -> Some (u32_of v) | None -> None) }) ins in
    match Model.compute_timelock version pins fallback with
    | Some z -> string_of_z z
    | None -> "none"

let opt_z s = if s = "-" then None else Some (z_of_string s)
let pins_of ws = List.map (fun w -> match String.split_on_char ':' w with
    | [t; h] -> { Model.in_time = opt_z t; Model.in_height = opt_z h }
    | _ -> failwith "pin") ws
let show_lock = function Some z -> string_of_z z | None -> "none"

let model _ l = match words l with
  | ["rt"; "gen"; hex] ->
    (match decode_all hex with
     | Maps ms -> "ok * 1 " ^ lock_of_maps ms
     | Bad e -> "MODEL-REJECTS " ^ e)
  | ["rt"; "dup"; _] -> "err dup"
  | ["rt"; "nosep"; _] -> "err nosep"
  | ["rt"; _; _] -> "*"
  | ["merge"; _; _] -> "*"
  | "lock" :: v :: fb :: pins -> show_lock (Model.compute_timelock (z_of_string v) (pins_of pins) (opt_z fb))
  | "final" :: _ :: _ :: types ->
    let witness_only = List.for_all (fun t -> t = "p2wpkh" || t = "p2wsh") types in
    "ok 1 " ^ (if witness_only then "1" else "0") ^ " 1"
  | _ -> "BADCASE"

(* content equality of two maps: same keys, same values *)
let same_map a b = Model.merge_spec_holds a [] b && Model.merge_spec_holds b [] a

let modifiable m = match get m 0x06 with Some (x :: _) -> Some x | _ -> None
let without t m = List.filter (fun (k, _) -> not (Model.bytes_eqb k (key1 t))) m

let check_merge a b out (what : string) : string option =
  if List.length a <> List.length b || List.length a <> List.length out then Some (what ^ ": number of maps differs") else
  let rec go i a b out = match a, b, out with
    | [], [], [] -> None
    | ma :: a', mb :: b', mo :: o' ->
      let ma', mb', mo' = if i = 0 then (without 0x06 ma, without 0x06 mb, without 0x06 mo) else (ma, mb, mo) in
      if not (Model.merge_spec_holds ma' mb' mo') then
        Some (Printf.sprintf "%s: map %d is not the union of both sides keeping the first side's values" what i)
      else if i = 0 && Model.merge_modifiable (modifiable ma) (modifiable mb) <> modifiable mo then
        Some (what ^ ": modifiable flags are not AND (bit 2: OR) of both sides")
      else go (i + 1) a' b' o'
    | _ -> Some "shape" in
  go 0 a b out

let holds _ c impl = match words c with
  | ["rt"; tag; hex] ->
    (match words impl with
     | ["ok"; h1; fixed; lock] ->
       (match decode_all hex, decode_all h1 with
        | Bad e, _ -> "fail decoder accepted a PSBT that is malformed at the key-value level: " ^ e
        | _, Bad e -> "fail re-encoding is malformed at the key-value level: " ^ e
        | Maps m0, Maps m1 ->
          if fixed <> "1" then "fail re-encoding does not decode to the same content (encode(decode(x)) is not a fixed point)"
          else if List.length m0 <> List.length m1 then "fail number of maps changed"
          else if tag = "gen" && not (List.for_all2 same_map m0 m1) then "fail re-encoding lost or changed a record"
          else if tag = "gen" && lock_of_maps m0 <> lock then "fail ComputeTimeLock differs from the BIP370 rule: " ^ lock_of_maps m0
          else if lock_of_maps m1 <> lock then "fail ComputeTimeLock of the decoded PSBT differs from the rule on its own re-encoding"
          else "ok")
     | ["err"; e] ->
       if tag = "gen" then "fail well-formed PSBT rejected: " ^ e
       else if tag = "dup" && e <> "dup" then "fail duplicate key not reported as such: " ^ e
       else "ok"
     | _ -> "fail malformed output")
  | ["merge"; ha; hb] ->
    (match words impl with
     | ["ok"; ab; ba; comb; a'] ->
       (match decode_all ha, decode_all hb with
        | Maps ma, Maps mb ->
          if lock_of_maps ma = "none" then
            (* conflicting locktime requirements: no unsigned transaction, GetUniqueID is empty and Merge refuses *)
            (if ab = "fail" && ba = "fail" && comb = "fail" then "ok" else "fail Merge accepted PSBTs whose locktime is undetermined")
          else if ab = "fail" || ba = "fail" || comb = "fail" then "fail Merge refused two PSBTs of the same transaction"
          else if comb <> ab then "fail CombinePSBTs differs from Merge"
          else if ha = hb && ab <> a' then "fail combining a PSBT with itself changed it"
          else (match decode_all ab, decode_all ba with
              | Maps mab, Maps mba ->
                (match check_merge ma mb mab "A.Merge(B)" with
                 | Some e -> "fail " ^ e
                 | None -> (match check_merge mb ma mba "B.Merge(A)" with
                     | Some e -> "fail " ^ e
                     | None ->
                       let compat = List.for_all2 (fun x y -> Model.compatible x y) ma mb in
                       if compat && ab <> ba then "fail no conflicting values but the result depends on the order" else "ok"))
              | _ -> "fail merged PSBT is malformed at the key-value level")
        | _ -> "na")
     | ["err"; _] -> "fail generated PSBT rejected"
     | _ -> "fail malformed output")
  | "lock" :: v :: fb :: pins ->
    let ps = pins_of pins in
    let positive = List.for_all (fun p ->
        (match p.Model.in_time with Some t -> Z.sign (zt_of_z t) > 0 | None -> true) &&
        (match p.Model.in_height with Some h -> Z.sign (zt_of_z h) > 0 | None -> true)) ps in
    if v <> "2" then (if impl = (match opt_z fb with Some f -> string_of_z f | None -> "0") then "ok" else "fail pre-v2 locktime is not the fallback")
    else if not positive then "na"
    else if show_lock (Model.timelock_spec ps (opt_z fb)) = impl then "ok"
    else "fail locktime differs from BIP370: " ^ show_lock (Model.timelock_spec ps (opt_z fb))
  | "final" :: _ ->
    (match words impl with
     | ["ok"; stripped; _; verify] ->
       if stripped <> "1" then "fail extracted transaction differs from the unsigned transaction beyond scriptSig/witness"
       else if verify <> "1" then "fail extracted transaction fails script verification against the spent outputs"
       else "ok"
     | _ -> "fail " ^ impl)
  | _ -> "na"

let () = main_loop ~model ~holds
