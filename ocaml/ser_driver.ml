(* Model side of the serialization / text codec checks (C48): extracted SerBase + SerTx + Codec. *)
open Conv
module M = Model

let err_s = function
  | M.EEof -> "EOF" | M.ETooLarge -> "LARGE" | M.ENonCanonical -> "NONCANON"
  | M.ESuperfluous -> "SUPERFLUOUS" | M.EUnknownOptional -> "UNKNOWNOPT" | M.EOther -> "OTHER"
let len l = string_of_int (List.length l)

(* ---- transactions as tokens:
   <ver> <lock> <nin> {<hash32> <n> <scriptSig> <seq> <nwit> {<item>}} <nout> {<value> <spk>} *)
let tx_tokens (t : M.tx) : string list =
  [string_of_z t.M.tx_version; string_of_z t.M.tx_locktime; string_of_int (List.length t.M.tx_vin)]
  @ List.concat_map (fun (i : M.txin) ->
      [hex_of_bytes i.M.in_hash; string_of_z i.M.in_n; hex_of_bytes i.M.in_script; string_of_z i.M.in_sequence;
       string_of_int (List.length i.M.in_witness)] @ List.map hex_of_bytes i.M.in_witness) t.M.tx_vin
  @ [string_of_int (List.length t.M.tx_vout)]
  @ List.concat_map (fun (o : M.txout) -> [string_of_z o.M.out_value; hex_of_bytes o.M.out_script]) t.M.tx_vout

let rec take n l = if n = 0 then ([], l) else match l with x :: r -> let (a, b) = take (n - 1) r in (x :: a, b) | [] -> failwith "short"

let tx_of_tokens (w : string list) : M.tx =
  match w with
  | ver :: lock :: nin :: r ->
    let rec ins k r acc =
      if k = 0 then (List.rev acc, r)
      else match r with
        | h :: n :: sc :: sq :: nw :: r' ->
          let (items, r'') = take (int_of_string nw) r' in
          ins (k - 1) r'' ({ M.in_hash = bytes_of_hex h; M.in_n = z_of_string n; M.in_script = bytes_of_hex sc;
                             M.in_sequence = z_of_string sq; M.in_witness = List.map bytes_of_hex items } :: acc)
        | _ -> failwith "bad txin"
    in
    let (vin, r1) = ins (int_of_string nin) r [] in
    (match r1 with
     | nout :: r2 ->
       let rec outs k r acc =
         if k = 0 then (List.rev acc, r)
         else match r with
           | v :: spk :: r' -> outs (k - 1) r' ({ M.out_value = z_of_string v; M.out_script = bytes_of_hex spk } :: acc)
           | _ -> failwith "bad txout"
       in
       let (vout, r3) = outs (int_of_string nout) r2 [] in
       if r3 <> [] then failwith "trailing tokens";
       { M.tx_version = z_of_string ver; M.tx_vin = vin; M.tx_vout = vout; M.tx_locktime = z_of_string lock }
     | _ -> failwith "bad tx")
  | _ -> failwith "bad tx"

let res_tx aw = function
  | M.Ok (t, rest) -> "ok " ^ String.concat " " (tx_tokens t) ^ " " ^ len rest ^ " " ^ hex_of_bytes (M.ser_tx aw t)
  | M.Err e -> "err " ^ err_s e
let res_z = function
  | M.Ok (v, rest) -> "ok " ^ string_of_z v ^ " " ^ len rest
  | M.Err e -> "err " ^ err_s e
let opt_bytes = function Some b -> "ok " ^ hex_of_bytes b | None -> "none"
let opt2_bytes = function Some (Some b) -> "ok " ^ hex_of_bytes b | Some None -> "assert" | None -> "none"

let model _ l = match words l with
  | ["cs"; n] ->
    let b = M.write_compact_size (z_of_string n) in
    hex_of_bytes b ^ " " ^ res_z (M.read_compact_size true b) ^ " " ^ res_z (M.read_compact_size false b)
  | ["dcs"; rc; h] -> res_z (M.read_compact_size (rc = "1") (bytes_of_hex h))
  | "tx" :: aw :: toks ->
    let t = tx_of_tokens toks in
    let b = M.ser_tx (aw = "1") t in
    hex_of_bytes b ^ " " ^ res_tx (aw = "1") (M.unser_tx (aw = "1") b)
  | ["dtx"; aw; h] -> res_tx (aw = "1") (M.unser_tx (aw = "1") (bytes_of_hex h))
  | ["dblock"; aw; h] ->
    (match M.unser_block (aw = "1") (bytes_of_hex h) with
     | M.Ok (b, rest) ->
       let hd = b.M.b_header in
       Printf.sprintf "ok %s %s %s %s %s %s %d %s %s" (string_of_z hd.M.h_version) (hex_of_bytes hd.M.h_prev) (hex_of_bytes hd.M.h_merkle)
         (string_of_z hd.M.h_time) (string_of_z hd.M.h_bits) (string_of_z hd.M.h_nonce) (List.length b.M.b_vtx) (len rest)
         (hex_of_bytes (M.ser_block (aw = "1") b))
     | M.Err e -> "err " ^ err_s e)
  | ["hex"; h] -> let s = M.hex_str (bytes_of_hex h) in hex_of_bytes s ^ " " ^ opt_bytes (M.try_parse_hex s)
  | ["dhex"; s] -> opt_bytes (M.try_parse_hex (bytes_of_hex s))
  | ["b64"; h] ->
    (match M.encode_base64 (bytes_of_hex h) with
     | Some s -> hex_of_bytes s ^ " " ^ opt_bytes (M.decode_base64 s) | None -> "none")
  | ["db64"; s] -> opt_bytes (M.decode_base64 (bytes_of_hex s))
  | ["b32"; pad; h] ->
    (match M.encode_base32 (pad = "1") (bytes_of_hex h) with
     | Some s -> hex_of_bytes s ^ " " ^ opt_bytes (M.decode_base32 s) | None -> "none")
  | ["db32"; s] -> opt_bytes (M.decode_base32 (bytes_of_hex s))
  | ["b58"; h] ->
    let b = bytes_of_hex h in
    (match M.encode_base58 b with
     | Some s -> hex_of_bytes s ^ " " ^ opt2_bytes (M.decode_base58 s (z_of_int (List.length b))) | None -> "assert")
  | ["db58"; maxlen; s] -> opt2_bytes (M.decode_base58 (bytes_of_hex s) (z_of_string maxlen))
  | ["money"; n] ->
    let s = M.format_money (z_of_string n) in
    hex_of_bytes s ^ " " ^ (match M.parse_money s with Some v -> "ok " ^ string_of_z v | None -> "none")
  | ["dmoney"; s] -> (match M.parse_money (bytes_of_hex s) with Some v -> "ok " ^ string_of_z v | None -> "none")
  | _ -> "BADCASE"

(* C48's own predicate on what the implementation returned.
   Encoder cases (cs tx hex b64 b32 b58): the implementation decoded its own encoding back to the
   input (for tx: to the same transaction, witnesses dropped when serialised without them; the
   empty-vin-with-outputs transaction is excluded when witnesses are allowed - proved ambiguity).
   Decoder cases: anything accepted must re-encode to the bytes that were consumed (canonical),
   and must be what the reference decoder returns; a difference from the reference is a failure. *)
let max_size = 33554432
let holds args c impl =
  let same () = if model args c = impl then "ok" else "fail differs from the reference format: expected " ^ model args c in
  match words c with
  | ["cs"; n] ->
    let nz = zt_of_string n in
    (match words impl with
     | [_; "ok"; v; "0"; "ok"; v2; "0"] when Z.leq nz (Z.of_int max_size) ->
       if v = n && v2 = n then "ok" else "fail compact size does not round trip"
     | [_; "err"; "LARGE"; "ok"; v2; "0"] when Z.gt nz (Z.of_int max_size) ->
       if v2 = n then "ok" else "fail compact size does not round trip"
     | _ -> "fail compact size does not round trip")
  | "tx" :: aw :: toks ->
    let t = tx_of_tokens toks in
    let awb = (aw = "1") in
    if awb && t.M.tx_vin = [] && t.M.tx_vout <> [] then "na"
    else
      let expect = tx_tokens (if awb then t else M.strip_witness t) in
      (match words impl with
       | _ :: "ok" :: r ->
         let n = List.length expect in
         if List.length r = n + 2 && fst (take n r) = expect && List.nth r n = "0" then "ok"
         else "fail transaction does not round trip"
       | _ -> "fail transaction not read back")
  | ["dblock"; aw; h] | ["dtx"; aw; h] ->
    (* canonical: the re-serialisation of what was accepted is the consumed prefix of the input *)
    (match words impl with
     | "ok" :: r ->
       let reser = List.nth r (List.length r - 1) and restlen = int_of_string (List.nth r (List.length r - 2)) in
       let hh = if h = "-" then "" else h in
       let consumed = String.sub hh 0 (String.length hh - 2 * restlen) in
       if (if reser = "-" then "" else reser) <> consumed then "fail accepted a non-canonical transaction encoding"
       else same ()
     | _ -> same ())
  | ["b32"; "0"; _] -> same ()     (* unpadded base32 is only decodable when its length is a multiple of 8 *)
  | ["hex"; h] | ["b64"; h] | ["b58"; h] | ["b32"; _; h] ->
    (match words impl with
     | [_; "ok"; back] -> if back = h then "ok" else "fail decode(encode(x)) <> x"
     | _ -> "fail decode(encode(x)) failed")
  | ["money"; n] ->
    let nz = zt_of_string n in
    if Z.lt nz Z.zero || Z.gt nz (Z.of_string "2100000000000000") then same ()
    else (match words impl with
        | [_; "ok"; back] -> if back = n then "ok" else "fail ParseMoney(FormatMoney(n)) <> n"
        | _ -> "fail ParseMoney(FormatMoney(n)) failed")
  | ("dcs" | "dhex" | "db64" | "db32" | "db58" | "dmoney") :: _ -> same ()
  | _ -> "na"

let () = main_loop ~model ~holds
