(* Model side of C65 (waitNext).  Case lines: see tie/drivers/waitnext_drv.cpp.
   model: the extracted machine (WaitNext.step) run on the case's events, the waiting thread reacting at once to
          notifications and interrupts and, at a `sleep`, to the mock clock having passed its tick / deadline.
   holds: the property's predicate (WaitNext.returned_ok) on what the implementation returned. *)
open Conv

let old_hash = 10
let parse line =
  match List.map String.trim (String.split_on_char ';' line) with
  | hd :: evs ->
    (match words hd with
     | ["wn"; t; th] -> ((if t = "inf" then None else Some (int_of_string t)), (if th = "max" then None else Some (Z.of_string th)), List.map words evs)
     | _ -> failwith "bad")
  | [] -> failwith "bad"

let rec quiesce p s n = if n = 0 then s else match Model.step p s Model.WStep with Some s' -> quiesce p s' (n - 1) | None -> s
let must p s a = match Model.step p s a with Some s' -> s' | None -> failwith "MODEL-DISABLED"

let model _ line =
  let (timeout, thr, evs) = parse line in
  let p = { Model.p_old = { Model.tm_prev = z_of_int old_hash; Model.tm_seq = z_of_int 0; Model.tm_fees = z_of_int 0 };
            Model.p_deadline = (match timeout with None -> None | Some t -> Some (z_of_int t));
            Model.p_threshold = (match thr with None -> Model.mAX_MONEY | Some z -> z_of_zt z);
            Model.p_allow_min_difficulty = true } in
  let tip0 = { Model.tp_seq = z_of_int 0; Model.tp_hash = z_of_int old_hash; Model.tp_time = z_of_int 5000 } in
  let s = ref (Model.start p (z_of_int 0) tip0 [] tip0 (z_of_int 0) false false) in
  let next_hash = ref 100 in
  let fees = ref 0 in
  List.iter (fun w ->
    if Model.(match (!s).w_phase with PhDone _ -> true | _ -> false) then () else
    match w with
    | [] -> ()
    | ["block"] ->
      incr next_hash;
      s := must p !s (Model.EActivate (z_of_int !next_hash, z_of_zt (Z.add (zt_of_z (!s).Model.e_clock) (Z.of_int 5000))));
      (* the driver's blocks are empty: the mempool, hence the fees of a new template, is unchanged *)
      s := must p !s Model.ENotify; s := quiesce p !s 10
    | ["tx"; f] -> fees := !fees + int_of_string f; s := must p !s (Model.EFees (z_of_int !fees))
    | ["time"; sec] -> s := must p !s (Model.ETime (z_of_int (1000 * int_of_string sec)))
    | ["sleep"; _] -> s := quiesce p !s 10
    | ["interrupt"] -> s := must p !s Model.EInterrupt; s := quiesce p !s 10
    | ["notifyrace"] ->
      s := must p !s (Model.EActivate (z_of_int 99, z_of_int 5000)); s := must p !s Model.ENotify;
      s := (match Model.step p !s Model.WStep with Some x -> x | None -> !s);
      s := must p !s (Model.EActivate (z_of_int old_hash, z_of_int 5000)); s := must p !s Model.ENotify;
      s := quiesce p !s 10
    | _ -> failwith "bad event") evs;
  s := quiesce p !s 10;
  match (!s).Model.w_phase with
  | Model.PhDone None -> "res=none same=0 ontip=0 fees=0"
  | Model.PhDone (Some t) ->
    Printf.sprintf "res=tmpl same=%d ontip=1 fees=%s" (if int_of_z t.Model.tm_prev = old_hash then 1 else 0) (string_of_z t.Model.tm_fees)
  | _ -> "HANG"

let field impl k =
  let pre = k ^ "=" in
  match List.find_opt (fun w -> String.length w > String.length pre && String.sub w 0 (String.length pre) = pre) (words impl) with
  | Some w -> String.sub w (String.length pre) (String.length w - String.length pre)
  | None -> failwith ("no field " ^ k)

let holds _ case impl =
  try
    if String.length impl >= 4 && String.sub impl 0 4 = "HANG" then "fail waitNext did not return (no timeout configured or not honoured)" else
    let (_, thr, _) = parse case in
    let f k = field impl k in
    let old_fees = z_of_string (f "old") in
    let thr_z = (match thr with None -> Model.mAX_MONEY | Some z -> z_of_zt z) in
    let interrupted = f "int" = "1" and late = f "late" = "1" in
    let changed = int_of_string (f "blocks") > 0 in
    let race = f "race" = "1" in
    let min20 = int_of_string (f "tipage") > 20 * 60 * 1000 in
    let r = if f "res" = "none" then None
            else Some ((if f "same" = "1" then z_of_int 10 else z_of_int 11), z_of_string (f "fees")) in
    let tip_now = (match r with Some (p, _) -> if f "ontip" = "1" then p else z_of_int 12 | None -> z_of_int 10) in
    if Model.returned_ok (z_of_int 10) old_fees thr_z min20 r tip_now interrupted late changed then "ok"
    else (match r with
          | None -> "fail nothing was returned although the wait was neither interrupted nor past its deadline"
          | Some (_, fees) -> if f "ontip" <> "1" then "fail the returned template is not built on the current tip"
                      else if race then "fail same-tip-after-connect-disconnect-race: a template on the old tip with fees " ^ string_of_z fees ^
                                        " (old " ^ f "old" ^ ") was returned regardless of the threshold: a block was connected and disconnected again before the waiter got cs_main"
                      else "fail a same-tip template was returned without the fee increase (and no tip change, no 20-minute rule)")
  with Failure m -> "fail unparsable: " ^ m

let () = main_loop ~model ~holds
