(* Model side of the signing check (C46).
   case:  sign <descriptor> avail=<mask> pubs=<mask> scripts=<0|1> pre=<mask> lt= seq= ver= amt= bogus=<mask> pol=<policy>
   For descriptors built from the standard templates (pk, pkh, wpkh, multi, sh(.), wsh(.)) the model runs the Gallina
   transcription of SignStep / ProduceSignature's dispatch and prints  complete=<solved> ss=<shape> wit=<shape>  (compared
   with the real code's output); for anything else it prints `*` (judged by `holds`).
   policy syntax (prefix, no spaces): pk<i> | older<n> | after<n> | sha<j> | and(a,b) | or(a,b) | thr<k>(a,b,..) | multi<k>(i,j,..) *)
open Conv

let get k l = try List.assoc k l with Not_found -> ""
let kvs (l : string list) =
  List.filter_map (fun t -> match String.index_opt t '=' with
      | Some i -> Some (String.sub t 0 i, String.sub t (i + 1) (String.length t - i - 1)) | None -> None) l

(* --- a tiny parser for f(a,b,..) expressions --- *)
type sexp = Node of string * sexp list
let parse_sexp (s : string) : sexp =
  let n = String.length s in
  let pos = ref 0 in
  let rec expr () =
    let st = !pos in
    while !pos < n && s.[!pos] <> '(' && s.[!pos] <> ')' && s.[!pos] <> ',' do incr pos done;
    let name = String.sub s st (!pos - st) in
    if !pos < n && s.[!pos] = '(' then begin
      incr pos;
      let args = ref [expr ()] in
      while !pos < n && s.[!pos] = ',' do incr pos; args := expr () :: !args done;
      if !pos < n && s.[!pos] = ')' then incr pos;
      Node (name, List.rev !args)
    end else Node (name, [])
  in expr ()

let key_of (s : string) : Model.nat =   (* "K3" or "3" *)
  let s = if String.length s > 0 && s.[0] = 'K' then String.sub s 1 (String.length s - 1) else s in
  nat_of_int (int_of_string s)

let rec tmpl_of (e : sexp) : Model.tmpl option =
  match e with
  | Node ("pk", [Node (k, [])]) -> Some (Model.TPK (key_of k))
  | Node ("pkh", [Node (k, [])]) -> Some (Model.TPKH (key_of k))
  | Node ("wpkh", [Node (k, [])]) -> Some (Model.TWPKH (key_of k))
  | Node ("multi", Node (m, []) :: ks) ->
    Some (Model.TMulti (nat_of_int (int_of_string m), List.map (function Node (k, []) -> key_of k | _ -> failwith "multi") ks))
  | Node ("sh", [x]) -> (match tmpl_of x with Some t -> Some (Model.TSH t) | None -> None)
  | Node ("wsh", [x]) -> (match tmpl_of x with Some t -> Some (Model.TWSH t) | None -> None)
  | _ -> None

let after_prefix p s = String.sub s (String.length p) (String.length s - String.length p)
let starts p s = String.length s >= String.length p && String.sub s 0 (String.length p) = p

let rec ms_of (e : sexp) : Model.ms =
  match e with
  | Node ("and", [a; b]) -> Model.MAnd (ms_of a, ms_of b)
  | Node ("or", [a; b]) -> Model.MOr (ms_of a, ms_of b)
  | Node (n, []) when starts "pk" n -> Model.MPk (nat_of_int (int_of_string (after_prefix "pk" n)))
  | Node (n, []) when starts "older" n -> Model.MOlder (z_of_string (after_prefix "older" n))
  | Node (n, []) when starts "after" n -> Model.MAfter (z_of_string (after_prefix "after" n))
  | Node (n, []) when starts "sha" n -> Model.MSha (nat_of_int (int_of_string (after_prefix "sha" n)))
  | Node (n, l) when starts "thr" n -> Model.MThresh (nat_of_int (int_of_string (after_prefix "thr" n)), List.map ms_of l)
  | Node (n, l) when starts "multi" n ->
    Model.MMulti (nat_of_int (int_of_string (after_prefix "multi" n)), List.map (function Node (k, []) -> nat_of_int (int_of_string k) | _ -> failwith "multi") l)
  | Node (n, _) -> failwith ("policy " ^ n)

type case = { desc : string; avail : int; pubs : int; scripts : bool; pre : int; tx : Model.txctx; bogus : int; pol : string }
let parse_case (l : string) : case =
  match words l with
  | "sign" :: d :: rest ->
    let o = kvs rest in
    let geti k dflt = match get k o with "" -> dflt | v -> int_of_string v in
    let getz k dflt = match get k o with "" -> z_of_string dflt | v -> z_of_string v in
    { desc = d; avail = geti "avail" 0; pubs = geti "pubs" 255; scripts = (get "scripts" o <> "0"); pre = geti "pre" 0;
      tx = { Model.tx_version = getz "ver" "2"; Model.tx_locktime = getz "lt" "0"; Model.tx_sequence = getz "seq" "4294967294" };
      bogus = geti "bogus" 0; pol = get "pol" o }
  | _ -> failwith "case"

let provider (c : case) : Model.provider =
  { Model.has_priv = (fun k -> (c.avail lsr (int_of_nat k)) land 1 = 1);
    Model.knows_pub = (fun k -> (c.pubs lsr (int_of_nat k)) land 1 = 1);
    Model.knows_scripts = c.scripts }

let elem_s = function
  | Model.ESig k -> "S" ^ string_of_int (int_of_nat k)
  | Model.EPub k -> "P" ^ string_of_int (int_of_nat k)
  | Model.EEmpty -> "0"
  | Model.EScript -> "R"
  | Model.EProg _ -> "?20"
let shape l = if l = [] then "-" else String.concat "," (List.map elem_s l)

let template_prediction (c : case) : string option =
  if c.bogus <> 0 then None else
  match tmpl_of (parse_sexp c.desc) with
  | None -> None
  | Some t ->
    let r = Model.produce (provider c) t in
    Some (Printf.sprintf "complete=%s ss=%s wit=%s" (string_of_bool01 r.Model.sr_solved) (shape r.Model.sr_ss) (shape r.Model.sr_wit))

let model _ l =
  let c = parse_case l in
  match template_prediction c with Some s -> s | None -> "*"

let holds _ case impl =
  let c = parse_case case in
  let o = kvs (words impl) in
  if get "complete" o = "" then "fail driver:" ^ impl else
  let complete = get "complete" o = "1" and vok = get "verify" o = "ok" in
  (* the verify field may contain spaces (an error message): it is the text between " verify=" and " ss=" *)
  let vok = vok || (try ignore (Str.search_forward (Str.regexp_string " verify=ok ss=") impl 0); true with Not_found -> false) in
  let field k = (* last token starting with k= *)
    List.fold_left (fun acc t -> if starts (k ^ "=") t then after_prefix (k ^ "=") t else acc) "" (words impl) in
  let ss = field "ss" and wit = field "wit" in
  let sig_keys = List.filter_map (fun t -> if starts "S" t then (try Some (int_of_string (after_prefix "S" t)) with _ -> None) else None)
      (String.split_on_char ',' ss @ String.split_on_char ',' wit) in
  let checks = [
    "complete-but-verification-fails", Model.report_ok complete vok;
    "return-value-differs-from-complete", (get "ret" o = get "complete" o);
    "signature-by-unavailable-key", List.for_all (fun k -> (c.avail lsr k) land 1 = 1) sig_keys;
    "template-dispatch-differs-from-model",
    (match template_prediction c with
     | Some s -> s = Printf.sprintf "complete=%s ss=%s wit=%s" (get "complete" o) ss wit
     | None -> true);
    "complete-although-policy-unsatisfiable",
    (c.pol = "" || not complete ||
     Model.ms_sat (provider c) (fun h -> (c.pre lsr (int_of_nat h)) land 1 = 1) c.tx (ms_of (parse_sexp c.pol)));
    "refused-although-policy-satisfiable",
    (c.pol = "" || complete || c.bogus <> 0 || not c.scripts ||
     not (Model.ms_sat (provider c) (fun h -> (c.pre lsr (int_of_nat h)) land 1 = 1) c.tx (ms_of (parse_sexp c.pol)))) ] in
  match List.filter (fun (_, ok) -> not ok) checks with
  | [] -> "ok"
  | l -> "fail " ^ String.concat "," (List.map fst l)

let () = main_loop ~model ~holds
