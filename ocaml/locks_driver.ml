(* Model side of the locks family (C05).  Case formats: see tie/drivers/locks_drv.cpp and locks_chain_drv.cpp. *)
open Conv

let b01 = string_of_bool01
let rec take k ws = if k = 0 then ([], ws) else match ws with
  | x :: r -> let (a, b) = take (k - 1) r in (x :: a, b)
  | [] -> failwith "short case"
let rec pairs k ws = if k = 0 then ([], ws) else match ws with
  | a :: b :: r -> let (l, rest) = pairs (k - 1) r in ((a, b) :: l, rest)
  | _ -> failwith "short case"
let mk_tx version locktime seqs = { Model.lt_version = z_of_string version; Model.lt_locktime = z_of_string locktime;
                                    Model.lt_seqs = List.map z_of_string seqs }

type case =
  | Final of Model.ltx * Model.z * Model.z
  | Mtp of Model.z list
  | Seqlock of Model.ltx * Model.z * Model.z list * Model.z list
  | Maturity of Model.z * Model.coin list
  | Blk of Model.z list * Model.z * Model.z * Model.ltx * Model.coin list   (* prev chain, csv height, block time, tx, coins *)

let parse l = match words l with
  | "final" :: version :: locktime :: height :: time :: n :: r ->
    let (seqs, _) = take (int_of_string n) r in
    Final (mk_tx version locktime seqs, z_of_string height, z_of_string time)
  | "mtp" :: n :: r -> let (ts, _) = take (int_of_string n) r in Mtp (List.map z_of_string ts)
  | "seqlock" :: version :: flags :: n :: r ->
    let (ts, r) = take (int_of_string n) r in
    (match r with
     | nin :: r ->
       let (ps, _) = pairs (int_of_string nin) r in
       Seqlock (mk_tx version "0" (List.map fst ps), z_of_string flags, List.map (fun (_, h) -> z_of_string h) ps, List.map z_of_string ts)
     | [] -> failwith "short case")
  | "maturity" :: spend :: nin :: r ->
    let (ps, _) = pairs (int_of_string nin) r in
    Maturity (z_of_string spend, List.map (fun (h, cb) -> { Model.c_height = z_of_string h; Model.c_coinbase = (cb <> "0") }) ps)
  | "blk" :: csv :: e :: r ->
    let (extra, r) = take (int_of_string e) r in
    (match r with
     | block_time :: version :: locktime :: nin :: r ->
       let rec ins k ws = if k = 0 then ([], ws) else match ws with
         | kind :: idx :: seq :: rest -> let (l, rest') = ins (k - 1) rest in ((kind, int_of_string idx, seq) :: l, rest')
         | _ -> failwith "short case" in
       let (inputs, r) = ins (int_of_string nin) r in
       (match r with
        | "base" :: nb :: r ->
          let (base, _) = take (int_of_string nb) r in
          let coins = List.map (fun (kind, k, _) ->
              if kind = "c" then { Model.c_height = z_of_int k; Model.c_coinbase = true }
              else { Model.c_height = z_of_int (100 + k); Model.c_coinbase = false }) inputs in
          Blk (List.map z_of_string (base @ extra), z_of_string csv, z_of_string block_time,
               mk_tx version locktime (List.map (fun (_, _, s) -> s) inputs), coins)
        | _ -> failwith "no base")
     | _ -> failwith "short case")
  | _ -> failwith "bad case"

let verdict_str = function
  | Some Model.V_ok -> "ok"
  | Some Model.V_nonfinal -> "bad-txns-nonfinal"
  | Some Model.V_premature -> "bad-txns-premature-spend-of-coinbase"
  | None -> "abort"

let heights chain = List.mapi (fun i _ -> z_of_int i) chain

let model _ l = match parse l with
  | Final (t, h, time) -> b01 (Model.is_final_tx t h time)
  | Mtp chain ->
    if chain = [] then "-" else
    String.concat " " (List.map (fun h -> match Model.mtp_at chain h with Some m -> string_of_z m | None -> "none") (heights chain))
  | Seqlock (t, flags, prev, chain) ->
    (match Model.calculate_sequence_locks t flags prev chain with
     | None -> "abort"
     | Some r ->
       (match Model.evaluate_sequence_locks chain r.Model.lr_height r.Model.lr_time, Model.sequence_locks t flags prev chain with
        | Some ev, Some sl ->
          String.concat " " ([string_of_z r.Model.lr_height; string_of_z r.Model.lr_time; b01 ev; b01 sl] @ List.map string_of_z r.Model.lr_prev)
        | _, _ -> "abort"))
  | Maturity (spend, coins) -> if Model.check_inputs_maturity spend coins then "ok" else "bad-txns-premature-spend-of-coinbase"
  | Blk (prev, csv, bt, t, coins) -> verdict_str (Model.connect_tx_verdict prev csv bt t coins)

(* the property's own predicate, evaluated on what the implementation returned *)
let holds _ c impl = match parse c with
  | Final (t, h, time) ->
    let s = b01 (Model.spec_final_b t h time) in
    if s = impl then "ok" else "fail IsFinalTx differs from the stated locktime rule, which gives " ^ s
  | Mtp chain ->
    if chain = [] then "na" else
    let ws = words impl in
    if List.length ws <> List.length chain then "fail malformed" else
    let bad = List.filter (fun (h, v) -> match Model.spec_mtp chain h with Some m -> string_of_z m <> v | None -> true)
        (List.combine (heights chain) ws) in
    (match bad with
     | [] -> "ok"
     | (h, v) :: _ -> "fail GetMedianTimePast at height " ^ string_of_z h ^ " returned " ^ v ^ " which is not the median of the last min(11,h+1) times")
  | Seqlock (t, flags, prev, chain) ->
    if impl = "abort" then "na" else
    if String.length impl >= 5 && String.sub impl 0 5 = "CRASH" then "fail the implementation aborted on an input in the specified domain" else
    let s = b01 (Model.spec_sequence_locks_b t flags prev chain) in
    (match words impl with
     | _ :: _ :: ev :: sl :: _ ->
       if ev = s && sl = s then "ok" else "fail SequenceLocks/EvaluateSequenceLocks differ from the BIP68 rule, which gives " ^ s
     | _ -> "fail malformed")
  | Maturity (spend, coins) ->
    let s = Model.spec_mature_b spend coins in
    if impl = "ok" then (if s then "ok" else "fail a coinbase output with fewer than 100 confirmations was accepted")
    else if impl = "bad-txns-premature-spend-of-coinbase" then (if s then "fail all coinbase inputs have at least 100 confirmations but the spend was rejected as premature" else "ok")
    else "fail unexpected verdict " ^ impl
  | Blk (prev, csv, bt, t, coins) ->
    let s = verdict_str (Model.spec_verdict prev csv bt t coins) in
    if s = impl then "ok" else "fail block verdict differs from the locktime / maturity / BIP68 rules, which give " ^ s

let () = main_loop ~model ~holds
