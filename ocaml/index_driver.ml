(* Model side of C21 parts B/C (CoinStatsIndex, TxIndex, BlockFilterIndex over BaseIndex).
   model mode: each line is  <case> || <transcript>  (the transcript recorded by tie/drivers/index_drv.cpp: blocks with
   undo data, notifications in delivery order, requests); the output is the observation line the implementation
   should have printed.   holds mode:  <case> => <observations>  judged by the property's predicate. *)
open Conv
let split_on_string sep s =
  let re = Str.regexp_string sep in Str.split_delim re s
let opt_hash s = if s = "-" then None else Some (bytes_of_hex s)
let split c s = if s = "" then [] else String.split_on_char c s

let parse_in s = match split '.' s with
  | [txid; n; value; script; height; cb] ->
    { Model.i_prevout = { Model.op_txid = bytes_of_hex txid; Model.op_n = z_of_string n };
      Model.i_coin = { Model.c_value = z_of_string value; Model.c_script = bytes_of_hex script;
                       Model.c_height = z_of_string height; Model.c_coinbase = (cb = "1") } }
  | _ -> failwith "bad input"
let parse_out s = match split '.' s with
  | [value; script] -> { Model.o_value = z_of_string value; Model.o_script = bytes_of_hex script }
  | _ -> failwith "bad output"
let parse_tx s = match String.split_on_char '~' s with
  | [txid; cb; ins; outs] ->
    { Model.t_txid = bytes_of_hex txid; Model.t_coinbase = (cb = "1");
      Model.t_ins = List.map parse_in (split '+' ins); Model.t_outs = List.map parse_out (split '+' outs) }
  | _ -> failwith "bad tx"
let parse_block s = match String.split_on_char ',' s with
  | [hash; prev; height; fh; txs] ->
    { Model.b_hash = bytes_of_hex hash; Model.b_prev = bytes_of_hex prev; Model.b_height = z_of_string height;
      Model.b_txs = List.map parse_tx (split ';' txs); Model.b_filter_hash = bytes_of_hex fh }
  | _ -> failwith "bad block"

let unknown_txid = n_of_int 1 :: List.init 31 (fun _ -> n_of_int 0)

let rec take k l = if k = 0 then [] else match l with [] -> [] | x :: r -> x :: take (k - 1) r
(* one transcript token -> events; `seen` = txids of the dumped blocks, newest first *)
let events_of_token (seen : Model.bytes list ref) (tok : string) : Model.sim_ev list =
  let key, v = match String.index_opt tok ':' with
    | Some i -> String.sub tok 0 i, String.sub tok (i + 1) (String.length tok - i - 1)
    | None -> tok, "" in
  match key with
  | "I" -> [Model.SvInterval (z_of_string v)]
  | "B" -> let b = parse_block v in
    List.iter (fun t -> seen := t.Model.t_txid :: !seen) b.Model.b_txs; [Model.SvBlock b]
  | "T" -> [Model.SvTip (opt_hash v)]
  | "L" -> [Model.SvLastFlushed (opt_hash v)]
  | "C" -> [Model.SvConnected (bytes_of_hex v)]
  | "F" -> [Model.SvFlushed (bytes_of_hex v)]
  | "start" -> [Model.SvStart (String.contains v 'c', String.contains v 't', String.contains v 'f')]
  | "stop" -> [Model.SvStop]
  | "Q" -> [Model.SvQuery (bytes_of_hex v)]
  | "X" -> [Model.SvTxQuery (List.rev (take 40 !seen) @ [unknown_txid])]
  | "R0" -> [Model.SvScratch false]
  | "R1" -> [Model.SvScratch true]
  | "ERR" -> failwith ("transcript error " ^ v)
  | _ -> failwith ("bad token " ^ tok)

(* The simulation is a fold of the pure extracted step function Model.sim_step.  Most cases share the
   fixture's first 101 blocks and start the indexes at once: the state reached after the first `start`
   token is remembered per distinct token prefix (a cache of a pure function's value, nothing else). *)
let prefix_cache : (string, Model.sim * Model.sim_out list * Model.bytes list) Hashtbl.t = Hashtbl.create 7
let run_tokens (toks : string list) : Model.sim_out list =
  let step (st, outs) ev = let (st', o) = Model.sim_step st ev in (st', outs @ o) in
  let feed seen acc tok = List.fold_left step acc (events_of_token seen tok) in
  let rec split_at_start acc = function
    | [] -> None
    | t :: r -> if String.length t >= 6 && String.sub t 0 6 = "start:" then Some (List.rev (t :: acc), r) else split_at_start (t :: acc) r in
  match split_at_start [] toks with
  | None -> let seen = ref [] in snd (List.fold_left (feed seen) (Model.sim0, []) toks)
  | Some (pre, rest) ->
    let key = String.concat " " pre in
    let (st, outs, seen0) =
      match Hashtbl.find_opt prefix_cache key with
      | Some v -> v
      | None ->
        let seen = ref [] in
        let (st, outs) = List.fold_left (feed seen) (Model.sim0, []) pre in
        Hashtbl.replace prefix_cache key (st, outs, !seen); (st, outs, !seen) in
    let seen = ref seen0 in
    snd (List.fold_left (feed seen) (st, outs) rest)

let hex256 z = let s = hex_of_z z in String.make (max 0 (64 - String.length s)) '0' ^ s
let b01 b = if b then "1" else "0"
let stats_str (v : Model.dbval) =
  String.concat "," [hex_of_bytes v.Model.v_muhash; string_of_z v.Model.v_txouts; string_of_z v.Model.v_bogo;
    string_of_z v.Model.v_amount; string_of_z v.Model.v_subsidy; hex256 v.Model.v_prevout_spent;
    hex256 v.Model.v_new_outputs; hex256 v.Model.v_coinbase; string_of_z v.Model.v_unsp_genesis;
    string_of_z v.Model.v_unsp_bip30; string_of_z v.Model.v_unsp_scripts; string_of_z v.Model.v_unsp_unclaimed]
let show_out = function
  | Model.OInitFail w -> (match int_of_z w with 0 -> "cs.initfail" | 1 -> "tx.initfail" | _ -> "bf.initfail")
  | Model.OQuery (h, fatal, cs, bf) ->
    "at=" ^ string_of_z h ^ " fatal=" ^ b01 fatal ^
    (match cs with None -> "" | Some (sy, v) ->
       " cs.synced=" ^ b01 sy ^ " cs=" ^ (match v with Some v -> stats_str v | None -> "none")) ^
    (match bf with None -> "" | Some (sy, v) ->
       " bf.synced=" ^ b01 sy ^ " bf=" ^ (match v with
         | Some v -> hex_of_bytes v.Model.fv_hash ^ "," ^ hex_of_bytes v.Model.fv_header
         | None -> "none,none"))
  | Model.OTx (sy, rs) ->
    let n = List.length rs in
    "tx.synced=" ^ b01 sy ^ " tx=" ^ String.concat "," (List.mapi (fun i r ->
      if i = n - 1 then (match r with Some _ -> "found" | None -> "none")
      else match r with Some h -> String.sub (hex_of_bytes h) 0 16 | None -> "none") rs)
  | Model.OScratch (s, fh, hd) ->
    "scr=" ^ (match s with
      | None -> "invalid-ledger"
      | Some s -> (if s.Model.us_hash = [] then "~" else hex_of_bytes s.Model.us_hash) ^ "," ^ string_of_z s.Model.us_txouts ^ ","
                  ^ string_of_z s.Model.us_bogo ^ "," ^ (match s.Model.us_amount with Some a -> string_of_z a | None -> "none"))
    ^ " bfscr=" ^ hex_of_bytes fh ^ "," ^ hex_of_bytes hd
  | Model.OBad -> "BAD"

let model _ l =
  match split_on_string " || " l with
  | [_case; tr] ->
    let outs = run_tokens (words tr) in
    if outs = [] then "-" else String.concat " ; " (List.map show_out outs)
  | _ -> "NOTRANSCRIPT"

(* the property's predicate on the implementation's observations: every index that is synced answers for the
   active block, and the answer equals the from-scratch recomputation made at the same point *)
let field k o =   (* value of " k=..." in an observation *)
  let ws = words o in
  List.fold_left (fun acc w ->
    let kl = String.length k + 1 in
    if String.length w >= kl && String.sub w 0 kl = k ^ "=" then Some (String.sub w kl (String.length w - kl)) else acc) None ws
let strip_tilde s = if String.length s > 0 && s.[0] = '~' then String.sub s 1 (String.length s - 1) else s
let judge_query o =
  if field "fatal" o = Some "1" then Some "fail fatal: an index aborted the node (FatalErrorf)"
  else if field "cs.synced" o = Some "0" || field "bf.synced" o = Some "0" then Some "fail not-synced: an index did not reach the tip"
  else if field "cs" o = Some "none" then Some "fail cs-missing: coinstats entry missing for an active block"
  else match field "bf" o with
    | Some s when List.mem "none" (String.split_on_char ',' s) -> Some "fail bf-missing: filter or filter header missing for an active block"
    | _ -> None
let judge_scratch q o scr =
  let cs_ok = match field "cs" q with
    | None -> true
    | Some cs ->
      (match String.split_on_char ',' cs, String.split_on_char ',' (strip_tilde scr) with
       | h :: n :: bogo :: amt :: _, [h'; n'; bogo'; amt'] -> h = h' && n = n' && bogo = bogo' && (amt' = "none" || amt = amt')
       | _ -> false) in
  let bf_ok = match field "bf" q, field "bfscr" o with
    | Some bf, Some bs -> bf = bs
    | None, _ -> true
    | _ -> false in
  if not cs_ok then Some "fail coinstats index differs from the from-scratch UTXO statistics"
  else if not bf_ok then Some "fail block filter index differs from the BIP157 chain recomputed from the active blocks"
  else None
(* the transaction index: every transaction of an active block is found with that block — judged against the
   model's recomputation in the correspondence; here: synced *)
let starts_with p s = String.length s >= String.length p && String.sub s 0 (String.length p) = p
let holds _ _c impl =
  let obs = List.map String.trim (split_on_string " ; " impl) in
  if starts_with "CRASH" impl || starts_with "EXC" impl then
    "fail crash: the index code aborted (assert / Assert / exception) instead of following the chain"
  else
  if List.exists (fun o -> o = "cs.initfail" || o = "tx.initfail" || o = "bf.initfail") obs then
    "fail restart-init: an index failed to initialise from its own database"
  else begin
    let last_q = ref None in
    let verdict = ref None in
    List.iter (fun o ->
      if !verdict = None then begin
        if field "at" o <> None then begin
          (match judge_query o with Some f -> verdict := Some f | None -> ());
          last_q := Some o
        end else match field "scr" o, !last_q with
          | Some scr, Some q -> (match judge_scratch q o scr with Some f -> verdict := Some f | None -> ())
          | _ -> if field "tx.synced" o = Some "0" then verdict := Some "fail not-synced: txindex did not reach the tip"
      end) obs;
    match !verdict with Some f -> f | None -> "ok"
  end
let () = main_loop ~model ~holds
