(* Model side of the TxRequest family (C34).
   model: runs the extracted implementation-level model (Model.step with Model.compute_priority).
   holds: runs the extracted announcement-level reference specification (Model.s_step) with the priority
          table THE IMPLEMENTATION REPORTED, and judges the implementation's observations against it:
          - preferred announcements outrank non-preferred ones (priority table);
          - after every operation GetRequestable's answer, the expired set, Size, Count/CountInFlight/
            CountCandidates of every peer and the candidate peers of every txhash equal the reference's. *)
open Conv

let hexz (z : Model.z) = Z.format "%x" (zt_of_z z)
let tx_of_string s = z_of_zt (Z.of_string ("0x" ^ s))

type pop = { o : Model.op; txt : string }

let split_ops (l : string) : string list list =
  let rec go cur acc = function
    | [] -> List.rev (List.rev cur :: acc)
    | ";" :: r -> go [] (List.rev cur :: acc) r
    | w :: r -> go (w :: cur) acc r
  in List.filter (fun o -> o <> []) (go [] [] (words l))

let parse_op (ws : string list) : Model.op =
  match ws with
  | ["inv"; p; h; w; pf; rt] ->
    Model.OpInv (z_of_string p, tx_of_string h, bool_of_string01 w, bool_of_string01 pf, z_of_string rt)
  | ["get"; p; now] -> Model.OpGet (z_of_string p, z_of_string now)
  | ["req"; p; h; e] -> Model.OpReq (z_of_string p, tx_of_string h, z_of_string e)
  | ["resp"; p; h] -> Model.OpResp (z_of_string p, tx_of_string h)
  | ["forget"; h] -> Model.OpForget (tx_of_string h)
  | ["disc"; p] -> Model.OpDisc (z_of_string p)
  | _ -> failwith "bad op"

let universe (ops : Model.op list) : Z.t list * Z.t list =
  let ps = ref [] and ts = ref [] in
  let addp p = ps := zt_of_z p :: !ps and addt h = ts := zt_of_z h :: !ts in
  List.iter (function
      | Model.OpInv (p, h, _, _, _) -> addp p; addt h
      | Model.OpGet (p, _) -> addp p
      | Model.OpReq (p, h, _) -> addp p; addt h
      | Model.OpResp (p, h) -> addp p; addt h
      | Model.OpForget h -> addt h
      | Model.OpDisc p -> addp p) ops;
  (List.sort_uniq Z.compare !ps, List.sort_uniq Z.compare !ts)

let fmt_out (o : Model.outp) : string =
  match o with
  | None -> ""
  | Some (r, ex) ->
    let rs = List.map (fun (h, w) -> hexz h ^ ":" ^ string_of_bool01 w) r in
    let es = List.sort compare
        (List.map (fun (p, (h, w)) -> string_of_z p ^ ":" ^ hexz h ^ ":" ^ string_of_bool01 w) ex) in
    " r=" ^ String.concat "," rs ^ " e=" ^ String.concat "," es

let fmt_state ~size ~count ~inflight ~cand ~cpeers (ps, ts) : string =
  let b = Buffer.create 256 in
  Buffer.add_string b (" S=" ^ string_of_z size);
  List.iter (fun p ->
      let pz = z_of_zt p in
      Buffer.add_string b (Printf.sprintf " P%s=%s,%s,%s" (Z.to_string p) (string_of_z (count pz))
                             (string_of_z (inflight pz)) (string_of_z (cand pz)))) ps;
  List.iter (fun h ->
      let hz = z_of_zt h in
      let cp = List.sort Z.compare (List.map zt_of_z (cpeers hz)) in
      Buffer.add_string b (" T" ^ Z.format "%x" h ^ "=" ^ String.concat "," (List.map Z.to_string cp))) ts;
  Buffer.contents b

(* the modelled SipHash runs on Coq's binary integers: memoised over the whole run *)
let prio_tbl : (Z.t * Z.t * bool, Model.z) Hashtbl.t = Hashtbl.create 1024
let memo_prio () =
  let tbl = prio_tbl in
  fun h p pf ->
    let k = (zt_of_z h, zt_of_z p, pf) in
    match Hashtbl.find_opt tbl k with
    | Some v -> v
    | None -> let v = Model.compute_priority h p pf in Hashtbl.add tbl k v; v

let prio_segment prio (ps, ts) : string =
  let b = Buffer.create 256 in
  Buffer.add_string b "prio";
  List.iter (fun h -> List.iter (fun p -> List.iter (fun pf ->
      Buffer.add_string b (Printf.sprintf " %s:%s:%s=%s" (Z.format "%x" h) (Z.to_string p) (string_of_bool01 pf)
                             (string_of_z (prio (z_of_zt h) (z_of_zt p) pf)))) [false; true]) ps) ts;
  Buffer.contents b

let model _ line =
  let ops = List.map parse_op (split_ops line) in
  let u = universe ops in
  let prio = memo_prio () in
  let b = Buffer.create 4096 in
  Buffer.add_string b (prio_segment prio u);
  let t = ref Model.t_empty in
  List.iter (fun o ->
      let (t1, out) = Model.step prio !t o in
      t := t1;
      Buffer.add_string b " |";
      Buffer.add_string b (fmt_out out);
      if t1.Model.t_bad then Buffer.add_string b " BAD";
      Buffer.add_string b (fmt_state ~size:(Model.tracker_size t1) ~count:(Model.count_total t1)
                             ~inflight:(Model.count_in_flight t1) ~cand:(Model.count_candidates t1)
                             ~cpeers:(Model.candidate_peers t1) u)) ops;
  Buffer.contents b

(* split the implementation's line into segments at " |" *)
let segments (s : string) : string list =
  List.map String.trim (Str.split_delim (Str.regexp_string " |") s)

let holds _ case impl =
  let opws = split_ops case in
  let ops = List.map parse_op opws in
  let u = universe ops in
  match segments impl with
  | [] -> "fail empty output"
  | pseg :: segs ->
    if String.length impl >= 5 && String.sub impl 0 5 = "CRASH" then "fail the tracker aborted (internal assert): " ^ impl else
    (* priority table as reported by the implementation *)
    let tbl = Hashtbl.create 64 in
    let okp = ref true in
    (match words pseg with
     | "prio" :: entries ->
       List.iter (fun e ->
           match String.split_on_char '=' e with
           | [k; v] ->
             (match String.split_on_char ':' k with
              | [h; p; pf] -> Hashtbl.replace tbl (Z.of_string ("0x" ^ h), Z.of_string p, pf = "1") (Z.of_string v)
              | _ -> okp := false)
           | _ -> okp := false) entries
     | _ -> okp := false);
    if not !okp then "fail malformed priority table" else
    let prio h p pf =
      match Hashtbl.find_opt tbl (zt_of_z h, zt_of_z p, pf) with
      | Some v -> z_of_zt v
      | None -> Model.compute_priority h p pf in
    (* clause: a preferred announcement always outranks a non-preferred one for the same txhash *)
    let (ps, ts) = u in
    let bad_pref = ref None in
    List.iter (fun h -> List.iter (fun p1 -> List.iter (fun p2 ->
        let hi = zt_of_z (prio (z_of_zt h) (z_of_zt p1) true) and lo = zt_of_z (prio (z_of_zt h) (z_of_zt p2) false) in
        if Z.leq hi lo && !bad_pref = None then
          bad_pref := Some (Printf.sprintf "tx %s: preferred peer %s priority %s <= non-preferred peer %s priority %s"
                              (Z.format "%x" h) (Z.to_string p1) (Z.to_string hi) (Z.to_string p2) (Z.to_string lo))) ps) ps) ts;
    (match !bad_pref with
     | Some m -> "fail preferred announcements must outrank non-preferred ones: " ^ m
     | None ->
       if List.length segs <> List.length ops then "fail malformed output (segment count)" else
       let s = ref Model.s_empty in
       let res = ref "ok" in
       let k = ref 0 in
       List.iter2 (fun (o, ow) seg ->
           incr k;
           if !res = "ok" then begin
             let (s1, out) = Model.s_step prio !s o in
             s := s1;
             let exp = String.trim (fmt_out out ^
                                    fmt_state ~size:(Model.s_size s1) ~count:(Model.s_count s1)
                                      ~inflight:(Model.s_count_in_flight s1) ~cand:(Model.s_count_candidates s1)
                                      ~cpeers:(Model.s_candidate_peers s1) u) in
             if exp <> seg then
               res := Printf.sprintf "fail op %d (%s): implementation shows [%s] but the announcement-level specification gives [%s]"
                   !k (String.concat " " ow) seg exp
           end) (List.combine ops opws) segs;
       !res)

let () = main_loop ~model ~holds
