(* Model side of the filter family (C51).  Hash Section variables instantiated with real
   implementations: SHA256d (merkle_sha256.ml), MurmurHash3 and SipHash-2-4 (filter_hashes.ml). *)
open Conv
open Merkle_sha256
open Filter_hashes

let deq (a : string) (b : string) = (a = b)
let h2 a b = sha256d (a ^ b)
let zero = String.make 32 '\000'
let dig s = let r = raw_of_hex s in if String.length r <> 32 then failwith "not 32 bytes" else r
let murmur (seed : Model.z) (key : string) : Model.z = z_of_int (murmur3 (int_of_z seed) key)
let zbytes_of_raw (s : string) : Model.z list = List.init (String.length s) (fun i -> z_of_int (Char.code s.[i]))
let raw_of_zbytes (l : Model.z list) : string = String.concat "" (List.map (fun b -> String.make 1 (Char.chr (int_of_z b))) l)
let b01 = string_of_bool01

(* ---- CPartialMerkleTree serialization (glue): uint32 nTransactions, vector<uint256>, vector<uchar> bits *)
let compact n =
  if n < 253 then String.make 1 (Char.chr n)
  else if n <= 0xffff then Printf.sprintf "\xfd%c%c" (Char.chr (n land 255)) (Char.chr (n lsr 8))
  else Printf.sprintf "\xfe%c%c%c%c" (Char.chr (n land 255)) (Char.chr ((n lsr 8) land 255)) (Char.chr ((n lsr 16) land 255)) (Char.chr ((n lsr 24) land 255))
let le32 n = Printf.sprintf "%c%c%c%c" (Char.chr (n land 255)) (Char.chr ((n lsr 8) land 255)) (Char.chr ((n lsr 16) land 255)) (Char.chr ((n lsr 24) land 255))
let bits_to_bytes (bits : bool list) : string =
  let n = List.length bits in
  let b = Bytes.make ((n + 7) / 8) '\000' in
  List.iteri (fun p v -> if v then Bytes.set b (p / 8) (Char.chr (Char.code (Bytes.get b (p / 8)) lor (1 lsl (p mod 8))))) bits;
  Bytes.to_string b
let bytes_to_bits (s : string) : bool list =
  List.init (8 * String.length s) (fun p -> (Char.code s.[p / 8]) land (1 lsl (p mod 8)) <> 0)
let ser_pmt (t : string Model.pmt) : string =
  le32 (int_of_z t.Model.pmt_ntx) ^ compact (List.length t.Model.pmt_hashes) ^ String.concat "" t.Model.pmt_hashes
  ^ (let by = bits_to_bytes t.Model.pmt_bits in compact (String.length by) ^ by)
let read_compact s pos =
  let c = Char.code s.[!pos] in
  incr pos;
  let rd k = let v = ref 0 in for i = k - 1 downto 0 do v := (!v lsl 8) lor Char.code s.[!pos + i] done; pos := !pos + k; !v in
  if c < 253 then c else if c = 253 then rd 2 else if c = 254 then rd 4 else rd 8
let deser_pmt (s : string) : string Model.pmt =
  let pos = ref 0 in
  let ntx = let v = ref 0 in (for i = 3 downto 0 do v := (!v lsl 8) lor Char.code s.[i] done; pos := 4; !v) in
  let nh = read_compact s pos in
  let hashes = List.init nh (fun i -> String.sub s (!pos + 32 * i) 32) in
  pos := !pos + 32 * nh;
  let nb = read_compact s pos in
  let by = String.sub s !pos nb in
  pos := !pos + nb;
  if !pos <> String.length s then failwith "trailing";
  { Model.pmt_ntx = z_of_int ntx; pmt_bits = bytes_to_bits by; pmt_hashes = hashes; pmt_bad = false }

let show_extract (r : string Model.extract_result) : string =
  match r with
  | Model.X_ok (root, ms) when root <> zero ->
    hex_of_raw root ^ " " ^ (if ms = [] then "-" else String.concat "," (List.map (fun (h, i) -> hex_of_raw h ^ ":" ^ string_of_z i) ms))
  | Model.X_model_error -> "MODEL-NONE -"
  | _ -> "fail -"

(* ---- bloom ops *)
let run_ops (type f) (ins : f -> string -> f) (con : f -> string -> bool option) (f0 : f) (ops : string list) : f * string =
  let f = ref f0 and res = Buffer.create 16 in
  List.iter (fun op ->
      let key = raw_of_hex (String.sub op 1 (String.length op - 1)) in
      if op.[0] = 'i' then f := ins !f key
      else (match con !f key with Some b -> Buffer.add_string res (b01 b) | None -> Buffer.add_string res "U")) ops;
  (!f, if Buffer.length res = 0 then "-" else Buffer.contents res)

let ceil_div a b = (a + b - 1) / b

let i64_of_u64 (z : Z.t) : int64 = if Z.geq z (Z.shift_left Z.one 63) then Z.to_int64 (Z.sub z (Z.shift_left Z.one 64)) else Z.to_int64 z

let gcs_parts p m k0 k1 ne rest =
  let pz = z_of_string p and mz = z_of_string m in
  let sip = (fun (e : string) -> z_of_zt (siphash (i64_of_u64 (Z.of_string k0)) (i64_of_u64 (Z.of_string k1)) e)) in
  let n = int_of_string ne in
  let els = List.filteri (fun i _ -> i < n) rest and qs = List.filteri (fun i _ -> i >= n) rest in
  (pz, mz, sip, List.map raw_of_hex els, List.map raw_of_hex qs)

let ob = function Some true -> "1" | Some false -> "0" | None -> "E"

let model _ l = match words l with
  | "pmt" :: mb :: txids ->
    let leaves = List.map dig txids in
    let ms = List.init (String.length mb) (fun i -> mb.[i] = '1') in
    (match Model.pmt_build h2 leaves ms, Model.compute_merkle_root_noflag deq h2 zero leaves with
     | Some t, Some r ->
       let ser = ser_pmt t in
       let t2 = deser_pmt ser in
       hex_of_raw ser ^ " " ^ show_extract (Model.pmt_extract deq h2 zero t2) ^ " " ^ hex_of_raw r
     | _ -> "MODEL-NONE")
  | ["pmtx"; ser] -> show_extract (Model.pmt_extract deq h2 zero (deser_pmt (raw_of_hex ser)))
  | "bloom" :: _ :: _ :: tweak :: _ :: size :: nhash :: ops ->
    let f0 = { Model.bl_data = List.init (int_of_string size) (fun _ -> Model.Z0); bl_nhash = z_of_string nhash; bl_tweak = z_of_string tweak } in
    let (f, res) = run_ops (Model.bloom_insert murmur) (Model.bloom_contains murmur) f0 ops in
    String.concat " " [size; nhash; res; hex_of_raw (raw_of_zbytes f.Model.bl_data)]
  | "bloomraw" :: data :: nhash :: tweak :: _ :: ops ->
    let raw = raw_of_hex data in
    let f0 = { Model.bl_data = zbytes_of_raw raw; bl_nhash = z_of_string nhash; bl_tweak = z_of_string tweak } in
    let (f, res) = run_ops (Model.bloom_insert murmur) (Model.bloom_contains murmur) f0 ops in
    String.concat " " [string_of_int (String.length raw); nhash; res; hex_of_raw (raw_of_zbytes f.Model.bl_data)]
  | "rolling" :: nel :: _ :: tweak :: dsize :: nhash :: ops ->
    let per = ceil_div (int_of_string nel) 2 in
    let f0 = { Model.rb_per_gen = z_of_int per; rb_this_gen = Model.Z0; rb_gen = z_of_int 1;
               rb_data = List.init (int_of_string dsize) (fun _ -> Model.Z0); rb_tweak = z_of_string tweak; rb_nhash = z_of_string nhash } in
    let (f, res) = run_ops (Model.rolling_insert murmur) (Model.rolling_contains murmur) f0 ops in
    let d = if int_of_string dsize <= 512 && f.Model.rb_data <> []
      then String.concat "" (List.map (fun w -> Z.format "%016x" (zt_of_z w)) f.Model.rb_data) else "-" in
    String.concat " " [dsize; nhash; string_of_int per; res; string_of_z f.Model.rb_gen; string_of_z f.Model.rb_this_gen; d]
  | "bitstream" :: items ->
    let its = List.map (fun it -> match String.split_on_char ':' it with [d; n] -> (z_of_string d, z_of_string n) | _ -> failwith "item") items in
    let w = List.fold_left (fun w (d, n) -> match w with Some w -> Model.bw_write w d n | None -> None) (Some Model.bw_init) its in
    (match w with
     | None -> "EXC"
     | Some w ->
       let out = (Model.bw_flush w).Model.bw_out in
       let r = ref (Some (Model.br_init out)) and vals = ref [] in
       List.iter (fun (_, n) -> match !r with
           | Some rd -> (match Model.br_read rd n with Some (v, rd') -> vals := string_of_z v :: !vals; r := Some rd' | None -> r := None)
           | None -> ()) its;
       if !r = None then "EXC" else
         hex_of_raw (raw_of_zbytes out) ^ " " ^ (if !vals = [] then "-" else String.concat "," (List.rev !vals)))
  | "golomb" :: p :: xs ->
    let pz = z_of_string p in
    let w = List.fold_left (fun w x -> match w with Some w -> Model.golomb_rice_encode w pz (z_of_string x) | None -> None) (Some Model.bw_init) xs in
    (match w with
     | None -> "EXC"
     | Some w ->
       let out = (Model.bw_flush w).Model.bw_out in
       let r = ref (Some (Model.br_init out)) and vals = ref [] in
       List.iter (fun _ -> match !r with
           | Some rd -> (match Model.golomb_rice_decode rd pz with Some (v, rd') -> vals := string_of_z v :: !vals; r := Some rd' | None -> r := None)
           | None -> ()) xs;
       if !r = None then "EXC" else
         hex_of_raw (raw_of_zbytes out) ^ " " ^ (if !vals = [] then "-" else String.concat "," (List.rev !vals)))
  | "gcs" :: p :: m :: k0 :: k1 :: ne :: rest ->
    let (pz, mz, sip, els, qs) = gcs_parts p m k0 k1 ne rest in
    (match Model.gcs_build sip pz mz els with
     | None -> "EXC"
     | Some g ->
       let n = List.length els in
       let stride = if n > 400 then n / 200 else 1 in
       let me = String.concat "" (List.map (fun e -> ob (Model.gcs_match sip pz g e)) (List.filteri (fun i _ -> i mod stride = 0) els)) in
       let mq = String.concat "" (List.map (fun e -> ob (Model.gcs_match sip pz g e)) qs) in
       let dedup = List.sort_uniq compare qs in
       String.concat " " [hex_of_raw (raw_of_zbytes (Model.gcs_encoded g)); (if me = "" then "-" else me); (if mq = "" then "-" else mq);
                          ob (Model.gcs_match_any sip pz g dedup)])
  | _ -> "BADCASE"

(* The property's own predicate on what the implementation returned:
   pmt    : the extracted root is the merkle root and the extracted list is exactly the matched txids with their positions
   bloom* : every contains() of a key inserted earlier in the sequence answered 1
   rolling: every contains() of one of the last nElements inserted keys answered 1
   gcs    : every element of the set matches; the encoding is the model's (= BIP158 definition)
   golomb/bitstream: the values read back are the values written (modulo 2^nbits) *)
let holds args c impl =
  let iw = words impl in
  match words c with
  | "pmt" :: mb :: txids ->
    let leaves = List.map dig txids in
    let ms = List.init (String.length mb) (fun i -> mb.[i] = '1') in
    (match iw, Model.compute_merkle_root_noflag deq h2 zero leaves with
     | [_; root; matches; _], Some r ->
       let want = Model.matched_from leaves ms Model.Z0 in
       let wants = if want = [] then "-" else String.concat "," (List.map (fun (h, i) -> hex_of_raw h ^ ":" ^ string_of_z i) want) in
       let distinct = List.length (List.sort_uniq compare leaves) = List.length leaves in
       if not distinct then "na"
       else if root <> hex_of_raw r then "fail extracted root is not the block's merkle root"
       else if matches <> wants then "fail extracted matches are not exactly the matched transactions"
       else "ok"
     | _ -> "fail malformed")
  | ("bloom" | "bloomraw" | "rolling") :: rest ->
    let (ops, window, results) = match words c, iw with
      | "bloom" :: _ :: _ :: _ :: _ :: _ :: _ :: ops, [_; _; res; _] -> (ops, max_int, res)
      | "bloomraw" :: _ :: _ :: _ :: _ :: ops, [_; _; res; _] -> (ops, max_int, res)
      | "rolling" :: nel :: _ :: _ :: _ :: _ :: ops, [_; _; _; res; _; _; _] -> (ops, int_of_string nel, res)
      | _ -> ([], 0, "?") in
    if results = "?" then "fail malformed" else begin
      let inserted = ref [] (* most recent first *) and k = ref 0 and bad = ref "" in
      List.iter (fun op ->
          let key = String.sub op 1 (String.length op - 1) in
          if op.[0] = 'i' then inserted := key :: !inserted
          else begin
            let recent = List.filteri (fun i _ -> i < window) !inserted in
            if List.mem key recent && !k < String.length results && results.[!k] <> '1' && !bad = "" then
              bad := "fail false negative for inserted key " ^ key;
            incr k
          end) ops;
      if !bad <> "" then !bad else "ok"
    end
  | "gcs" :: p :: m :: k0 :: k1 :: ne :: rest ->
    (match iw with
     | [enc; me; _; _] ->
       if String.contains me '0' then "fail an element of the set does not match its own filter"
       else if model args c <> impl then "fail encoding or match results differ from the BIP158 definition: " ^ model args c
       else "ok"
     | _ -> "fail malformed")
  | "golomb" :: _ :: xs ->
    (match iw with
     | [_; vals] -> if vals = (if xs = [] then "-" else String.concat "," xs) then "ok" else "fail decoded values differ from the encoded ones"
     | _ -> "fail malformed")
  | "bitstream" :: items ->
    (match iw with
     | [_; vals] ->
       let want = List.map (fun it -> match String.split_on_char ':' it with
           | [d; n] -> Z.to_string (Z.logand (Z.of_string d) (Z.pred (Z.shift_left Z.one (int_of_string n)))) | _ -> "?") items in
       if vals = (if want = [] then "-" else String.concat "," want) then "ok" else "fail bits read back differ from the bits written"
     | _ -> "fail malformed")
  | "pmtx" :: _ -> if model args c = impl then "ok" else "fail extraction differs from the model: " ^ model args c
  | _ -> "na"

let () = main_loop ~model ~holds
