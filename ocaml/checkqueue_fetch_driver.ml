(* Model side of C14's prevout fetcher.  Case lines: see tie/drivers/checkqueue_fetch_drv.cpp.
   The extracted machine (ConcFetch.fstep) is run under a pseudo-random schedule of worker steps seeded by the case;
   the validation thread's accesses go through a found-coins cache like CCoinsViewCache::FetchCoin. *)
open Conv

let rng_state = ref 1
let rnd k = rng_state := (!rng_state * 1103515245 + 12345) land 0x3fffffff; (!rng_state lsr 8) mod (max 1 k)

let op_of tok = let k = int_of_string (String.sub tok 1 (String.length tok - 1)) in
  match tok.[0] with 'c' -> k | 't' -> 100000 + k | _ -> failwith "bad"
let src_of tok = let k = int_of_string (String.sub tok 1 (String.length tok - 1)) in
  match tok.[0] with 'c' -> (-k - 1) | 't' -> k | _ -> failwith "bad"

let model _ line =
  match String.split_on_char '|' line with
  | [hd; txs; acc; pres] ->
    (match words hd with
     | ["fetch"; th; _reps] ->
       let threads = int_of_string th in
       rng_state := (Hashtbl.hash line) lor 1;
       let present = List.map int_of_string (words pres) in
       let base (o : Model.z) : Model.z option = let i = int_of_z o in if List.mem i present then Some (z_of_int (i + 1)) else None in
       let txl = List.filter (fun t -> String.trim t <> "") (String.split_on_char ';' txs) in
       let txspec = List.mapi (fun j t ->
         (z_of_int (j + 1), List.map (fun tok -> (z_of_int (src_of tok), z_of_int (op_of tok))) (String.split_on_char ',' (List.hd (words t))))) txl in
       let inputs = if threads > 0 then Model.block_inputs txspec [] else [] in
       let s = ref (Model.finit inputs (nat_of_int threads)) in
       let worker_acts () =
         List.concat (List.init threads (fun w -> let n = nat_of_int w in [Model.FClaim n; Model.FWrite n; Model.FReady n])) in
       let step_workers k =
         for _ = 1 to k do
           let en = List.filter (fun a -> Model.fstep base !s a <> None) (worker_acts ()) in
           if en <> [] then (match Model.fstep base !s (List.nth en (rnd (List.length en))) with Some s' -> s := s' | None -> ())
         done in
       let cache = Hashtbl.create 16 in
       let outs = List.map (fun tok ->
         let o = op_of tok in
         match Hashtbl.find_opt cache o with
         | Some v -> string_of_int v
         | None ->
           step_workers (rnd 4);
           let before = List.length (!s).Model.f_results in
           (match Model.fstep base !s (Model.FFetch (z_of_int o)) with Some s' -> s := s' | None -> failwith "MODEL-DISABLED");
           let guard = ref 0 in
           while List.length (!s).Model.f_results = before do
             incr guard; if !guard > 100000 then failwith "MODEL-STUCK";
             (match Model.fstep base !s Model.FRead with Some s' -> s := s' | None -> step_workers 1)
           done;
           if (!s).Model.f_bug then failwith "MODEL-BUG";
           (match List.nth (!s).Model.f_results before with
            | (_, Some v) -> Hashtbl.replace cache o (int_of_z v); string_of_z v
            | (_, None) -> "-")) (words acc) in
       let consumed = int_of_nat (!s).Model.f_tail = List.length inputs in
       String.concat " " outs ^ (if outs = [] then "" else " ") ^ "| untouched=1 consumed=" ^ (if consumed then "1" else "0")
     | _ -> "BADCASE")
  | _ -> "BADCASE"

let holds args c impl = if impl = model args c then "ok" else "fail the overlay answered differently from a direct lookup in the base view, touched the base cache, or depends on the schedule"

let () = main_loop ~model ~holds
