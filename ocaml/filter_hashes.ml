(* MurmurHash3 (x86_32) and SipHash-2-4 on strings, used to instantiate the hash Section variables
   of the extracted bloom / GCS models so that results compare bit for bit with the implementation. *)
let m32 = 0xFFFFFFFF
let rotl32 x r = ((x lsl r) lor (x lsr (32 - r))) land m32
(* 63-bit ints: the product of two 32-bit values may overflow, so multiply in two halves *)
let mul32 a b =
  let al = a land 0xFFFF and ah = a lsr 16 in
  ((al * b) + (((ah * b) land 0xFFFF) lsl 16)) land m32

let murmur3 (seed : int) (data : string) : int =
  let c1 = 0xcc9e2d51 and c2 = 0x1b873593 in
  let len = String.length data in
  let nblocks = len / 4 in
  let h1 = ref (seed land m32) in
  for i = 0 to nblocks - 1 do
    let k1 = ref (Char.code data.[4 * i] lor (Char.code data.[4 * i + 1] lsl 8)
                  lor (Char.code data.[4 * i + 2] lsl 16) lor (Char.code data.[4 * i + 3] lsl 24)) in
    k1 := mul32 !k1 c1; k1 := rotl32 !k1 15; k1 := mul32 !k1 c2;
    h1 := !h1 lxor !k1; h1 := rotl32 !h1 13; h1 := (mul32 !h1 5 + 0xe6546b64) land m32
  done;
  let tail = 4 * nblocks in
  let k1 = ref 0 in
  let r = len land 3 in
  if r >= 3 then k1 := !k1 lxor (Char.code data.[tail + 2] lsl 16);
  if r >= 2 then k1 := !k1 lxor (Char.code data.[tail + 1] lsl 8);
  if r >= 1 then begin
    k1 := !k1 lxor Char.code data.[tail];
    k1 := mul32 !k1 c1; k1 := rotl32 !k1 15; k1 := mul32 !k1 c2; h1 := !h1 lxor !k1
  end;
  h1 := !h1 lxor len;
  h1 := !h1 lxor (!h1 lsr 16); h1 := mul32 !h1 0x85ebca6b;
  h1 := !h1 lxor (!h1 lsr 13); h1 := mul32 !h1 0xc2b2ae35;
  h1 := !h1 lxor (!h1 lsr 16);
  !h1

(* SipHash-2-4 with Int64 arithmetic; result as an unsigned decimal-convertible Z.t *)
let siphash (k0 : int64) (k1 : int64) (data : string) : Z.t =
  let open Int64 in
  let rotl x b = logor (shift_left x b) (shift_right_logical x (64 - b)) in
  let v0 = ref (logxor 0x736f6d6570736575L k0) and v1 = ref (logxor 0x646f72616e646f6dL k1)
  and v2 = ref (logxor 0x6c7967656e657261L k0) and v3 = ref (logxor 0x7465646279746573L k1) in
  let round () =
    v0 := add !v0 !v1; v1 := rotl !v1 13; v1 := logxor !v1 !v0; v0 := rotl !v0 32;
    v2 := add !v2 !v3; v3 := rotl !v3 16; v3 := logxor !v3 !v2;
    v0 := add !v0 !v3; v3 := rotl !v3 21; v3 := logxor !v3 !v0;
    v2 := add !v2 !v1; v1 := rotl !v1 17; v1 := logxor !v1 !v2; v2 := rotl !v2 32 in
  let len = String.length data in
  let nw = len / 8 in
  for i = 0 to nw - 1 do
    let m = ref 0L in
    for j = 7 downto 0 do m := logor (shift_left !m 8) (of_int (Char.code data.[8 * i + j])) done;
    v3 := logxor !v3 !m; round (); round (); v0 := logxor !v0 !m
  done;
  let m = ref (shift_left (of_int (len land 0xff)) 56) in
  for j = (len land 7) - 1 downto 0 do
    m := logor !m (shift_left (of_int (Char.code data.[8 * nw + j])) (8 * j))
  done;
  v3 := logxor !v3 !m; round (); round (); v0 := logxor !v0 !m;
  v2 := logxor !v2 0xffL;
  round (); round (); round (); round ();
  let r = logxor (logxor !v0 !v1) (logxor !v2 !v3) in
  let z = Z.of_int64 r in
  if Z.sign z < 0 then Z.add z (Z.shift_left Z.one 64) else z
