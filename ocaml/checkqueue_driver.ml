(* Model side of C14 (check queue).  Case lines: see tie/drivers/checkqueue_drv.cpp.
   model: runs the extracted small-step machine (CheckQueue.step) under a pseudo-random scheduler seeded by the case
          line, <reps> times, and prints the same summary as the implementation driver.
   holds: the property's predicate on the implementation's summary: every returned value is allowed for the session's
          checks (CheckQueue.result_ok), in an all-pass session every check ran, no check ran twice. *)
open Conv

type sess = { batches : (int * int) list list (* (id, verdict) *); n : int }

let trim = String.trim
let parse line =
  let segs = String.split_on_char '|' line in
  match segs with
  | hd :: rest ->
    (match words hd with
     | ["cq"; w; b; r] ->
       let sessions = List.map (fun seg ->
         let id = ref 0 in
         let batches = List.map (fun b ->
           if trim b = "" then [] else
           List.map (fun v ->
             let t = trim v in
             let t = if String.length t > 0 && t.[String.length t - 1] = 's' then String.sub t 0 (String.length t - 1) else t in
             let x = (!id, int_of_string t) in incr id; x) (String.split_on_char ',' (trim b))) (String.split_on_char '/' (trim seg)) in
         { batches; n = !id }) rest in
       (int_of_string w, int_of_string b, int_of_string r, sessions)
     | _ -> failwith "bad")
  | [] -> failwith "bad"

(* a small deterministic PRNG (LCG) *)
let rng_state = ref 1
let rnd k = rng_state := (!rng_state * 1103515245 + 12345) land 0x3fffffff; (!rng_state lsr 8) mod (max 1 k)

let verdict_fun (tbl : (int, int) Hashtbl.t) (c : Model.z) : Model.z option =
  match Hashtbl.find_opt tbl (int_of_z c) with Some 0 | None -> None | Some v -> Some (z_of_int v)

let is_wait_unnotified (t : Model.thread) = match t.Model.t_pc with Model.PWait false -> true | _ -> false

(* run one session on state s: the master adds the batches and calls Complete; workers run whenever the scheduler picks them *)
let run_session bs v s (se : sess) =
  let s = ref s in
  let todo = ref (List.filter (fun b -> b <> []) se.batches) in
  let completing = ref false in
  let finished = ref false in
  let steps = ref 0 in
  let nw = List.length (!s).Model.q_workers in
  while not !finished do
    incr steps; if !steps > 200000 then failwith "MODEL-STUCK";
    (* candidate actions *)
    let cands = ref [] in
    let add a = if Model.enabled (nat_of_int bs) v !s a then cands := a :: !cands in
    for i = 0 to nw - 1 do
      let t = Some (nat_of_int i) in add (Model.AEnter t); add (Model.AWake t); add (Model.ARun t)
    done;
    (* the master's next move *)
    (match (!s).Model.q_master.Model.t_pc with
     | Model.PNew ->
       if not !completing then
         (match !todo with
          | b :: _ -> add (Model.AAdd (List.map (fun (id, _) -> z_of_int id) b))
          | [] -> add (Model.AEnter None))
     | Model.PPend false ->
       let waiting = List.filteri (fun _ t -> is_wait_unnotified t) (!s).Model.q_workers in
       if waiting = [] then add (Model.ANotifyOne None)
       else List.iteri (fun i t -> if is_wait_unnotified t then add (Model.ANotifyOne (Some (nat_of_int i)))) (!s).Model.q_workers
     | Model.PPend true -> add Model.ANotifyAll
     | _ -> add (Model.AEnter None); add (Model.AWake None); add (Model.ARun None));
    (match !cands with
     | [] -> failwith "MODEL-DEADLOCK"
     | l ->
       let a = List.nth l (rnd (List.length l)) in
       let before_ret = List.length (!s).Model.q_returned in
       (match Model.step (nat_of_int bs) v !s a with
        | Some s' ->
          (match a with
           | Model.AAdd _ -> todo := List.tl !todo
           | Model.AEnter None when (!s).Model.q_master.Model.t_pc = Model.PNew -> completing := true
           | _ -> ());
          s := s';
          if List.length s'.Model.q_returned > before_ret then finished := true
        | None -> failwith "MODEL-DISABLED"))
  done;
  !s

let summary k res emin emax dup n =
  Printf.sprintf "S%d:res=%s;evals=%d..%d;dup=%d;n=%d" k
    (String.concat "," (List.map (fun x -> if x = 0 then "-" else string_of_int x) (List.sort_uniq compare res))) emin emax dup n

let model _ line =
  let (workers, bs, reps, sessions) = parse line in
  rng_state := (Hashtbl.hash line) lor 1;
  let ns = List.length sessions in
  let res = Array.make ns [] and emin = Array.make ns max_int and emax = Array.make ns 0 and dup = Array.make ns 0 in
  let s = ref (Model.init (nat_of_int workers)) in
  for _ = 1 to min reps 20 do
    List.iteri (fun k se ->
      let tbl = Hashtbl.create 16 in
      List.iter (List.iter (fun (id, vd) -> Hashtbl.replace tbl id vd)) se.batches;
      let before = List.length (!s).Model.q_returned in
      s := run_session bs (verdict_fun tbl) !s se;
      let ((r, _added), evaluated) = List.nth (!s).Model.q_returned before in
      let ev = List.map int_of_z evaluated in
      let distinct = List.sort_uniq compare ev in
      res.(k) <- (match r with None -> 0 | Some z -> int_of_z z) :: res.(k);
      emin.(k) <- min emin.(k) (List.length distinct); emax.(k) <- max emax.(k) (List.length distinct);
      let maxdup = List.fold_left (fun m x -> max m (List.length (List.filter ((=) x) ev))) 0 distinct in
      dup.(k) <- max dup.(k) maxdup) sessions
  done;
  if ns = 0 then "-" else
  String.concat " " (List.mapi (fun k se -> summary (k + 1) res.(k) emin.(k) emax.(k) dup.(k) se.n) sessions)

(* ---- holds ---- *)
let holds _ case impl =
  let (_, _, _, sessions) = parse case in
  if sessions = [] then (if impl = "-" then "ok" else "fail unexpected output") else
  let toks = words impl in
  if List.length toks <> List.length sessions then "fail " ^ impl else
  let rec go k toks sess = match toks, sess with
    | [], [] -> "ok"
    | t :: tr, se :: sr ->
      (try
        Scanf.sscanf t "S%d:res=%[^;];evals=%d..%d;dup=%d;n=%d" (fun kk rs emin emax dup n ->
          let tbl = Hashtbl.create 16 in
          List.iter (List.iter (fun (id, vd) -> Hashtbl.replace tbl id vd)) se.batches;
          let v = verdict_fun tbl in
          let added = List.concat_map (List.map (fun (id, _) -> z_of_int id)) se.batches in
          let results = List.map (fun x -> if x = "-" then None else Some (z_of_int (int_of_string x))) (String.split_on_char ',' rs) in
          let all_pass = List.for_all (fun (_, vd) -> vd = 0) (List.concat se.batches) in
          if kk <> k || n <> se.n then Printf.sprintf "fail session %d: malformed summary" k
          else match List.find_opt (fun r -> not (Model.result_ok v added r)) results with
            | Some None -> Printf.sprintf "fail session %d: Complete() returned success although a check fails" k
            | Some (Some z) -> Printf.sprintf "fail session %d: Complete() returned %s, which is not the result of a failing check of this session" k (string_of_z z)
            | None ->
              if dup > 1 then Printf.sprintf "fail session %d: a check ran %d times" k dup
              else if all_pass && (emin <> se.n || emax <> se.n) then Printf.sprintf "fail session %d: Complete() returned before every check had run (%d..%d of %d)" k emin emax se.n
              else if emax > se.n then Printf.sprintf "fail session %d: more evaluations than checks" k
              else go (k + 1) tr sr)
      with Scanf.Scan_failure _ | Failure _ | End_of_file -> "fail unparsable summary " ^ t)
    | _ -> "fail summary length"
  in go 1 toks sessions

let () = main_loop ~model ~holds
