(* Model side of C57.  Case lines: see tie/drivers/assumevalid_drv.cpp. *)
open Conv

let hex64 z = let s = hex_of_z z in String.make (max 0 (64 - String.length s)) '0' ^ s
let z_of_hex h = z_of_string ("0x" ^ h)

let a_top = 2240 and b_top = 2300
let regtest_bits = z_of_string "0x207fffff"
let entry parent h = Some { Model.be_parent = parent; Model.be_height = z_of_int h; Model.be_work = z_of_int (2 * (h + 1)); Model.be_bits = regtest_bits }
(* ids: the fixture chain and the A headers are their heights; B<h> is 100000 + h *)
let index (id : Model.z) : Model.bentry option =
  let i = int_of_z id in
  if i >= 0 && i <= a_top then entry (if i = 0 then None else Some (z_of_int (i - 1))) i
  else if i >= 100101 && i <= 100000 + b_top then
    (let h = i - 100000 in entry (Some (z_of_int (if h = 101 then 100 else i - 1))) h)
  else None

let sel s =
  let h = int_of_string (String.sub s 1 (String.length s - 1)) in
  match s.[0] with
  | 'A' -> if h < 0 || h > a_top then failwith "bad" else z_of_int h
  | 'B' -> if h < 101 || h > b_top then failwith "bad" else z_of_int (100000 + h)
  | _ -> failwith "bad"

let cfg_of av best minwork =
  { Model.av_hash = (match av with "none" -> None | "unknown" -> Some (z_of_int 999999) | s -> Some (sel s));
    Model.av_min_work = z_of_hex minwork; Model.av_best_header = sel best;
    Model.av_spacing = Model.cp_target_spacing Model.chain_regtest }

let verdict_name = function
  | Model.VNotConfigured -> "assumevalid not configured" | Model.VNotInIndex -> "assumevalid hash not in the index"
  | Model.VNotAncestor -> "the block is not an ancestor of the assumevalid block" | Model.VNotBestChain -> "the block is not on the best header chain"
  | Model.VBelowMinWork -> "the best header has less than the minimum chain work" | Model.VTooRecent -> "at most two weeks of work on top of the block"
  | Model.VSkip -> "skip" | Model.VErr -> "error"

let model _ l = match words l with
  | ["proof"; b] -> hex64 (Model.bits_proof (z_of_string b))
  | ["ept"; t; f; b; s] ->
    (match Model.equiv_time (z_of_hex t) (z_of_hex f) (Model.bits_proof (z_of_string b)) (z_of_string s) with
     | Model.EptOk v -> string_of_z v | Model.EptDivZero -> "DIVZERO")
  | ["av"; av; best; mw] ->
    (match Model.script_check index (cfg_of av best mw) (z_of_int 101) with
     | Model.VSkip -> "skip" | Model.VErr -> "err" | _ -> "verify")
  | _ -> "BADCASE"

let holds args c impl = match words c with
  | ["av"; av; best; mw] ->
    if impl = "verify" then "ok"
    else if impl = "skip" then
      (if Model.skip_allowed index (cfg_of av best mw) (z_of_int 101) then "ok"
       else "fail an invalid-script block was accepted although " ^ verdict_name (Model.script_check index (cfg_of av best mw) (z_of_int 101)))
    else "fail unexpected outcome " ^ impl
  | _ -> if impl = model args c then "ok" else "fail the value differs from arith_uint256 arithmetic as specified"

let () = main_loop ~model ~holds
