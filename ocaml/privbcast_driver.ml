(* Model side of C39 (private broadcast queue).  case: "<max_tx> <max_send> ops.. ## <hints: the tx each pick returned>" *)
open Conv
let split_hints (l : string) : string * string list =
  let re = Str.regexp_string " ##" in
  match (try Some (Str.search_forward re l 0) with Not_found -> None) with
  | Some i -> (String.sub l 0 i, words (String.sub l (i + 3) (String.length l - i - 3)))
  | None -> (l, [])
let sz = string_of_z
let run (line : string) : string list * string * bool =
  let (script, hints) = split_hints line in
  let hints = ref hints in
  let hint () = match !hints with h :: r -> hints := r; int_of_string h | [] -> -1 in
  match words script with
  | mt :: ms :: ops ->
    let max_tx = z_of_string mt and max_send = z_of_string ms in
    let ws = ref ops in
    let next () = match !ws with w :: r -> ws := r; w | [] -> failwith "short" in
    let nz () = z_of_string (next ()) in
    let pb = ref [] in
    let now = ref (z_of_int 1700000000) in
    let out = ref [] in
    let picks_ok = ref true in
    let emit s = out := s :: !out in
    while !ws <> [] do
      (match next () with
       | "t" -> now := nz (); emit "-"
       | "add" -> let (pb', r) = Model.pb_add max_tx max_send !pb (nz ()) !now in pb := pb'; emit (sz r)
       | "rm" -> let (pb', r) = Model.pb_remove !pb (nz ()) in pb := pb'; emit (match r with Some n -> sz n | None -> "none")
       | "pick" ->
         let node = nz () in
         let choice = hint () in
         (* the implementation's choice must be one of the maxima (or "none" exactly when the model says so) *)
         let cands = List.map int_of_z (Model.pick_candidates max_send !pb) in
         let (pb', r) = Model.pb_pick max_send !pb node node !now (z_of_int choice) in
         (match r with
          | Some tx -> if choice >= 0 && not (List.mem choice cands) then picks_ok := false; ignore tx
          | None -> ());
         pb := pb'; emit (match r with Some tx -> sz tx | None -> "none")
       | "get" -> emit (match Model.pb_tx_for_node !pb (nz ()) with Some tx -> sz tx | None -> "none")
       | "conf" -> pb := Model.pb_confirm !pb (nz ()) !now; emit "-"
       | "did" -> emit (if Model.pb_did_confirm !pb (nz ()) then "1" else "0")
       | "pend" -> emit (if Model.pb_have_pending max_send !pb then "1" else "0")
       | "stale" ->
         let l = List.sort compare (List.map int_of_z (Model.pb_stale max_send !pb !now (z_of_int 300) (z_of_int 60))) in
         emit (if l = [] then "none" else String.concat "," (List.map string_of_int l))
       | o -> failwith ("bad op " ^ o))
    done;
    let dump =
      String.concat ""
        (List.map (fun e ->
             Printf.sprintf " %s:%s:%s:[%s]" (sz e.Model.t_tx) (sz e.Model.t_added) (sz (Model.attempts_remaining max_send e))
               (String.concat "" (List.map (fun s -> Printf.sprintf "%s,%s,%s;" (sz s.Model.ss_addr) (sz s.Model.ss_picked)
                                               (match s.Model.ss_confirmed with Some t -> sz t | None -> "-")) e.Model.t_stats)))
            (List.sort (fun a b -> compare (int_of_z a.Model.t_tx) (int_of_z b.Model.t_tx)) !pb)) in
    (List.rev !out, dump, !picks_ok)
  | _ -> failwith "bad case"
let model _ line = let (o, d, _) = run line in String.concat " " o ^ " |" ^ d
(* the property's predicate on what the implementation did: every pick is a pending transaction of maximal priority for a node not
   served before; the queue never exceeds max_transactions; no transaction has more than max_send_attempts send statuses *)
let holds _ case impl =
  if String.length impl >= 5 && (String.sub impl 0 5 = "CRASH" || String.sub impl 0 3 = "EXC") then "fail the implementation aborted: " ^ impl
  else
    let (script, _) = split_hints case in
    match words script with
    | mt :: ms :: _ ->
      let max_tx = int_of_string mt and max_send = int_of_string ms in
      let (mo, _, picks_ok) = run case in
      let parts = Str.bounded_split_delim (Str.regexp_string " |") impl 2 in
      let (front, dump) = match parts with [a; b] -> (a, b) | [a] -> (a, "") | _ -> ("", "") in
      let entries = words dump in
      if not picks_ok then "fail PickTxForSend returned a transaction that is not a pending transaction of maximal priority"
      else if List.length entries > max_tx then "fail more than max_transactions entries in the queue"
      else if List.exists (fun e -> match String.split_on_char '[' e with
          | [_; sts] -> List.length (List.filter (fun x -> x <> "" && x <> "]") (String.split_on_char ';' sts)) > max_send
          | _ -> false) entries then "fail a transaction was picked more than max_send_attempts times since it was (re-)added"
      else if words front <> mo then
        (* results of the queries (one tx per node, confirmation flags, staleness) are determined by the state *)
        "fail results differ from the specification"
      else "ok"
    | _ -> "fail bad case"
let () = main_loop ~model ~holds
