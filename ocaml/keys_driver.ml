(* Model side of the keys family (C45): bech32 / base58check / addresses / BIP32 on the extracted model. *)
open Conv
module M = Model

let hx = hex_of_bytes
let unhx = bytes_of_hex
let nat = nat_of_int
let chain i = List.nth M.keyio_chains (int_of_string i)
let enc_of = function "1" -> M.BECH32 | _ -> M.BECH32M
let enc_str = function M.BECH32 -> "1" | M.BECH32M -> "2"

let dec_str = function
  | M.DecOk (e, hrp, data) -> enc_str e ^ " " ^ hx hrp ^ " " ^ hx data
  | M.DecInvalid -> "inv"
  | M.DecRevOOB -> "OOB"

let rec subst s = function
  | p :: c :: r ->
    let p = int_of_string p in
    let s' = List.mapi (fun i x -> if i = p then n_of_int (int_of_string c) else x) s in
    subst s' r
  | _ -> s

let dest_str = function
  | M.DNone -> "none -"
  | M.DPubKey -> "pubkey -"
  | M.DPKHash h -> "pkh " ^ hx h
  | M.DScriptHash h -> "sh " ^ hx h
  | M.DWSH h -> "wsh " ^ hx h
  | M.DWPKH h -> "wpkh " ^ hx h
  | M.DTaproot h -> "tr " ^ hx h
  | M.DAnchor -> "anchor -"
  | M.DWitUnknown (v, p) -> "wit" ^ string_of_n v ^ " " ^ hx p

let err_str = function
  | M.E_ok -> "ok" | M.E_b58_len -> "b58len" | M.E_b58_unsupported -> "b58unsup" | M.E_not_b58 -> "notb58"
  | M.E_b58_checksum -> "b58sum" | M.E_empty -> "empty" | M.E_hrp -> "hrp" | M.E_v0_needs_bech32 -> "v0m"
  | M.E_v1_needs_bech32m -> "v1b" | M.E_v0_size -> "v0size" | M.E_version -> "version" | M.E_size -> "size"
  | M.E_padding -> "padding" | M.E_bech32 -> "bech32" | M.E_assert -> "ASSERT"

let dest_of ty h =
  let b = unhx h in
  match ty with
  | "pkh" -> M.DPKHash b | "sh" -> M.DScriptHash b | "wpkh" -> M.DWPKH b | "wsh" -> M.DWSH b
  | "tr" -> M.DTaproot b | "anchor" -> M.DAnchor | "none" -> M.DNone
  | _ -> M.DWitUnknown (n_of_string (String.sub ty 3 (String.length ty - 3)), b)

let decode_on c s = let (d, e) = M.addr_decode (List.nth M.keyio_chains c) s in dest_str d ^ " " ^ err_str e

(* ---- BIP32 ---- *)
let enc_prv = function Some k -> hx (M.bip32_encode_prv k) | None -> "invalid"
let enc_pub = function Some k -> hx (M.bip32_encode_pub k) | None -> "invalid"
let hardened i = Z.geq (Z.of_string i) (Z.of_string "2147483648")
let idx i = z_of_zt (Z.logand (Z.of_string i) (Z.of_string "4294967295"))

let xkey_line c kind code =
  let kp = chain c in
  let prefix k = if kind = "prv" then k.M.kp_xprv else k.M.kp_xpub in
  let valid = if kind = "prv" then M.bip32_decode_prv code <> None else M.bip32_decode_pub code <> None in
  if not valid then "invalid" else
  let reenc = if kind = "prv" then enc_prv (M.bip32_decode_prv code) else enc_pub (M.bip32_decode_pub code) in
  match M.xkey_encode (prefix kp) (unhx reenc) with
  | M.AddrAssert -> "ASSERT"
  | M.AddrStr s ->
    String.concat " " (hx s :: List.map (fun k ->
        match M.xkey_decode (prefix k) s with
        | Some code' -> if kind = "prv" then enc_prv (M.bip32_decode_prv code') else enc_pub (M.bip32_decode_pub code')
        | None -> "invalid") M.keyio_chains)

let wif_line c key32 comp =
  if not (M.ec_seckey_verify key32) then "invalid" else
  match M.wif_encode (chain c) key32 comp with
  | M.AddrAssert -> "ASSERT"
  | M.AddrStr s ->
    String.concat " " (hx s :: List.map (fun k ->
        match M.wif_decode k s with
        | Some (kb, cmp) when M.ec_seckey_verify kb -> hx kb ^ (if cmp then "/1" else "/0")
        | _ -> "invalid") M.keyio_chains)

let model _ l = match words l with
  | ["seed"; s] ->
    let sd = unhx s in
    let n = List.length sd in
    if n < 16 || n > 64 then "PRE" else
    (match M.bip32_set_seed sd with
     | Some k -> enc_prv (Some k) ^ " " ^ enc_pub (Some (M.bip32_neuter k))
     | None -> "invalid invalid")
  | ["extdec"; "prv"; c] -> enc_prv (M.bip32_decode_prv (unhx c))
  | ["extdec"; "pub"; c] -> enc_pub (M.bip32_decode_pub (unhx c))
  | ["ckd"; c; i] ->
    (match M.bip32_decode_prv (unhx c) with
     | None -> "invalidparent"
     | Some k ->
       let child = M.bip32_ckd_priv k (idx i) in
       let out = match child with
         | Some ck -> enc_prv child ^ " " ^ enc_pub (Some (M.bip32_neuter ck))
         | None -> "fail fail" in
       if hardened i then out ^ " hardened"
       else out ^ " " ^ (match M.bip32_ckd_pub (M.bip32_neuter k) (idx i) with Some pc -> enc_pub (Some pc) | None -> "fail"))
  | ["ckdpub"; c; i] ->
    (match M.bip32_decode_pub (unhx c) with
     | None -> "invalidparent"
     | Some k -> if hardened i then "PRE" else
         (match M.bip32_ckd_pub k (idx i) with Some pc -> enc_pub (Some pc) | None -> "fail"))
  | "path" :: s :: is ->
    let sd = unhx s in
    let n = List.length sd in
    if n < 16 || n > 64 then "PRE" else
    (match M.bip32_set_seed sd with
     | None -> "invalid invalid"
     | Some k ->
       let rec go k acc = function
         | [] -> List.rev acc
         | i :: r -> (match M.bip32_ckd_priv k (idx i) with
             | None -> List.rev ("fail" :: acc)
             | Some c -> go c ((enc_prv (Some c) ^ " " ^ enc_pub (Some (M.bip32_neuter c))) :: acc) r) in
       String.concat " " (go k [enc_prv (Some k) ^ " " ^ enc_pub (Some (M.bip32_neuter k))] is))
  | ["xkey"; c; kind; code] -> xkey_line c kind (unhx code)
  | ["wif"; c; k; comp] -> wif_line c (unhx k) (comp = "1")
  | "b32enc" :: e :: hrp :: vals :: [] ->
    (match M.encode (enc_of e) (unhx hrp) (unhx vals) with
     | M.EncOk s -> hx s | _ -> "PRE")
  | "b32sub" :: e :: hrp :: vals :: subs ->
    (match M.encode (enc_of e) (unhx hrp) (unhx vals) with
     | M.EncOk s -> let s' = subst s subs in hx s' ^ " " ^ dec_str (M.bech32_decode s')
     | _ -> "PRE")
  | ["b32dec"; s] -> dec_str (M.bech32_decode (unhx s))
  | ["cbits"; "85"; h] -> (match M.convert_bits (n_of_int 8) (n_of_int 5) true (unhx h) with Some o -> hx o | None -> "fail")
  | ["cbits"; "58"; h] -> (match M.convert_bits (n_of_int 5) (n_of_int 8) false (unhx h) with Some o -> hx o | None -> "fail")
  | ["b58enc"; h] -> (match M.encode_base58 (unhx h) with M.B58Str s -> hx s | M.B58EncAssert -> "ASSERT")
  | ["b58cenc"; h] -> (match M.b58check_encode (unhx h) with M.B58Str s -> hx s | M.B58EncAssert -> "ASSERT")
  | ["b58dec"; s; mx] -> (match M.decode_base58 (unhx s) (n_of_string mx) with M.B58Bytes b -> hx b | M.B58False -> "false" | M.B58DecAssert -> "ASSERT")
  | ["b58cdec"; s; mx] -> (match M.b58check_decode (unhx s) (n_of_string mx) with M.B58Bytes b -> hx b | M.B58False -> "false" | M.B58DecAssert -> "ASSERT")
  | ["addr"; c; ty; h] ->
    (match M.addr_encode (chain c) (dest_of ty h) with
     | M.AddrAssert -> "ASSERT"
     | M.AddrStr s -> String.concat " | " (hx s :: List.map (fun k -> decode_on k s) [0; 1; 2; 3; 4]))
  | ["addrdec"; c; s] -> decode_on (int_of_string c) (unhx s)
  | _ -> "BADCASE"

(* split "a | b | c" *)
let split_bar s = List.map String.trim (Str.split (Str.regexp_string " | ") s)

let same_kind_prefix ty a b = match ty with
  | "pkh" -> a.M.kp_pubkey = b.M.kp_pubkey
  | "sh" -> a.M.kp_script = b.M.kp_script
  | _ -> a.M.kp_hrp = b.M.kp_hrp

(* the property's own predicate, evaluated on what the implementation returned *)
let holds args c impl =
  let expect_model () = if model args c = impl then "ok" else "fail differs-from-spec: implementation output differs from the proved specification value" in
  match words c with
  | "b32enc" :: e :: hrp :: vals :: [] ->
    let h = unhx hrp in
    let in_domain = h <> [] && List.for_all (fun c -> let c = int_of_n c in c >= 33 && c <= 126) h
                    && List.length h + 7 + List.length (unhx vals) <= int_of_nat M.bech32_limit in
    if impl = "PRE" then "na"
    else if not in_domain then expect_model ()
    else (* decode (encode x) = x, judged by the specification decoder on the implementation's string *)
      (match M.bech32_decode (unhx impl) with
       | M.DecOk (e', hrp', d') when e' = enc_of e && hrp' = unhx hrp && d' = unhx vals -> expect_model ()
       | _ -> "fail bech32-roundtrip: the encoded string does not decode to (encoding, hrp, data)")
  | "b32sub" :: e :: hrp :: vals :: subs ->
    if impl = "PRE" then "na" else
    (match M.encode (enc_of e) (unhx hrp) (unhx vals) with
     | M.EncOk s ->
       let s' = subst s subs in
       let ndiff = List.length (List.filter (fun (a, b) -> M.lower_case a <> M.lower_case b) (List.combine s s')) in
       (match words impl with
        | [_; en; _; _] when ndiff >= 1 && ndiff <= 4 && en = e ->
          "fail bech32-substitution: a string with " ^ string_of_int ndiff ^ " substituted characters passes the checksum it was encoded with"
        | _ -> expect_model ())
     | _ -> "na")
  | ["cbits"; "85"; h] ->
    (* 8 -> 5 with padding then 5 -> 8 without is the identity *)
    (match M.convert_bits (n_of_int 5) (n_of_int 8) false (unhx impl) with
     | Some o when o = unhx h -> expect_model ()
     | _ -> if impl = "fail" then "fail convertbits: 8->5 with padding failed" else "fail convertbits-roundtrip: 5->8 of the 8->5 output is not the input")
  | ["b58enc"; h] ->
    (match M.decode_base58 (unhx impl) (n_of_int 100000) with
     | M.B58Bytes b when b = unhx h -> expect_model ()
     | _ -> "fail base58-roundtrip: the encoded string does not decode to the input")
  | ["b58cenc"; h] ->
    (match M.b58check_decode (unhx impl) (n_of_int 100000) with
     | M.B58Bytes b when b = unhx h -> expect_model ()
     | _ -> "fail base58check-roundtrip: the encoded string does not decode to the payload")
  | ["addr"; ci; ty; h] ->
    let d = dest_of ty h in
    let kp = chain ci in
    (match split_bar impl with
     | s :: decs when List.length decs = 5 ->
       if not (M.dest_wf d) then expect_model ()
       else begin
         let bad = ref "" in
         List.iteri (fun k out ->
             let own = (k = int_of_string ci) in
             let want = dest_str d ^ " ok" in
             if own && out <> want then bad := "fail address-roundtrip: decoding the address on its own network gives " ^ out
             else if (not own) && out = want && not (same_kind_prefix ty kp (List.nth M.keyio_chains k)) then
               bad := "fail address-cross-network: decoded on network " ^ string_of_int k ^ " which has a different prefix"
             else if (not own) && out <> want && (match words out with "none" :: _ -> false | _ -> true) then
               bad := "fail address-cross-network: decodes to a different destination on network " ^ string_of_int k)
           decs;
         if !bad <> "" then !bad else expect_model ()
       end
     | _ -> "fail malformed")
  | _ -> expect_model ()

let () = main_loop ~model ~holds
