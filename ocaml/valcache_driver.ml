(* Model side of C13 (validation caches).
   Case lines:
     cuckoo <size> {i<hex32>|c<hex32>|e<hex32>}*
         one CuckooCache::cache<uint256, SignatureCacheHasher> of <size> elements; i = insert, c = contains(e, false),
         e = contains(e, true).  Output: one character per operation (1/0 for contains, '.' for insert), then the final
         table / collection flags / epoch flags / epoch counter.
     hist <script-cache-elems> <sig-cache-elems> <ntx> {<valid-under-flags table>}* ops {<tx> <flags> <sigstore> <fullstore> <deferred>}*
         a history of CheckInputScripts calls on one ValidationCache.  The table gives, for every transaction of the
         driver's pool, the flags masks that make it invalid ("<mask>" = invalid iff flags & mask != 0, "all:<mask>" = invalid iff all bits of the mask are set, "always", "never").
         Output: the verdict of every call with the warm caches, and with fresh caches ("w=1011 f=1011"). *)
open Conv

let z_of_le_hex (h : string) : Model.z =
  let b = bytes_of_hex h in
  let rec go l sh acc = match l with [] -> acc | x :: r -> go r (sh + 8) (Z.add acc (Z.shift_left (zt_of_n x) sh)) in
  z_of_zt (go b 0 Z.zero)
let le_hex_of_z (z : Model.z) : string =
  let v = zt_of_z z in
  String.concat "" (List.init 32 (fun i -> Printf.sprintf "%02x" (Z.to_int (Z.logand (Z.shift_right v (8 * i)) (Z.of_int 255)))))

let bits l = String.concat "" (List.map (fun b -> if b then "1" else "0") l)

let dump (c : Model.cuckoo) : string =
  Printf.sprintf "table=%s collect=%s epoch=%s counter=%s"
    (String.concat "," (List.map le_hex_of_z c.Model.cu_table)) (bits c.Model.cu_collect) (bits c.Model.cu_epoch) (string_of_z c.Model.cu_counter)

let cuckoo ws = match ws with
  | size :: ops ->
    let size = z_of_string size in
    let locs = Model.compute_hashes (let s = zt_of_z size in z_of_zt (if Z.lt s (Z.of_int 2) then Z.of_int 2 else s)) in
    let ops = List.map (fun o ->
        let e = z_of_le_hex (String.sub o 1 (String.length o - 1)) in
        match o.[0] with
        | 'i' -> Model.CInsert e | 'c' -> Model.CContains (e, false) | 'e' -> Model.CContains (e, true) | _ -> failwith "bad op") ops in
    (match Model.cuckoo_run locs (Model.cuckoo_setup size) ops with
     | None -> "MODEL-OOB"
     | Some (outs, c) ->
       let chars = List.map2 (fun o b -> match o with Model.CInsert _ -> "." | _ -> if b then "1" else "0") ops outs in
       String.concat "" chars ^ " " ^ dump c)
  | _ -> "BADCASE"

(* the property's predicate for the cuckoo cache, on what the implementation answered: a `1` only for the zero element
   or an element inserted earlier in the same case *)
let cuckoo_sound ws (impl : string) : string =
  match ws with
  | _ :: ops ->
    let ans = (match words impl with a :: _ -> a | [] -> "") in
    if String.length ans <> List.length ops then "fail malformed answer string"
    else begin
      let seen = Hashtbl.create 16 in
      let bad = ref None in
      List.iteri (fun i o ->
          let e = String.sub o 1 (String.length o - 1) in
          if o.[0] = 'i' then Hashtbl.replace seen e ()
          else if ans.[i] = '1' && not (Hashtbl.mem seen e) && e <> String.make 64 '0' && !bad = None then bad := Some e) ops;
      match !bad with Some e -> "fail false positive: contains reported an element never inserted: " ^ e | None -> "ok"
    end
  | _ -> "fail bad case"

(* ---- histories ---- *)
type rule = Always | Never | Mask of Z.t | All of Z.t
let hist ws = match ws with
  | sc_elems :: sg_elems :: ntx :: r ->
    let ntx = int_of_string ntx in
    let rec take k l acc = if k = 0 then (List.rev acc, l) else match l with x :: r -> take (k - 1) r (x :: acc) | [] -> failwith "short" in
    let (rules, r) = take ntx r [] in
    let rules = Array.of_list (List.map (fun s -> if s = "always" then Always else if s = "never" then Never
        else if String.length s > 4 && String.sub s 0 4 = "all:" then All (Z.of_string (String.sub s 4 (String.length s - 4))) else Mask (Z.of_string s)) rules) in
    let r = (match r with "ops" :: r -> r | _ -> failwith "no ops") in
    let rec calls l acc = match l with
      | t :: fl :: ss :: fs :: df :: r ->
        calls r ({ Model.vc_tx = int_of_string t; Model.vc_flags = Z.of_string fl; Model.vc_coins = 0;
                   Model.vc_sig_store = (ss = "1"); Model.vc_full_store = (fs = "1"); Model.vc_deferred = (df = "1") } :: acc)
      | [] -> List.rev acc
      | _ -> failwith "bad op" in
    let h = calls r [] in
    let valid t fl = (match rules.(t) with Always -> false | Never -> true | Mask m -> Z.equal (Z.logand fl m) Z.zero
                                      | All m -> not (Z.equal (Z.logand fl m) m)) in
    (* every transaction of the pool is a single signature query whose answer decides the verdict *)
    let oracle (q : Model.sigquery) = (q.Model.sq_sig = [n_of_int 1]) in
    let sigkey (q : Model.sigquery) = z_of_zt (Z.add (Z.of_int 1) (Z.add (Z.shift_left (zt_of_n (List.hd q.Model.sq_pubkey)) 80) (Z.add (Z.shift_left (zt_of_n (List.hd q.Model.sq_sighash)) 8) (zt_of_n (List.hd q.Model.sq_sig))))) in
    let runs t fl _coins =
      let v = valid t fl in
      [ Model.Ask ({ Model.sq_schnorr = false; Model.sq_sighash = [n_of_zt fl]; Model.sq_pubkey = [n_of_int t]; Model.sq_sig = [n_of_int (if v then 1 else 0)] },
                   (fun a -> Model.Done a)) ] in
    let exec_key w fl = z_of_zt (Z.add (Z.of_int 1) (Z.add (Z.shift_left (zt_of_z w) 64) fl)) in
    let size s = let v = Z.of_string s in if Z.lt v (Z.of_int 2) then Z.of_int 2 else v in
    (* one location function per table size; the two caches of this model share it, so both get the same size here *)
    let n = size sc_elems in
    let _ = sg_elems in
    let locs = Model.compute_hashes (z_of_zt n) in
    let st0 = { Model.vs_script = Model.cuckoo_setup (z_of_zt n); Model.vs_sig = Model.cuckoo_setup (z_of_zt n) } in
    let run st h = Model.run_history locs oracle sigkey (fun _ -> false) (fun t -> z_of_int t) exec_key runs st h in
    let warm = (match run st0 h with Some (o, _) -> bits o | None -> "MODEL-OOB") in
    let fresh = String.concat "" (List.map (fun c -> match run st0 [c] with Some (o, _) -> bits o | None -> "X") h) in
    Printf.sprintf "w=%s f=%s" warm fresh
  | _ -> "BADCASE"

let model _ line = match words line with
  | "cuckoo" :: r -> cuckoo r
  | "hist" :: r -> hist r
  | _ -> "BADCASE"

(* the property's own predicate, on what the implementation did: with warm caches every verdict equals the verdict
   with fresh caches (hist); no false positive (cuckoo) *)
let holds _ case impl = match words case with
  | "cuckoo" :: r -> cuckoo_sound r impl
  | "hist" :: _ ->
    (match words impl with
     | [w; f] when String.length w > 2 && String.length f > 2 ->
       let w = String.sub w 2 (String.length w - 2) and f = String.sub f 2 (String.length f - 2) in
       if w = f then "ok"
       else begin
         let i = ref 0 in
         while !i < min (String.length w) (String.length f) && w.[!i] = f.[!i] do incr i done;
         Printf.sprintf "fail verdict changed by the caches at call %d: warm %s, fresh %s" !i w f
       end
     | _ -> "fail malformed output")
  | _ -> "fail bad case"

let () = main_loop ~model ~holds
