(* Model side of the netaddr family (C60): CNetAddr / CSubNet / ADDRv1+v2 / BanMan.  Case formats: see
   tie/drivers/netaddr_drv.cpp and props/C60.py. *)
open Conv

let zs = z_of_string
let zi = z_of_int
let b01 b = if b then "1" else "0"
let split c s = String.split_on_char c s

let hex_of_bytes_z (l : Model.z list) = if l = [] then "-" else String.concat "" (List.map (fun b -> Printf.sprintf "%02x" (int_of_z b)) l)
let show_subnet = function
  | None -> "BAD"
  | Some ((valid, net), (mask, m)) -> Printf.sprintf "%s %s %s %s" (b01 valid) (hex_of_bytes_z net) (hex_of_bytes_z mask) (b01 m)
let bytes_z h = List.map (fun n -> z_of_int (int_of_n n)) (bytes_of_hex h)

let ban_op tok : (Model.z * Model.z list) * Model.z list =
  match split ':' tok with
  | ["t"; t] -> ((zi 0, [zs t]), [])
  | ["b"; c; h; p; off; ab] -> ((zi 1, [zs c; zs p; zs off; zs ab]), bytes_z h)
  | ["ba"; c; h; off; ab] -> ((zi 2, [zs c; zs off; zs ab]), bytes_z h)
  | ["u"; c; h; p] -> ((zi 3, [zs c; zs p]), bytes_z h)
  | ["q"; c; h] -> ((zi 4, [zs c]), bytes_z h)
  | ["qs"; c; h; p] -> ((zi 5, [zs c; zs p]), bytes_z h)
  | ["l"] -> ((zi 6, []), [])
  | ["c"] -> ((zi 7, []), [])
  | _ -> ((zi 99, []), [])

let show_ban_out = function
  | Model.OBool b -> b01 b
  | Model.ONone -> "-"
  | Model.OBad -> "BAD"
  | Model.OList l ->
    let es = List.map (fun (((c, bytes), mask), until) ->
        Printf.sprintf "%s.%s.%s.%s" (string_of_z c) (hex_of_bytes_z bytes) (hex_of_bytes_z mask) (string_of_z until)) l in
    let es = List.sort compare es in
    String.concat ";" (("L" ^ string_of_int (List.length es)) :: es)

let model _ l = match words l with
  | ["mc"; cb; hb; p; ca; ha] -> show_subnet (Model.run_match_cidr (zs cb) (bytes_z hb) (zs p) (zs ca) (bytes_z ha))
  | ["mm"; cb; hb; hm; ca; ha] -> show_subnet (Model.run_match_mask (zs cb) (bytes_z hb) (bytes_z hm) (zs ca) (bytes_z ha))
  | ["ms"; cb; hb; ca; ha] -> show_subnet (Model.run_match_single (zs cb) (bytes_z hb) (zs ca) (bytes_z ha))
  | ["iv"; c; h] -> (match Model.run_is_valid (zs c) (bytes_z h) with Some b -> b01 b | None -> "BAD")
  | [("s1" | "s2") as op; c; h] ->
    (match Model.run_ser (op = "s2") (zs c) (bytes_z h) with Some l -> hex_of_bytes_z l | None -> "BAD")
  | [("u1" | "u2") as op; h] ->
    (match Model.run_unser (op = "u2") (bytes_z h) with
     | None -> "FAIL"
     | Some (((c, bytes), valid), rest) -> Printf.sprintf "%s %s %s %s" (string_of_z c) (hex_of_bytes_z bytes) (b01 valid) (hex_of_bytes_z rest))
  | ["str"; _; _; _] -> "1"
  | "ban" :: d :: t0 :: ops ->
    String.concat " " (List.map show_ban_out (Model.run_ban_script (zs d) (zs t0) (List.map ban_op ops)))
  | _ -> "BADCASE"

(* the property's own predicates evaluated on what the implementation returned *)
let holds _ c impl = match words c with
  | ["mc"; cb; hb; p; ca; ha] ->
    (match words impl with
     | [_; _; _; m] ->
       if Model.holds_match_cidr (zs cb) (bytes_z hb) (zs p) (zs ca) (bytes_z ha) (m = "1") then "ok"
       else "fail Match differs from: valid address of the same network agreeing on the first <prefix> bits"
     | _ -> "fail malformed")
  | ["ms"; cb; hb; ca; ha] ->
    (match words impl with
     | [_; _; _; m] ->
       if Model.holds_match_single (zs cb) (bytes_z hb) (zs ca) (bytes_z ha) (m = "1") then "ok"
       else "fail single-host / non-IP subnet does not match exactly the (valid) address itself"
     | _ -> "fail malformed")
  | ["str"; _; _; _] -> if impl = "1" then "ok" else "fail printed string does not parse back to the same value"
  | "ban" :: d :: t0 :: ops ->
    let answers = List.map (fun s -> if s = "0" then Some false else if s = "1" then Some true else None) (words impl) in
    (* unban also prints a boolean: only queries (q, qs) are judged *)
    let ops' = List.map ban_op ops in
    let answers = List.map2 (fun (((code, _), _)) a -> let k = int_of_z code in if k = 4 || k = 5 then a else None) ops' answers in
    if List.exists2 (fun (((code, _), _)) a -> let k = int_of_z code in (k = 4 || k = 5) && a = None) ops' answers then "fail a query was not answered"
    else if Model.holds_ban (zs d) (zs t0) ops' answers then "ok"
    else "fail an IsBanned answer differs from the reference ban list (banned exactly while an unexpired covering ban exists)"
  | [("s1" | "s2" | "u1" | "u2" | "iv" | "mm"); _] | [("s1" | "s2" | "iv"); _; _] | ["mm"; _; _; _; _; _] ->
    (* serialisation / validity / netmask constructor: the model value is the proved-unique one *)
    if impl = model [] c then "ok" else "fail differs from the specification value"
  | _ -> "na"

let () = main_loop ~model ~holds
