(* Glue between text lines and the extracted Coq number types (module Model).
   zarith is used ONLY here, to parse/print decimal and hex text; the model itself runs on the
   extracted Coq datatypes positive / N / Z (ExtrOcamlBasic only). *)
let rec pos_of_zt (x : Z.t) : Model.positive =
  if Z.equal x Z.one then Model.XH
  else let q = Z.shift_right x 1 in
    if Z.testbit x 0 then Model.XI (pos_of_zt q) else Model.XO (pos_of_zt q)

let z_of_zt (x : Z.t) : Model.z =
  if Z.sign x = 0 then Model.Z0
  else if Z.sign x > 0 then Model.Zpos (pos_of_zt x)
  else Model.Zneg (pos_of_zt (Z.neg x))

let n_of_zt (x : Z.t) : Model.n =
  if Z.sign x = 0 then Model.N0 else Model.Npos (pos_of_zt x)

let rec zt_of_pos (p : Model.positive) : Z.t =
  (* iterative to be safe on long numbers *)
  let rec go p acc sh = match p with
    | Model.XH -> Z.add acc (Z.shift_left Z.one sh)
    | Model.XO q -> go q acc (sh + 1)
    | Model.XI q -> go q (Z.add acc (Z.shift_left Z.one sh)) (sh + 1)
  in go p Z.zero 0

let zt_of_z = function
  | Model.Z0 -> Z.zero
  | Model.Zpos p -> zt_of_pos p
  | Model.Zneg p -> Z.neg (zt_of_pos p)

let zt_of_n = function Model.N0 -> Z.zero | Model.Npos p -> zt_of_pos p

(* text: decimal, or 0x-prefixed hex; leading '-' allowed *)
let zt_of_string (s : string) : Z.t = Z.of_string s
let z_of_string s = z_of_zt (zt_of_string s)
let n_of_string s = n_of_zt (zt_of_string s)
let string_of_z z = Z.to_string (zt_of_z z)
let string_of_n n = Z.to_string (zt_of_n n)
let hex_of_z z = Z.format "%x" (zt_of_z z)
let hex_of_n n = Z.format "%x" (zt_of_n n)

let rec nat_of_int (i : int) : Model.nat = if i <= 0 then Model.O else Model.S (nat_of_int (i - 1))
let int_of_nat (n : Model.nat) : int =
  let rec go n a = match n with Model.O -> a | Model.S m -> go m (a + 1) in go n 0

let int_of_z z = Z.to_int (zt_of_z z)
let z_of_int i = z_of_zt (Z.of_int i)
let n_of_int i = n_of_zt (Z.of_int i)
let int_of_n n = Z.to_int (zt_of_n n)

(* bytes <-> hex; a byte is an N below 256 in the models *)
let bytes_of_hex (h : string) : Model.n list =
  let h = if h = "-" then "" else h in
  let n = String.length h / 2 in
  List.init n (fun i -> n_of_int (int_of_string ("0x" ^ String.sub h (2 * i) 2)))
let hex_of_bytes (l : Model.n list) : string =
  if l = [] then "-" else String.concat "" (List.map (fun b -> Printf.sprintf "%02x" (int_of_n b)) l)

let words (s : string) : string list =
  List.filter (fun w -> w <> "") (String.split_on_char ' ' s)

let bool_of_string01 s = (s = "1" || s = "true")
let string_of_bool01 b = if b then "1" else "0"

(* main loop: argv.(1) = "model" | "holds"; remaining args passed on.
   model: one case per line -> one output per line.
   holds: "<case> => <impl output>" per line -> "ok" | "fail <why>" | "na". *)
let split_arrow (l : string) : string * string =
  let re = Str.regexp_string " => " in
  match (try Some (Str.search_forward re l 0) with Not_found -> None) with
  | Some i -> (String.sub l 0 i, String.sub l (i + 4) (String.length l - i - 4))
  | None -> (l, "")

let main_loop ~(model : string list -> string -> string) ~(holds : string list -> string -> string -> string) =
  let args = Array.to_list Sys.argv in
  let mode, rest = match args with _ :: m :: r -> (m, r) | _ -> ("model", []) in
  (try
     while true do
       let l = input_line stdin in
       let out =
         try
           if mode = "holds" then (let (c, i) = split_arrow l in holds rest c i)
           else model rest l
         with e -> "EXC " ^ Printexc.to_string e
       in
       print_string out; print_char '\n'
     done
   with End_of_file -> ());
  flush stdout
