(* Model side of the ChainSel family (C08, C58): runs the same op script as tie/drivers/chainsel_drv.cpp on the
   extracted model and, in `holds` mode, evaluates the properties' predicates on what the implementation printed.

   case line:  op ; op ; ...      (see chainsel_drv.cpp)
     mw <n> | blk <name> <parent> <kind> | chain <prefix> <parent> <n> | hdr <name>+ | sub <name> req|unreq
     | inv <name> | rec <name>
   output: one token per hdr/sub/inv/rec op:  <result>/w<blocks written>,<tip>{,<name>=K.D.F.A.S<seq>}*  (the blocks whose
   flags changed) *)
open Conv

type blk = { name : string; bid : int; parent : int; height : int; kind : Model.kind; fixture : bool }

let nfix = 100
let kind_of_string = function
  | "valid" -> Model.KValid | "badconnect" -> Model.KBadConnect
  | "badctx" | "badfinal" -> Model.KBadCtx | "badcheck" -> Model.KBadCheck
  | k -> failwith ("bad kind " ^ k)

let split_ops line = List.filter (fun w -> w <> []) (List.map words (String.split_on_char ';' line))

(* ---- the script's block universe --------------------------------------------------------------- *)
type universe = { tbl : (string, blk) Hashtbl.t; byid : (int, blk) Hashtbl.t; mutable order : blk list; mutable next : int }

let new_universe () =
  let u = { tbl = Hashtbl.create 64; byid = Hashtbl.create 64; order = []; next = nfix + 1 } in
  for h = 0 to nfix do
    let b = { name = "g" ^ string_of_int h; bid = h; parent = h - 1; height = h; kind = Model.KValid; fixture = true } in
    Hashtbl.replace u.tbl b.name b; Hashtbl.replace u.byid h b; u.order <- b :: u.order
  done;
  u

let define u name parent kind =
  if Hashtbl.mem u.tbl name then failwith ("duplicate block name " ^ name);
  let p = Hashtbl.find u.tbl parent in
  let b = { name; bid = u.next; parent = p.bid; height = p.height + 1; kind; fixture = false } in
  u.next <- u.next + 1;
  Hashtbl.replace u.tbl name b; Hashtbl.replace u.byid b.bid b; u.order <- b :: u.order

let blocks_in_order u = List.rev u.order
let find u n = try Hashtbl.find u.tbl n with Not_found -> failwith ("unknown block " ^ n)

(* ---- running the model ------------------------------------------------------------------------- *)
let two = z_of_int 2
let proof_of _ = two    (* regtest: every block has GetBlockProof == 2 *)

(* the fixture: genesis_state, then g1..g100 delivered as requested blocks (TestChain100Setup::mineBlocks) *)
let fixture_cache : (string, Model.state) Hashtbl.t = Hashtbl.create 4
let fixture_state mw =
  match Hashtbl.find_opt fixture_cache mw with
  | Some s -> s
  | None ->
    let parent_of b = z_of_int (int_of_z b - 1) in
    let kind_of _ = Model.KValid in
    let s = ref (Model.genesis_state proof_of (z_of_string mw)) in
    for h = 1 to nfix do
      s := fst (Model.process_new_block parent_of proof_of kind_of !s (z_of_int h) true)
    done;
    Hashtbl.replace fixture_cache mw !s; !s

let flags_of_state u (s : Model.state) =
  (* one pass over the index and the active chain instead of a lookup per block *)
  let known = Hashtbl.create 256 and active = Hashtbl.create 256 in
  List.iter (fun (h : Model.hdr) -> Hashtbl.replace known (int_of_z h.Model.h_id) ()) s.Model.st_index;
  (match List.find_opt (fun (h : Model.hdr) -> int_of_z h.Model.h_id = int_of_z s.Model.st_tip) s.Model.st_index with
   | Some h -> List.iter (fun x -> Hashtbl.replace active (int_of_z x) ()) h.Model.h_path
   | None -> ());
  fun (b : blk) ->
    if not (Hashtbl.mem known b.bid) then "K0D0F0A0S-1"
    else
      let z = z_of_int b.bid in
      Printf.sprintf "K1D%sF%sA%sS%s" (string_of_bool01 (s.Model.st_data z)) (string_of_bool01 (s.Model.st_failed z))
        (string_of_bool01 (Hashtbl.mem active b.bid)) (string_of_z (s.Model.st_seq z))

let initial_flags (b : blk) = if b.fixture then Printf.sprintf "K1D1F0A1S%d" (b.bid + 2) else "K0D0F0A0S-1"

let model _ line =
  let u = new_universe () in
  let prev : (int, string) Hashtbl.t = Hashtbl.create 64 in
  let parent_of z = match Hashtbl.find_opt u.byid (int_of_z z) with Some b -> z_of_int b.parent | None -> z_of_int (-1) in
  let kind_of z = match Hashtbl.find_opt u.byid (int_of_z z) with Some b -> b.kind | None -> Model.KValid in
  let st = ref None in
  let state () = match !st with Some s -> s | None -> let s = fixture_state "0" in st := Some s; s in
  let out = Buffer.create 256 in
  let emit res =
    let s = state () in
    if Buffer.length out > 0 then Buffer.add_char out ' ';
    let tipname = match Hashtbl.find_opt u.byid (int_of_z s.Model.st_tip) with Some b -> b.name | None -> "unknown" in
    Buffer.add_string out (res ^ "," ^ tipname);
    let fl = flags_of_state u s in
    List.iter (fun b ->
        let f = fl b in
        let old = match Hashtbl.find_opt prev b.bid with Some o -> o | None -> initial_flags b in
        if f <> old then (Buffer.add_string out ("," ^ b.name ^ "=" ^ f); Hashtbl.replace prev b.bid f))
      (blocks_in_order u)
  in
  let first = ref true in
  List.iter (fun w ->
      (match w with
       | ["mw"; n] -> if not !first then failwith "mw must be the first op"; st := Some (fixture_state n)
       | ["blk"; name; parent; kind] -> define u name parent (kind_of_string kind)
       | ["chain"; prefix; parent; n] ->
         let p = ref parent in
         for i = 1 to int_of_string n do
           let nm = prefix ^ string_of_int i in define u nm !p Model.KValid; p := nm
         done
       | "hdr" :: (_ :: _ as names) ->
         (* ProcessNewBlockHeaders(headers): AcceptBlockHeader one by one, stop at the first that is not accepted *)
         let rec go = function
           | [] -> "1ok"
           | n :: r ->
             let b = find u n in
             if b.fixture then failwith "hdr on fixture block";
             let (s', res) = Model.process_new_block_header parent_of proof_of (state ()) (z_of_int b.bid) in
             st := Some s';
             (match res with
              | Model.HOk -> go r
              | Model.HDupInvalid -> "0duplicate-invalid"
              | Model.HPrevNotFound -> "0prev-blk-not-found"
              | Model.HBadPrev -> "0bad-prevblk")
         in
         emit (go names ^ "/w0")
       | ["sub"; n; rq] ->
         let b = find u n in
         if b.fixture then failwith "sub on fixture block";
         let req = (match rq with "req" -> true | "unreq" -> false | _ -> failwith "sub: req|unreq") in
         let (s', res) = Model.process_new_block parent_of proof_of kind_of (state ()) (z_of_int b.bid) req in
         st := Some s';
         (* /w<k>: blocks written to the block file: WriteBlock is called exactly when the result is BOkNew *)
         emit (match res with Model.BFail -> "0o/w0" | Model.BOkOld -> "1o/w0" | Model.BOkNew -> "1n/w1")
       | ["inv"; n] ->
         let b = find u n in
         (* "Block not found" is an RPC error *)
         let kn = Model.known (state ()) (z_of_int b.bid) in
         st := Some (Model.rpc_invalidate parent_of kind_of (state ()) (z_of_int b.bid)); emit ((if kn then "ok" else "err") ^ "/w0")
       | ["rec"; n] ->
         let b = find u n in
         let kn = Model.known (state ()) (z_of_int b.bid) in
         st := Some (Model.rpc_reconsider parent_of kind_of (state ()) (z_of_int b.bid)); emit ((if kn then "ok" else "err") ^ "/w0")
       | _ -> failwith ("bad op " ^ String.concat " " w));
      first := false)
    (split_ops line);
  if Buffer.length out = 0 then "-" else Buffer.contents out

(* ---- the properties' predicates on the implementation's output ------------------------------------------- *)
type fl = { k : bool; d : bool; f : bool; a : bool; seq : int }
let parse_flags s =
  (* K1D1F0A1S103 *)
  let b i = s.[i] = '1' in
  { k = b 1; d = b 3; f = b 5; a = b 7; seq = int_of_string (String.sub s 9 (String.length s - 9)) }

exception Violation of string

let rec holds args case impl =
  if String.length impl >= 5 && String.sub impl 0 5 = "CRASH" then "fail the node aborted on this script (an assertion of the node, e.g. CheckBlockIndex, fired): " ^ impl
  else holds_checked args case impl
and holds_checked args case impl =
  let mode = match args with m :: _ -> m | [] -> "C08" in
  let u = new_universe () in
  let cur : (int, fl) Hashtbl.t = Hashtbl.create 64 in
  let flags (b : blk) = match Hashtbl.find_opt cur b.bid with Some x -> x | None -> parse_flags (initial_flags b) in
  let minwork = ref 0 in
  let tip = ref (find u "g100") in
  let toks = ref (if impl = "-" then [] else words impl) in
  (* lowest fixture height the case can touch: blocks below it stay in their initial state (checked below),
     so the dump handed to the extracted predicates is rooted there (its id becomes GENESIS = 0) *)
  let minfix = ref nfix in
  let note n = match Hashtbl.find_opt u.tbl n with Some b when b.fixture -> if b.height < !minfix then minfix := b.height | _ -> () in
  let ops = split_ops case in
  List.iter (fun w -> List.iter note w) ops;
  List.iter (fun t -> List.iter (fun kv -> match String.index_opt kv '=' with Some i -> note (String.sub kv 0 i) | None -> note kv)
                (String.split_on_char ',' t)) !toks;
  let root = max 0 (!minfix - 1) in
  let zid (b : blk) = z_of_int (if b.fixture then b.bid - root else b.bid + 1000) in
  let dump () =
    List.filter_map (fun (b : blk) ->
        let x = flags b in
        if not x.k || (b.fixture && b.height < root) then None
        else
          let p = if b.bid = root then z_of_int (-1) else zid (Hashtbl.find u.byid b.parent) in
          Some { Model.d_id = zid b; d_parent = p; d_work = z_of_int (2 * (b.height + 1)); d_seq = z_of_int x.seq;
                 d_data = x.d; d_failed = x.f; d_active = x.a; d_kind = b.kind })
      (blocks_in_order u)
  in
  let step_c08 what =
    let l = dump () in
    let t = zid !tip in
    if not (Model.holds_active_clean l t) then raise (Violation ("after `" ^ what ^ "`: the active chain contains a failed, data-less or intrinsically invalid block (or is not the ancestry of the tip)"));
    if not (Model.holds_tip_most_work l t) then raise (Violation ("after `" ^ what ^ "`: a block whose whole ancestry has data and no failure flag has more chainwork than the tip " ^ !tip.name));
    if not (Model.holds_tip_best l t) then raise (Violation ("after `" ^ what ^ "`: an eligible block with the same work and an earlier sequence id than the tip " ^ !tip.name ^ " exists (or the tip is not eligible)"))
  in
  try
    List.iter (fun w ->
        match w with
        | ["mw"; n] -> minwork := int_of_string n
        | ["blk"; name; parent; kind] -> define u name parent (kind_of_string kind)
        | ["chain"; prefix; parent; n] ->
          let p = ref parent in
          for i = 1 to int_of_string n do let nm = prefix ^ string_of_int i in define u nm !p Model.KValid; p := nm done
        | opname :: _ ->
          let tok = (match !toks with t :: r -> toks := r; t | [] -> raise (Violation "implementation printed too few results")) in
          let parts = String.split_on_char ',' tok in
          let (res, tipn, deltas) = (match parts with r :: t :: d -> (r, t, d) | _ -> raise (Violation ("malformed result " ^ tok))) in
          let pre_tip = !tip in
          let pre = Hashtbl.copy cur in
          let pre_flags (b : blk) = match Hashtbl.find_opt pre b.bid with Some x -> x | None -> parse_flags (initial_flags b) in
          (match Hashtbl.find_opt u.tbl tipn with Some b -> tip := b | None -> raise (Violation ("tip is not a block of the script: " ^ tipn)));
          List.iter (fun kv ->
              match String.index_opt kv '=' with
              | Some i ->
                let b = find u (String.sub kv 0 i) in
                Hashtbl.replace cur b.bid (parse_flags (String.sub kv (i + 1) (String.length kv - i - 1)))
              | None -> raise (Violation ("malformed delta " ^ kv)))
            deltas;
          let what = String.concat " " w in
          if mode = "C08" then begin
            step_c08 what;
            (match w with
             | ["inv"; n] -> let b = find u n in
               if b.bid <> 0 && (flags b).k && (flags b).a then raise (Violation ("after `" ^ what ^ "`: the invalidated block is still in the active chain"))
             | _ -> ())
          end else begin
            match w with
            | ["sub"; n; rq] ->
              let b = find u n in
              let x0 = pre_flags b in
              if not x0.d then begin
                let par = Hashtbl.find u.byid b.parent in
                let p0 = pre_flags par in
                let hdr_ok = if x0.k then not x0.f else (p0.k && not p0.f) in
                let passes = (match b.kind with Model.KValid | Model.KBadConnect -> true | _ -> false) in
                let cond = Model.store_cond (z_of_int (2 * (b.height + 1))) (z_of_int b.height)
                    (z_of_int (2 * (pre_tip.height + 1))) (z_of_int pre_tip.height) (z_of_int !minwork) in
                let expect = hdr_ok && passes && (rq = "req" || cond) in
                let x1 = flags b in
                let written = (let n = String.length res in n >= 3 && String.sub res (n - 3) 3 = "/w1") in
                if written <> x1.d then
                  raise (Violation (Printf.sprintf "after `%s`: blocks written to the block file (%s) and BLOCK_HAVE_DATA (%b) disagree" what res x1.d));
                if x1.d <> expect then
                  raise (Violation (Printf.sprintf "after `%s`: block %s (header acceptable %b, passes checks %b, work>=tip & height<=tip+288 & work>=minwork %b) %s stored"
                                      what (if rq = "req" then "requested" else "unrequested") hdr_ok passes cond (if x1.d then "was" else "was not")));
                if rq = "unreq" && hdr_ok && b.kind <> Model.KBadCheck && not cond then begin
                  (* dropped: nothing but the header entry may appear *)
                  if !tip.bid <> pre_tip.bid then raise (Violation ("after `" ^ what ^ "`: a dropped unrequested block moved the tip"));
                  List.iter (fun kv ->
                      match String.index_opt kv '=' with
                      | Some i ->
                        let nm = String.sub kv 0 i in
                        let v = parse_flags (String.sub kv (i + 1) (String.length kv - i - 1)) in
                        if nm <> b.name || v.d || v.f || v.a || not v.k || v.seq <> 1 || x0.k then
                          raise (Violation ("after `" ^ what ^ "`: a dropped unrequested block left a trace: " ^ kv))
                      | None -> ())
                    deltas
                end
              end
            | _ -> ()
          end;
          ignore res; ignore opname
        | [] -> ())
      ops;
    (* fixture blocks below the root never moved *)
    ignore root;
    "ok"
  with
  | Violation m -> "fail " ^ m

let () = main_loop ~model ~holds
