(* C32 model driver: runs the extracted transport model (Model.v1_iter / v2_iter under Model.node_recv_chunks)
   on the same case lines as tie/drivers/transport_drv.cpp.

   The model's cryptographic parameters are instantiated here:
     - v1 checksum: a real double SHA-256 (pure OCaml below, after ocaml/merkle_sha256.ml), so v1 wire bytes are
       compared byte for byte with the implementation (through their length and FNV digest);
     - v2 session / terminator / length cipher / AEAD: a structural stand-in with the observable behaviour of
       BIP324's (XOR stream cipher on the 3 length bytes, 16-byte tag over AAD and ciphertext under a key derived
       from BOTH key strings as seen by each side, any altered byte fails the tag).  The real cipher's
       conformance to the theorems' premises is what `holds` checks on the implementation's own output. *)
open Conv

(* ---------------------------------------------------------------------------------------------- *)
(* bytes *)
let byte_tab : Model.n array = Array.init 256 (fun i -> n_of_int i)
let nl_of_string (s : string) : Model.n list = List.init (String.length s) (fun i -> byte_tab.(Char.code s.[i]))
let int_of_byte (x : Model.n) : int = int_of_n x
let string_of_nl (l : Model.n list) : string =
  let b = Buffer.create 64 in List.iter (fun x -> Buffer.add_char b (Char.chr (int_of_byte x land 255))) l; Buffer.contents b
let raw_of_hex (h : string) : string =
  let h = if h = "-" then "" else h in
  String.init (String.length h / 2) (fun i -> Char.chr (int_of_string ("0x" ^ String.sub h (2 * i) 2)))
let hex_of_raw (s : string) : string =
  if s = "" then "-" else String.concat "" (List.init (String.length s) (fun i -> Printf.sprintf "%02x" (Char.code s.[i])))

let lcg_bytes (seed : int64) (n : int) : string =
  let x = ref seed in
  String.init n (fun _ ->
    x := Int64.add (Int64.mul !x 6364136223846793005L) 1442695040888963407L;
    Char.chr (Int64.to_int (Int64.shift_right_logical !x 56)))
let fnv_from (h0 : int64) (s : string) : int64 =
  let h = ref h0 in
  String.iter (fun c -> h := Int64.mul (Int64.logxor !h (Int64.of_int (Char.code c))) 1099511628211L) s; !h
let fnv (s : string) : int64 = fnv_from (-3750763034362895579L) s   (* 14695981039346656037 *)
let hex64 (v : int64) : string = Printf.sprintf "%016Lx" v
let u64_of_string (s : string) : int64 = Int64.of_string ("0u" ^ s)

let pspec (s : string) : string =
  if s = "-" then ""
  else if s.[0] = 'h' then raw_of_hex (String.sub s 1 (String.length s - 1))
  else if s.[0] = 'r' then begin
    let c = String.index s ':' in
    lcg_bytes (u64_of_string (String.sub s (c + 1) (String.length s - c - 1))) (int_of_string (String.sub s 1 (c - 1)))
  end else failwith ("bad pspec " ^ s)

(* ---------------------------------------------------------------------------------------------- *)
(* SHA-256 (FIPS 180-4), native ints masked to 32 bits *)
let k256 = [|
  0x428a2f98; 0x71374491; 0xb5c0fbcf; 0xe9b5dba5; 0x3956c25b; 0x59f111f1; 0x923f82a4; 0xab1c5ed5;
  0xd807aa98; 0x12835b01; 0x243185be; 0x550c7dc3; 0x72be5d74; 0x80deb1fe; 0x9bdc06a7; 0xc19bf174;
  0xe49b69c1; 0xefbe4786; 0x0fc19dc6; 0x240ca1cc; 0x2de92c6f; 0x4a7484aa; 0x5cb0a9dc; 0x76f988da;
  0x983e5152; 0xa831c66d; 0xb00327c8; 0xbf597fc7; 0xc6e00bf3; 0xd5a79147; 0x06ca6351; 0x14292967;
  0x27b70a85; 0x2e1b2138; 0x4d2c6dfc; 0x53380d13; 0x650a7354; 0x766a0abb; 0x81c2c92e; 0x92722c85;
  0xa2bfe8a1; 0xa81a664b; 0xc24b8b70; 0xc76c51a3; 0xd192e819; 0xd6990624; 0xf40e3585; 0x106aa070;
  0x19a4c116; 0x1e376c08; 0x2748774c; 0x34b0bcb5; 0x391c0cb3; 0x4ed8aa4a; 0x5b9cca4f; 0x682e6ff3;
  0x748f82ee; 0x78a5636f; 0x84c87814; 0x8cc70208; 0x90befffa; 0xa4506ceb; 0xbef9a3f7; 0xc67178f2 |]
let m32 = 0xFFFFFFFF
let rotr x n = ((x lsr n) lor (x lsl (32 - n))) land m32
let sha256 (msg : string) : string =
  let len = String.length msg in
  let padlen = let r = (len + 9) mod 64 in if r = 0 then 0 else 64 - r in
  let total = len + 9 + padlen in
  let b = Bytes.make total '\000' in
  Bytes.blit_string msg 0 b 0 len;
  Bytes.set b len '\x80';
  let bits = len * 8 in
  for i = 0 to 7 do Bytes.set b (total - 1 - i) (Char.chr ((bits lsr (8 * i)) land 0xff)) done;
  let h = [| 0x6a09e667; 0xbb67ae85; 0x3c6ef372; 0xa54ff53a; 0x510e527f; 0x9b05688c; 0x1f83d9ab; 0x5be0cd19 |] in
  let w = Array.make 64 0 in
  for blk = 0 to total / 64 - 1 do
    for t = 0 to 15 do
      let o = blk * 64 + t * 4 in
      w.(t) <- (Char.code (Bytes.get b o) lsl 24) lor (Char.code (Bytes.get b (o + 1)) lsl 16)
               lor (Char.code (Bytes.get b (o + 2)) lsl 8) lor Char.code (Bytes.get b (o + 3))
    done;
    for t = 16 to 63 do
      let s0 = rotr w.(t - 15) 7 lxor rotr w.(t - 15) 18 lxor (w.(t - 15) lsr 3) in
      let s1 = rotr w.(t - 2) 17 lxor rotr w.(t - 2) 19 lxor (w.(t - 2) lsr 10) in
      w.(t) <- (w.(t - 16) + s0 + w.(t - 7) + s1) land m32
    done;
    let a = ref h.(0) and bb = ref h.(1) and c = ref h.(2) and d = ref h.(3)
    and e = ref h.(4) and f = ref h.(5) and g = ref h.(6) and hh = ref h.(7) in
    for t = 0 to 63 do
      let s1 = rotr !e 6 lxor rotr !e 11 lxor rotr !e 25 in
      let ch = (!e land !f) lxor ((lnot !e) land m32 land !g) in
      let t1 = (!hh + s1 + ch + k256.(t) + w.(t)) land m32 in
      let s0 = rotr !a 2 lxor rotr !a 13 lxor rotr !a 22 in
      let maj = (!a land !bb) lxor (!a land !c) lxor (!bb land !c) in
      let t2 = (s0 + maj) land m32 in
      hh := !g; g := !f; f := !e; e := (!d + t1) land m32;
      d := !c; c := !bb; bb := !a; a := (t1 + t2) land m32
    done;
    h.(0) <- (h.(0) + !a) land m32; h.(1) <- (h.(1) + !bb) land m32;
    h.(2) <- (h.(2) + !c) land m32; h.(3) <- (h.(3) + !d) land m32;
    h.(4) <- (h.(4) + !e) land m32; h.(5) <- (h.(5) + !f) land m32;
    h.(6) <- (h.(6) + !g) land m32; h.(7) <- (h.(7) + !hh) land m32
  done;
  String.init 32 (fun i -> Char.chr ((h.(i / 4) lsr (8 * (3 - i mod 4))) land 0xff))

(* first CHECKSUM_SIZE bytes of Hash(payload) *)
let h4 (payload : Model.n list) : Model.n list =
  nl_of_string (String.sub (sha256 (sha256 (string_of_nl payload))) 0 4)

(* ---------------------------------------------------------------------------------------------- *)
(* the stand-in v2 cipher *)
type sess = { sid : int64; dir : int }    (* dir 0: initiator -> responder, 1: responder -> initiator *)

let mix (s : sess) (n : int) (tag : char) : int64 =
  fnv_from s.sid (Printf.sprintf "%d/%d/%c" s.dir n tag)
let keystream (s : sess) (n : int) (tag : char) (len : int) : string = lcg_bytes (mix s n tag) len
let xor_str (a : string) (b : string) : string = String.init (String.length a) (fun i -> Char.chr (Char.code a.[i] lxor Char.code b.[i]))

let toy_term (s : sess) : Model.n list = nl_of_string (keystream s 0 'T' 16)
let toy_lenc (s : sess) (n : Model.nat) (len : Model.z) : Model.n list =
  let l = int_of_z len in
  let pt = String.init 3 (fun i -> Char.chr ((l lsr (8 * i)) land 255)) in
  nl_of_string (xor_str pt (keystream s (int_of_nat n) 'L' 3))
let toy_ldec (s : sess) (n : Model.nat) (b : Model.n list) : Model.z =
  let ct = string_of_nl b in
  if String.length ct <> 3 then z_of_int 0 else begin
    let pt = xor_str ct (keystream s (int_of_nat n) 'L' 3) in
    z_of_int (Char.code pt.[0] + (Char.code pt.[1] lsl 8) + (Char.code pt.[2] lsl 16))
  end
let toy_tag (s : sess) (n : int) (aad : string) (ct : string) : string =
  let body = Printf.sprintf "%d:" (String.length aad) ^ aad ^ ct in
  let t1 = fnv_from (mix s n 'A') body and t2 = fnv_from (mix s n 'B') body in
  String.init 16 (fun i -> let v = if i < 8 then t1 else t2 in
                           Char.chr (Int64.to_int (Int64.logand (Int64.shift_right_logical v (8 * (i land 7))) 255L)))
let toy_penc (s : sess) (n : Model.nat) (aad : Model.n list) (h : Model.n) (c : Model.n list) : Model.n list =
  let n = int_of_nat n in
  let pt = String.make 1 (Char.chr (int_of_byte h)) ^ string_of_nl c in
  let ct = xor_str pt (keystream s n 'P' (String.length pt)) in
  nl_of_string (ct ^ toy_tag s n (string_of_nl aad) ct)
let toy_pdec (s : sess) (n : Model.nat) (aad : Model.n list) (input : Model.n list) : (Model.n * Model.n list) option =
  let n = int_of_nat n in
  let inp = string_of_nl input in
  let l = String.length inp in
  if l < 17 then None else begin
    let ct = String.sub inp 0 (l - 16) and tag = String.sub inp (l - 16) 16 in
    if tag <> toy_tag s n (string_of_nl aad) ct then None
    else begin
      let pt = xor_str ct (keystream s n 'P' (String.length ct)) in
      Some (byte_tab.(Char.code pt.[0]), nl_of_string (String.sub pt 1 (String.length pt - 1)))
    end
  end
(* the session a side derives: from the initiator's and the responder's key strings as that side sees them *)
let session (init_pk : string) (resp_pk : string) (dir : int) : sess = { sid = fnv (init_pk ^ resp_pk); dir }

(* ---------------------------------------------------------------------------------------------- *)
(* case parsing *)
type cur = { w : string array; mutable i : int }
let next c = if c.i >= Array.length c.w then failwith "short case" else (let x = c.w.(c.i) in c.i <- c.i + 1; x)
let expect c t = if next c <> t then failwith ("expected " ^ t)
let num c = int_of_string (next c)
let read_sched c : int list = expect c "F"; let n = num c in let l = List.init n (fun _ -> num c) in if l = [] then [1 lsl 20] else l
let read_flips c : (int * int) list = expect c "X"; let n = num c in List.init n (fun _ -> let o = num c in let b = num c in (o, b))
let apply_flips (w : string) (f : (int * int) list) : string =
  let b = Bytes.of_string w in
  List.iter (fun (o, bit) -> if o < Bytes.length b then Bytes.set b o (Char.chr (Char.code (Bytes.get b o) lxor (1 lsl bit)))) f;
  Bytes.to_string b
(* cut a stream by the cyclic schedule *)
let chunks (w : string) (sched : int list) : string list =
  let a = Array.of_list sched in
  let rec go pos k acc =
    if pos >= String.length w then List.rev acc
    else begin
      let s = let v = a.(k mod Array.length a) in if v = 0 then 1 else v in
      let s = min s (String.length w - pos) in
      go (pos + s) (k + 1) (String.sub w pos s :: acc)
    end in
  go 0 0 []

let magic_of (chain : int) : Model.n list = List.nth Model.tR_MAGICS chain
let ids = Model.bIP324_SHORT_IDS

let out_str (o : Model.out) : string =
  match o with
  | Model.Rejected -> "R"
  | Model.Delivered (t, p) -> let ps = string_of_nl p in
      "D:" ^ hex_of_raw (string_of_nl t) ^ ":" ^ string_of_int (String.length ps) ^ ":" ^ hex64 (fnv ps)
let outs_str (l : Model.out list) : string = if l = [] then "-" else String.concat "," (List.map out_str l)

(* the v1 sender model, pumped with the same schedule as the implementation's socket writer *)
type sendst = { mutable k : int }
let v1_send (magic : Model.n list) (sched : int array) (st : sendst) (t : string) (p : string) : string =
  match Model.v1_set_message_to_send magic h4 Model.v1send_init (nl_of_string t) (nl_of_string p) with
  | None -> failwith "model refused SetMessageToSend"
  | Some s ->
      let total = 24 + String.length p in
      (* the pieces the writer takes: cyclic schedule continued across messages, capped by what is offered *)
      let rec plan acc left hdr_left =
        if left = 0 then List.rev acc
        else begin
          let avail = if hdr_left > 0 then hdr_left else left in
          let v = let v = sched.(st.k mod Array.length sched) in if v = 0 then 1 else v in
          st.k <- st.k + 1;
          let take = min v avail in
          plan (nat_of_int take :: acc) (left - take) (if hdr_left > 0 then hdr_left - take else 0)
        end in
      let sc = plan [] total 24 in
      let (_, wire) = Model.v1_pump sc s [] in
      string_of_nl wire

(* crafted frames seen in the last read_items: (24 header bytes, payload bytes that follow) *)
let crafted_frames : (string * string) list ref = ref []
let raw_bytes_items = ref false
let read_items c (magic : Model.n list) (sched : int list) : string * (string * string) list * bool =
  expect c "I";
  let n = num c in
  let st = { k = 0 } in
  let sa = Array.of_list sched in
  let buf = Buffer.create 256 in
  let sent = ref [] and crafted = ref false in
  crafted_frames := []; raw_bytes_items := false;
  for _ = 1 to n do
    match next c with
    | "M" -> let t = raw_of_hex (next c) in let p = pspec (next c) in
        Buffer.add_string buf (v1_send magic sa st t p); sent := (t, p) :: !sent
    | "R" -> let h = raw_of_hex (next c) in let p = pspec (next c) in
        Buffer.add_string buf h; Buffer.add_string buf p; crafted := true; crafted_frames := (h, p) :: !crafted_frames
    | "B" -> Buffer.add_string buf (raw_of_hex (next c)); crafted := true; raw_bytes_items := true
    | k -> failwith ("bad item " ^ k)
  done;
  (Buffer.contents buf, List.rev !sent, !crafted)

let to_chunks (w : string) (sched : int list) : Model.n list list = List.map nl_of_string (chunks w sched)

let run_v1 c =
  let magic = magic_of (num c) in
  let sched = read_sched c in
  let flips = read_flips c in
  let (wire, sent, crafted) = read_items c magic sched in
  let wd = string_of_int (String.length wire) ^ ":" ^ hex64 (fnv wire) in
  let wire' = apply_flips wire flips in
  let r = Model.node_recv_chunks (Model.v1_iter magic h4) (Model.Alive (Model.v1_init, [])) (to_chunks wire' sched) in
  let dead = Model.conn_dead r in
  ("wire=" ^ wd ^ " dead=" ^ string_of_bool01 dead ^ " outs=" ^ outs_str (Model.conn_outs r), sent, crafted, flips <> [])

let v2_recv magic rinit (own_pk : string) (wire : string) sched =
  let recv_dir = if rinit then 1 else 0 in
  let kex (pk : Model.n list) : sess =
    let p = string_of_nl pk in
    if rinit then session own_pk p recv_dir else session p own_pk recv_dir in
  Model.node_recv_chunks (Model.v2_iter magic h4 ids rinit kex toy_term toy_ldec toy_pdec)
    (Model.Alive (Model.v2_init rinit, [])) (to_chunks wire sched)

let run_v2raw c =
  let magic = magic_of (num c) in
  let rinit = num c <> 0 in
  let rseed = u64_of_string (next c) in
  let _rgarb = num c in
  let sched = read_sched c in
  let flips = read_flips c in
  let (wire, _, _) = read_items c magic sched in
  let wire' = apply_flips wire flips in
  let own_pk = lcg_bytes (Int64.add rseed 77L) 64 in
  let r = v2_recv magic rinit own_pk wire' sched in
  "dead=" ^ string_of_bool01 (Model.conn_dead r) ^ " outs=" ^ outs_str (Model.conn_outs r)

let pkt_desc (ig : bool) (cn : string) : string =
  let pl = min (String.length cn) 13 in
  (if ig then "1" else "0") ^ ":" ^ hex_of_raw (String.sub cn 0 pl) ^ ":" ^ string_of_int (String.length cn) ^ ":" ^ hex64 (fnv cn)

let within_limit_trunc = ref false
(* returns the model's output line and, for `holds`, what had to be delivered / the expected tx field *)
let run_v2 c =
  let magic = magic_of (num c) in
  let rinit = num c <> 0 in
  let rseed = u64_of_string (next c) in
  let rgarb = num c in
  let pseed = u64_of_string (next c) in
  expect c "G";
  let pgarbage = pspec (next c) in
  let sched = read_sched c in
  let flips = read_flips c in
  let own_pk = lcg_bytes (Int64.add rseed 77L) 64 and peer_pk = lcg_bytes (Int64.add pseed 77L) 64 in
  let sess0 dir = if rinit then session own_pk peer_pk dir else session peer_pk own_pk dir in
  let rx_dir = if rinit then 1 else 0 in
  let ssend = sess0 rx_dir in
  expect c "P";
  let np = num c in
  (* complete packets, and optionally a last one of which only the length bytes are sent: "<ig> T <len>" *)
  let trunc = ref None in
  let pkts = List.concat (List.init np (fun j ->
    let ig = num c <> 0 in
    let pre = next c in
    if pre = "T" then (trunc := Some (j, num c); [])
    else (let p = pspec (next c) in [(ig, nl_of_string (raw_of_hex pre ^ p))]))) in
  let wire = string_of_nl (Model.v2_stream (toy_term ssend) (toy_lenc ssend) (toy_penc ssend)
                             (nl_of_string peer_pk) (nl_of_string pgarbage) pkts) in
  let wire = match !trunc with
    | None -> wire
    | Some (j, len) -> wire ^ string_of_nl (toy_lenc ssend (nat_of_int j) (z_of_int len)) in
  let rxlen = String.length wire in
  let wire' = apply_flips wire flips in
  let key_tampered = List.exists (fun (o, _) -> o < 64) flips in
  let r = v2_recv magic rinit own_pk wire' sched in
  let dead = Model.conn_dead r in
  let sid = match r with
    | Model.Alive (Model.SPkt (s, true, _, _, _, _), _) -> if s.sid = ssend.sid then "1" else "0"
    | _ -> "-" in
  expect c "S";
  let ns = num c in
  let tosend = List.init ns (fun _ -> let t = raw_of_hex (next c) in let p = pspec (next c) in (t, p)) in
  let (tx, txlen) =
    if dead || key_tampered then ("-", "-")
    else begin
      let cs = "" :: List.map (fun (t, p) -> string_of_nl (Model.v2_contents ids (nl_of_string t) (nl_of_string p))) tosend in
      let total = 64 + rgarb + 16 + List.fold_left (fun a cn -> a + 20 + String.length cn) 0 cs in
      (string_of_int (List.length cs) ^ ":" ^ String.concat "," (List.map (pkt_desc false) cs), string_of_int total)
    end in
  let line = "rx=" ^ string_of_int rxlen ^ " sid=" ^ sid ^ " dead=" ^ string_of_bool01 dead ^ " outs=" ^ outs_str (Model.conn_outs r)
             ^ " tx=" ^ tx ^ " txlen=" ^ txlen in
  (* a peer that announces a packet without sending it is treated like a tampered stream: only a prefix is due;
     announcing a length within the limit must not cost the connection *)
  within_limit_trunc := (match !trunc with Some (_, len) -> flips = [] && len <= int_of_z Model.mAX_CONTENTS_LEN | None -> false);
  (line, Model.v2_expected ids false pkts, flips <> [] || !trunc <> None, tx)

let run_v2rr c =
  let magic = magic_of (num c) in
  let seedA = u64_of_string (next c) in let garbA = num c in
  let seedB = u64_of_string (next c) in let garbB = num c in
  let sched = read_sched c in
  let readq tag = expect c tag; let n = num c in List.init n (fun _ -> let t = raw_of_hex (next c) in let p = pspec (next c) in (t, p)) in
  let qa = readq "A" in
  let qb = readq "B" in
  let pkA = lcg_bytes (Int64.add seedA 77L) 64 and pkB = lcg_bytes (Int64.add seedB 77L) 64 in
  let dirn from_init msgs garb own_pk =
    let s = session pkA pkB (if from_init then 0 else 1) in
    let pkts = (false, []) :: List.map (fun (t, p) -> (false, Model.v2_contents ids (nl_of_string t) (nl_of_string p))) msgs in
    let wire = string_of_nl (Model.v2_stream (toy_term s) (toy_lenc s) (toy_penc s) (nl_of_string own_pk)
                               (nl_of_string (lcg_bytes 1L garb)) pkts) in
    (wire, pkts) in
  let (wa, pa) = dirn true qa garbA pkA in
  let (wb, pb) = dirn false qb garbB pkB in
  let rb = v2_recv magic false pkB wa sched in     (* B receives A's stream *)
  let ra = v2_recv magic true pkA wb sched in      (* A receives B's stream *)
  let line = "sid=1 a_dead=" ^ string_of_bool01 (Model.conn_dead ra) ^ " b_dead=" ^ string_of_bool01 (Model.conn_dead rb)
             ^ " a_outs=" ^ outs_str (Model.conn_outs ra) ^ " b_outs=" ^ outs_str (Model.conn_outs rb)
             ^ " alen=" ^ string_of_int (String.length wa) ^ " blen=" ^ string_of_int (String.length wb) in
  (line, Model.v2_expected ids false pb, Model.v2_expected ids false pa)

let model _args line =
  let w = Array.of_list (words line) in
  if Array.length w = 0 then "na" else begin
    let c = { w; i = 1 } in
    match w.(0) with
    | "v1" -> let (l, _, _, _) = run_v1 c in l
    | "v2" -> let (l, _, _, _) = run_v2 c in l
    | "v2raw" -> run_v2raw c
    | "v2rr" -> let (l, _, _) = run_v2rr c in l
    | _ -> "na"
  end

(* ---------------------------------------------------------------------------------------------- *)
(* the property's predicate on what the implementation did.  Payloads are compared through (length, FNV digest),
   as both drivers print them. *)
let field (impl : string) (name : string) : string =
  let key = name ^ "=" in
  let ws = words impl in
  match List.find_opt (fun x -> String.length x >= String.length key && String.sub x 0 (String.length key) = key) ws with
  | Some x -> String.sub x (String.length key) (String.length x - String.length key)
  | None -> failwith ("no field " ^ name)

let parse_outs (s : string) : Model.out list =
  if s = "-" then [] else
  List.map (fun o ->
    if o = "R" then Model.Rejected
    else match String.split_on_char ':' o with
      | ["D"; t; l; h] -> Model.Delivered (nl_of_string (raw_of_hex t), nl_of_string (l ^ ":" ^ h))
      | _ -> failwith ("bad out " ^ o)) (String.split_on_char ',' s)
let digest_out (o : Model.out) : Model.out =
  match o with
  | Model.Rejected -> o
  | Model.Delivered (t, p) -> let ps = string_of_nl p in
      Model.Delivered (t, nl_of_string (string_of_int (String.length ps) ^ ":" ^ hex64 (fnv ps)))

let holds _args case impl =
  let w = Array.of_list (words case) in
  if Array.length w = 0 then "na" else begin
    let c = { w; i = 1 } in
    match w.(0) with
    | "v1" ->
        let (_, sent, crafted, tampered) = run_v1 c in
        if crafted then begin
          (* crafted frames: the checksum clause evaluated on what was delivered — every delivered payload must be the
             payload of a frame whose checksum field is the checksum of that payload — and a header announcing a size
             within the limit must not cost the connection *)
          if !raw_bytes_items then "na" else begin
            let magic = string_of_nl (magic_of (int_of_string (List.nth (words case) 1))) in
            let maxp = int_of_z Model.mAX_CONTENTS_LEN - 13 in
            let size_of h = Char.code h.[16] + (Char.code h.[17] lsl 8) + (Char.code h.[18] lsl 16) + (Char.code h.[19] lsl 24) in
            let dig p = string_of_int (String.length p) ^ ":" ^ hex64 (fnv p) in
            let legit = List.map (fun (_, p) -> dig p) sent
                        @ List.filter_map (fun (h, p) ->
                            if String.length h = 24 && String.sub h 20 4 = String.sub (sha256 (sha256 p)) 0 4 then Some (dig p) else None) !crafted_frames in
            let got = parse_outs (field impl "outs") in
            let bad = List.exists (function Model.Delivered (_, p) -> not (List.mem (string_of_nl p) legit) | Model.Rejected -> false) got in
            let within = (not tampered) && List.for_all (fun (h, p) ->
                            String.length h = 24 && String.sub h 0 4 = magic && size_of h <= maxp && String.length p <= size_of h) !crafted_frames in
            if bad then "fail v1-delivered-a-payload-that-does-not-match-its-checksum"
            else if within && field impl "dead" = "1" then "fail v1-disconnected-on-a-frame-within-the-size-limit"
            else "ok"
          end
        end
        else begin
          let sent = List.map (fun (t, p) -> digest_out (Model.Delivered (nl_of_string t, nl_of_string p))) sent in
          let got = parse_outs (field impl "outs") in
          let dead = field impl "dead" = "1" in
          if Model.holds_v1 tampered sent got dead then "ok"
          else if tampered then "fail v1-delivered-a-payload-that-was-not-sent"
          else "fail v1-untampered-stream-not-delivered-exactly"
        end
    | "v2" ->
        let (_, expected, tampered, tx) = run_v2 c in
        let expected = List.map digest_out expected in
        let got = parse_outs (field impl "outs") in
        let dead = field impl "dead" = "1" in
        if not (Model.holds_v2 tampered expected got dead) then
          (if tampered then "fail v2-delivered-something-not-sent-after-tampering" else "fail v2-untampered-stream-not-delivered-exactly")
        else if !within_limit_trunc && dead then "fail v2-disconnected-on-a-packet-within-the-size-limit"
        else if (not tampered) && field impl "sid" <> "1" && expected <> [] then "fail v2-session-id-mismatch"
        else begin
          let itx = field impl "tx" in
          if itx <> "-" && tx <> "-" && itx <> tx then "fail v2-sender-encoding-differs-from-bip324" else "ok"
        end
    | "v2rr" ->
        let (_, ea, eb) = run_v2rr c in   (* what A / B must deliver: the other side's messages *)
        let ea = List.map digest_out ea and eb = List.map digest_out eb in
        let ga = parse_outs (field impl "a_outs") and gb = parse_outs (field impl "b_outs") in
        if field impl "sid" <> "1" then "fail v2-session-id-mismatch"
        else if not (Model.holds_v2 false ea ga (field impl "a_dead" = "1")) then "fail v2-untampered-stream-not-delivered-exactly"
        else if not (Model.holds_v2 false eb gb (field impl "b_dead" = "1")) then "fail v2-untampered-stream-not-delivered-exactly"
        else "ok"
    | _ -> "na"
  end

let () = main_loop ~model ~holds
