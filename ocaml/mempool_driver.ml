(* Model side of the `mempool` family (C22, C23, C28): replays the operation script of tie/drivers/mempool_drv.cpp on
   the extracted Coq model (Model.step and its parts: accept, connect_all, resurrect, remove_for_reorg, expire, trim;
   Model.assemble for templates) and prints the observable part of the implementation's line in the same form.

   Both modes receive `<case> => <implementation line>`.  From the implementation line the model replay takes ONLY
   what the model does not decide (see coq/model/Mempool.v):
     - the fixture's block times (init token) and virtual sizes / base fees of transactions (entry dumps);
     - for a rejected ATMP whose reason is a policy reason: the stage of that policy rule; for disconnected transactions
       that never produced an "added" event: that they were turned away;
     - which transactions were evicted for SIZELIMIT;
     - where the active tip went (chain selection, family ChainSel): the sequence of disconnect/connect steps is derived
       from old tip -> new tip over the block tree the script defines;
     - for a template: the chunk sequence the block builder handed out (TxGraph, C25), with each entry's weight / sigops.
   Everything else in the printed token (verdict class, replaced / conflict / reorg / expiry removal sets, added events,
   the resulting pool, for templates the selected list, fees, coinbase value) is computed by the extracted model.
   Fields the model has no opinion on (ProcessNewBlock's return and BlockChecked verdicts, the reported tip, vs=) are echoed.

   `holds`: the property's predicate on what the implementation dumped after every operation: Model.check_dump on the
   dump of the real structures (C22), Model.check_template on every template (C23), the test-accept clauses (C28), plus
   the node's own verdicts (CTxMemPool::check, TestBlockValidity of the whole pool / of the template). *)
open Conv

let z = z_of_int
let zs = z_of_string
let split_on c s = String.split_on_char c s
let starts_with p s = String.length s >= String.length p && String.sub s 0 (String.length p) = p
let after p s = String.sub s (String.length p) (String.length s - String.length p)
let field ws key = match List.find_opt (starts_with (key ^ "=")) ws with Some w -> Some (after (key ^ "=") w) | None -> None
let field_d ws key d = match field ws key with Some v -> v | None -> d
let list_of s = if s = "-" || s = "" then [] else split_on ',' s
let join sep l = if l = [] then "-" else String.concat sep l

(* split the implementation line into tokens (" | "), each into observable part and detail (" ;; ") *)
let split_str sep s =
  let re = Str.regexp_string sep in Str.split_delim re s
let tokens line = List.map String.trim (split_str " | " line)
let obs_detail tok = match split_str " ;; " tok with [a; b] -> (a, b) | a :: _ -> (a, "") | [] -> ("", "")

(* ------------------------------------------------------------------------------------------ *)
type blk = { bname : string; parent : string; bheight : int; mblock : Model.block }

type st = {
  ids : (string, int) Hashtbl.t;
  names : (int, string) Hashtbl.t;
  txs : (string, Model.tx) Hashtbl.t;
  txdefs : (string, string list) Hashtbl.t;     (* raw definition words *)
  blocks : (string, blk) Hashtbl.t;
  sizes : (string, int) Hashtbl.t;              (* vsize by name, from the implementation's dumps *)
  fees : (string, string) Hashtbl.t;            (* base fee by name, from the implementation's dumps *)
  mutable next_id : int;
  mutable t0 : Z.t;
  mutable ms : Model.state;
  mutable tip : string;                          (* block name of the model's tip *)
}

let id_of s name =
  match Hashtbl.find_opt s.ids name with
  | Some i -> i
  | None -> let i = s.next_id in s.next_id <- i + 1; Hashtbl.replace s.ids name i; Hashtbl.replace s.names i name; i
let name_of s (i : Model.z) = match Hashtbl.find_opt s.names (int_of_z i) with Some n -> n | None -> "#" ^ string_of_z i
let names_sorted s l = List.sort compare (List.map (name_of s) l)

let mk_tx id vin nout ver lt ok fee size : Model.tx =
  { Model.t_id = z id; t_vin = vin; t_nout = z nout; t_version = zs ver; t_locktime = lt; t_script_ok = ok; t_fee = fee; t_size = z size }

let fixture_name h = "h" ^ string_of_int h

let fresh () =
  { ids = Hashtbl.create 64; names = Hashtbl.create 64; txs = Hashtbl.create 64; txdefs = Hashtbl.create 64;
    blocks = Hashtbl.create 16; sizes = Hashtbl.create 64; fees = Hashtbl.create 64; next_id = 1000; t0 = Z.zero;
    ms = { Model.s_chain = []; s_pool = Model.empty_pool; s_now = z 0; s_expiry = z 0 }; tip = "h100" }

(* the fixture: genesis (coinbase 0 without spendable output) + 100 blocks with coinbases f1..f100 (one spendable output) *)
let init_state s (init_words : string list) expiry_hours =
  let times = List.map Z.of_string (list_of (field_d init_words "times" "-")) in
  let t0 = Z.of_string (field_d init_words "t0" "0") in
  s.t0 <- t0;
  let now = Z.add t0 (Z.of_string (field_d init_words "now" "0")) in
  let chain = ref [] in
  List.iteri (fun h rel ->
      let cbname = if h = 0 then "genesis" else "f" ^ string_of_int h in
      let cid = if h = 0 then 0 else h in
      Hashtbl.replace s.ids cbname cid; Hashtbl.replace s.names cid cbname;
      let cb = mk_tx cid [] (if h = 0 then 0 else 1) "1" (z 0) true (z 0) 0 in
      Hashtbl.replace s.txs cbname cb;
      let b = { Model.b_id = z (100000 + h); b_time = z_of_zt (Z.add t0 rel); b_txs = [cb] } in
      Hashtbl.replace s.blocks (fixture_name h) { bname = fixture_name h; parent = (if h = 0 then "" else fixture_name (h - 1)); bheight = h; mblock = b };
      chain := b :: !chain) times;
  s.ms <- { Model.s_chain = !chain; s_pool = Model.empty_pool; s_now = z_of_zt now;
            s_expiry = z_of_zt (Z.mul (Z.of_int 3600) expiry_hours) };
  s.tip <- fixture_name (List.length times - 1)

(* tx NAME VER LOCKTIME FEE PAD INS NOUT [SIGOPS] *)
let def_tx s (w : string list) =
  let a = Array.of_list w in
  let name = a.(1) in
  let lt = if starts_with "t" a.(3) then z_of_zt (Z.add s.t0 (Z.of_string (after "t" a.(3)))) else zs a.(3) in
  let ok = ref true in
  let vin = List.map (fun i ->
      let i = if String.length i > 0 && i.[String.length i - 1] = '!' then (ok := false; String.sub i 0 (String.length i - 1)) else i in
      match split_on ':' i with
      | [src; n; sq] -> (((z (id_of s src), zs n) : Model.outpoint), (if sq = "f" then zs "4294967295" else zs sq))
      | _ -> failwith "BADSCRIPT") (split_on ',' a.(6)) in
  let fee = match Hashtbl.find_opt s.fees name with Some f -> zs f | None -> zs a.(4) in
  let size = match Hashtbl.find_opt s.sizes name with Some v -> v | None -> 0 in
  let t = mk_tx (id_of s name) vin (int_of_string a.(7)) a.(2) lt !ok fee size in
  Hashtbl.replace s.txs name t; Hashtbl.replace s.txdefs name w

let def_block s name parent rel txnames =
  let pb = Hashtbl.find s.blocks parent in
  let cb = mk_tx (id_of s name) [] 1 "2" (z 0) true (z 0) 0 in
  Hashtbl.replace s.txs name cb;
  let b = { Model.b_id = z (200000 + id_of s name); b_time = z_of_zt (Z.add s.t0 (Z.of_string rel));
            b_txs = cb :: List.map (fun n -> match Hashtbl.find_opt s.txs n with Some t -> t | None -> failwith "BADSCRIPT") txnames } in
  Hashtbl.replace s.blocks name { bname = name; parent; bheight = pb.bheight + 1; mblock = b }

(* ---- block tree walks ---- *)
let rec ancestors s n = if n = "" then [] else n :: ancestors s (Hashtbl.find s.blocks n).parent
(* F = the fixture tip; h<k> = the block at height k of the active chain *)
let canon_block s n =
  if n = "F" then "h100"
  else if Hashtbl.mem s.blocks n then n
  else if String.length n >= 2 && n.[0] = 'h' && (match int_of_string_opt (String.sub n 1 (String.length n - 1)) with Some _ -> true | None -> false) then begin
    let k = int_of_string (String.sub n 1 (String.length n - 1)) in
    match List.find_opt (fun x -> (Hashtbl.find s.blocks x).bheight = k) (ancestors s s.tip) with Some x -> x | None -> n
  end else n
let lca s a b =
  let aa = ancestors s a in
  List.find (fun x -> List.mem x aa) (ancestors s b)
(* blocks from (excluding) anc up to b, oldest first *)
let path_from s anc b =
  let rec go n acc = if n = anc then acc else go (Hashtbl.find s.blocks n).parent (n :: acc) in go b []
let hgt s n = (Hashtbl.find s.blocks n).bheight
let rec take k l = if k <= 0 then [] else match l with [] -> [] | x :: r -> x :: take (k - 1) r
let rec drop k l = if k <= 0 then l else match l with [] -> [] | _ :: r -> drop (k - 1) r

(* the ActivateBestChainStep sequence from tip a to tip b: (d, blocks to connect) *)
let rec steps_toward s a b =
  if a = b then []
  else
    let f = lca s a b in
    let d = hgt s a - hgt s f in
    let path = path_from s f b in
    let k = if d = 0 then 1 else d + 1 in
    let now_ = take k path in
    let a' = match List.rev now_ with x :: _ -> x | [] -> f in
    (d, now_) :: (if a' = a then [] else steps_toward s a' b)

(* ---- running model steps with attribution of removals ---- *)
type acc = { mutable added : string list; mutable removed : (string * string) list (* reason, name *) }

let pool_ids (p : Model.pool) = List.map int_of_z (Model.pool_ids p)
let diff a b = List.filter (fun x -> not (List.mem x b)) a

let record s acc reason (before : Model.pool) (after : Model.pool) =
  List.iter (fun i -> acc.removed <- (reason, name_of s (z i)) :: acc.removed) (diff (pool_ids before) (pool_ids after))

let nat_of = nat_of_int

(* one reorg step, decomposed as Model.reorg composes it (checked against Model.reorg at the end) *)
let reorg_step s acc d (bnames : string list) add rejected evict =
  let st = s.ms in
  let bs = List.map (fun n -> (Hashtbl.find s.blocks n).mblock) bnames in
  let (c1, dp) = Model.disconnect_n (nat_of d) st.Model.s_chain [] in
  let pcur = ref st.Model.s_pool and ccur = ref c1 and dpcur = ref dp in
  List.iter (fun b ->
      let ((c2, p2), dp2) = Model.connect_all !ccur !pcur !dpcur [b] in
      let blockids = List.map (fun t -> int_of_z t.Model.t_id) b.Model.b_txs in
      List.iter (fun i -> if not (List.mem i blockids) then acc.removed <- ("conflict", name_of s (z i)) :: acc.removed)
        (diff (pool_ids !pcur) (pool_ids p2));
      ccur := c2; pcur := p2; dpcur := dp2) bs;
  let final =
    if d = 0 then Some { st with Model.s_chain = !ccur; s_pool = !pcur }
    else begin
      List.iter (fun t ->
          let p' = Model.resurrect add rejected !ccur st.Model.s_now !pcur [t] in
          let before = pool_ids !pcur and after = pool_ids p' in
          if List.mem (int_of_z t.Model.t_id) after && not (List.mem (int_of_z t.Model.t_id) before) then
            acc.added <- acc.added @ [name_of s t.Model.t_id];
          List.iter (fun i -> acc.removed <- ("reorg", name_of s (z i)) :: acc.removed) (diff before after);
          pcur := p') !dpcur;
      match Model.remove_for_reorg !ccur !pcur with
      | None -> None
      | Some p4 ->
        record s acc "reorg" !pcur p4;
        let p5 = Model.expire p4 (z_of_zt (Z.sub (zt_of_z st.Model.s_now) (zt_of_z st.Model.s_expiry))) in
        record s acc "expiry" p4 p5;
        let p6 = Model.trim p5 evict in
        record s acc "sizelimit" p5 p6;
        Some { st with Model.s_chain = !ccur; s_pool = p6 }
    end in
  let direct = Model.step st (Model.OpReorg (nat_of d, bs, add, rejected, evict)) in
  (match final, direct with
   | Some a, Some b when a = b -> s.ms <- a; true
   | None, None -> false
   | _ -> failwith "GLUE-MISMATCH reorg")

let stage_of_reason r =
  let model_decided = ["ok"; "bad-txns-vin-empty"; "bad-txns-inputs-duplicate"; "non-final"; "txn-already-in-mempool";
                       "txn-same-nonwitness-data-in-mempool"; "bad-txns-inputs-missingorspent"; "txn-already-known";
                       "non-BIP68-final"; "bad-txns-premature-spend-of-coinbase"; "bad-txns-spends-conflicting-tx";
                       "script-verify-failed"; "mempool_full"] in
  if List.mem r model_decided then None
  else if List.mem r ["bad-txns-nonstandard-inputs"; "bad-witness-nonstandard"; "bad-txns-too-many-sigops"; "min_relay_fee_not_met";
                      "mempool_min_fee_not_met"; "TRUC-violation"] then Some Model.P_pre
  else if List.mem r ["insufficient_fee"; "too_many_potential_replacements"; "replacement-failed"; "too-large-cluster";
                      "insufficient_fee_(including_sibling_eviction)"; "too_many_potential_replacements_(including_sibling_eviction)"] then Some Model.P_rbf
  else if List.mem r ["max_feerate_exceeded"; "missing-ephemeral-spends"] then Some Model.P_late
  else Some Model.P_early

let reason_str = function
  | Model.R_vin_empty -> "bad-txns-vin-empty" | Model.R_dup_inputs -> "bad-txns-inputs-duplicate" | Model.R_policy -> "policy"
  | Model.R_nonfinal -> "non-final" | Model.R_in_mempool -> "in-mempool" | Model.R_missing -> "missing"
  | Model.R_nonbip68 -> "non-BIP68-final" | Model.R_premature -> "bad-txns-premature-spend-of-coinbase"
  | Model.R_spends_conflict -> "bad-txns-spends-conflicting-tx" | Model.R_script -> "script-verify-failed" | Model.R_full -> "mempool_full"

let removed_by reason (ws : string list) =
  (* R=reason:a,b/reason2:c *)
  match field ws "R" with
  | None | Some "-" -> []
  | Some r -> List.concat_map (fun part -> match split_on ':' part with
      | [k; v] when k = reason -> list_of v | _ -> []) (split_on '/' r)

let fmt_events s acc =
  let by = Hashtbl.create 8 in
  List.iter (fun (r, n) -> Hashtbl.replace by r (n :: (try Hashtbl.find by r with Not_found -> []))) acc.removed;
  let parts = Hashtbl.fold (fun r ns l -> (r ^ ":" ^ join "," (List.sort_uniq compare ns)) :: l) by [] in
  "A=" ^ join "," acc.added ^ " R=" ^ join "/" (List.sort compare parts)

let tail s acc tipname = fmt_events s acc ^ " P=" ^ join "," (names_sorted s (Model.pool_ids s.ms.Model.s_pool)) ^ " tip=" ^ tipname

(* ---- templates (C23) ---- *)
let ltx_of s name =
  match Hashtbl.find_opt s.txs name with
  | Some t -> Model.to_ltx t
  | None -> { Model.lt_version = z 2; lt_locktime = z 0; lt_seqs = [] }
let parents_of s name =
  match Hashtbl.find_opt s.txs name with
  | Some t -> List.sort_uniq compare (List.map (fun ((h, _), _) -> h) t.Model.t_vin)
  | None -> []
(* K=fee:size:name~w~sig~fee.name~...  / ... *)
let parse_chunks s k : Model.chunk list =
  if k = "-" then [] else
    List.map (fun c -> match split_on ':' c with
        | [fee; size; txs] ->
          { Model.k_fee = zs fee; k_size = zs size;
            k_txs = List.map (fun t -> match split_on '~' t with
                | [n; w; sg; f] -> { Model.c_id = z (id_of s n); c_weight = zs w; c_sigops = zs sg; c_fee = zs f; c_ltx = ltx_of s n; c_parents = parents_of s n }
                | _ -> failwith "bad chunk tx") (split_on '.' txs) }
        | _ -> failwith "bad chunk") (split_on '/' k)
let interval = z 150   (* regtest nSubsidyHalvingInterval; cross-checked against the driver's sub= in holds *)

(* ------------------------------------------------------------------------------------------ *)
let prescan s (itoks : string list) =
  (* sizes and base fees of entries from every dump; vs= / bf= of accepted atmps *)
  List.iter (fun tok ->
      let (o, d) = obs_detail tok in
      let ow = words o in
      (match ow with
       | "a" :: n :: "ok" :: _ | "t" :: n :: "ok" :: _ ->
         (match field ow "vs" with Some v -> Hashtbl.replace s.sizes n (int_of_string v) | None -> ());
         (match field ow "bf" with Some v -> Hashtbl.replace s.fees n v | None -> ())
       | _ -> ());
      let dw = words d in
      let rec ents = function
        | "E" :: r -> List.iter (fun e -> match split_on ',' e with
            | n :: fee :: _ :: vs :: _ -> Hashtbl.replace s.sizes n (int_of_string vs); Hashtbl.replace s.fees n fee
            | _ -> ()) (let rec upto = function [] -> [] | "X" :: _ -> [] | x :: r -> x :: upto r in upto r)
        | _ :: r -> ents r
        | [] -> () in
      ents dw) itoks

exception Stop of string

let run_model (case : string) (impl : string) : string =
  let s = fresh () in
  let ops = List.map words (split_on ';' case) in
  let ops = List.filter (fun w -> w <> []) ops in
  let itoks = tokens impl in
  (match itoks with t :: _ when starts_with "init" t -> () | _ -> raise (Stop (if impl = "" then "NOHINTS" else List.hd itoks)));
  prescan s itoks;
  let expiry = ref (zt_of_z Model.mP_DEFAULT_MEMPOOL_EXPIRY_HOURS) in
  let ops = match ops with
    | ("cfg" :: kvs) :: r ->
      List.iter (fun kv -> match split_on '=' kv with ["expiry"; v] -> expiry := Z.of_string v | _ -> ()) kvs; r
    | r -> r in
  init_state s (words (List.hd itoks)) !expiry;
  let out = ref [List.hd itoks] in
  let rest = ref (List.tl itoks) in
  let emit t = out := t :: !out in
  (try
     List.iter (fun w ->
         match w with
         | "tx" :: _ -> (try def_tx s w with Failure _ | Invalid_argument _ | Not_found -> raise (Stop "BADSCRIPT"))
         | _ ->
           let itok = match !rest with t :: r -> rest := r; t | [] -> raise (Stop "") in
           if itok = "CRASH" || itok = "BADSCRIPT" || starts_with "EXC" itok then raise (Stop "");
           let (iobs, _) = obs_detail itok in
           let iw = words iobs in
           let itip = canon_block s (field_d iw "tip" s.tip) in
           let acc = { added = []; removed = [] } in
           let evict = List.map (fun n -> z (id_of s n)) (removed_by "sizelimit" iw) in
           (match w with
            | [("atmp" | "test") as o; name] ->
              let t = (try Hashtbl.find s.txs name with Not_found -> raise (Stop "BADSCRIPT")) in
              let ireason = match iw with _ :: _ :: r :: _ -> r | _ -> "?" in
              let pol = stage_of_reason ireason in
              let test = (o = "test") in
              let st0 = s.ms in
              let (p1, r1) = Model.accept test pol st0.Model.s_chain st0.Model.s_now st0.Model.s_pool t in
              (* TRUC sibling eviction is a policy decision the model does not take: entries the implementation reports as
                 replaced beyond the model's own replacement set (input conflicts and their descendants) join the eviction set *)
              let ireplaced = removed_by "replaced" iw in
              let evict = match r1 with
                | Model.Accepted repl when not test ->
                  evict @ List.filter (fun i -> not (List.mem i repl)) (List.map (fun n -> z (id_of s n)) ireplaced)
                | _ -> evict in
              let (st1, r) = Model.process_transaction test pol evict st0 t in
              (match Model.step st0 (if test then Model.OpTest (t, pol) else Model.OpAccept (t, pol, evict)) with
               | Some x when x = st1 -> () | _ -> failwith "GLUE-MISMATCH atmp");
              (match r1 with
               | Model.Accepted repl when not test ->
                 List.iter (fun i -> acc.removed <- ("replaced", name_of s i) :: acc.removed) repl;
                 acc.added <- [name];
                 let p2 = Model.expire p1 (z_of_zt (Z.sub (zt_of_z st0.Model.s_now) (zt_of_z st0.Model.s_expiry))) in
                 record s acc "expiry" p1 p2;
                 List.iter (fun i -> let nm = name_of s (z i) in
                             acc.removed <- ((if List.mem nm ireplaced then "replaced" else "sizelimit"), nm) :: acc.removed)
                   (diff (pool_ids p2) (pool_ids st1.Model.s_pool));
                 (* the "added" event is only fired when the entry survived LimitMempoolSize *)
                 if not (Model.in_pool st1.Model.s_pool t.Model.t_id) then acc.added <- []
               | _ -> ());
              s.ms <- st1;
              let verdict = match r with
                | Model.Accepted _ -> "ok vs=" ^ string_of_int (int_of_z t.Model.t_size) ^ " bf=" ^ string_of_z t.Model.t_fee
                | Model.Rejected x -> reason_str x in
              let same = if test then " same=1" else "" in
              emit ((if test then "t " else "a ") ^ name ^ " " ^ verdict ^ same ^ " " ^ tail s acc (field_d iw "tip" "?"))
            | "pkg" :: names ->
              (* package submission: which transactions entered is the implementation's answer (A=, in the order they were
                 added); each of them must pass the model's structural acceptance in that order; LimitMempoolSize runs once at the end *)
              let iadded = list_of (field_d iw "A" "-") in
              let n_added = List.length iadded in
              List.iteri (fun k name ->
                  if List.mem name names then begin
                    let t = (try Hashtbl.find s.txs name with Not_found -> raise (Stop "BADSCRIPT")) in
                    let st0 = s.ms in
                    let last = (k = n_added - 1) in
                    let (p1, r1) = Model.accept false None st0.Model.s_chain st0.Model.s_now st0.Model.s_pool t in
                    (match r1 with
                     | Model.Accepted repl ->
                       List.iter (fun i -> acc.removed <- ("replaced", name_of s i) :: acc.removed) repl;
                       acc.added <- acc.added @ [name];
                       if last then begin
                         let (st1, _) = Model.process_transaction false None evict st0 t in
                         let p2 = Model.expire p1 (z_of_zt (Z.sub (zt_of_z st0.Model.s_now) (zt_of_z st0.Model.s_expiry))) in
                         record s acc "expiry" p1 p2;
                         record s acc "sizelimit" p2 st1.Model.s_pool;
                         s.ms <- st1
                       end else s.ms <- { st0 with Model.s_pool = p1 }
                     | Model.Rejected _ -> ())
                  end) iadded;
              (* entries evicted by the final LimitMempoolSize never fire their "added" event *)
              acc.added <- List.filter (fun n -> Model.in_pool s.ms.Model.s_pool (z (id_of s n)) || List.mem n iadded) acc.added;
              let echoed = match iw with _ :: _ :: r -> List.filter (fun x -> not (starts_with "A=" x || starts_with "R=" x || starts_with "P=" x || starts_with "tip=" x)) r | _ -> [] in
              emit ("k " ^ String.concat "," names ^ " " ^ String.concat " " echoed ^ " " ^ tail s acc (field_d iw "tip" "?"))
            | ("mine" | "fork" | "inval" | "recon") as o :: bname :: more ->
              (match o with
               | "mine" -> (match more with rel :: names -> (try def_block s bname s.tip rel names with Not_found | Failure _ -> raise (Stop "BADSCRIPT")) | [] -> raise (Stop "BADSCRIPT"))
               | "fork" -> (match more with par :: rel :: names ->
                   (try def_block s bname (canon_block s par) rel names with Not_found | Failure _ -> raise (Stop "BADSCRIPT")) | _ -> raise (Stop "BADSCRIPT"))
               | _ -> ());
              if not (Hashtbl.mem s.blocks itip) then raise (Stop "BADTIP");
              (* the steps the node took, from where the tip was to where the implementation says it is *)
              let steps =
                if o = "inval" then begin
                  let x = canon_block s bname in
                  let chainnames = ancestors s s.tip in
                  if List.mem x chainnames then begin
                    let n = hgt s s.tip - hgt s x + 1 in
                    let singles = List.init n (fun i -> (1, [], i < 10)) in
                    let a' = (Hashtbl.find s.blocks x).parent in
                    singles @ List.map (fun (d, bs) -> (d, bs, true)) (steps_toward s a' itip)
                  end else List.map (fun (d, bs) -> (d, bs, true)) (steps_toward s s.tip itip)
                end else List.map (fun (d, bs) -> (d, bs, true)) (steps_toward s s.tip itip) in
              (* transactions of disconnected blocks that were not (re)added: turned away *)
              let iadded = list_of (field_d iw "A" "-") in
              let aborted = ref false in
              List.iter (fun (d, bs, add) ->
                  if not !aborted then begin
                    let disc = List.concat_map (fun b -> List.tl b.Model.b_txs) (take d s.ms.Model.s_chain) in
                    let rejected = List.filter_map (fun t -> if List.mem (name_of s t.Model.t_id) iadded then None else Some t.Model.t_id) disc in
                    if not (reorg_step s acc d bs add rejected evict) then aborted := true
                    else s.tip <- (match List.rev bs with x :: _ -> x | [] ->
                        (* pure disconnects: walk down d blocks *)
                        let rec down n k = if k = 0 then n else down (Hashtbl.find s.blocks n).parent (k - 1) in down s.tip d)
                  end) steps;
              if !aborted then (emit "CRASH"; raise (Stop ""));
              let tag = match o with "inval" -> "i" | "recon" -> "r" | _ -> "b" in
              let echoed = match iw with _ :: _ :: r -> List.filter (fun x -> not (starts_with "A=" x || starts_with "R=" x || starts_with "P=" x || starts_with "tip=" x)) r | _ -> [] in
              emit (tag ^ " " ^ bname ^ " " ^ String.concat " " echoed ^ " " ^ tail s acc (field_d iw "tip" "?"))
            | ["time"; rel] ->
              (match Model.step s.ms (Model.OpTime (z_of_zt (Z.add s.t0 (Z.of_string rel)))) with Some x -> s.ms <- x | None -> ());
              emit ("c " ^ rel ^ " " ^ tail s acc (field_d iw "tip" "?"))
            | ["trim"; b] ->
              let before = s.ms.Model.s_pool in
              (match Model.step s.ms (Model.OpTrim evict) with Some x -> s.ms <- x | None -> ());
              record s acc "sizelimit" before s.ms.Model.s_pool;
              emit ("m " ^ b ^ " " ^ tail s acc (field_d iw "tip" "?"))
            | ["expire"; age] ->
              let before = s.ms.Model.s_pool in
              let cutoff = z_of_zt (Z.sub (zt_of_z s.ms.Model.s_now) (Z.of_string age)) in
              (match Model.step s.ms (Model.OpExpire cutoff) with Some x -> s.ms <- x | None -> ());
              record s acc "expiry" before s.ms.Model.s_pool;
              let n = List.length (diff (pool_ids before) (pool_ids s.ms.Model.s_pool)) in
              emit ("x " ^ age ^ " " ^ string_of_int n ^ " " ^ tail s acc (field_d iw "tip" "?"))
            | ["prio"; n; dl] ->
              (match Model.step s.ms Model.OpPrio with Some x -> s.ms <- x | None -> ());
              emit ("p " ^ n ^ " " ^ dl ^ " " ^ tail s acc (field_d iw "tip" "?"))
            | ["template"; maxw; resv; minfee; cbs] ->
              (match iw with
               | "T" :: "ok" :: _ ->
                 let o = { Model.o_max_weight = zs maxw; o_reserved = zs resv; o_min_fee_kvb = zs minfee; o_cb_sigops = zs cbs } in
                 let ks = parse_chunks s (field_d iw "K" "-") in
                 let h = Z.add (zt_of_z (Model.height s.ms.Model.s_chain)) Z.one in
                 let cutoff = Model.mtp_tip s.ms.Model.s_chain in
                 (match Model.assemble o interval (z_of_zt h) cutoff ks with
                  | None -> emit ("T err " ^ tail s acc (field_d iw "tip" "?"))
                  | Some tp ->
                    let sel = List.map (fun c -> name_of s c.Model.c_id) tp.Model.tp_txs in
                    let sigs = List.fold_left (fun a c -> Z.add a (zt_of_z c.Model.c_sigops)) Z.zero tp.Model.tp_txs in
                    (* echoed (not model outputs): bw, valid, bt, K;  model outputs: sel, cbv, fees, sig, hgt, sub, cut *)
                    emit ("T ok sel=" ^ join "," sel ^ " bw=" ^ field_d iw "bw" "?" ^ " cbv=" ^ string_of_z tp.Model.tp_coinbase_value ^
                          " fees=" ^ string_of_z tp.Model.tp_fees ^ " sig=" ^ Z.to_string sigs ^ " valid=" ^ field_d iw "valid" "?" ^
                          " hgt=" ^ Z.to_string h ^ " sub=" ^ string_of_z (Model.get_block_subsidy interval (z_of_zt h)) ^
                          " cut=" ^ Z.to_string (Z.sub (zt_of_z cutoff) s.t0) ^ " bt=" ^ field_d iw "bt" "?" ^ " K=" ^ field_d iw "K" "-" ^ " " ^
                          tail s acc (field_d iw "tip" "?")))
               | _ ->
                 let o = { Model.o_max_weight = zs maxw; o_reserved = zs resv; o_min_fee_kvb = zs minfee; o_cb_sigops = zs cbs } in
                 if Model.check_options o then emit ("T ok?? " ^ tail s acc (field_d iw "tip" "?"))
                 else emit (String.concat " " (take 3 iw) ^ " " ^ tail s acc (field_d iw "tip" "?")))
            | _ -> raise (Stop "BADSCRIPT"))) ops
   with Stop m -> if m <> "" then emit m);
  (* an implementation line that ends in CRASH / BADSCRIPT / EXC has one more token than the model produced: leave it out,
     the comparison then shows the difference *)
  String.concat " | " (List.rev !out)

(* ------------------------------------------------------------------------------------------ *)
(* holds: the property's predicate on the implementation's dumps *)
let violation_str = function
  | Model.V_dup_txid -> "duplicate-txid" | Model.V_double_spend -> "double-spend" | Model.V_index_missing -> "spends-index-missing"
  | Model.V_index_extra -> "spends-index-extra" | Model.V_input_unavailable -> "input-unavailable" | Model.V_totals -> "totals"
  | Model.V_nonfinal -> "non-final-entry" | Model.V_immature -> "immature-coinbase-spend" | Model.V_links -> "graph-links"
  | Model.V_nonbip68 -> "entry-not-BIP68-final-for-next-block"
let tviolation_str = function
  | Model.TV_order -> "template-order" | Model.TV_weight -> "template-weight" | Model.TV_sigops -> "template-sigops"
  | Model.TV_nonfinal -> "template-nonfinal" | Model.TV_coinbase -> "template-coinbase" | Model.TV_duplicate -> "template-duplicate"

let parse_dump s (d : string) : Model.dump * string * string =
  let dw = words d in
  let rec split_sections cur acc = function
    | [] -> List.rev ((cur, []) :: acc) |> fun l -> l
    | ("E" | "X") as k :: r -> split_sections k ((cur, []) :: acc) r
    | _ :: r -> split_sections cur acc r in
  ignore split_sections;
  let rec section key = function
    | [] -> []
    | k :: r when k = key -> let rec upto = function [] -> [] | ("E" | "X") :: _ -> [] | x :: r -> x :: upto r in upto r
    | _ :: r -> section key r in
  let ents = List.filter (fun x -> x <> "-") (section "E" dw) in
  let idx = List.filter (fun x -> x <> "-") (section "X" dw) in
  let outpoint src n : Model.outpoint = (z (id_of s src), zs n) in
  let dentries = List.map (fun e ->
      match split_on ',' e with
      | [n; fee; _modfee; vs; _w; _sg; cb; _time; _lph; _lpt; _lpm; anc; ins; fresh] ->
        let t = Hashtbl.find_opt s.txs n in
        let seqs = match t with Some t -> List.map snd t.Model.t_vin | None -> [] in
        let inl = split_on '.' ins in
        let vin = List.mapi (fun i x ->
            match split_on ':' x with
            | [src; k; stt] ->
              let sq = (try List.nth seqs i with _ -> zs "4294967295") in
              let status =
                if stt = "m" then Model.In_mempool
                else if stt = "M" then Model.In_mempool_badn
                else if stt = "x" then Model.In_missing
                else begin
                  let l = String.length stt in
                  Model.In_utxo (zs (String.sub stt 1 (l - 2)), stt.[l - 1] = 'c')
                end in
              ((outpoint src k, sq), status)
            | _ -> failwith "bad input dump") inl in
        { Model.d_id = z (id_of s n); d_vin = vin; d_fee = zs fee; d_size = zs vs; d_cb = (cb = "1");
          d_version = (match t with Some t -> t.Model.t_version | None -> z 2);
          d_locktime = (match t with Some t -> t.Model.t_locktime | None -> z 0);
          d_anc = (if anc = "-" then [] else List.map (fun a -> z (id_of s a)) (split_on '.' anc));
          d_bip68 = (fresh = "1") }
      | _ -> failwith ("bad entry dump " ^ e)) ents in
  let next = List.map (fun x ->
      match split_on '>' x with
      | [o; sp] -> (match split_on ':' o with [src; k] -> (outpoint src k, z (id_of s sp)) | _ -> failwith "bad idx")
      | _ -> failwith "bad idx") idx in
  let g k = field_d dw k "0" in
  ({ Model.dm_height = zs (g "h"); dm_mtp = z_of_zt (Z.add s.t0 (Z.of_string (g "mtp"))); dm_entries = dentries; dm_next = next;
     dm_total_size = zs (g "size"); dm_total_fee = zs (g "fee") }, g "chk", g "blk")

let holds_line (mode : string) (case : string) (impl : string) : string =
  let s = fresh () in
  let ops = List.filter (fun w -> w <> []) (List.map words (split_on ';' case)) in
  let itoks = tokens impl in
  (match itoks with t :: _ when starts_with "init" t -> () | _ -> raise (Stop "na"));
  prescan s itoks;
  let iw0 = words (List.hd itoks) in
  s.t0 <- Z.of_string (field_d iw0 "t0" "0");
  let ops = match ops with ("cfg" :: _) :: r -> r | r -> r in
  let rest = ref (List.tl itoks) in
  let fails = ref [] in
  let fail i m = fails := (Printf.sprintf "%s@op%d" m i) :: !fails in
  let last_test : (string * string) option ref = ref None in
  let n = ref 0 in
  (try
     List.iter (fun w ->
         match w with
         | "tx" :: _ -> (try def_tx s w with _ -> raise (Stop "na"))
         | _ ->
           incr n;
           let itok = match !rest with t :: r -> rest := r; t | [] -> raise (Stop "short") in
           if itok = "CRASH" then (fail !n "node-aborted"; raise (Stop ""));
           if itok = "BADSCRIPT" then raise (Stop "na");
           if starts_with "EXC" itok then (fail !n "exception"; raise (Stop ""));
           let (iobs, det) = obs_detail itok in
           let iw = words iobs in
           (match w with
            | ("mine" | "fork") :: bname :: _ -> ignore (id_of s bname)
            | _ -> ());
           (* C22: the dump after every operation *)
           let (dump, chk, blk) = parse_dump s det in
           if mode <> "C23" && mode <> "C28" then begin
             (match Model.check_dump dump with Some v -> fail !n (violation_str v) | None -> ());
             if chk <> "ok" then fail !n ("mempool-check-" ^ chk);
             if blk <> "ok" && blk <> "skip" then fail !n ("entry-not-valid-for-next-block:" ^ blk);
             (* cached LockPoints of every entry refer to a block of the active chain (the `@0` marker of the dump says otherwise) *)
             (try ignore (Str.search_forward (Str.regexp_string "@0,") det 0); fail !n "stale-lockpoints" with Not_found -> ())
           end;
           (* C23: every template *)
           (match w, iw with
            | ["template"; maxw; resv; minfee; cbs], ("T" :: "ok" :: _) when mode <> "C22" && mode <> "C28" ->
              let o = { Model.o_max_weight = zs maxw; o_reserved = zs resv; o_min_fee_kvb = zs minfee; o_cb_sigops = zs cbs } in
              let pool = List.map (fun n -> z (id_of s n)) (list_of (field_d iw "P" "-")) in
              (* per-entry weight / sigops / fee from the dump of the pool the template was built from *)
              let dw = words det in
              let rec section = function [] -> [] | "E" :: r -> let rec upto = function [] -> [] | "X" :: _ -> [] | x :: r -> x :: upto r in upto r | _ :: r -> section r in
              let info = Hashtbl.create 16 in
              List.iter (fun e -> match split_on ',' e with
                  | nme :: fee :: _ :: _ :: wgt :: sg :: _ -> Hashtbl.replace info nme (fee, wgt, sg) | _ -> ()) (section dw);
              let txs = List.map (fun nme ->
                  let (fee, wgt, sg) = (try Hashtbl.find info nme with Not_found -> ("0", "0", "0")) in
                  { Model.c_id = z (id_of s nme); c_weight = zs wgt; c_sigops = zs sg; c_fee = zs fee; c_ltx = ltx_of s nme; c_parents = parents_of s nme })
                  (list_of (field_d iw "sel" "-")) in
              let cut = z_of_zt (Z.add s.t0 (Z.of_string (field_d iw "cut" "0"))) in
              (match Model.check_template pool o interval (zs (field_d iw "hgt" "0")) cut txs (zs (field_d iw "bw" "0")) (zs (field_d iw "cbv" "0")) with
               | Some v -> fail !n (tviolation_str v) | None -> ());
              if field_d iw "valid" "?" <> "ok" then fail !n ("template-invalid:" ^ field_d iw "valid" "?");
              (* the premises of the C23 theorems about the block builder, evaluated on the chunk sequence it handed out, along
                 the decisions the IMPLEMENTATION took (a chunk was included iff its transactions are in the template) *)
              (let ks = parse_chunks s (field_d iw "K" "-") in
               let selids = List.map (fun c -> c.Model.c_id) txs in
               if not (List.for_all Model.chunk_wf ks) then fail !n "builder-chunk-not-wf";
               let have = ref [] in
               List.iter (fun k ->
                   let included = List.for_all (fun c -> List.mem c.Model.c_id selids) k.Model.k_txs in
                   if included then begin
                     if not (Model.chunk_parents_ok pool !have k.Model.k_txs) then fail !n "builder-offered-chunk-before-parents";
                     have := List.rev_append (List.map (fun c -> c.Model.c_id) k.Model.k_txs) !have
                   end) ks);
              if field_d iw "sub" "" <> string_of_z (Model.get_block_subsidy interval (zs (field_d iw "hgt" "0"))) then fail !n "subsidy-differs";
              (* selected transactions must be pool members *)
              List.iter (fun c -> if not (List.mem c.Model.c_id pool) then fail !n "template-tx-not-in-pool") txs
            | ["template"; _; _; _; _], ("T" :: "err" :: _) when mode <> "C22" && mode <> "C28" ->
              (match w with
               | [_; maxw; resv; minfee; cbs] ->
                 let o = { Model.o_max_weight = zs maxw; o_reserved = zs resv; o_min_fee_kvb = zs minfee; o_cb_sigops = zs cbs } in
                 if Model.check_options o then fail !n "template-refused"
               | _ -> ())
            | _ -> ());
           (* C28: test-accept leaves the pool alone, and an immediately following submission gives the same verdict *)
           if mode <> "C22" && mode <> "C23" then begin
             (match w, iw with
              | ["test"; name], (_ :: _ :: verdict :: _) ->
                if field_d iw "same" "1" <> "1" then fail !n "test-accept-changed-mempool";
                last_test := Some (name, verdict)
              | ["atmp"; name], (_ :: _ :: verdict :: _) ->
                (match !last_test with
                 | Some (n2, v2) when n2 = name ->
                   if v2 <> verdict && verdict <> "mempool_full" then fail !n ("test-accept-verdict-differs:" ^ v2 ^ "/" ^ verdict)
                 | _ -> ());
                last_test := None
              | _ -> last_test := None)
           end) ops
   with Stop m -> if m = "na" then fails := ["na"] else if m = "short" then () else ());
  match List.rev !fails with
  | [] -> "ok"
  | ["na"] -> "na"
  | l -> "fail " ^ String.concat " " l

let model args line =
  let (c, i) = split_arrow line in
  try run_model c i with
  | Stop m -> m
  | Failure m -> "EXC " ^ m

let holds args c i =
  let mode = match args with m :: _ -> m | [] -> "C22" in
  try holds_line mode c i with Stop "na" -> "na" | Stop m -> "fail " ^ m

let () = main_loop ~model ~holds
