(* Model side of the `ledger` family (C01, C02, C09): runs the same operation script as
   tie/drivers/ledger_drv.cpp on the extracted Coq model (Model.connect_tip / disconnect_tip /
   check_block / check_tx_inputs), with abstract transaction ids, and prints the same canonical line.

   What is Coq (extracted): every ledger decision - CheckBlock's transaction part, ConnectBlock,
   DisconnectBlock, the chain state, the predicates holds_C01/C02/C09.
   What is glue here (OCaml, not verified): parsing, names <-> ids, the merkle-mutation test of
   CheckBlock (bad-txns-duplicate), and the block-tree bookkeeping that decides WHICH blocks the node
   tries to connect (most work, then first received; invalidate / reconsider), i.e. the chain selection
   of family ChainSel.  In `holds` mode that bookkeeping is not used at all: the tip is taken from
   what the implementation reported. *)
open Conv

let interval = Model.chain_regtest.Model.cp_halving_interval
let cf = { Model.cf_interval = interval; Model.cf_bip30 = true; Model.cf_script_checks = true;
           Model.cf_par = true; Model.cf_disc_bip30_exception = false }
let coin50 = z_of_string "5000000000"
let null_prev : Model.outpoint = (z_of_int 0, z_of_string "4294967295")

let txreason_str = function
  | Model.Bad_txns_vin_empty -> "bad-txns-vin-empty" | Model.Bad_txns_vout_empty -> "bad-txns-vout-empty"
  | Model.Bad_txns_oversize -> "bad-txns-oversize" | Model.Bad_txns_vout_negative -> "bad-txns-vout-negative"
  | Model.Bad_txns_vout_toolarge -> "bad-txns-vout-toolarge" | Model.Bad_txns_txouttotal_toolarge -> "bad-txns-txouttotal-toolarge"
  | Model.Bad_txns_inputs_duplicate -> "bad-txns-inputs-duplicate" | Model.Bad_cb_length -> "bad-cb-length"
  | Model.Bad_txns_prevout_null -> "bad-txns-prevout-null"
let reason_str = function
  | Model.R_tx r -> txreason_str r
  | Model.Bad_blk_length -> "bad-blk-length" | Model.Bad_cb_missing -> "bad-cb-missing" | Model.Bad_cb_multiple -> "bad-cb-multiple"
  | Model.Bad_txns_BIP30 -> "bad-txns-BIP30"
  | Model.Bad_txns_inputs_missingorspent -> "bad-txns-inputs-missingorspent"
  | Model.Bad_txns_premature_spend_of_coinbase -> "bad-txns-premature-spend-of-coinbase"
  | Model.Bad_txns_inputvalues_outofrange -> "bad-txns-inputvalues-outofrange"
  | Model.Bad_txns_in_belowout -> "bad-txns-in-belowout" | Model.Bad_txns_fee_outofrange -> "bad-txns-fee-outofrange"
  | Model.Bad_txns_accumulated_fee_outofrange -> "bad-txns-accumulated-fee-outofrange"
  | Model.Script_verify_flag_failed -> "script-verify-failed"
  | Model.Bad_cb_amount -> "bad-cb-amount"
  | Model.Abort_input_missing -> "CRASH" | Model.Abort_spend_failed -> "CRASH" | Model.Abort_overwrite -> "CRASH"
  | Model.Abort_value_out -> "EXC"

(* ------------------------------------------------------------------------------------------ *)
(* the script *)
type blk = { bname : string; parent : string; height : int; mblock : Model.ltx list;
             mutable known : bool; mutable failed : bool; mutable seq : int }

type st = {
  ids : (string, int) Hashtbl.t;            (* tx / coinbase name -> id *)
  names : (int, string) Hashtbl.t;
  txs : (string, Model.ltx) Hashtbl.t;
  blocks : (string, blk) Hashtbl.t;
  mutable next_id : int;
  mutable next_seq : int;
  mutable cs : Model.chainstate;
  mutable active : string list;             (* script blocks of the active chain, tip first; [] = fixture tip *)
}

let fixture_tx k : Model.ltx =
  { Model.t_id = z_of_int k; Model.t_in = [ { Model.i_prev = null_prev; Model.i_script_ok = true } ];
    Model.t_out = [ { Model.o_value = coin50; Model.o_spendable = true }; { Model.o_value = z_of_int 0; Model.o_spendable = false } ] }

let fixture_blocks = List.init 100 (fun i -> [ fixture_tx (i + 1) ])
let fixture_state =
  lazy (List.fold_left (fun cs b -> match Model.connect_tip cf cs b with
      | (cs', None) -> cs'
      | (_, Some r) -> failwith ("model rejects the fixture chain: " ^ reason_str r)) Model.genesis_state fixture_blocks)

let fresh () =
  let s = { ids = Hashtbl.create 64; names = Hashtbl.create 64; txs = Hashtbl.create 64; blocks = Hashtbl.create 16;
            next_id = 1000; next_seq = 1000; cs = Lazy.force fixture_state; active = [] } in
  for k = 1 to 100 do
    let n = "f" ^ string_of_int k in
    Hashtbl.replace s.ids n k; Hashtbl.replace s.names k n; Hashtbl.replace s.txs n (fixture_tx k)
  done;
  Hashtbl.replace s.blocks "F" { bname = "F"; parent = ""; height = 100; mblock = []; known = true; failed = false; seq = 0 };
  s

let id_of s name =
  match Hashtbl.find_opt s.ids name with
  | Some i -> i
  | None -> let i = s.next_id in s.next_id <- i + 1; Hashtbl.replace s.ids name i; Hashtbl.replace s.names i name; i

let split_on c str = String.split_on_char c str

let parse_outs spec : Model.lout list =
  if spec = "-" then [] else
  List.map (fun o ->
      let n = String.length o in
      if n < 2 then failwith ("bad out " ^ o);
      let kind = o.[n - 1] in
      let v = z_of_string (String.sub o 0 (n - 1)) in
      let sp = match kind with 'w' | 'k' -> true | 'r' | 'x' -> false | _ -> failwith ("bad out kind " ^ o) in
      { Model.o_value = v; Model.o_spendable = sp }) (split_on ',' spec)

let parse_ins s spec : Model.lin list =
  List.map (fun i ->
      if i = "null" then { Model.i_prev = null_prev; Model.i_script_ok = true } else begin
        let n = String.length i in
        if n < 4 then failwith ("bad in " ^ i);
        let ok = match i.[n - 1] with '+' -> true | '-' -> false | _ -> failwith ("bad in " ^ i) in
        let body = String.sub i 0 (n - 1) in
        let c = String.rindex body ':' in
        let src = String.sub body 0 c in
        let idx = String.sub body (c + 1) (String.length body - c - 1) in
        (* what an input of an unknown / unspendable output carries as script verdict does not matter to the
           node either: the spend is refused before scripts are looked at *)
        { Model.i_prev = (z_of_int (id_of s src), z_of_string idx); Model.i_script_ok = ok }
      end) (split_on ',' spec)

let commitment_out = { Model.o_value = z_of_int 0; Model.o_spendable = false }

let def_tx s name ins outs =
  if Hashtbl.mem s.txs name || Hashtbl.mem s.blocks name then failwith ("duplicate name " ^ name);
  let vin = parse_ins s ins in
  let id = id_of s name in
  Hashtbl.replace s.txs name { Model.t_id = z_of_int id; Model.t_in = vin; Model.t_out = parse_outs outs }

let mine s name parent cbs txnames =
  if Hashtbl.mem s.txs name || Hashtbl.mem s.blocks name then failwith ("duplicate name " ^ name);
  let p = Hashtbl.find s.blocks parent in
  let cb =
    if String.length cbs > 4 && String.sub cbs 0 4 = "dup:" then Hashtbl.find s.txs (String.sub cbs 4 (String.length cbs - 4))
    else { Model.t_id = z_of_int (id_of s name); Model.t_in = [ { Model.i_prev = null_prev; Model.i_script_ok = true } ];
           Model.t_out = parse_outs cbs @ [ commitment_out ] } in
  Hashtbl.replace s.txs name cb;
  if not (Hashtbl.mem s.ids name) then ignore (id_of s name);
  let body = List.map (fun n -> Hashtbl.find s.txs n) txnames in
  Hashtbl.replace s.blocks name { bname = name; parent; height = p.height + 1; mblock = cb :: body;
                                  known = false; failed = false; seq = -1 }

(* CheckMerkleRoot's mutation test on the list of txids (glue): a level with two equal neighbours *)
let merkle_mutated (b : Model.ltx list) : bool =
  let rec go (l : string list) mutated =
    match l with
    | [] | [ _ ] -> mutated
    | _ ->
      let arr = Array.of_list l in
      let n = Array.length arr in
      let m = ref mutated in
      let i = ref 0 in
      while !i + 1 < n do if arr.(!i) = arr.(!i + 1) then m := true; i := !i + 2 done;
      let arr = if n land 1 = 1 then Array.append arr [| arr.(n - 1) |] else arr in
      let next = List.init (Array.length arr / 2) (fun k -> "(" ^ arr.(2 * k) ^ "," ^ arr.(2 * k + 1) ^ ")") in
      go next !m in
  go (List.map (fun t -> string_of_z t.Model.t_id) b) false

(* ---- block tree bookkeeping (glue; the real thing is family ChainSel) ---- *)
let rec ancestors s (b : blk) : blk list = (* b first, down to F excluded *)
  if b.bname = "F" then [] else b :: ancestors s (Hashtbl.find s.blocks b.parent)
let tip_blk s = match s.active with [] -> Hashtbl.find s.blocks "F" | t :: _ -> Hashtbl.find s.blocks t
let better (a : blk) (b : blk) = a.height > b.height || (a.height = b.height && a.seq < b.seq)

let disconnect_model s =
  match Model.disconnect_tip cf s.cs with
  | (cs', true) -> s.cs <- cs'; s.active <- List.tl s.active
  | (_, false) -> failwith "model: DisconnectBlock did not return DISCONNECT_OK"

(* ActivateBestChain: returns the BlockChecked events *)
let activate s : (string * string) list =
  let events = ref [] in
  let continue = ref true in
  while !continue do
    let tip = tip_blk s in
    let best = Hashtbl.fold (fun _ (b : blk) acc ->
        if b.known && not b.failed && b.bname <> "F"
           && List.for_all (fun (x : blk) -> x.known && not x.failed) (ancestors s b)
           && better b acc then b else acc) s.blocks tip in
    if best.bname = tip.bname then continue := false
    else begin
      let path = List.rev (ancestors s best) in                       (* oldest first, above F *)
      let rec common (act : string list) (p : blk list) = match act, p with
        | a :: ar, x :: pr when a = x.bname -> common ar pr
        | _ -> (List.length act, p) in
      let (to_disc, to_conn) = common (List.rev s.active) path in
      for _ = 1 to to_disc do disconnect_model s done;
      (try
         List.iter (fun (b : blk) ->
             match Model.connect_tip cf s.cs b.mblock with
             | (cs', None) -> s.cs <- cs'; s.active <- b.bname :: s.active; events := (b.bname, "ok") :: !events
             | (_, Some r) ->
               events := (b.bname, reason_str r) :: !events;
               (* InvalidBlockFound: the block and every known descendant become BLOCK_FAILED_VALID *)
               Hashtbl.iter (fun _ (d : blk) ->
                   if d.bname <> "F" && d.known && List.exists (fun (x : blk) -> x.bname = b.bname) (ancestors s d) then d.failed <- true) s.blocks;
               raise Exit) to_conn
       with Exit -> ())
    end
  done;
  List.rev !events

let fmt_events ev = if ev = [] then "-" else String.concat "," (List.map (fun (n, r) -> n ^ "=" ^ r) ev)
let tip_name s = match s.active with [] -> "F" | t :: _ -> t

let submit s name =
  let b = Hashtbl.find s.blocks name in
  if b.bname = "F" then failwith "submit of the fixture tip";
  let fail r = "s0 " ^ name ^ "=" ^ r ^ " > " ^ tip_name s in
  (* ProcessNewBlock: CheckBlock (merkle root, then the transaction part) *)
  if b.mblock <> [] && merkle_mutated b.mblock then fail "bad-txns-duplicate" else
  match Model.check_block b.mblock with
  | Some r -> fail (reason_str r)
  | None ->
    (* AcceptBlockHeader *)
    if b.known && b.failed then fail "duplicate-invalid"
    else begin
      let p = Hashtbl.find s.blocks b.parent in
      if not b.known && not p.known then fail "prev-blk-not-found"
      else if not b.known && p.failed then fail "bad-prevblk"
      else begin
        if not b.known then begin b.known <- true; b.seq <- s.next_seq; s.next_seq <- s.next_seq + 1 end;
        let ev = activate s in
        "s1 " ^ fmt_events ev ^ " > " ^ tip_name s
      end
    end

let invalidate s name =
  let b = Hashtbl.find s.blocks name in
  if not b.known then "ierr - > " ^ tip_name s else begin
    if b.bname <> "F" then begin
      while List.mem b.bname s.active do disconnect_model s done;
      Hashtbl.iter (fun _ (d : blk) ->
          if d.bname <> "F" && d.known && List.exists (fun (x : blk) -> x.bname = b.bname) (ancestors s d) then d.failed <- true) s.blocks
    end;
    let ev = activate s in
    "iok " ^ fmt_events ev ^ " > " ^ tip_name s
  end

let reconsider s name =
  let b = Hashtbl.find s.blocks name in
  if not b.known then "rerr - > " ^ tip_name s else begin
    if b.bname <> "F" then
      Hashtbl.iter (fun _ (d : blk) ->
          if d.bname <> "F" && d.known && d.failed then begin
            let anc_d = ancestors s d and anc_b = ancestors s b in
            if List.exists (fun (x : blk) -> x.bname = b.bname) anc_d || List.exists (fun (x : blk) -> x.bname = d.bname) anc_b
            then d.failed <- false
          end) s.blocks;
    let ev = activate s in
    "rok " ^ fmt_events ev ^ " > " ^ tip_name s
  end

(* ---- dumps ---- *)
type entry = { ename : string; en : Z.t; ev : Z.t; eh : Z.t; ecb : bool }
let entry_of s ((k, c) : Model.outpoint * Model.coin) =
  let id = int_of_z (fst k) in
  let n = match Hashtbl.find_opt s.names id with Some n -> n | None -> "?" ^ string_of_int id in
  { ename = n; en = zt_of_z (snd k); ev = zt_of_z c.Model.c_value; eh = zt_of_z c.Model.c_height; ecb = c.Model.c_cb }
let fixture_index name =
  if String.length name >= 2 && name.[0] = 'f' && name.[1] >= '0' && name.[1] <= '9'
  then (try Some (int_of_string (String.sub name 1 (String.length name - 1))) with _ -> None) else None
let fmt_entries (es : entry list) : string * Z.t =
  let es = List.sort (fun a b -> if a.ename <> b.ename then compare a.ename b.ename else Z.compare a.en b.en) es in
  let pristine = Array.make 101 false in
  let total = ref Z.zero in
  let buf = Buffer.create 256 in
  List.iter (fun e ->
      total := Z.add !total e.ev;
      let listed = match fixture_index e.ename with
        | Some k when k >= 1 && k <= 100 && Z.equal e.en Z.zero && Z.equal e.ev (Z.of_string "5000000000")
                      && Z.equal e.eh (Z.of_int k) && e.ecb -> pristine.(k) <- true; false
        | _ -> true in
      if listed then Buffer.add_string buf (Printf.sprintf " %s:%s,%s,%s,%s" e.ename (Z.to_string e.en) (Z.to_string e.ev) (Z.to_string e.eh) (if e.ecb then "1" else "0"))) es;
  let miss = List.filter (fun k -> not pristine.(k)) (List.init 100 (fun i -> i + 1)) in
  let m = if miss = [] then "-" else String.concat "." (List.map string_of_int miss) in
  (" fmiss=" ^ m ^ Buffer.contents buf, !total)

let dump s db =
  let es = List.map (entry_of s) s.cs.Model.cs_utxo in
  let (body, total) = fmt_entries es in
  let h = string_of_z (Model.cs_height s.cs) in
  if db then "D " ^ tip_name s ^ " " ^ h ^ " " ^ Z.to_string total ^ " " ^ string_of_z (Model.total s.cs.Model.cs_utxo) ^ body
  else "d " ^ tip_name s ^ " " ^ h ^ " " ^ Z.to_string total ^ body

(* ---- one case ---- *)
let ops_of line = List.filter (fun w -> w <> []) (List.map words (split_on ';' line))

let run_chain line =
  let s = fresh () in
  let out = ref [] in
  List.iter (fun w ->
      let r = match w with
        | [ "nobip34" ] -> ""
        | [ "tx"; name; ins; outs ] -> def_tx s name ins outs; ""
        | "mine" :: name :: parent :: cbs :: txn -> mine s name parent cbs txn; ""
        | [ "submit"; b ] -> submit s b
        | [ "invalidate"; b ] -> invalidate s b
        | [ "reconsider"; b ] -> reconsider s b
        | [ "flush" ] -> ""
        | [ "dump" ] -> dump s false
        | [ "dumpdb" ] -> dump s true
        | _ -> failwith ("bad op " ^ String.concat " " w) in
      if r <> "" then out := r :: !out) (ops_of line);
  if !out = [] then "-" else String.concat " | " (List.rev !out)

(* ---- function level ---- *)
type fncase = { fh : Model.z; coins : (Model.z * Model.z * bool) list; fins : int list; fouts : Model.z list }
let parse_fn ws =
  let rec take k ws f acc = if k = 0 then (List.rev acc, ws) else let (x, r) = f ws in take (k - 1) r f (x :: acc) in
  match ws with
  | "fn" :: h :: nc :: r ->
    let (coins, r) = take (int_of_string nc) r (function v :: ch :: cb :: r -> ((z_of_string v, z_of_string ch, cb = "1"), r) | _ -> failwith "bad coin") [] in
    (match r with
     | nin :: r ->
       let (ins, r) = take (int_of_string nin) r (function i :: r -> (int_of_string i, r) | _ -> failwith "bad in") [] in
       (match r with
        | nout :: r -> let (outs, _) = take (int_of_string nout) r (function v :: r -> (z_of_string v, r) | _ -> failwith "bad out") [] in
          { fh = z_of_string h; coins; fins = ins; fouts = outs }
        | _ -> failwith "bad fn")
     | _ -> failwith "bad fn")
  | _ -> failwith "bad fn"
let fn_outpoint i : Model.outpoint = if i >= 0 then (z_of_int (i + 1), z_of_int (i mod 3)) else (z_of_int (1000 - i), z_of_int 0)
let fn_model c =
  let minus1 = z_of_int (-1) in
  let u = List.fold_left (fun u (i, (v, ch, cb)) ->
      if v = minus1 then u  (* the null coin cannot be in a view *)
      else Model.canon (u @ [ (fn_outpoint i, { Model.c_value = v; Model.c_height = ch; Model.c_cb = cb }) ]))
      [] (List.mapi (fun i c -> (i, c)) c.coins) in
  let t = { Model.t_id = z_of_int 999999;
            Model.t_in = List.map (fun i -> { Model.i_prev = fn_outpoint i; Model.i_script_ok = true }) c.fins;
            Model.t_out = List.map (fun v -> { Model.o_value = v; Model.o_spendable = true }) c.fouts } in
  match Model.check_tx_inputs u t c.fh with
  | Model.Ok fee -> "ok " ^ string_of_z fee
  | Model.Err r -> reason_str r

(* the property's side of a function-level case, in unbounded integers: accepted only if every input exists,
   is mature, has a value in range, the sums are in range and cover the outputs; the fee is the difference *)
let fn_spec c impl =
  let maxm = Z.of_string "2100000000000000" in
  let inr v = Z.geq v Z.zero && Z.leq v maxm in
  let coin i = if i < 0 || i >= List.length c.coins then None else
      let (v, ch, cb) = List.nth c.coins i in
      if Z.equal (zt_of_z v) Z.minus_one then None else Some (zt_of_z v, zt_of_z ch, cb) in
  match words impl with
  | [ "ok"; fee ] ->
    let h = zt_of_z c.fh in
    let ins = List.map coin c.fins in
    if List.exists (fun x -> x = None) ins then "fail accepted a transaction with a missing input" else
    let ins = List.map (function Some x -> x | None -> assert false) ins in
    if List.exists (fun (_, ch, cb) -> cb && Z.lt (Z.sub h ch) (Z.of_int 100)) ins then "fail accepted an immature coinbase spend" else
    if List.exists (fun (v, _, _) -> not (inr v)) ins then "fail accepted an input value outside [0, MAX_MONEY]" else
    let vin = List.fold_left (fun a (v, _, _) -> Z.add a v) Z.zero ins in
    let vout = List.fold_left (fun a v -> Z.add a (zt_of_z v)) Z.zero c.fouts in
    if not (inr vin) then "fail accepted inputs summing outside [0, MAX_MONEY]" else
    if Z.lt vin vout then "fail accepted a transaction creating more than it spends" else
    if not (Z.equal (Z.of_string fee) (Z.sub vin vout)) then "fail fee is not inputs - outputs" else "ok"
  | _ -> "ok"   (* a refusal creates no coins *)

let model _ line =
  match words line with
  | "fn" :: _ as ws -> (try fn_model (parse_fn ws) with Failure _ | Not_found | Invalid_argument _ -> "BADCASE")
  | _ -> (try run_chain line with Failure _ | Not_found | Invalid_argument _ -> "BADSCRIPT")

(* ------------------------------------------------------------------------------------------ *)
(* holds: the property's predicates on what the implementation reported.  The script is parsed for the
   block bodies and parent links only; the tip after every op and every dump are the implementation's. *)
let split_tokens impl = List.map String.trim (Str.split (Str.regexp_string " | ") impl)

let parse_entries s (ws : string list) : (Model.outpoint * Model.coin) list =
  (* ws: fmiss=... then name:n,value,height,cb *)
  match ws with
  | fm :: rest when String.length fm >= 6 && String.sub fm 0 6 = "fmiss=" ->
    let m = String.sub fm 6 (String.length fm - 6) in
    let miss = if m = "-" then [] else List.map int_of_string (split_on '.' m) in
    let fix = List.filter_map (fun k -> if List.mem k miss then None else
                                  Some ((z_of_int k, z_of_int 0), { Model.c_value = coin50; Model.c_height = z_of_int k; Model.c_cb = true }))
        (List.init 100 (fun i -> i + 1)) in
    let others = List.map (fun e ->
        match split_on ',' e with
        | [ on; v; h; cb ] ->
          let c = String.rindex on ':' in
          let name = String.sub on 0 c and n = String.sub on (c + 1) (String.length on - c - 1) in
          let id = match Hashtbl.find_opt s.ids name with Some i -> i | None -> id_of s ("reported:" ^ name) in
          ((z_of_int id, z_of_string n), { Model.c_value = z_of_string v; Model.c_height = z_of_string h; Model.c_cb = (cb = "1") })
        | _ -> failwith ("bad entry " ^ e)) rest in
    fix @ others
  | _ -> failwith "bad dump"

let holds args case impl =
  let prop = match args with p :: _ -> p | [] -> "C09" in
  match words case with
  | "fn" :: _ as ws -> if String.length impl >= 5 && String.sub impl 0 5 = "CRASH" then "fail the implementation aborted" else fn_spec (parse_fn ws) impl
  | _ ->
    if String.length impl >= 5 && String.sub impl 0 5 = "CRASH" then "fail the node aborted on this script" else
    if impl = "BADSCRIPT" then "na" else
    if String.length impl >= 3 && String.sub impl 0 3 = "EXC" then "fail the node threw an exception: " ^ impl else begin
      let s = fresh () in
      let toks = ref (if impl = "-" then [] else split_tokens impl) in
      let next () = match !toks with t :: r -> toks := r; t | [] -> failwith "implementation printed fewer tokens than the script has printing ops" in
      let tip = ref "F" in
      let verdict = ref "ok" in
      let fail m = if !verdict = "ok" then verdict := "fail " ^ m in
      let tip_of tok = (* "... > name" *)
        match Str.split (Str.regexp_string " > ") tok with
        | [ _; t ] -> String.trim t
        | _ -> failwith ("bad token " ^ tok) in
      (* the node's own last verdict on every block it checked *)
      let last_verdict : (string, string) Hashtbl.t = Hashtbl.create 16 in
      let note_events tok =
        match Str.split (Str.regexp_string " > ") tok with
        | [ left; _ ] ->
          (match words left with
           | [ _; evs ] when evs <> "-" ->
             List.iter (fun e -> match split_on '=' e with
                 | [ b; r ] -> Hashtbl.replace last_verdict b r
                 | _ -> ()) (split_on ',' evs)
           | _ -> ())
        | _ -> () in
      let chain_of name =
        let b = Hashtbl.find s.blocks name in
        List.iter (fun (x : blk) -> match Hashtbl.find_opt last_verdict x.bname with
            | Some r when r <> "ok" -> fail ("block " ^ x.bname ^ " is on the active chain although the node rejected it with " ^ r)
            | _ -> ()) (ancestors s b);
        fixture_blocks @ List.rev_map (fun (x : blk) -> x.mblock) (ancestors s b) in
      let check_dump tok db =
        let ws = words tok in
        (match ws with
         | _ :: t :: h :: tot :: rest ->
           let rest = if db then List.tl rest else rest in
           if t <> !tip then fail ("dump names tip " ^ t ^ " but the last op left " ^ !tip);
           let chain = chain_of t in
           if int_of_string h <> List.length chain then fail "reported height is not the length of the reported chain";
           let reported = parse_entries s rest in
           let sum = List.fold_left (fun a (_, c) -> Z.add a (zt_of_z c.Model.c_value)) Z.zero reported in
           if not (Z.equal sum (Z.of_string tot)) then fail "reported total is not the sum of the reported coins";
           if db then (match ws with _ :: _ :: _ :: _ :: stat :: _ -> if stat <> tot then fail "ComputeUTXOStats total differs from the sum of the coins database" | _ -> ());
           (match prop with
            | "C01" -> if not (Model.holds_C01 interval chain reported) then
                fail "C01: the active chain creates value beyond subsidy + fees, or the UTXO total exceeds the sum of the subsidies"
            | "C02" -> if not (Model.holds_C02 interval chain reported) then
                fail "C02: the active chain spends a missing/spent/later output or re-creates an unspent one, or the UTXO set is not created minus spent"
            | _ -> if not (Model.holds_C09 cf chain reported) then
                fail "C09: the UTXO set at the tip is not the one obtained by connecting the active chain from genesis")
         | _ -> fail "malformed dump") in
      (try
         List.iter (fun w ->
             match w with
             | [ "nobip34" ] | [ "flush" ] -> ()
             | [ "tx"; name; ins; outs ] -> def_tx s name ins outs
             | "mine" :: name :: parent :: cbs :: txn -> mine s name parent cbs txn
             | [ "submit"; _ ] | [ "invalidate"; _ ] | [ "reconsider"; _ ] -> let tok = next () in note_events tok; tip := tip_of tok
             | [ "dump" ] -> check_dump (next ()) false
             | [ "dumpdb" ] -> check_dump (next ()) true
             | _ -> failwith "bad op") (ops_of case)
       with Failure m -> fail ("unreadable report: " ^ m) | Not_found -> fail "report names an unknown block");
      !verdict
    end

let () = main_loop ~model ~holds
