(* Model side of C43 (wallet database).  Case: kp <size> <op>*  (see tie/drivers/walletdb_drv.cpp). *)
open Conv
let parse_addr t =
  if t.[0] = 'x' then Model.AFor (z_of_string (String.sub t 1 (String.length t - 1)))
  else if t.[0] = 'm' then
    (match String.split_on_char '.' (String.sub t 1 (String.length t - 1)) with
     | [s; i] -> Model.AMine (nat_of_int (int_of_string s), z_of_string i)
     | _ -> failwith "addr")
  else failwith "addr"
let show_addr = function
  | Model.AMine (s, i) -> "m" ^ string_of_int (int_of_nat s) ^ "." ^ string_of_z i
  | Model.AFor k -> "x" ^ string_of_z k
let zlabel s = if s = "-" then z_of_int 0 else z_of_string s
let split_snap tok =
  if tok.[0] = '@' then
    let c = String.index tok ':' in
    (Some (int_of_string (String.sub tok 1 (c - 1))), String.sub tok (c + 1) (String.length tok - c - 1))
  else (None, tok)
let parse_op tok =
  let f = String.split_on_char ':' tok in
  let nth k = List.nth f k in
  match List.hd f with
  | "new" -> Some (Model.ONew (nat_of_int (int_of_string (nth 1))))
  | "chg" -> Some (Model.ONew (nat_of_int (4 + int_of_string (nth 1))))
  | "label" -> Some (Model.OLabel (parse_addr (nth 1), zlabel (nth 2), (match nth 3 with "r" -> Some Model.PRecv | "s" -> Some Model.PSend | _ -> None)))
  | "del" -> Some (Model.ODel (parse_addr (nth 1)))
  | "spent" -> Some (Model.OSpent (parse_addr (nth 1), nth 2 = "1"))
  | "rr" -> Some (Model.ORr (parse_addr (nth 1), z_of_string (nth 2), z_of_string (nth 3)))
  | "rrdel" -> Some (Model.ORrDel (parse_addr (nth 1), z_of_string (nth 2)))
  | "lock" -> Some (Model.OLock (z_of_string (nth 1), nth 2 = "1"))
  | "unlock" -> Some (Model.OUnlock (z_of_string (nth 1)))
  | "unlockall" -> Some Model.OUnlockAll
  | "tx" -> Some (Model.OTx (z_of_string (nth 1)))
  | "rmtx" -> Some (Model.ORmTx (List.map z_of_string (String.split_on_char ',' (nth 1))))
  | "top" -> Some (Model.OTop (nat_of_int (int_of_string (nth 1)), z_of_string (nth 2)))
  | "flag" -> Some Model.OFlag
  | "import" -> Some (Model.OImport (z_of_string (nth 1)))
  | "reload" -> Some Model.OReload
  | "crash" -> Some Model.OCrash
  | _ -> None

(* the keys a case talks about: enough to enumerate the maps of the model *)
type univ = { mutable addrs : Model.addr list; mutable locks : int list; mutable txs : int list; mutable imps : int list; mutable ids : int list }
let add x l = if List.mem x l then l else x :: l

let dump (u : univ) (m : Model.mem) : string =
  let b = Buffer.create 256 in
  for s = 0 to 7 do
    let (n, r) = m.Model.m_desc (nat_of_int s) in
    Buffer.add_string b ((if s > 0 then " " else "") ^ string_of_z n ^ "/" ^ string_of_z r)
  done;
  let ents = List.filter_map (fun a ->
      let l = m.Model.m_label a and p = m.Model.m_purpose a and us = m.Model.m_used a in
      let rr = List.filter_map (fun id -> match m.Model.m_rr a (z_of_int id) with Some v -> Some (string_of_int id ^ ">" ^ string_of_z v) | None -> None)
          (List.sort compare u.ids) in
      if l = None && p = None && not us && rr = [] then None else
        Some (show_addr a ^ "=" ^ (match l with None -> "~" | Some z -> let s = string_of_z z in if s = "0" then "-" else s) ^ "|"
              ^ (match p with None -> "n" | Some Model.PRecv -> "r" | Some Model.PSend -> "s") ^ (if us then "|u" else "|")
              ^ String.concat "" (List.map (fun s -> "|" ^ s) rr))) u.addrs in
  Buffer.add_string b " ;A";
  List.iter (fun e -> Buffer.add_string b (" " ^ e)) (List.sort compare ents);
  let lk = List.filter_map (fun n ->
      match m.Model.m_locks (z_of_int n) with Some p -> Some (Printf.sprintf "%03d:%d" n (if p then 1 else 0)) | None -> None) u.locks in
  Buffer.add_string b " ;L";
  List.iter (fun e -> Buffer.add_string b (" " ^ e)) (List.sort compare lk);
  let tx = List.filter_map (fun k -> match m.Model.m_tx (z_of_int k) with Some p -> Some (Printf.sprintf "%03d@%s" k (string_of_z p)) | None -> None) u.txs in
  Buffer.add_string b " ;T";
  List.iter (fun e -> Buffer.add_string b (" " ^ e)) (List.sort compare tx);
  Buffer.add_string b (" ;O" ^ string_of_z m.Model.m_opn);
  Buffer.add_string b (" ;F" ^ (if m.Model.m_flag then "1" else "0"));
  let ni = List.length (List.filter (fun k -> m.Model.m_imp (z_of_int k) <> None) u.imps) in
  let nk = List.length (List.filter (fun k -> m.Model.m_imp (z_of_int k) = Some true) u.imps) in
  Buffer.add_string b (Printf.sprintf " ;N%d ;K%d" (8 + ni) (8 + nk));
  Buffer.contents b

let observe u (st : Model.wst) (d : Model.db) : string =
  if not (List.for_all (fun k -> Model.load_ok_at d (z_of_int k)) u.imps) then "LOADFAIL" else
  let st' = Model.reopen { st with Model.w_db = { Model.committed = d; Model.pending = None } } in
  dump u st'.Model.w_mem

let model _ l = match words l with
  | "kp" :: size :: toks ->
    let u = { addrs = []; locks = []; txs = []; imps = []; ids = [] } in
    let st = ref (Model.init (z_of_string size)) in
    let outs = ref [] and extra = ref [] in
    let note_op = function
      | Model.OLabel (a, _, _) | Model.ODel a | Model.OSpent (a, _) -> u.addrs <- add a u.addrs
      | Model.ORr (a, id, _) | Model.ORrDel (a, id) -> u.addrs <- add a u.addrs; u.ids <- add (int_of_z id) u.ids
      | Model.OLock (n, _) | Model.OUnlock n -> u.locks <- add (int_of_z n) u.locks
      | Model.OTx k -> u.txs <- add (int_of_z k) u.txs
      | Model.ORmTx ks -> List.iter (fun k -> u.txs <- add (int_of_z k) u.txs) ks
      | Model.OImport k -> u.imps <- add (int_of_z k) u.imps
      | _ -> () in
    (* first pass: the universe must be complete before any dump is rendered *)
    let ops = List.filter_map (fun t -> let (sn, t') = split_snap t in match parse_op t' with Some o -> Some (sn, t', o) | None -> None) toks in
    List.iter (fun (_, _, o) -> note_op o) ops;
    (* addresses handed out by new/chg: run once to collect them *)
    let stc = ref (Model.init (z_of_string size)) in
    List.iter (fun (_, _, o) ->
        (match o with Model.ONew s -> u.addrs <- add (Model.AMine (s, fst ((!stc).Model.w_mem.Model.m_desc s))) u.addrs | _ -> ());
        stc := fst (Model.step Model.code_lock_upgrade !stc o)) ops;
    List.iter (fun (sn, t', o) ->
        let before = !st in
        let res = (match o with
            | Model.ONew s -> show_addr (Model.AMine (s, fst (before.Model.w_mem.Model.m_desc s)))
            | Model.OReload | Model.OCrash -> "L"
            | _ -> "") in
        let (st1, r) = Model.step Model.code_lock_upgrade before o in
        st := st1;
        outs := (if res <> "" then res else if r then "1" else "0") :: !outs;
        (match sn with
         | None -> ()
         | Some j ->
           let ((_, calls), _) = Model.op_effect Model.code_lock_upgrade before.Model.w_kp before.Model.w_mem o in
           let pre = observe u before (before.Model.w_db.Model.committed) in
           let post = observe u st1 (st1.Model.w_db.Model.committed) in
           let s = if j < List.length calls then observe u before (Model.crash_in Model.code_lock_upgrade before o (nat_of_int j)) else "-" in
           extra := (" P{" ^ pre ^ "} S{" ^ s ^ "} Q{" ^ post ^ "}") :: !extra)) ops;
    String.concat " " (List.rev !outs) ^ " M{" ^ dump u (!st).Model.w_mem ^ "} D{" ^ observe u !st ((!st).Model.w_db.Model.committed) ^ "}"
    ^ String.concat "" (List.rev !extra)
  | _ -> "BADCASE"

(* ---- the property's predicate on what the implementation printed ---- *)
let braces (s : string) (tag : string) : string list =
  (* every {...} content following `tag` *)
  let res = ref [] in
  let n = String.length s and tl = String.length tag in
  let i = ref 0 in
  while !i < n do
    if !i + tl < n && String.sub s !i tl = tag && s.[!i + tl] = '{' && (!i = 0 || s.[!i - 1] = ' ') then begin
      let j = String.index_from s (!i + tl) '}' in
      res := String.sub s (!i + tl + 1) (j - !i - tl - 1) :: !res;
      i := j
    end;
    incr i
  done;
  List.rev !res
let sections (d : string) : string list = List.map String.trim (String.split_on_char ';' d)
(* memory state normalised to what a restart is supposed to preserve: memory-only locks dropped *)
let norm_mem d =
  match sections d with
  | ds :: rest ->
    let rest = List.map (fun sec ->
        if String.length sec > 0 && sec.[0] = 'L' then
          String.concat " " (List.filter (fun t -> not (String.length t > 2 && String.sub t (String.length t - 2) 2 = ":0")) (words sec))
        else sec) rest in
    (ds, rest)
  | [] -> ("", [])
let descs_ok dm dd =
  (* next_index equal, range_end of the reloaded wallet >= (the loader tops up) *)
  let p s = List.map (fun x -> match String.split_on_char '/' x with [a; b] -> (int_of_string a, int_of_string b) | _ -> (-1, -1)) (words s) in
  let a = p dm and b = p dd in
  List.length a = List.length b && List.for_all2 (fun (n, r) (n', r') -> n = n' && r' >= r) a b
let txn_op t = List.mem (List.hd (String.split_on_char ':' t)) ["del"; "rmtx"; "top"]
let holds _ case impl =
  match braces impl "M", braces impl "D" with
  | [m], [d] ->
    if String.length d >= 8 && String.sub d 0 8 = "LOADFAIL" then "fail the wallet does not load after a clean restart" else
    let (dm, rm) = norm_mem m and (dd, rd) = norm_mem d in
    let lock_sec l = List.filter (fun s -> String.length s > 0 && s.[0] = 'L') l in
    if not (descs_ok dm dd) then "fail descriptor counters differ after a clean restart"
    else if rm <> rd then begin
      if lock_sec rm <> lock_sec rd && List.filter (fun s -> not (String.length s > 0 && s.[0] = 'L')) rm = List.filter (fun s -> not (String.length s > 0 && s.[0] = 'L')) rd
      then "fail lock-upgrade: the persistently locked coins of the reloaded wallet differ from the running wallet's (LockCoin(persist=true) on a coin locked in memory only writes the record but leaves the in-memory flag non-persistent, so UnlockCoin does not erase the record)"
      else "fail state differs after a clean restart"
    end else begin
      (* crash points *)
      let ps = braces impl "P" and ss = braces impl "S" and qs = braces impl "Q" in
      let snaps = List.filter (fun t -> t.[0] = '@') (match words case with _ :: _ :: r -> r | _ -> []) in
      if List.length ps <> List.length snaps || List.length ss <> List.length snaps || List.length qs <> List.length snaps then "fail malformed output" else
      let rec chk snaps ps ss qs = match snaps, ps, ss, qs with
        | t :: tr, p :: pr, s :: sr, q :: qr ->
          let (_, t') = split_snap t in
          if String.length s >= 8 && String.sub s 0 8 = "LOADFAIL" then "fail the wallet does not load after a crash inside " ^ t'
          else if s <> "-" && txn_op t' && s <> p && s <> q then "fail a transactional update is partially present after a crash inside " ^ t'
          else chk tr pr sr qr
        | _ -> "ok" in
      chk snaps ps ss qs
    end
  | _ -> "fail no state printed (" ^ (if String.length impl > 60 then String.sub impl 0 60 else impl) ^ ")"
let () = main_loop ~model ~holds
