(* Model side of the eviction family (C59).
   case:  sel <tag> <cand> ...     SelectNodeToEvict            -> none | <id>
          ratio <tag> <cand> ...   ProtectEvictionCandidatesByRatio -> remaining ids, sorted | -
   <cand> = id,connected,ping,block,tx,relevant,relay,bloom,netgroup,prefer,local,network,noban,conntype
   modes: model   the extracted pipeline with the stable insertion sort
          holds   the property's predicate (extracted holds_C59 / the ratio theorems) on the implementation's answer
          allowed "<case> => <impl>": is the implementation's answer the answer of the extracted
                  pipeline for SOME admissible sort (some ordering of comparator ties)?  yes | no | undecided *)
open Conv

let b s = (s = "1")
let cand_of_string (s : string) : Model.cand =
  match String.split_on_char ',' s with
  | [id; conn; ping; blk; tx; rel; relay; bloom; ng; pref; loc; net; noban; ct] ->
    { Model.c_id = z_of_string id; c_connected = z_of_string conn; c_min_ping = z_of_string ping;
      c_last_block = z_of_string blk; c_last_tx = z_of_string tx; c_relevant = b rel; c_relay_txs = b relay;
      c_bloom = b bloom; c_netgroup = z_of_string ng; c_prefer_evict = b pref; c_is_local = b loc;
      c_network = z_of_string net; c_noban = b noban; c_conn_type = z_of_string ct }
  | _ -> failwith "bad candidate"

let parse l = match words l with
  | kind :: _tag :: cs -> (kind, List.map cand_of_string cs)
  | _ -> failwith "bad case"

let ids_sorted (l : Model.cand list) : string =
  let ids = List.sort Z.compare (List.map (fun c -> zt_of_z c.Model.c_id) l) in
  if ids = [] then "-" else String.concat " " (List.map Z.to_string ids)

let show_sel = function
  | Model.Ok None -> "none"
  | Model.Ok (Some c) -> string_of_z c.Model.c_id
  | Model.Stuck _ -> "STUCK"
let show_ratio = function
  | Model.Ok l -> ids_sorted l
  | Model.Stuck _ -> "STUCK"

let model _ l =
  match parse l with
  | ("sel", cs) -> show_sel (Model.select_node_to_evict_stable cs)
  | ("ratio", cs) -> show_ratio (Model.protect_by_ratio_stable cs)
  | _ -> "BADCASE"

(* ---- the property's predicate on what the implementation returned ---- *)
let holds _ c impl =
  match parse c with
  | ("sel", cs) ->
    if not (Model.ids_unique cs) then "na"
    else begin
      let r = if impl = "none" then Some None
        else (try Some (Some (z_of_string impl)) with _ -> None) in
      match r with
      | None -> "fail malformed answer"
      | Some r ->
        if Model.holds_C59 cs r then "ok"
        else begin match r with
          | None -> "fail nullopt returned although more than 28 candidates are inbound and not noban"
          | Some i ->
            (match List.filter (fun c -> Model.Z.eqb c.Model.c_id i) cs with
             | [c] ->
               if c.Model.c_noban then "fail evicted peer has the noban permission"
               else if not (Model.eligible c) then "fail evicted peer is not inbound"
               else if Model.protected_by_rule c cs then
                 "fail evicted peer is among the 4 highest netgroup / 8 lowest ping / 4 latest tx / 4 latest block peers under every ordering of ties"
               else if Model.protected_block_relay_only c cs then
                 "fail evicted peer is among the 8 protected block-relay-only peers under every ordering of ties"
               else "fail a peer was evicted although at most 20 candidates are inbound and not noban"
             | _ -> "fail returned id is not the id of a candidate")
        end
    end
  | ("ratio", cs) ->
    if not (Model.ids_unique cs) then "na"
    else begin
      let n = List.length cs in
      let ids = if impl = "-" then [] else List.map z_of_string (words impl) in
      let rem = List.filter (fun c -> List.exists (fun i -> Model.Z.eqb c.Model.c_id i) ids) cs in
      if List.length rem <> List.length ids then "fail a remaining id is not a candidate"
      else if List.length ids <> n - n / 2 then "fail the number of remaining candidates is not n - n/2"
      else begin
        (* C59_ratio_protects_longest_connected *)
        let k = z_of_int (n / 2 - n / 2 / 2) in
        match List.filter (fun c -> Model.surely_last_k Model.cmp_rev_connected k c cs) rem with
        | [] -> "ok"
        | c :: _ -> "fail peer " ^ string_of_z c.Model.c_id ^ " is among the n/2 - n/4 longest connected under every ordering of ties but was not protected"
      end
    end
  | _ -> "na"

(* ---- search over the orderings of ties ----
   The extracted pipeline takes EraseLastKElements as a parameter.  We pass a version that sorts
   stably and then, when the boundary "last k" cuts through a class of comparator-equivalent
   elements, lets a strategy choose which members of the class go behind the boundary; the order
   of equal-connection-time candidates in the final vector is chosen the same way.
   Strategy 1 (exact): all choice sequences are enumerated (odometer, replay); answers yes / no.
   Strategy 2 (when the space is too large): random choices that never erase the candidates the
   implementation left in play; answers yes when a witness order is found, else undecided. *)
exception Budget

let binom m j =
  (* capped at 1_000_000 *)
  let j = min j (m - j) in
  if j < 0 then 0 else begin
    let r = ref 1 in
    (try for i = 1 to j do
         r := !r * (m - j + i) / i;
         if !r > 1_000_000 then (r := 1_000_000; raise Exit)
       done with Exit -> ());
    !r
  end
let rec combos (l : 'a list) (j : int) : 'a list list =
  if j = 0 then [[]] else match l with
    | [] -> []
    | x :: r -> List.map (fun c -> x :: c) (combos r (j - 1)) @ combos r j
let rec perms (l : 'a list) : 'a list list = match l with
  | [] -> [[]]
  | _ -> List.concat (List.mapi (fun i x ->
      let rest = List.filteri (fun j _ -> j <> i) l in List.map (fun p -> x :: p) (perms rest)) l)

type strategy = {
  subset : Model.cand list -> int -> int list;      (* class, j -> positions (sorted) of the j members that go last *)
  order : Model.cand list -> Model.cand list;       (* a class of equal connection time -> its order *)
}

let nd_elk (st : strategy) : Model.eraser = fun cmp k pred l ->
  let s = Model.stable_sort cmp l in
  let arr = Array.of_list s in
  let n = Array.length arr in
  let kz = zt_of_z k in
  let e = if Z.leq kz Z.zero then 0 else if Z.geq kz (Z.of_int n) then n else Z.to_int kz in
  if e = 0 || e = n then Model.erase_last_k_sorted s k pred
  else begin
    let bd = n - e in
    let equiv x y = not (cmp x y) && not (cmp y x) in
    let lo = ref bd in
    while !lo > 0 && equiv arr.(!lo - 1) arr.(bd) do decr lo done;
    let hi = ref (bd + 1) in
    while !hi < n && equiv arr.(!hi) arr.(bd) do incr hi done;
    if !lo = bd then Model.erase_last_k_sorted s k pred
    else begin
      let m = !hi - !lo and j = !hi - bd in
      let cls = Array.to_list (Array.sub arr !lo m) in
      let positions = st.subset cls j in
      let chosen = List.filteri (fun i _ -> List.mem i positions) cls in
      let others = List.filteri (fun i _ -> not (List.mem i positions)) cls in
      let s' = Array.to_list (Array.sub arr 0 !lo) @ others @ chosen @ Array.to_list (Array.sub arr !hi (n - !hi)) in
      Model.erase_last_k_sorted s' k pred
    end
  end

(* the orders of a vector sorted by ReverseCompareNodeTimeConnected that are still sorted *)
let nd_final_order (st : strategy) (l : Model.cand list) : Model.cand list =
  let rec classes acc cur = function
    | [] -> List.rev (match cur with [] -> acc | _ -> List.rev cur :: acc)
    | x :: r ->
      (match cur with
       | y :: _ when Model.Z.eqb x.Model.c_connected y.Model.c_connected -> classes acc (x :: cur) r
       | [] -> classes acc [x] r
       | _ -> classes (List.rev cur :: acc) [x] r) in
  List.concat (List.map (fun cl -> if List.length cl <= 1 then cl else st.order cl) (classes [] [] l))

(* exact enumeration of the runs of f; answers yes / no, or raises Budget *)
let enumerate (budget : int) (max_arity : int) (f : strategy -> 'a) (found : 'a -> bool) : string =
  let prefix = ref [] and runs = ref 0 and result = ref "no" and continue = ref true in
  while !continue do
    incr runs;
    if !runs > budget then raise Budget;
    let pre = ref !prefix and trail = ref [] in
    let choose arity =
      if arity <= 1 then 0 else begin
        if arity > max_arity then raise Budget;
        let c = match !pre with x :: r -> pre := r; x | [] -> 0 in
        trail := (c, arity) :: !trail; c
      end in
    let st = {
      subset = (fun cls j -> let m = List.length cls in
                 let idx = choose (binom m j) in List.nth (combos (List.init m (fun i -> i)) j) idx);
      order = (fun cl -> let m = List.length cl in
                if m > 5 then raise Budget;
                let ps = perms cl in List.nth ps (choose (List.length ps))) } in
    let r = f st in
    if found r then (result := "yes"; continue := false)
    else begin
      let rec next = function
        | [] -> None
        | (c, a) :: rest -> if c + 1 < a then Some (List.rev ((c + 1) :: List.map fst rest)) else next rest in
      match next !trail with
      | None -> continue := false
      | Some p -> prefix := p
    end
  done;
  !result

let shuffle l =
  let a = Array.of_list l in
  for i = Array.length a - 1 downto 1 do
    let j = Random.int (i + 1) in let t = a.(i) in a.(i) <- a.(j); a.(j) <- t
  done; Array.to_list a

(* random tie orders that never erase a candidate whose id is in [keep] when that can be avoided,
   and put the candidates of [first] in front of their class in the final vector *)
let sample (tries : int) (keep : Z.t list) (first : Z.t list) (f : strategy -> 'a) (found : 'a -> bool) : string =
  let is_in ids c = List.exists (fun i -> Z.equal i (zt_of_z c.Model.c_id)) ids in
  let result = ref "undecided" in
  (try
     for _ = 1 to tries do
       let st = {
         subset = (fun cls j ->
             let idx = List.mapi (fun i c -> (i, c)) cls in
             let free = shuffle (List.filter (fun (_, c) -> not (is_in keep c)) idx) in
             let kept = shuffle (List.filter (fun (_, c) -> is_in keep c) idx) in
             let rec take n l = if n = 0 then [] else match l with [] -> [] | x :: r -> x :: take (n - 1) r in
             List.sort compare (List.map fst (take j (free @ kept))));
         order = (fun cl ->
             let a = shuffle (List.filter (is_in first) cl) and b = shuffle (List.filter (fun c -> not (is_in first c)) cl) in
             a @ b) } in
       if found (f st) then (result := "yes"; raise Exit)
     done
   with Exit -> ());
  !result

let allowed budget c impl =
  (* a witness order is usually found by a few guided random runs; only when that fails is the
     exhaustive enumeration tried, which alone can answer "no" *)
  let decide keep first f found =
    if sample 150 keep first f found = "yes" then "yes"
    else (try enumerate budget 60 f found
          with Budget -> sample (2 * budget) keep first f found) in
  match parse c with
  | ("sel", cs) ->
    let target = (try [Z.of_string impl] with _ -> []) in
    decide target target
      (fun st ->
         match Model.protect_all (nd_elk st) cs with
         | Model.Stuck _ -> "STUCK"
         | Model.Ok rem -> show_sel (Model.pick (nd_final_order st rem)))
      (fun r -> r = impl)
  | ("ratio", cs) ->
    let keep = if impl = "-" then [] else (try List.map Z.of_string (words impl) with _ -> []) in
    decide keep [] (fun st -> show_ratio (Model.protect_by_ratio (nd_elk st) cs)) (fun r -> r = impl)
  | _ -> "undecided"

let () =
  if Array.length Sys.argv > 1 && Sys.argv.(1) = "allowed" then begin
    (* allowed <budget> <seconds>: after <seconds> of cpu time the remaining lines are answered "skipped" *)
    let budget = if Array.length Sys.argv > 2 then int_of_string Sys.argv.(2) else 300 in
    let seconds = if Array.length Sys.argv > 3 then float_of_string Sys.argv.(3) else 60.0 in
    let t0 = Sys.time () in
    Random.init 59;
    (try
       while true do
         let l = input_line stdin in
         let out =
           if Sys.time () -. t0 > seconds then "skipped"
           else (try let (c, i) = split_arrow l in allowed budget c i with e -> "EXC " ^ Printexc.to_string e) in
         print_string out; print_char '\n'
       done
     with End_of_file -> ());
    flush stdout
  end else main_loop ~model ~holds
