(* Pure OCaml SHA-256 (FIPS 180-4) on strings; glue used to instantiate the Section variable H of the
   extracted sighash model, so that digests compare byte for byte with the implementation.
   Native ints masked to 32 bits. *)
let k = [|
  0x428a2f98; 0x71374491; 0xb5c0fbcf; 0xe9b5dba5; 0x3956c25b; 0x59f111f1; 0x923f82a4; 0xab1c5ed5;
  0xd807aa98; 0x12835b01; 0x243185be; 0x550c7dc3; 0x72be5d74; 0x80deb1fe; 0x9bdc06a7; 0xc19bf174;
  0xe49b69c1; 0xefbe4786; 0x0fc19dc6; 0x240ca1cc; 0x2de92c6f; 0x4a7484aa; 0x5cb0a9dc; 0x76f988da;
  0x983e5152; 0xa831c66d; 0xb00327c8; 0xbf597fc7; 0xc6e00bf3; 0xd5a79147; 0x06ca6351; 0x14292967;
  0x27b70a85; 0x2e1b2138; 0x4d2c6dfc; 0x53380d13; 0x650a7354; 0x766a0abb; 0x81c2c92e; 0x92722c85;
  0xa2bfe8a1; 0xa81a664b; 0xc24b8b70; 0xc76c51a3; 0xd192e819; 0xd6990624; 0xf40e3585; 0x106aa070;
  0x19a4c116; 0x1e376c08; 0x2748774c; 0x34b0bcb5; 0x391c0cb3; 0x4ed8aa4a; 0x5b9cca4f; 0x682e6ff3;
  0x748f82ee; 0x78a5636f; 0x84c87814; 0x8cc70208; 0x90befffa; 0xa4506ceb; 0xbef9a3f7; 0xc67178f2 |]
let m32 = 0xFFFFFFFF
let rotr x n = ((x lsr n) lor (x lsl (32 - n))) land m32
let sha256 (msg : string) : string =
  let len = String.length msg in
  let total = ((len + 8) / 64 + 1) * 64 in
  let b = Bytes.make total '\000' in
  Bytes.blit_string msg 0 b 0 len;
  Bytes.set b len '\x80';
  let bits = len * 8 in
  for i = 0 to 7 do Bytes.set b (total - 1 - i) (Char.chr ((bits lsr (8 * i)) land 0xff)) done;
  let h = [| 0x6a09e667; 0xbb67ae85; 0x3c6ef372; 0xa54ff53a; 0x510e527f; 0x9b05688c; 0x1f83d9ab; 0x5be0cd19 |] in
  let w = Array.make 64 0 in
  for blk = 0 to total / 64 - 1 do
    for t = 0 to 15 do
      let o = blk * 64 + t * 4 in
      w.(t) <- (Char.code (Bytes.get b o) lsl 24) lor (Char.code (Bytes.get b (o + 1)) lsl 16)
               lor (Char.code (Bytes.get b (o + 2)) lsl 8) lor Char.code (Bytes.get b (o + 3))
    done;
    for t = 16 to 63 do
      let s0 = rotr w.(t - 15) 7 lxor rotr w.(t - 15) 18 lxor (w.(t - 15) lsr 3) in
      let s1 = rotr w.(t - 2) 17 lxor rotr w.(t - 2) 19 lxor (w.(t - 2) lsr 10) in
      w.(t) <- (w.(t - 16) + s0 + w.(t - 7) + s1) land m32
    done;
    let v = Array.copy h in
    for t = 0 to 63 do
      let e = v.(4) and a = v.(0) in
      let s1 = rotr e 6 lxor rotr e 11 lxor rotr e 25 in
      let ch = (e land v.(5)) lxor ((lnot e) land m32 land v.(6)) in
      let t1 = (v.(7) + s1 + ch + k.(t) + w.(t)) land m32 in
      let s0 = rotr a 2 lxor rotr a 13 lxor rotr a 22 in
      let maj = (a land v.(1)) lxor (a land v.(2)) lxor (v.(1) land v.(2)) in
      let t2 = (s0 + maj) land m32 in
      v.(7) <- v.(6); v.(6) <- v.(5); v.(5) <- v.(4); v.(4) <- (v.(3) + t1) land m32;
      v.(3) <- v.(2); v.(2) <- v.(1); v.(1) <- v.(0); v.(0) <- (t1 + t2) land m32
    done;
    for i = 0 to 7 do h.(i) <- (h.(i) + v.(i)) land m32 done
  done;
  String.init 32 (fun i -> Char.chr ((h.(i / 4) lsr (8 * (3 - i mod 4))) land 0xff))
