(* Model side of C10 (signature hashes, signature/pubkey encoding rules, signature checkers).
   Case lines (TX := <version> <nin> {<prevhash-hex32> <n> <scriptSig> <sequence>}* <nout> {<value> <spk>}* <locktime>):
     legacy  <nIn> <hashtype-int32> <scriptCode> TX [=<expected digest>]
     bip143  <nIn> <hashtype-int32> <scriptCode> <amount> TX [=<expected>]
     taproot <nIn> <hashtype-u8> <annex-hex|none> <tapleaf-hash|key> <codesep-pos> TX <nspent> {<amount> <spk>}* [=<expected>]
     tapleaf <leaf-version> <script>
     sigenc  <flags> <sig>
     pkenc   <flags> <base|v0> <pubkey>
     checksig ...   (see checksig below)
   SHA-256 (the Section variable H of the model) is the pure OCaml implementation of sighash_sha256.ml. *)
open Conv

let string_of_bytes (l : Model.n list) : string =
  let n = List.length l in
  let b = Bytes.create n in
  List.iteri (fun i x -> Bytes.set b i (Char.chr (int_of_n x))) l;
  Bytes.to_string b
let byte_tab = Array.init 256 n_of_int
let bytes_of_string (s : string) : Model.n list =
  List.init (String.length s) (fun i -> byte_tab.(Char.code s.[i]))
let h_sha (l : Model.n list) : Model.n list = bytes_of_string (Sighash_sha256.sha256 (string_of_bytes l))

let hexs l = hex_of_bytes l

(* TX parser: returns the transaction and the remaining tokens *)
let parse_tx (ws : string list) : Model.tx * string list =
  match ws with
  | ver :: nin :: r ->
    let rec ins k ws acc = if k = 0 then (List.rev acc, ws) else match ws with
      | h :: n :: sc :: sq :: r ->
        ins (k - 1) r ({ Model.in_hash = bytes_of_hex h; Model.in_n = z_of_string n; Model.in_script = bytes_of_hex sc;
                         Model.in_sequence = z_of_string sq; Model.in_witness = [] } :: acc)
      | _ -> failwith "bad vin" in
    let (vin, r) = ins (int_of_string nin) r [] in
    (match r with
     | nout :: r ->
       let rec outs k ws acc = if k = 0 then (List.rev acc, ws) else match ws with
         | v :: spk :: r -> outs (k - 1) r ({ Model.out_value = z_of_string v; Model.out_script = bytes_of_hex spk } :: acc)
         | _ -> failwith "bad vout" in
       let (vout, r) = outs (int_of_string nout) r [] in
       (match r with
        | lock :: r -> ({ Model.tx_version = z_of_string ver; Model.tx_vin = vin; Model.tx_vout = vout; Model.tx_locktime = z_of_string lock }, r)
        | _ -> failwith "bad locktime")
     | _ -> failwith "bad nout")
  | _ -> failwith "bad tx"

let parse_spent (ws : string list) : Model.txout list * string list =
  match ws with
  | n :: r ->
    let rec outs k ws acc = if k = 0 then (List.rev acc, ws) else match ws with
      | v :: spk :: r -> outs (k - 1) r ({ Model.out_value = z_of_string v; Model.out_script = bytes_of_hex spk } :: acc)
      | _ -> failwith "bad spent" in
    outs (int_of_string n) r []
  | [] -> ([], [])

let show_opt = function Some d -> hexs d | None -> "precondition"
let show_res = function
  | Model.ShPre d -> hexs d
  | Model.ShFail | Model.ShMissing -> "fail"
  | Model.ShAssert -> "precondition"
  | Model.ShOne -> "one"

let err_str = function
  | Model.E_SIG_DER -> "SIG_DER" | Model.E_SIG_HIGH_S -> "SIG_HIGH_S" | Model.E_SIG_HASHTYPE -> "SIG_HASHTYPE"
  | Model.E_PUBKEYTYPE -> "PUBKEYTYPE" | Model.E_WITNESS_PUBKEYTYPE -> "WITNESS_PUBKEYTYPE"
  | Model.E_SCHNORR_SIG_SIZE -> "SCHNORR_SIG_SIZE" | Model.E_SCHNORR_SIG_HASHTYPE -> "SCHNORR_SIG_HASHTYPE"
  | Model.E_SCHNORR_SIG -> "SCHNORR_SIG" | Model.E_OOB -> "OOB"

let tap_ctx_of annex leaf pos spent =
  { Model.tc_spent = spent;
    Model.tc_annex = (if annex = "none" then None else Some (bytes_of_hex annex));
    Model.tc_leaf = (if leaf = "key" then None else Some (bytes_of_hex leaf, z_of_string pos)) }

(* ---- checksig: the checker models with an ideal signature oracle ----
   checksig <kind> <flags> nf<0|1> <sigmut> <priv> <pk> <ht_sign> <script> <scriptCode> <codesep-pos> <control|-> S <nIn> <annex|none> TX <spent> C <nIn> <annex|none> TX <spent>
   The C++ side signs the digest of context S with a real key, applies the signature mutation and runs the real
   VerifyScript in context C.  Here the curve is the ideal oracle that accepts exactly the signed (key, digest,
   signature): the prediction is the checker model's result when Verify answers "key, digest and signature are the
   signed ones".  The signature bytes are not known on this side (and are irrelevant to the model beyond their shape):
   a fixed strictly-DER / 64-byte placeholder with the same hash-type byte stands for them.
   Glue (interpreter behaviour that belongs to C12, not modelled here): a false CHECKSIG leaves false on the stack
   -> EVAL_FALSE, or SIG_NULLFAIL when the flag is set and the signature is not empty. *)
type ctx = { c_nin : int; c_annex : string; c_tx : Model.tx; c_spent : Model.txout list }
let parse_ctx ws = match ws with
  | nin :: annex :: r ->
    let (t, r) = parse_tx r in
    let (sp, r) = parse_spent r in
    ({ c_nin = int_of_string nin; c_annex = annex; c_tx = t; c_spent = sp }, r)
  | _ -> failwith "bad ctx"

let dummy_der = bytes_of_hex "3006020101020101"
let dummy_64 = List.init 64 (fun _ -> n_of_int 0)
let drop_last l = match List.rev l with [] -> [] | _ :: r -> List.rev r
let set_last l x = match List.rev l with [] -> [] | _ :: r -> List.rev (x :: r)

let checksig ws =
  match ws with
  | kind :: flags :: nf :: sigmut :: _priv :: pk :: ht :: script :: sc :: pos :: _ctrl :: "S" :: r ->
    let (cs, r) = parse_ctx r in
    let (cc, _) = (match r with "C" :: r -> parse_ctx r | _ -> failwith "no C") in
    let flags = z_of_string flags and pk = bytes_of_hex pk and ht = int_of_string ht in
    let script = bytes_of_hex script and sc = bytes_of_hex sc in
    let taproot = (kind = "p2trk" || kind = "p2trs") in
    let nth l i = List.nth l i in
    if cs.c_nin >= List.length cs.c_tx.Model.tx_vin || cc.c_nin >= List.length cc.c_tx.Model.tx_vin
       || List.length cs.c_spent <> List.length cs.c_tx.Model.tx_vin || List.length cc.c_spent <> List.length cc.c_tx.Model.tx_vin then "precondition" else
    let tapctx c = { Model.tc_spent = c.c_spent;
                     Model.tc_annex = (if c.c_annex = "none" then None else Some (bytes_of_hex c.c_annex));
                     Model.tc_leaf = (if kind = "p2trs" then Some (Model.tapleaf_hash h_sha (z_of_int 192) script, z_of_string pos) else None) } in
    (* digest of the signing context *)
    let d_s =
      if taproot then (match Model.taproot_sighash h_sha cs.c_tx (nat_of_int cs.c_nin) (z_of_int ht) (tapctx cs) with Model.ShPre d -> Some d | _ -> None)
      else if kind = "p2pk" then Model.legacy_sighash h_sha cs.c_tx (nat_of_int cs.c_nin) (z_of_int ht) sc
      else Model.bip143_sighash h_sha cs.c_tx (nat_of_int cs.c_nin) (z_of_int ht) sc ((nth cs.c_spent cs.c_nin).Model.out_value) in
    (match d_s with None -> "precondition" | Some d_s ->
    let genuine = not (sigmut = "flip" || sigmut = "wrongkey") in
    let is_ht = String.length sigmut > 2 && String.sub sigmut 0 2 = "ht" in
    let htx () = n_of_int (int_of_string (String.sub sigmut 2 (String.length sigmut - 2))) in
    let verdict =
      if taproot then begin
        let base = if ht <> 0 then dummy_64 @ [n_of_int ht] else dummy_64 in
        let sg = if sigmut = "empty" then [] else if sigmut = "trunc" then drop_last base
          else if sigmut = "append00" then base @ [n_of_int 0] else if sigmut = "extend" then base @ [n_of_int 1; n_of_int 1]
          else if is_ht then (if List.length base = 64 then base @ [htx ()] else set_last base (htx ())) else base in
        let oracle pk' d s64 = genuine && pk' = pk && d = d_s && s64 = dummy_64 in
        if kind = "p2trs" && sg = [] then "EVAL_FALSE"      (* EvalChecksigTapscript: empty signature = false, no error *)
        else match Model.check_schnorr_signature h_sha oracle cc.c_tx (nat_of_int cc.c_nin) (tapctx cc) sg pk with
          | Model.ChkTrue -> "ok" | Model.ChkErr e -> err_str e | Model.ChkFalse -> "EVAL_FALSE"
          | Model.ChkMissing -> "missing" | Model.ChkAssert -> "precondition"
      end else begin
        let base = dummy_der @ [n_of_int ht] in
        let sg = if sigmut = "empty" then [] else if is_ht then set_last base (htx ()) else base in
        let low_s _ = sigmut <> "highS" in
        let v0 = (kind = "p2wsh") in
        let sv = if v0 then Model.SV_WITNESS_V0 else Model.SV_BASE in
        let oracle pk' d der = genuine && pk' = pk && d = d_s && der = dummy_der in
        match Model.check_signature_encoding low_s flags sg with
        | Some e -> err_str e
        | None ->
          match Model.check_pubkey_encoding flags sv pk with
          | Some e -> err_str e
          | None ->
            let amount = (nth cc.c_spent cc.c_nin).Model.out_value in
            match Model.check_ecdsa_signature h_sha oracle v0 cc.c_tx (nat_of_int cc.c_nin) amount sg pk sc with
            | Model.ChkTrue -> "ok"
            | Model.ChkFalse -> if nf = "nf1" && sg <> [] then "SIG_NULLFAIL" else "EVAL_FALSE"
            | Model.ChkMissing -> "missing" | Model.ChkAssert -> "precondition" | Model.ChkErr e -> err_str e
      end in
    verdict ^ " signed=" ^ hexs d_s)
  | _ -> "BADCASE"

let model _ (line : string) : string =
  match words line with
  | "legacy" :: nin :: ht :: sc :: r ->
    let (t, _) = parse_tx r in
    show_opt (Model.legacy_sighash h_sha t (nat_of_int (int_of_string nin)) (z_of_string ht) (bytes_of_hex sc))
  | "bip143" :: nin :: ht :: sc :: amount :: r ->
    let (t, _) = parse_tx r in
    show_opt (Model.bip143_sighash h_sha t (nat_of_int (int_of_string nin)) (z_of_string ht) (bytes_of_hex sc) (z_of_string amount))
  | "taproot" :: nin :: ht :: annex :: leaf :: pos :: r ->
    let (t, r) = parse_tx r in
    let (spent, _) = parse_spent r in
    show_res (Model.taproot_sighash h_sha t (nat_of_int (int_of_string nin)) (z_of_string ht) (tap_ctx_of annex leaf pos spent))
  | "checksig" :: r -> checksig r
  | [ "tapleaf"; lv; script ] -> hexs (Model.tapleaf_hash h_sha (z_of_string lv) (bytes_of_hex script))
  | [ "annexhash"; a ] -> hexs (Model.annex_hash h_sha (bytes_of_hex a))
  | [ "sigenc"; flags; sg ] ->
    (match Model.check_signature_encoding Model.low_s_arith (z_of_string flags) (bytes_of_hex sg) with
     | None -> "ok" | Some e -> err_str e)
  | [ "pkenc"; flags; sv; pk ] ->
    let sv = if sv = "v0" then Model.SV_WITNESS_V0 else Model.SV_BASE in
    (match Model.check_pubkey_encoding (z_of_string flags) sv (bytes_of_hex pk) with
     | None -> "ok" | Some e -> err_str e)
  | _ -> "BADCASE"

(* expected digest token "=<hex>" at the end of a corpus case *)
let expected (case : string) : string option =
  match List.rev (words case) with
  | w :: _ when String.length w > 1 && w.[0] = '=' -> Some (String.sub w 1 (String.length w - 1))
  | _ -> None

let holds args (case : string) (impl : string) : string =
  let m = model args case in
  if m <> impl then "fail implementation differs from the specified value: " ^ m
  else match expected case with
    | Some e when e <> impl -> "fail differs from the published test vector: " ^ e
    | _ -> "ok"

let () = main_loop ~model ~holds
