(* Model side of C55 (mempool.dat): extracted MempoolPersist (load_file / parse_file over the SerTx codec + SHA256d).
   file <now> <expiry> <opts> <filehex>
        -> ret=<0|1> post=<pool>                      (fresh pool, every transaction rejected by normal submission)
   scn ... => orig=<..> dfile=<hex> file=<hex|=> pre=<pool> ref=<wtxids> ret=.. post=..
        the part after " => " is what the implementation observed (props/C55.py hands it over): the model
        checks the dumped file against the saved pool (dump=ok|MISMATCH..) and predicts ret and post from the
        (mutated) file, the pre-load pool and the reference acceptance set.
        -> dump=ok ret=<0|1> post=<pool>
   <pool> = <entries sorted by txid>|<mapDeltas>|<unbroadcast>; entry = txid:time:delta *)
open Conv
module M = Model

let split_on c s = String.split_on_char c s
let ids_of s = if s = "-" then [] else List.map bytes_of_hex (split_on ',' s)
let pairs_of s = if s = "-" then [] else List.map (fun x -> match split_on ':' x with [k; v] -> (bytes_of_hex k, z_of_string v) | _ -> failwith "pair") (split_on ',' s)
let entries_of s = if s = "-" then [] else
    List.map (fun x -> match split_on ':' x with
        | [k; t; d] -> { M.e_id = bytes_of_hex k; M.e_time = z_of_string t; M.e_delta = z_of_string d } | _ -> failwith "entry") (split_on ',' s)
let pool_of s = match split_on '|' s with
  | [e; d; u] -> { M.p_entries = entries_of e; M.p_deltas = pairs_of d; M.p_unb = ids_of u }
  | _ -> failwith "pool"
let join l = if l = [] then "-" else String.concat "," l
let show_entry (e : M.entry) = hex_of_bytes e.M.e_id ^ ":" ^ string_of_z e.M.e_time ^ ":" ^ string_of_z e.M.e_delta
let show_pool ?(sorted = true) (p : M.pool) =
  let es = List.map show_entry p.M.p_entries in
  let es = if sorted then List.sort compare es else es in
  join es ^ "|" ^ join (List.map (fun (k, v) -> hex_of_bytes k ^ ":" ^ string_of_z v) p.M.p_deltas) ^ "|" ^ join (List.map hex_of_bytes p.M.p_unb)
let opts_of o = let o = int_of_string o in
  { M.o_use_current_time = o land 1 <> 0; M.o_apply_fee_delta = o land 2 <> 0; M.o_apply_unbroadcast = o land 4 <> 0 }

let field impl name =
  let key = name ^ "=" in
  match List.filter (fun w -> String.length w >= String.length key && String.sub w 0 (String.length key) = key) (words impl) with
  | w :: _ -> String.sub w (String.length key) (String.length w - String.length key)
  | [] -> failwith ("missing field " ^ name)

let show_res r = "ret=" ^ (if M.lres_ok r then "1" else "0") ^ " post=" ^ show_pool (M.lres_pool r)

let model _ l =
  let (c, impl) = split_arrow l in
  match words c with
  | ["file"; now; expiry; o; hex] ->
    show_res (M.run_load [] (z_of_string now) (z_of_string expiry) (opts_of o) (bytes_of_hex hex) M.empty_pool)
  | "scn" :: now :: expiry :: o :: _ ->
    let dfile = bytes_of_hex (field impl "dfile") in
    let file = (match field impl "file" with "=" -> dfile | h -> bytes_of_hex h) in
    (* the dumped file must contain exactly the saved pool: entries in infoAll order with time and delta,
       mapDeltas without the saved transactions, the unbroadcast set *)
    let orig = (match split_on '|' (field impl "orig") with
        | [e; d; u] -> { M.p_entries = entries_of e; M.p_deltas = pairs_of d; M.p_unb = ids_of u } | _ -> failwith "orig") in
    let dump = (match M.run_parse dfile with
        | M.Err _ -> "dump=MISMATCH(unreadable)"
        | M.Ok (sn, rest) ->
          let got = { M.p_entries = List.map (fun (r : M.tx M.mrec) -> { M.e_id = M.tx_txid r.M.r_tx; M.e_time = r.M.r_time; M.e_delta = r.M.r_delta }) sn.M.sn_recs;
                      M.p_deltas = sn.M.sn_deltas; M.p_unb = sn.M.sn_unb } in
          let want = { orig with M.p_deltas = List.fold_left (fun m (e : M.entry) -> M.dm_erase e.M.e_id m) orig.M.p_deltas orig.M.p_entries } in
          if rest <> [] then "dump=MISMATCH(trailing)"
          else if show_pool ~sorted:false got = show_pool ~sorted:false want then "dump=ok"
          else "dump=MISMATCH(file:" ^ show_pool ~sorted:false got ^ ";pool:" ^ show_pool ~sorted:false want ^ ")") in
    let r = M.run_load (ids_of (field impl "ref")) (z_of_string now) (z_of_string expiry) (opts_of o) file (pool_of (field impl "pre")) in
    dump ^ " " ^ show_res r
  | _ -> "BADCASE"

let holds _ _ _ = "ok"
let () = main_loop ~model ~holds
