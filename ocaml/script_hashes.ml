(* Pure OCaml SHA-256, SHA-1 and RIPEMD-160 on strings, used to instantiate the hash Section variables
   of the extracted script interpreter (model/Script.v) so that OP_SHA256 / OP_HASH160 / ... results compare
   byte for byte with the implementation.  Native ints (63 bit) masked to 32 bits.  Not part of the proved
   model: a wrong hash here shows up as a disagreement with the C++ side. *)
let m32 = 0xFFFFFFFF
let rotr x n = ((x lsr n) lor (x lsl (32 - n))) land m32
let rotl x n = ((x lsl n) lor (x lsr (32 - n))) land m32

(* Merkle-Damgard padding: 0x80, zeros, 64-bit length (big or little endian) *)
let pad (msg : string) (big_endian : bool) : Bytes.t =
  let len = String.length msg in
  let padlen = let r = (len + 9) mod 64 in if r = 0 then 0 else 64 - r in
  let total = len + 9 + padlen in
  let b = Bytes.make total '\000' in
  Bytes.blit_string msg 0 b 0 len;
  Bytes.set b len '\x80';
  let bits = len * 8 in
  for i = 0 to 7 do
    let byte = Char.chr ((bits lsr (8 * i)) land 0xff) in
    if big_endian then Bytes.set b (total - 1 - i) byte else Bytes.set b (total - 8 + i) byte
  done;
  b

let be32 b o = (Char.code (Bytes.get b o) lsl 24) lor (Char.code (Bytes.get b (o + 1)) lsl 16)
               lor (Char.code (Bytes.get b (o + 2)) lsl 8) lor Char.code (Bytes.get b (o + 3))
let le32 b o = (Char.code (Bytes.get b (o + 3)) lsl 24) lor (Char.code (Bytes.get b (o + 2)) lsl 16)
               lor (Char.code (Bytes.get b (o + 1)) lsl 8) lor Char.code (Bytes.get b o)
let out_be (h : int array) : string =
  let o = Bytes.create (4 * Array.length h) in
  Array.iteri (fun i v -> for j = 0 to 3 do Bytes.set o (4 * i + j) (Char.chr ((v lsr (8 * (3 - j))) land 0xff)) done) h;
  Bytes.to_string o
let out_le (h : int array) : string =
  let o = Bytes.create (4 * Array.length h) in
  Array.iteri (fun i v -> for j = 0 to 3 do Bytes.set o (4 * i + j) (Char.chr ((v lsr (8 * j)) land 0xff)) done) h;
  Bytes.to_string o

let k256 = [|
  0x428a2f98; 0x71374491; 0xb5c0fbcf; 0xe9b5dba5; 0x3956c25b; 0x59f111f1; 0x923f82a4; 0xab1c5ed5;
  0xd807aa98; 0x12835b01; 0x243185be; 0x550c7dc3; 0x72be5d74; 0x80deb1fe; 0x9bdc06a7; 0xc19bf174;
  0xe49b69c1; 0xefbe4786; 0x0fc19dc6; 0x240ca1cc; 0x2de92c6f; 0x4a7484aa; 0x5cb0a9dc; 0x76f988da;
  0x983e5152; 0xa831c66d; 0xb00327c8; 0xbf597fc7; 0xc6e00bf3; 0xd5a79147; 0x06ca6351; 0x14292967;
  0x27b70a85; 0x2e1b2138; 0x4d2c6dfc; 0x53380d13; 0x650a7354; 0x766a0abb; 0x81c2c92e; 0x92722c85;
  0xa2bfe8a1; 0xa81a664b; 0xc24b8b70; 0xc76c51a3; 0xd192e819; 0xd6990624; 0xf40e3585; 0x106aa070;
  0x19a4c116; 0x1e376c08; 0x2748774c; 0x34b0bcb5; 0x391c0cb3; 0x4ed8aa4a; 0x5b9cca4f; 0x682e6ff3;
  0x748f82ee; 0x78a5636f; 0x84c87814; 0x8cc70208; 0x90befffa; 0xa4506ceb; 0xbef9a3f7; 0xc67178f2 |]

let sha256 (msg : string) : string =
  let b = pad msg true in
  let h = [| 0x6a09e667; 0xbb67ae85; 0x3c6ef372; 0xa54ff53a; 0x510e527f; 0x9b05688c; 0x1f83d9ab; 0x5be0cd19 |] in
  let w = Array.make 64 0 in
  for blk = 0 to Bytes.length b / 64 - 1 do
    for t = 0 to 15 do w.(t) <- be32 b (blk * 64 + t * 4) done;
    for t = 16 to 63 do
      let s0 = rotr w.(t - 15) 7 lxor rotr w.(t - 15) 18 lxor (w.(t - 15) lsr 3) in
      let s1 = rotr w.(t - 2) 17 lxor rotr w.(t - 2) 19 lxor (w.(t - 2) lsr 10) in
      w.(t) <- (w.(t - 16) + s0 + w.(t - 7) + s1) land m32
    done;
    let a = ref h.(0) and bb = ref h.(1) and c = ref h.(2) and d = ref h.(3)
    and e = ref h.(4) and f = ref h.(5) and g = ref h.(6) and hh = ref h.(7) in
    for t = 0 to 63 do
      let s1 = rotr !e 6 lxor rotr !e 11 lxor rotr !e 25 in
      let ch = (!e land !f) lxor ((lnot !e) land m32 land !g) in
      let t1 = (!hh + s1 + ch + k256.(t) + w.(t)) land m32 in
      let s0 = rotr !a 2 lxor rotr !a 13 lxor rotr !a 22 in
      let maj = (!a land !bb) lxor (!a land !c) lxor (!bb land !c) in
      let t2 = (s0 + maj) land m32 in
      hh := !g; g := !f; f := !e; e := (!d + t1) land m32;
      d := !c; c := !bb; bb := !a; a := (t1 + t2) land m32
    done;
    h.(0) <- (h.(0) + !a) land m32; h.(1) <- (h.(1) + !bb) land m32; h.(2) <- (h.(2) + !c) land m32;
    h.(3) <- (h.(3) + !d) land m32; h.(4) <- (h.(4) + !e) land m32; h.(5) <- (h.(5) + !f) land m32;
    h.(6) <- (h.(6) + !g) land m32; h.(7) <- (h.(7) + !hh) land m32
  done;
  out_be h

let sha1 (msg : string) : string =
  let b = pad msg true in
  let h = [| 0x67452301; 0xEFCDAB89; 0x98BADCFE; 0x10325476; 0xC3D2E1F0 |] in
  let w = Array.make 80 0 in
  for blk = 0 to Bytes.length b / 64 - 1 do
    for t = 0 to 15 do w.(t) <- be32 b (blk * 64 + t * 4) done;
    for t = 16 to 79 do w.(t) <- rotl (w.(t - 3) lxor w.(t - 8) lxor w.(t - 14) lxor w.(t - 16)) 1 done;
    let a = ref h.(0) and bb = ref h.(1) and c = ref h.(2) and d = ref h.(3) and e = ref h.(4) in
    for t = 0 to 79 do
      let (f, k) =
        if t < 20 then ((!bb land !c) lor ((lnot !bb) land m32 land !d), 0x5A827999)
        else if t < 40 then (!bb lxor !c lxor !d, 0x6ED9EBA1)
        else if t < 60 then ((!bb land !c) lor (!bb land !d) lor (!c land !d), 0x8F1BBCDC)
        else (!bb lxor !c lxor !d, 0xCA62C1D6) in
      let tmp = (rotl !a 5 + f + !e + k + w.(t)) land m32 in
      e := !d; d := !c; c := rotl !bb 30; bb := !a; a := tmp
    done;
    h.(0) <- (h.(0) + !a) land m32; h.(1) <- (h.(1) + !bb) land m32; h.(2) <- (h.(2) + !c) land m32;
    h.(3) <- (h.(3) + !d) land m32; h.(4) <- (h.(4) + !e) land m32
  done;
  out_be h

(* RIPEMD-160 *)
let rl = [| 0;1;2;3;4;5;6;7;8;9;10;11;12;13;14;15; 7;4;13;1;10;6;15;3;12;0;9;5;2;14;11;8;
            3;10;14;4;9;15;8;1;2;7;0;6;13;11;5;12; 1;9;11;10;0;8;12;4;13;3;7;15;14;5;6;2;
            4;0;5;9;7;12;2;10;14;1;3;8;11;6;15;13 |]
let rr = [| 5;14;7;0;9;2;11;4;13;6;15;8;1;10;3;12; 6;11;3;7;0;13;5;10;14;15;8;12;4;9;1;2;
            15;5;1;3;7;14;6;9;11;8;12;2;10;0;4;13; 8;6;4;1;3;11;15;0;5;12;2;13;9;7;10;14;
            12;15;10;4;1;5;8;7;6;2;13;14;0;3;9;11 |]
let sl = [| 11;14;15;12;5;8;7;9;11;13;14;15;6;7;9;8; 7;6;8;13;11;9;7;15;7;12;15;9;11;7;13;12;
            11;13;6;7;14;9;13;15;14;8;13;6;5;12;7;5; 11;12;14;15;14;15;9;8;9;14;5;6;8;6;5;12;
            9;15;5;11;6;8;13;12;5;12;13;14;11;8;5;6 |]
let sr = [| 8;9;9;11;13;15;15;5;7;7;8;11;14;14;12;6; 9;13;15;7;12;8;9;11;7;7;12;7;6;15;13;11;
            9;7;15;11;8;6;6;14;12;13;5;14;13;13;7;5; 15;5;8;11;14;14;6;14;6;9;12;9;12;5;15;8;
            8;5;12;9;12;5;14;6;8;13;6;5;15;13;11;11 |]
let kl = [| 0x00000000; 0x5A827999; 0x6ED9EBA1; 0x8F1BBCDC; 0xA953FD4E |]
let kr = [| 0x50A28BE6; 0x5C4DD124; 0x6D703EF3; 0x7A6D76E9; 0x00000000 |]
let frmd j x y z =
  let nx = (lnot x) land m32 and ny = (lnot y) land m32 and nz = (lnot z) land m32 in
  ignore nx;
  if j < 16 then x lxor y lxor z
  else if j < 32 then (x land y) lor (nx land z)
  else if j < 48 then (x lor ny) lxor z
  else if j < 64 then (x land z) lor (y land nz)
  else x lxor (y lor nz)

let ripemd160 (msg : string) : string =
  let b = pad msg false in
  let h = [| 0x67452301; 0xEFCDAB89; 0x98BADCFE; 0x10325476; 0xC3D2E1F0 |] in
  let x = Array.make 16 0 in
  for blk = 0 to Bytes.length b / 64 - 1 do
    for t = 0 to 15 do x.(t) <- le32 b (blk * 64 + t * 4) done;
    let al = ref h.(0) and bl = ref h.(1) and cl = ref h.(2) and dl = ref h.(3) and el = ref h.(4) in
    let ar = ref h.(0) and br = ref h.(1) and cr = ref h.(2) and dr = ref h.(3) and er = ref h.(4) in
    for j = 0 to 79 do
      let t = (rotl ((!al + frmd j !bl !cl !dl + x.(rl.(j)) + kl.(j / 16)) land m32) sl.(j) + !el) land m32 in
      al := !el; el := !dl; dl := rotl !cl 10; cl := !bl; bl := t;
      let t = (rotl ((!ar + frmd (79 - j) !br !cr !dr + x.(rr.(j)) + kr.(j / 16)) land m32) sr.(j) + !er) land m32 in
      ar := !er; er := !dr; dr := rotl !cr 10; cr := !br; br := t
    done;
    let t = (h.(1) + !cl + !dr) land m32 in
    h.(1) <- (h.(2) + !dl + !er) land m32;
    h.(2) <- (h.(3) + !el + !ar) land m32;
    h.(3) <- (h.(4) + !al + !br) land m32;
    h.(4) <- (h.(0) + !bl + !cr) land m32;
    h.(0) <- t
  done;
  out_le h
