(* Model side of the cmpct family (C38).  Transactions are their case tokens (hex); the mutation
   check of FillBlock is the merkle model's is_block_mutated with a real SHA256d. *)
open Conv
open Merkle_sha256

let deq (a : string) (b : string) = (a = b)
let h2 a b = sha256d (a ^ b)
let zero = String.make 32 '\000'
let dig s = let r = raw_of_hex s in if String.length r <> 32 then failwith "not 32 bytes" else r

let tx_forms (tok : string) : string * string =
  match String.index_opt tok '/' with
  | None -> let r = raw_of_hex tok in (r, r)
  | Some i -> (raw_of_hex (String.sub tok 0 i), raw_of_hex (String.sub tok (i + 1) (String.length tok - i - 1)))
let tx_view tok : string Model.tx_view =
  let (nw, wt) = tx_forms tok in
  { Model.tv_txid = sha256d nw; tv_wtxid = sha256d wt; tv_nowit_size = z_of_int (String.length nw); tv_has_witness = (nw <> wt) }
let wtxid tok = (tx_view tok).Model.tv_wtxid
let stack_items (s : string) : string list =
  if s = "-" then [] else List.map (fun i -> if i = "e" then "" else raw_of_hex i) (String.split_on_char ',' s)
let idxlist s = if s = "-" then [] else List.map int_of_string (String.split_on_char ',' s)
let st = function Model.READ_STATUS_OK -> "OK" | Model.READ_STATUS_INVALID -> "INVALID" | Model.READ_STATUS_FAILED -> "FAILED"

(* the block FillBlock assembles: announced header (root hdr), given transactions.  The coinbase
   description (cb, commit, stack) given in the case is that of the block's first transaction; when the
   first transaction of the reconstruction is another one, it is a plain non-coinbase transaction. *)
let nowit_of tok = fst (tx_forms tok)
let stripped tok = match String.index_opt tok '/' with Some i -> String.sub tok 0 i | None -> tok
let view hdr cb commit stack first (txs : string list) : string Model.block_view =
  (* same transaction without witness data: still the coinbase with the same outputs (commitment), but its witness stack is empty *)
  let genuine_first = (match txs with t :: _ -> nowit_of t = nowit_of first | [] -> false) in
  let first_has_witness = (match txs with t :: _ -> t = first | [] -> false) in
  { Model.bv_header_root = dig hdr; bv_txs = List.map tx_view txs;
    bv_first_is_coinbase = genuine_first && cb = "1";
    bv_commitment = (if genuine_first && commit <> "-" then Some (dig commit) else None);
    bv_cb_witness_stack = (if genuine_first && first_has_witness then List.map (fun it -> (z_of_int (String.length it), if String.length it = 32 then it else zero)) (stack_items stack) else []);
    bv_checked_merkle_root = false; bv_checked_witness_commitment = false }

let fill segwit hdr cb commit stack (txs : string list) (avail : bool list) spec other pre strip =
  let first = List.hd txs in
  (* what the peer delivers: stripped versions at the positions in `strip` (prefilled or in the response);
     transactions found in the mempool / extra pool are the genuine ones *)
  let deliv = List.mapi (fun i t -> if List.mem i strip then stripped t else t) txs in
  let av = List.mapi (fun i a -> if a then Some (if List.mem i pre then List.nth deliv i else List.nth txs i) else None) avail in
  let missing0 = List.filter_map (fun (t, a) -> if a then None else Some t) (List.combine deliv avail) in
  let missing = match spec with
    | "exact" -> missing0
    | "short" -> (match List.rev missing0 with [] -> [] | _ :: r -> List.rev r)
    | "long" -> missing0 @ [other]
    | "swap" -> (match missing0 with a :: b :: r -> b :: a :: r | l -> l)
    | "wrong" -> (match missing0 with _ :: r -> other :: r | [] -> [])
    | "none" -> []
    | _ -> failwith "spec" in
  let ism l = Model.is_block_mutated deq h2 zero (view hdr cb commit stack first l) (segwit = "1") in
  let (s, res) = Model.fill_block false av missing ism in
  let same = match res with
    | Some l -> if List.map wtxid l = List.map wtxid txs then "1" else "0"
    | None -> "-" in
  (st s, same)

let predict_avail txs pre mem extra =
  List.mapi (fun i _ -> List.mem i pre || List.mem i mem || List.mem i extra) txs

let has_dup_short txs pre =
  let ws = List.filteri (fun i _ -> not (List.mem i pre)) txs |> List.map wtxid in
  List.length (List.sort_uniq compare ws) <> List.length ws

let bits l = String.concat "" (List.map (fun b -> if b then "1" else "0") l)

let model _ l = match words l with
  | "cmpct" :: segwit :: _ :: hdr :: cb :: commit :: stack :: pre :: mem :: extra :: _ :: spec :: strip :: other :: txs ->
    let pre = idxlist pre and mem = idxlist mem and extra = idxlist extra and strip = idxlist strip in
    if has_dup_short txs pre then "FAILED - - -" else begin
      let avail = predict_avail txs pre mem extra in
      let (s2, same) = fill segwit hdr cb commit stack txs avail spec other pre strip in
      String.concat " " ["OK"; bits avail; s2; same]
    end
  | ["cmpctraw"; hnull; nshort; pre] ->
    let items = if pre = "-" then [] else List.map (fun t ->
        match String.index_opt t ':' with
        | Some i -> (z_of_string (String.sub t 0 i), (let x = String.sub t (i + 1) (String.length t - i - 1) in if x = "null" then None else Some x))
        | None -> failwith "item") (String.split_on_char ',' pre) in
    let ns = z_of_string nshort in
    (* the wire format refuses announcements with more than 65535 transactions ("indexes overflowed 16 bits") *)
    if int_of_string nshort + List.length items > 65535 then "EXC" else
    if not (Model.init_checks (hnull = "1") ns (z_of_int (List.length items)) false) then "INVALID -"
    else (match Model.prefilled_slots ns items with
        | None -> "INVALID -"
        | Some slots ->
          let b = bits (List.map (fun s -> s <> None) slots) in
          let b = if String.length b > 300 then string_of_int (String.length b) ^ ":" ^ string_of_int (List.length (List.filter (fun s -> s <> None) slots)) else b in
          "OK " ^ (if b = "" then "-" else b))
  | _ -> "BADCASE"

(* the property on what the implementation did: with the availability the implementation reported,
   FillBlock's status is the model's; an OK reconstruction is the announced block *)
let holds args c impl = match words c, words impl with
  | "cmpct" :: segwit :: _ :: hdr :: cb :: commit :: stack :: pre :: _ :: _ :: _ :: spec :: strip :: other :: txs, [s1; avail; s2; same] ->
    if s1 <> "OK" then (if model args c = impl then "ok" else "fail InitData status differs from the model: " ^ model args c)
    else if String.length avail <> List.length txs then "fail malformed availability"
    else begin
      let av = List.init (String.length avail) (fun i -> avail.[i] = '1') in
      let (ms2, msame) = fill segwit hdr cb commit stack txs av spec other (idxlist pre) (idxlist strip) in
      (* with segwit inactive witness data is not committed to: only the txids are bound (compared through the model's result) *)
      if segwit = "1" && s2 = "OK" && same <> "1" then "fail FillBlock returned OK for a block whose wtxids (witness data) are not those of the announced block"
      else if s2 <> ms2 then "fail FillBlock status " ^ s2 ^ " differs from the model's " ^ ms2
      else if same <> msame then "fail reconstructed block differs"
      else "ok"
    end
  | "cmpctraw" :: _, _ -> if model args c = impl then "ok" else "fail InitData differs from the model: " ^ model args c
  | _ -> "na"

let () = main_loop ~model ~holds
