(* Model side of C39 (relay part).  case: "<ops> ## <s0> <snapshot flag per trickle/mpreq>" *)
open Conv
let split_hints (l : string) : string * string list =
  let re = Str.regexp_string " ##" in
  match (try Some (Str.search_forward re l 0) with Not_found -> None) with
  | Some i -> (String.sub l 0 i, words (String.sub l (i + 3) (String.length l - i - 3)))
  | None -> (l, [])
let sz = string_of_z
(* returns the outputs and, for each getdata, the specification's verdict *)
let run (line : string) : string list * bool list =
  let (script, hints) = split_hints line in
  let hints = ref hints in
  let hint () = match !hints with h :: r -> hints := r; h | [] -> "0" in
  let s0 = z_of_string (match !hints with _ :: _ -> hint () | [] -> "1") in
  let s = ref (Model.rinit_at s0) in
  let ws = ref (words script) in
  let next () = match !ws with w :: r -> ws := r; w | [] -> failwith "short" in
  let npeers = ref 0 in
  let confirmed = ref [] in
  let out = ref [] and verdicts = ref [] in
  let emit x = out := x :: !out in
  while !ws <> [] do
    (match next () with
     | "peer" -> let _ = next () in let id = !npeers in incr npeers; s := Model.rstep !s (Model.EPeer (z_of_int id)); emit (string_of_int id)
     | "tx" ->
       let i = int_of_string (next ()) in
       if List.mem i !confirmed then emit "rej"
       else begin
         s := Model.rstep !s (Model.EAdd (z_of_int i, false));
         (match Model.find_entry (z_of_int i) !s.Model.r_pool with
          | Some e -> emit ("ok:" ^ sz e.Model.m_seq ^ ":" ^ sz !s.Model.r_seq)
          | None -> emit "rej")
       end
     | "rm" -> let i = int_of_string (next ()) in s := Model.rstep !s (Model.ERemove (z_of_int i)); emit (sz !s.Model.r_seq)
     | "block" ->
       let txs = List.map (fun e -> e.Model.m_tx) !s.Model.r_pool in
       confirmed := List.map int_of_z txs @ !confirmed;
       s := Model.rstep !s (Model.EBlock txs); emit (sz !s.Model.r_seq)
     | "trickle" | "mpreq" ->
       let p = z_of_string (next ()) in
       if hint () = "1" then s := Model.rstep !s (Model.ESnapshot p);
       (match Model.find_peer p !s.Model.r_peers with
        | Some x -> emit ("L" ^ sz x.Model.pr_last_inv ^ "@")
        | None -> emit "L?@")
     | "getdata" ->
       let p = z_of_string (next ()) in let i = z_of_string (next ()) in
       let v = Model.serve_getdata !s p i in
       verdicts := v :: !verdicts;
       emit (if v then "tx" else "notfound")
     | o -> failwith ("bad op " ^ o))
  done;
  (List.rev !out, List.rev !verdicts)
let model _ line = String.concat " " (fst (run line))
(* the property on what the implementation did: a transaction is handed out only when the rule allows it *)
let holds _ case impl =
  if String.length impl >= 5 && (String.sub impl 0 5 = "CRASH" || String.sub impl 0 3 = "EXC") then "fail the implementation aborted: " ^ impl
  else
    let (_, verdicts) = run case in
    let answers = List.filter (fun t -> t = "tx" || t = "notfound" || t = "none" || t = "disc") (words impl) in
    if List.length answers <> List.length verdicts then "na"
    else if List.exists2 (fun a v -> a = "tx" && not v) answers verdicts then
      "fail a peer obtained a transaction that entered the mempool after the node last sent it announcements (and is not in the most recent block)"
    else "ok"
let () = main_loop ~model ~holds
