(* Model side of C39 (relay part, with the PeerManager-level private-broadcast paths).
   case: "<ops> ## <s0> <now0> <hint per trickle/mpreq: snapshot flag> <hint per pconn: the transaction INVed>"
   ops: peer k | tx i | rm i | block | trickle p | mpreq p | getdata p i | ptx i | recv p i | pconn | pget c i *)
open Conv
let split_hints (l : string) : string * string list =
  let re = Str.regexp_string " ##" in
  match (try Some (Str.search_forward re l 0) with Not_found -> None) with
  | Some i -> (String.sub l 0 i, words (String.sub l (i + 3) (String.length l - i - 3)))
  | None -> (l, [])
let sz = string_of_z
let max_tx = Model.pRIVBCAST_MAX_TRANSACTIONS and max_send = Model.pRIVBCAST_MAX_SEND_ATTEMPTS
(* returns the outputs and, for each getdata/pget, (answer kind, the specification's verdict) *)
let run (line : string) : string list * bool list =
  let (script, hints) = split_hints line in
  let hints = ref hints in
  let hint () = match !hints with h :: r -> hints := r; h | [] -> "0" in
  let s0 = z_of_string (match !hints with _ :: _ -> hint () | [] -> "1") in
  let now = ref (match !hints with _ :: _ -> int_of_string (hint ()) | [] -> 0) in
  let s = ref (Model.rinit_at s0) in
  let pb = ref [] in
  let ws = ref (words script) in
  let next () = match !ws with w :: r -> ws := r; w | [] -> failwith "short" in
  let nconn = ref 0 in
  let confirmed = ref [] in
  let dead = ref [] in   (* private-broadcast connections the node has dropped (nothing to send, or an unexpected GETDATA) *)
  let out = ref [] and verdicts = ref [] in
  let emit x = out := x :: !out in
  let in_pool i = Model.find_entry (z_of_int i) !s.Model.r_pool <> None in
  let admit i =
    s := Model.rstep !s (Model.EAdd (z_of_int i, false));
    (match Model.find_entry (z_of_int i) !s.Model.r_pool with
     | Some e -> "ok:" ^ sz e.Model.m_seq ^ ":" ^ sz !s.Model.r_seq
     | None -> "rej") in
  while !ws <> [] do
    (match next () with
     | "peer" -> let _ = next () in let id = !nconn in incr nconn; s := Model.rstep !s (Model.EPeer (z_of_int id)); emit (string_of_int id)
     | "tx" -> let i = int_of_string (next ()) in if List.mem i !confirmed then emit "rej" else emit (admit i)
     | "rm" -> let i = int_of_string (next ()) in s := Model.rstep !s (Model.ERemove (z_of_int i)); emit (sz !s.Model.r_seq)
     | "block" ->
       let txs = List.map (fun e -> e.Model.m_tx) !s.Model.r_pool in
       confirmed := List.map int_of_z txs @ !confirmed;
       now := !now + 1;
       s := Model.rstep !s (Model.EBlock txs); emit (sz !s.Model.r_seq)
     | "trickle" | "mpreq" ->
       let p = z_of_string (next ()) in
       now := !now + 100;
       if hint () = "1" then s := Model.rstep !s (Model.ESnapshot p);
       (match Model.find_peer p !s.Model.r_peers with
        | Some x -> emit ("L" ^ sz x.Model.pr_last_inv ^ "@")
        | None -> emit "L?@")
     | "getdata" ->
       let p = z_of_string (next ()) in let i = z_of_string (next ()) in
       let v = Model.serve_getdata !s p i in
       verdicts := v :: !verdicts;
       emit (if v then "tx" else "notfound")
     | "ptx" ->
       (* BroadcastTransaction(NO_MEMPOOL_PRIVATE_BROADCAST): nothing happens to the mempool; the transaction is queued *)
       let i = int_of_string (next ()) in
       if List.mem i !confirmed then emit "p?"
       else begin
         s := Model.rstep !s (Model.EPrivate (z_of_int i));
         let (pb', r) = Model.pb_add max_tx max_send !pb (z_of_int i) (z_of_int !now) in
         pb := pb';
         let queued = List.exists (fun e -> int_of_z e.Model.t_tx = i) !pb in
         emit ("p" ^ (if int_of_z r = 2 then "F" else "0") ^ ":" ^ (if in_pool i then "1" else "0") ^ ":" ^ (if queued then "1" else "0"))
       end
     | "recv" ->
       (* the transaction comes back from the network: it leaves the private queue and is validated like any other *)
       let _p = next () in let i = int_of_string (next ()) in
       let (pb', _) = Model.pb_remove !pb (z_of_int i) in
       pb := pb';
       if List.mem i !confirmed then emit "rej:q0" else emit (admit i ^ ":q0")
     | "pconn" ->
       let id = !nconn in incr nconn;
       let choice = int_of_string (hint ()) in
       let (pb', r) = Model.pb_pick max_send !pb (z_of_int id) (z_of_int id) (z_of_int !now) (z_of_int choice) in
       pb := pb';
       (match r with None -> dead := id :: !dead | Some _ -> ());
       emit (string_of_int id ^ "=" ^ (match r with Some tx -> "1inv:" ^ sz tx | None -> "disc"))
     | "pget" ->
       let cid = z_of_string (next ()) in let i = z_of_string (next ()) in
       let v = (not (List.mem (int_of_z cid) !dead)) && (match Model.pb_tx_for_node !pb cid with Some tx -> tx = i | None -> false) in
       if not v then dead := int_of_z cid :: !dead;
       verdicts := v :: !verdicts;
       emit (if v then "tx" else "disc")
     | o -> failwith ("bad op " ^ o))
  done;
  (List.rev !out, List.rev !verdicts)
let model _ line = String.concat " " (fst (run line))
(* the property on what the implementation did: a transaction is handed out only when the rules allow it, a private submission
   leaves the mempool alone *)
let holds _ case impl =
  if String.length impl >= 5 && (String.sub impl 0 5 = "CRASH" || String.sub impl 0 3 = "EXC") then "fail the implementation aborted: " ^ impl
  else
    let (mo, verdicts) = run case in
    let io = words impl in
    let answers = List.filter (fun t -> t = "tx" || t = "notfound" || t = "none" || t = "disc") io in
    if List.length answers <> List.length verdicts then "na"
    else if List.exists2 (fun a v -> a = "tx" && not v) answers verdicts then
      "fail a peer obtained a transaction the rules do not allow it to have (admitted after its last announcement snapshot, or not the one INVed on its private-broadcast connection)"
    else if List.length io = List.length mo &&
            List.exists2 (fun a m -> String.length a > 1 && a.[0] = 'p' && String.length m > 1 && m.[0] = 'p' && a <> m) io mo then
      "fail a private submission touched the mempool or was not queued"
    else "ok"
let () = main_loop ~model ~holds
