(* Model side of the wallet spending checks (C41 CreateTransaction, C56 fee bumping): translation validation.
   `model` prints the wildcard `*` (the real wallet's choice of coins, change position and keys is randomised and is not
   predicted); `holds` parses what the C++ driver printed about the transaction the real wallet created and runs the
   extracted Coq checker (Model.valid_funding / Model.valid_bump) on it, naming the first clause that fails. *)
open Conv

let split c s = String.split_on_char c s

(* sections of an output line: "HEAD k=v ... | IN ... | OUT ... | RCP ... | PRE ... | COINS ... | ENV k=v ..." *)
let sections (s : string) : (string * string list) list =
  List.filter_map (fun part ->
      match words part with
      | [] -> None
      | h :: r -> Some (h, r)) (Str.split (Str.regexp_string " | ") s)

let kv (l : string list) : (string * string) list =
  List.filter_map (fun t -> match String.index_opt t '=' with
      | Some i -> Some (String.sub t 0 i, String.sub t (i + 1) (String.length t - i - 1))
      | None -> None) l

let get k l = try List.assoc k l with Not_found -> failwith ("missing " ^ k)
let getz k l = z_of_string (get k l)
let opt k l = List.assoc_opt k l

type parsed = {
  coins : Model.wcoin list; env : Model.env; rq : Model.request; ids : (string * int) list ref;
  envkv : (string * string) list }

let id_of (ids : (string * int) list ref) (name : string) : Model.z =
  match List.assoc_opt name !ids with
  | Some i -> z_of_int i
  | None -> let i = 100000 + List.length !ids in ids := (name, i) :: !ids; z_of_int i

let b01 s = (s = "1")

(* request options that are in the case line (after R, before B) *)
let case_request_opts (case : string) : (string * string) list =
  let w = words case in
  let rec after_r = function [] -> [] | "R" :: t -> t | _ :: t -> after_r t in
  let rec until_b = function [] -> [] | "B" :: _ -> [] | x :: t -> x :: until_b t in
  kv (until_b (after_r w))

let parse_common (case : string) (secs : (string * string list) list) : parsed =
  let ids = ref [] in
  let sec k = try List.assoc k secs with Not_found -> [] in
  let coins = List.mapi (fun i c -> match split ':' c with
      | name :: v :: depth :: imm :: locked :: spent :: trusted :: inmp :: _ty :: rest ->
        ids := (name, i) :: !ids;
        { Model.wc_id = z_of_int i; Model.wc_value = z_of_string v; Model.wc_depth = z_of_string depth;
          Model.wc_immature = b01 imm; Model.wc_locked = b01 locked; Model.wc_spent = b01 spent;
          Model.wc_trusted = b01 trusted; Model.wc_inmempool = b01 inmp;
          Model.wc_replace = (match rest with r :: _ -> b01 r | [] -> false) }
      | _ -> failwith "coin") (sec "COINS") in
  let ekv = kv (sec "ENV") in
  let o = case_request_opts case in
  let chgspk = bytes_of_hex (get "chgspk" ekv) in
  let env = { Model.e_relay_min = getz "relay" ekv; Model.e_dust_rate = getz "dust" ekv; Model.e_mempool_min = getz "mpmin" ekv;
              Model.e_min_fee = getz "minfee" ekv; Model.e_fallback = getz "fallback" ekv; Model.e_discard = getz "discard" ekv;
              Model.e_max_fee = getz "maxfee" ekv; Model.e_spend_zc = b01 (get "zc" ekv);
              Model.e_chg_spk = chgspk; Model.e_chg_spend = getz "chgspend" ekv } in
  let rcps = List.map (fun r -> match split ':' r with
      | [spk; amt; sffo] -> { Model.rc_spk = bytes_of_hex spk; Model.rc_amount = z_of_string amt; Model.rc_sffo = b01 sffo }
      | _ -> failwith "rcp") (sec "RCP") in
  let preset = List.map (id_of ids) (sec "PRE") in
  let rq = { Model.rq_rcps = rcps; Model.rq_preset = preset;
             Model.rq_allow_other = (match opt "other" o with Some "0" -> false | _ -> true);
             Model.rq_include_unsafe = (match opt "unsafe" o with Some v -> v <> "0" | None -> false);
             Model.rq_min_depth = (match opt "mind" o with Some v -> z_of_string v | None -> z_of_int 0);
             Model.rq_max_depth = z_of_int 9999999;
             Model.rq_feerate = (match opt "fr" o with Some v -> Some (z_of_string v) | None -> None);
             Model.rq_override = (match opt "ov" o with Some v -> v <> "0" | None -> false);
             Model.rq_dest_change = (match opt "cd" o with Some _ -> Some chgspk | None -> None) } in
  { coins; env; rq; ids; envkv = ekv }

let parse_tx (p : parsed) (secs : (string * string list) list) (hkv : (string * string) list) (signed : bool) : Model.result =
  let sec k = try List.assoc k secs with Not_found -> [] in
  let ins = List.map (fun i -> match split ':' i with
      | name :: v :: isz :: _ -> { Model.ti_id = id_of p.ids name; Model.ti_value = z_of_string v; Model.ti_size = z_of_string isz }
      | _ -> failwith "in") (sec "IN") in
  let outs = List.map (fun o -> match split ':' o with
      | v :: spk :: mine :: _ -> { Model.to_value = z_of_string v; Model.to_spk = bytes_of_hex spk; Model.to_mine = b01 mine }
      | _ -> failwith "out") (sec "OUT") in
  { Model.r_ins = ins; Model.r_outs = outs; Model.r_fee = getz "fee" hkv;
    Model.r_change_pos = (match get "cp" hkv with "-" -> None | v -> Some (nat_of_int (int_of_string v)));
    Model.r_vsize = getz "vsize" hkv; Model.r_max_vsize = getz "mvs" hkv; Model.r_bump = getz "bump" hkv;
    Model.r_signed = signed }

let first_failure (checks : (string * bool) list) : string =
  match List.filter (fun (_, ok) -> not ok) checks with
  | [] -> "ok"
  | l -> "fail " ^ String.concat "," (List.map fst l)

let holds_c41 (case : string) (impl : string) : string =
  let secs = sections impl in
  match secs with
  | ("OK", h) :: _ ->
    let p = parse_common case secs in
    let hkv = kv h in
    let o = case_request_opts case in
    let signed = (match opt "sign" o with Some "0" -> false | _ -> true) in
    let res = parse_tx p secs hkv signed in
    let w = p.coins and e = p.env and rq = p.rq in
    let eff = Model.effective_rate e rq in
    let checks = [
      "inputs-distinct", Model.ck_inputs_distinct res;
      "input-not-allowed", Model.ck_inputs_allowed w e rq res;
      "preset-unused", Model.ck_presets_used rq res;
      "value-conservation", Model.ck_conservation res;
      "change-pos", Model.ck_change_pos res;
      "recipient-amounts", Model.ck_recipients rq res;
      "sffo-amount", Model.ck_sffo_amount e rq res;
      "dust-output", Model.ck_no_dust e res;
      "change-output", Model.ck_change e rq res;
      "sizes", Model.ck_sizes res;
      "rate", Model.ck_rate e rq;
      "fee", Model.ck_fee e rq res;
      (* the bump fees the code charges (individual per preset input, discounted for automatic ones) cover what the unconfirmed
         ancestors of all inputs really need *)
      "bump-fee-below-need", Z.geq (zt_of_z res.Model.r_bump) (Z.of_string (get "bumpneed" hkv));
      (* the Gallina transcription of GetMinimumFeeRate against the real one *)
      "effrate-model", (string_of_z eff = get "effrate" p.envkv);
      (* second oracle: the node's mempool test-accept (signed, standard recipients, feerate at least the node's minimum) *)
      "testmempoolaccept",
      (let tma = get "tma" hkv in
       let rate_ok = Z.geq (zt_of_z eff) (zt_of_z e.Model.e_relay_min) && Z.geq (zt_of_z eff) (zt_of_z e.Model.e_mempool_min)
                     && Z.gt (zt_of_z eff) Z.zero in
       tma = "ok" || tma = "skip" || not rate_ok) ] in
    let r = first_failure checks in
    if r = "ok" && not (Model.valid_funding w e rq res) then "fail checker-inconsistent" else r
  | ("ERR", _) :: _ -> "ok"
  | _ -> "fail driver:" ^ (match words impl with x :: y :: _ -> x ^ "-" ^ y | x :: _ -> x | [] -> "empty")


(* ------------------------------------------------------------------------------------------------------------------ *)
(* C56 *)

let bump_opts_of_case (case : string) : (string * string) list =
  let w = words case in
  let rec after_b = function [] -> [] | "B" :: t -> t | _ :: t -> after_b t in
  kv (after_b w)

let parse_oouts (l : string list) : Model.oout list =
  List.map (fun o -> match split ':' o with
      | v :: spk :: mine :: chg :: _ ->
        { Model.oo_out = { Model.to_value = z_of_string v; Model.to_spk = bytes_of_hex spk; Model.to_mine = b01 mine };
          Model.oo_change = b01 chg }
      | _ -> failwith "oout") l

let refusal_name = function
  | Model.RWalletDesc -> ("INVALID_PARAMETER", "descendants-in-the-wallet")
  | Model.RMempoolDesc -> ("INVALID_PARAMETER", "descendants-in-the-mempool")
  | Model.RMined -> ("WALLET_ERROR", "has-been-mined")
  | Model.RAlreadyBumped -> ("WALLET_ERROR", "cannot-bump-transaction")
  | Model.RNotMine -> ("WALLET_ERROR", "inputs-that-don-t")
  | Model.RNoRecipient -> ("INVALID_PARAMETER", "must")
  | Model.ROptions -> ("INVALID_PARAMETER", "the-options-outputs")
  | Model.ROciRange -> ("INVALID_PARAMETER", "change-position-is-out")
  | Model.RInputsSpent -> ("MISC_ERROR", "is-already-spent")

let contains (s : string) (sub : string) : bool =
  try ignore (Str.search_forward (Str.regexp_string sub) s 0); true with Not_found -> false

let holds_c56 (case : string) (impl : string) : string =
  let secs = sections impl in
  match secs with
  | ("NA", _) :: _ -> "na"
  | ((("OK" | "ERR") as st), h) :: _ ->
    let ids = ref [] in
    let sec k = try List.assoc k secs with Not_found -> [] in
    let hkv = kv h in
    (* the wallet's coin table (names -> ids shared with inputs) *)
    let coins = List.mapi (fun i c -> match split ':' c with
        | name :: v :: depth :: imm :: locked :: spent :: trusted :: inmp :: _ty :: rest ->
          ids := (name, i) :: !ids;
          { Model.wc_id = z_of_int i; Model.wc_value = z_of_string v; Model.wc_depth = z_of_string depth;
            Model.wc_immature = b01 imm; Model.wc_locked = b01 locked; Model.wc_spent = b01 spent;
            Model.wc_trusted = b01 trusted; Model.wc_inmempool = b01 inmp;
            Model.wc_replace = (match rest with r :: _ -> b01 r | [] -> false) }
        | _ -> failwith "coin") (sec "COINS") in
    let ekv = kv (sec "ENV") in
    let chgspk = bytes_of_hex (get "chgspk" ekv) in
    let e = { Model.e_relay_min = getz "relay" ekv; Model.e_dust_rate = getz "dust" ekv; Model.e_mempool_min = getz "mpmin" ekv;
              Model.e_min_fee = getz "minfee" ekv; Model.e_fallback = getz "fallback" ekv; Model.e_discard = getz "discard" ekv;
              Model.e_max_fee = getz "maxfee" ekv; Model.e_spend_zc = b01 (get "zc" ekv);
              Model.e_chg_spk = chgspk; Model.e_chg_spend = getz "chgspend" ekv } in
    let incr = getz "incr" ekv in
    let tx_ins l = List.map (fun i -> match split ':' i with
        | name :: v :: isz :: _ -> { Model.ti_id = id_of ids name; Model.ti_value = z_of_string v; Model.ti_size = z_of_string isz }
        | _ -> failwith "in") l in
    let o = { Model.o_ins = tx_ins (sec "OIN"); Model.o_outs = parse_oouts (sec "OOUT"); Model.o_vsize = getz "ovsize" hkv } in
    let bo = bump_opts_of_case case in
    let b = { Model.b_feerate = (match opt "fr" bo with Some v -> Some (z_of_string v) | None -> None);
              Model.b_new_outs = parse_oouts (sec "NEWOUTS");
              Model.b_oci = (match sec "OCI" with [ "-" ] | [] -> None | v :: _ -> Some (nat_of_int (int_of_string v)));
              Model.b_require_mine = (match opt "rm" bo with Some "0" -> false | _ -> true) } in
    (* the `out=` option may have produced an empty list (all specs dropped): the code then keeps the original outputs *)
    let f = { Model.f_wallet_spend = b01 (get "hasws" hkv); Model.f_mempool_desc = b01 (get "mpdesc" hkv);
              Model.f_depth = getz "depth" hkv; Model.f_replaced = b01 (get "replaced" hkv);
              Model.f_all_mine = b01 (get "allmine" hkv); Model.f_inputs_unspent = b01 (get "incoins" hkv) } in
    let wsame = get "wsame" hkv = "1" in
    let expected = Model.expected_refusal o b f in
    if st = "ERR" then begin
      let code = (match h with c :: _ -> c | [] -> "?") and msg = (match h with _ :: m :: _ -> m | _ -> "?") in
      if not wsame then "fail refused-but-wallet-changed"
      else match expected with
        | Some r -> let (c, m) = refusal_name r in
          if c = code && contains msg m then "ok" else "fail refusal-differs-from-model:" ^ c ^ "/" ^ m
        | None ->
          (* bumpable: only CheckFeeRate (explicit feerate) or CreateTransaction itself may refuse *)
          (match b.Model.b_feerate, opt "cfsize" ekv with
           | Some r, Some sz ->
             let v = Model.check_fee_rate e incr r (z_of_string sz) (Model.o_fee o) (getz "cfbump" ekv) in
             let exp = (match v with
                 | Model.FrOk -> "unable-to-create-transaction"
                 | Model.FrBelowMempoolMin -> "new-fee-rate"
                 | Model.FrInsufficient -> "insufficient-total-fee"
                 | Model.FrBelowRequired -> "cannot-be-less"
                 | Model.FrAboveMax -> "specified-or-calculated-fee") in
             if contains msg exp || (v = Model.FrBelowRequired && contains msg "insufficient-total-fee") then "ok"
             else "fail checkfeerate-differs-from-model:" ^ exp
           | _ -> if contains msg "unable-to-create-transaction" then "ok" else "fail unexpected-refusal:" ^ msg)
    end else begin
      match expected with
      | Some r -> "fail bumped-an-unbumpable-transaction:" ^ snd (refusal_name r)
      | None ->
        let n_ins = tx_ins (sec "IN") in
        let n_outs = List.map (fun x -> x.Model.oo_out) (parse_oouts (sec "OUT")) in
        let n = { Model.n_ins = n_ins; Model.n_outs = n_outs; Model.n_fee = getz "newfee" hkv; Model.n_old_fee = getz "oldfee" hkv;
                  Model.n_vsize = getz "vsize" hkv; Model.n_max_vsize = getz "mvs" hkv; Model.n_bump = getz "bump" hkv } in
        (match Model.bump_split o b with
         | None -> "fail model-split"
         | Some (dest, rcps) ->
           let rate = Model.new_rate e incr o b dest rcps in
           let rq = Model.bump_request o rate dest rcps in
           let cands = Model.cp_candidates n in
           let good = List.filter (fun cp -> Model.valid_funding coins e rq (Model.as_result n cp)) cands in
           let explicit = b.Model.b_feerate <> None in
           let orig_had_change = List.exists (fun x -> x.Model.oo_change) o.Model.o_outs in
           let pays = Model.ck_pays_increment incr o n in
           let checks = [
             "wallet-changed-by-creation", wsame;
             "rate-model", (string_of_z rate = get "nrate" ekv);
             "change-script-model", (match dest with Some d -> hex_of_bytes d = get "chgspk" ekv | None -> true);
             "original-input-dropped", Model.ck_inputs_kept o n;
             (if b.Model.b_new_outs <> [] && Z.lt (zt_of_z n.Model.n_vsize) (zt_of_z o.Model.o_vsize)
              then "bump-underpays-with-smaller-outputs:"
              else if explicit && orig_had_change && List.length n_outs < List.length (Model.base_outs o b)
              then "bump-underpays-after-change-dropped:" else "underpays-old-fee-plus-increment"), pays;
             "not-a-valid-funding", (good <> []);
             "bump-fee-below-need", Z.geq (zt_of_z n.Model.n_bump) (Z.of_string (get "bumpneed" hkv));
             "mempool-rejects-replacement", (get "tma" hkv = "ok" || not pays);
             "commit", (match get "committed" hkv with "-" -> true | c -> c = "ok,1,0,1,-") ] in
           (match good with
            | [] ->
              (* name the clauses that fail for the most plausible change position *)
              let detail cp = let res = Model.as_result n cp in
                first_failure [ "inputs-distinct", Model.ck_inputs_distinct res; "input-not-allowed", Model.ck_inputs_allowed coins e rq res;
                                "preset-unused", Model.ck_presets_used rq res; "value-conservation", Model.ck_conservation res;
                                "recipient-amounts", Model.ck_recipients rq res; "sffo-amount", Model.ck_sffo_amount e rq res;
                                "dust-output", Model.ck_no_dust e res; "change-output", Model.ck_change e rq res;
                                "sizes", Model.ck_sizes res; "rate", Model.ck_rate e rq; "fee", Model.ck_fee e rq res ] in
              let ds = List.map detail cands in
              let best = List.fold_left (fun a d -> if String.length d < String.length a then d else a) (List.hd ds) ds in
              let r = first_failure checks in
              if r = "ok" then best else r ^ "[" ^ best ^ "]"
            | _ ->
              let r = first_failure checks in
              if r = "ok" && not (Model.valid_bump coins e incr o b f n) then "fail checker-inconsistent" else r))
    end
  | _ -> "fail driver:" ^ (match words impl with x :: y :: _ -> x ^ "-" ^ y | x :: _ -> x | [] -> "empty")

let model _args _line = "*"

let holds args case impl =
  match args with
  | "C56" :: _ -> holds_c56 case impl
  | _ -> holds_c41 case impl

let () = main_loop ~model ~holds
