(* Model side of CheckTransaction (C03).
   case: checktx <nin> {<hash-int> <n> <scriptsig_len>}* <nout> {<value> <spk_len>}* <witness_items> *)
open Conv
let reason_str = function
  | Model.Bad_txns_vin_empty -> "bad-txns-vin-empty" | Model.Bad_txns_vout_empty -> "bad-txns-vout-empty"
  | Model.Bad_txns_oversize -> "bad-txns-oversize" | Model.Bad_txns_vout_negative -> "bad-txns-vout-negative"
  | Model.Bad_txns_vout_toolarge -> "bad-txns-vout-toolarge" | Model.Bad_txns_txouttotal_toolarge -> "bad-txns-txouttotal-toolarge"
  | Model.Bad_txns_inputs_duplicate -> "bad-txns-inputs-duplicate" | Model.Bad_cb_length -> "bad-cb-length"
  | Model.Bad_txns_prevout_null -> "bad-txns-prevout-null"

let parse ws =
  let rec take_in k ws acc = if k = 0 then (List.rev acc, ws) else match ws with
    | h :: n :: l :: r -> take_in (k - 1) r ({ Model.prev_hash = z_of_string h; Model.prev_n = z_of_string n; Model.script_sig_len = z_of_string l } :: acc)
    | _ -> failwith "bad vin" in
  let rec take_out k ws acc = if k = 0 then (List.rev acc, ws) else match ws with
    | v :: l :: r -> take_out (k - 1) r ({ Model.value = z_of_string v; Model.spk_len = z_of_string l } :: acc)
    | _ -> failwith "bad vout" in
  match ws with
  | "checktx" :: nin :: r ->
    let (vin, r) = take_in (int_of_string nin) r [] in
    (match r with
     | nout :: r -> let (vout, _) = take_out (int_of_string nout) r [] in { Model.vin = vin; Model.vout = vout }
     | _ -> failwith "bad")
  | _ -> failwith "bad case"

let show t r = (match r with None -> "ok" | Some x -> reason_str x) ^ " " ^ string_of_z (Model.nowit_size t)
let model _ l = let t = parse (words l) in show t (Model.check_transaction t)
(* the property's predicate: verdict and reason must be those of the declarative first_violation *)
let holds _ c impl = let t = parse (words c) in
  if show t (Model.first_violation t) = impl then "ok" else "fail verdict/reason differs from the first violated rule: " ^ show t (Model.first_violation t)
let () = main_loop ~model ~holds
