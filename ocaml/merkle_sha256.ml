(* Pure OCaml SHA-256 / double SHA-256 on strings (FIPS 180-4), used to instantiate the hash
   Section variables of the extracted merkle / filter models so that results compare byte for byte
   with the implementation.  Native ints (63 bit) masked to 32 bits. *)
let k = [|
  0x428a2f98; 0x71374491; 0xb5c0fbcf; 0xe9b5dba5; 0x3956c25b; 0x59f111f1; 0x923f82a4; 0xab1c5ed5;
  0xd807aa98; 0x12835b01; 0x243185be; 0x550c7dc3; 0x72be5d74; 0x80deb1fe; 0x9bdc06a7; 0xc19bf174;
  0xe49b69c1; 0xefbe4786; 0x0fc19dc6; 0x240ca1cc; 0x2de92c6f; 0x4a7484aa; 0x5cb0a9dc; 0x76f988da;
  0x983e5152; 0xa831c66d; 0xb00327c8; 0xbf597fc7; 0xc6e00bf3; 0xd5a79147; 0x06ca6351; 0x14292967;
  0x27b70a85; 0x2e1b2138; 0x4d2c6dfc; 0x53380d13; 0x650a7354; 0x766a0abb; 0x81c2c92e; 0x92722c85;
  0xa2bfe8a1; 0xa81a664b; 0xc24b8b70; 0xc76c51a3; 0xd192e819; 0xd6990624; 0xf40e3585; 0x106aa070;
  0x19a4c116; 0x1e376c08; 0x2748774c; 0x34b0bcb5; 0x391c0cb3; 0x4ed8aa4a; 0x5b9cca4f; 0x682e6ff3;
  0x748f82ee; 0x78a5636f; 0x84c87814; 0x8cc70208; 0x90befffa; 0xa4506ceb; 0xbef9a3f7; 0xc67178f2 |]

let m32 = 0xFFFFFFFF
let rotr x n = ((x lsr n) lor (x lsl (32 - n))) land m32

let sha256 (msg : string) : string =
  let len = String.length msg in
  let padlen = let r = (len + 9) mod 64 in if r = 0 then 0 else 64 - r in
  let total = len + 9 + padlen in
  let b = Bytes.make total '\000' in
  Bytes.blit_string msg 0 b 0 len;
  Bytes.set b len '\x80';
  let bits = len * 8 in
  for i = 0 to 7 do
    Bytes.set b (total - 1 - i) (Char.chr ((bits lsr (8 * i)) land 0xff))
  done;
  let h = [| 0x6a09e667; 0xbb67ae85; 0x3c6ef372; 0xa54ff53a; 0x510e527f; 0x9b05688c; 0x1f83d9ab; 0x5be0cd19 |] in
  let w = Array.make 64 0 in
  for blk = 0 to total / 64 - 1 do
    for t = 0 to 15 do
      let o = blk * 64 + t * 4 in
      w.(t) <- (Char.code (Bytes.get b o) lsl 24) lor (Char.code (Bytes.get b (o + 1)) lsl 16)
               lor (Char.code (Bytes.get b (o + 2)) lsl 8) lor Char.code (Bytes.get b (o + 3))
    done;
    for t = 16 to 63 do
      let s0 = rotr w.(t - 15) 7 lxor rotr w.(t - 15) 18 lxor (w.(t - 15) lsr 3) in
      let s1 = rotr w.(t - 2) 17 lxor rotr w.(t - 2) 19 lxor (w.(t - 2) lsr 10) in
      w.(t) <- (w.(t - 16) + s0 + w.(t - 7) + s1) land m32
    done;
    let a = ref h.(0) and bb = ref h.(1) and c = ref h.(2) and d = ref h.(3)
    and e = ref h.(4) and f = ref h.(5) and g = ref h.(6) and hh = ref h.(7) in
    for t = 0 to 63 do
      let s1 = rotr !e 6 lxor rotr !e 11 lxor rotr !e 25 in
      let ch = (!e land !f) lxor ((lnot !e) land m32 land !g) in
      let t1 = (!hh + s1 + ch + k.(t) + w.(t)) land m32 in
      let s0 = rotr !a 2 lxor rotr !a 13 lxor rotr !a 22 in
      let maj = (!a land !bb) lxor (!a land !c) lxor (!bb land !c) in
      let t2 = (s0 + maj) land m32 in
      hh := !g; g := !f; f := !e; e := (!d + t1) land m32;
      d := !c; c := !bb; bb := !a; a := (t1 + t2) land m32
    done;
    h.(0) <- (h.(0) + !a) land m32; h.(1) <- (h.(1) + !bb) land m32;
    h.(2) <- (h.(2) + !c) land m32; h.(3) <- (h.(3) + !d) land m32;
    h.(4) <- (h.(4) + !e) land m32; h.(5) <- (h.(5) + !f) land m32;
    h.(6) <- (h.(6) + !g) land m32; h.(7) <- (h.(7) + !hh) land m32
  done;
  String.init 32 (fun i -> Char.chr ((h.(i / 4) lsr (8 * (3 - i mod 4))) land 0xff))

let sha256d (s : string) : string = sha256 (sha256 s)

(* raw bytes <-> lowercase hex ("-" is the empty string) *)
let raw_of_hex (h : string) : string =
  let h = if h = "-" then "" else h in
  String.init (String.length h / 2) (fun i -> Char.chr (int_of_string ("0x" ^ String.sub h (2 * i) 2)))
let hex_of_raw (s : string) : string =
  if s = "" then "-" else String.concat "" (List.init (String.length s) (fun i -> Printf.sprintf "%02x" (Char.code s.[i])))
