(* Model side of C62 (keypool).  Case: kp <size> <op>*  (see tie/drivers/keypool_drv.cpp). *)
open Conv
let bits s = List.map (fun c -> c <> '0') (List.init (String.length s) (String.get s))
let nth l k = if List.length l > k then List.nth l k else ""
let parse_op tok =
  let f = String.split_on_char ':' tok in
  let n k = nat_of_int (int_of_string (List.nth f k)) in
  match List.hd f with
  | "new" -> Some (Model.OpNew (n 1, bits (nth f 2)))
  | "chg" -> Some (Model.OpChg (nat_of_int (4 + int_of_string (List.nth f 1)), bits (nth f 2)))
  | "res" -> Some (Model.OpRes (n 1, nat_of_int (4 * int_of_string (List.nth f 3) + int_of_string (List.nth f 2)), bits (nth f 4)))
  | "keep" -> Some (Model.OpKeep (n 1))
  | "ret" -> Some (Model.OpRet (n 1, bits (nth f 2)))
  | "top" -> Some (Model.OpTop (n 1, z_of_string (List.nth f 2), bits (nth f 3)))
  | "used" -> Some (Model.OpUsed (n 1, z_of_string (List.nth f 2), bits (nth f 3)))
  | "reload" -> Some Model.OpReload
  | "crash" -> Some Model.OpCrash
  | _ -> None
let si s i = string_of_int (int_of_nat s) ^ "." ^ string_of_z i
let cnt n = "#" ^ string_of_int (int_of_nat n)
let show = function
  | Model.OAddr (s, i, m, n) -> "A" ^ si s i ^ (if m then "" else "!") ^ cnt n
  | Model.ORes (s, i, m, n) -> "R" ^ si s i ^ (if m then "" else "!") ^ cnt n
  | Model.OKept (s, i) -> "K" ^ si s i
  | Model.ORet n -> "r" ^ cnt n
  | Model.ONoRes -> "N"
  | Model.ODupRes -> "Edup"
  | Model.OTop (b, n) -> (if b then "T1" else "T0") ^ cnt n
  | Model.OUsed (c, n) -> "U" ^ string_of_z c ^ cnt n
  | Model.OLoad -> "L"
  | Model.OErrOut n -> "Eout" ^ cnt n
  | Model.OErrWrite n -> "Ewr" ^ cnt n
  | Model.OExc n -> "X" ^ cnt n
  | Model.OAssert -> "ASSERT"
  | Model.OUb -> "UB"
let model _ l = match words l with
  | "kp" :: size :: toks ->
    let ops = List.filter_map parse_op toks in
    let (outs, st) = Model.run (Model.init (z_of_string size)) ops in
    let slot s = let k = st.Model.w_kp (nat_of_int s) in
      String.concat "/" (List.map string_of_z [k.Model.k_next; k.Model.k_rend; k.Model.k_maxc; k.Model.k_pnext; k.Model.k_prend]) in
    String.concat " " (List.map show outs) ^ " | " ^ String.concat " " (List.init 8 slot)
  | _ -> "BADCASE"
(* the property's predicate on what the implementation returned: the addresses handed out (A = returned by
   getnewaddress / getrawchangeaddress, K = a reserved change address that was kept) are pairwise distinct *)
let strip body =
  let body = (match String.index_opt body '#' with Some k -> String.sub body 0 k | None -> body) in
  if body <> "" && body.[String.length body - 1] = '!' then String.sub body 0 (String.length body - 1) else body
let holds _ case impl =
  let toks = words impl in
  let rec upto = function [] -> [] | "|" :: _ -> [] | x :: r -> x :: upto r in
  let toks = upto toks in
  if toks = [] then "fail no output" else
  let handed = List.filter_map (fun t ->
      if String.length t > 1 && (t.[0] = 'A' || t.[0] = 'K') then begin
        let body = strip (String.sub t 1 (String.length t - 1)) in
        match String.split_on_char '.' body with
        | [s; i] -> (try Some (nat_of_int (int_of_string s), z_of_string i) with _ -> Some (nat_of_int 99, z_of_int (Hashtbl.hash body)))
        | _ -> Some (nat_of_int 99, z_of_int (Hashtbl.hash body))
      end else None) toks in
  if Model.holds_distinct handed then "ok" else
  (* classify: did an address-issuing call whose descriptor write was made to fail still return an address? *)
  let mouts = (match words case with
      | "kp" :: size :: ops -> fst (Model.run (Model.init (z_of_string size)) (List.filter_map parse_op ops))
      | _ -> []) in
  let rec unchecked ms ts = match ms, ts with
    | Model.OErrWrite _ :: _, t :: _ when String.length t > 0 && (t.[0] = 'A' || t.[0] = 'R') -> true
    | _ :: mr, _ :: tr -> unchecked mr tr
    | _ -> false in
  let toks' = toks in
  if unchecked mouts toks' then "fail unchecked-write: an address-issuing call returned an address although the WriteDescriptor that persists next_index failed; after the restart the same address was handed out again"
  else "fail repeat: the same address was handed out twice"
let () = main_loop ~model ~holds
