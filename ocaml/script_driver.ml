(* Model side of the script family (C12, C11): runs the extracted interpreter of coq/model/Script.v.
   Case lines (bytes hex, "-" = empty; stacks listed bottom first like the C++ vector):
     eval <sv 0|1|3> <flags> <script> <obits> <weight> <n> <elem>*      EvalScript
     evalpair <flags> <scriptSig> <scriptPubKey> <obits>                EvalScript(scriptSig) on the empty stack, then EvalScript(scriptPubKey)
     verify <flags> <scriptSig> <scriptPubKey> <obits> <n> <witness elem>*   VerifyScript
     vpair <f> <g> <scriptSig> <scriptPubKey> <obits> <n> <witness elem>*    VerifyScript under flag sets f and g (f subset of g)
     tapspend <flags> <leafver> <depth 0|1> <leaf script> <obits> <commit_ok> <control trunc> <annex|x> <n> <arg>*
                                                                        VerifyScript on a taproot script-path spend of a real tree (NUMS internal key)
     tappair <f> <g> ... (as tapspend)                                  the same under two flag sets
     tapkey <flags> <obits> <sig> <annex|x>                             taproot key-path spend
     num <vch> <require_minimal 0|1> <max_size>                         CScriptNum(vch, fRequireMinimal, nMaxNumSize)
     enc <int64>                                                        CScriptNum::serialize
     castbool <vch>
     fad <script> <sig>                                                 FindAndDelete(script, CScript() << sig)
     sigenc <flags> <sig>                                               CheckSignatureEncoding
     pushonly <script> / witprog <script>                               IsPushOnly, IsWitnessProgram
   The three hash functions are supplied here (ocaml/script_hashes.ml). *)
open Conv

let zbytes_of_hex (h : string) : Model.z list =
  let h = if h = "-" then "" else h in
  let n = String.length h / 2 in
  List.init n (fun i -> z_of_int (int_of_string ("0x" ^ String.sub h (2 * i) 2)))
let hex_of_zbytes (l : Model.z list) : string =
  if l = [] then "-" else String.concat "" (List.map (fun b -> Printf.sprintf "%02x" (int_of_z b)) l)
let string_of_zbytes (l : Model.z list) : string =
  let b = Buffer.create 64 in List.iter (fun x -> Buffer.add_char b (Char.chr (int_of_z x))) l; Buffer.contents b
let zbytes_of_string (s : string) : Model.z list =
  List.init (String.length s) (fun i -> z_of_int (Char.code s.[i]))
let lift f = fun l -> zbytes_of_string (f (string_of_zbytes l))
let sha256 = lift Script_hashes.sha256
let ripemd160 = lift Script_hashes.ripemd160
let sha1 = lift Script_hashes.sha1

let err_name (e : Model.script_error) : string = match e with
  | Model.SE_UNKNOWN_ERROR -> "UNKNOWN_ERROR" | Model.SE_EVAL_FALSE -> "EVAL_FALSE" | Model.SE_OP_RETURN -> "OP_RETURN"
  | Model.SE_SCRIPTNUM -> "SCRIPTNUM" | Model.SE_SCRIPT_SIZE -> "SCRIPT_SIZE" | Model.SE_PUSH_SIZE -> "PUSH_SIZE"
  | Model.SE_OP_COUNT -> "OP_COUNT" | Model.SE_STACK_SIZE -> "STACK_SIZE" | Model.SE_SIG_COUNT -> "SIG_COUNT"
  | Model.SE_PUBKEY_COUNT -> "PUBKEY_COUNT" | Model.SE_VERIFY -> "VERIFY" | Model.SE_EQUALVERIFY -> "EQUALVERIFY"
  | Model.SE_CHECKMULTISIGVERIFY -> "CHECKMULTISIGVERIFY" | Model.SE_CHECKSIGVERIFY -> "CHECKSIGVERIFY"
  | Model.SE_NUMEQUALVERIFY -> "NUMEQUALVERIFY" | Model.SE_BAD_OPCODE -> "BAD_OPCODE" | Model.SE_DISABLED_OPCODE -> "DISABLED_OPCODE"
  | Model.SE_INVALID_STACK_OPERATION -> "INVALID_STACK_OPERATION" | Model.SE_INVALID_ALTSTACK_OPERATION -> "INVALID_ALTSTACK_OPERATION"
  | Model.SE_UNBALANCED_CONDITIONAL -> "UNBALANCED_CONDITIONAL" | Model.SE_NEGATIVE_LOCKTIME -> "NEGATIVE_LOCKTIME"
  | Model.SE_UNSATISFIED_LOCKTIME -> "UNSATISFIED_LOCKTIME" | Model.SE_SIG_HASHTYPE -> "SIG_HASHTYPE" | Model.SE_SIG_DER -> "SIG_DER"
  | Model.SE_MINIMALDATA -> "MINIMALDATA" | Model.SE_SIG_PUSHONLY -> "SIG_PUSHONLY" | Model.SE_SIG_HIGH_S -> "SIG_HIGH_S"
  | Model.SE_SIG_NULLDUMMY -> "SIG_NULLDUMMY" | Model.SE_PUBKEYTYPE -> "PUBKEYTYPE" | Model.SE_CLEANSTACK -> "CLEANSTACK"
  | Model.SE_MINIMALIF -> "MINIMALIF" | Model.SE_SIG_NULLFAIL -> "SIG_NULLFAIL"
  | Model.SE_DISCOURAGE_UPGRADABLE_NOPS -> "DISCOURAGE_UPGRADABLE_NOPS"
  | Model.SE_DISCOURAGE_UPGRADABLE_WITNESS_PROGRAM -> "DISCOURAGE_UPGRADABLE_WITNESS_PROGRAM"
  | Model.SE_DISCOURAGE_UPGRADABLE_TAPROOT_VERSION -> "DISCOURAGE_UPGRADABLE_TAPROOT_VERSION"
  | Model.SE_DISCOURAGE_OP_SUCCESS -> "DISCOURAGE_OP_SUCCESS"
  | Model.SE_DISCOURAGE_UPGRADABLE_PUBKEYTYPE -> "DISCOURAGE_UPGRADABLE_PUBKEYTYPE"
  | Model.SE_WITNESS_PROGRAM_WRONG_LENGTH -> "WITNESS_PROGRAM_WRONG_LENGTH"
  | Model.SE_WITNESS_PROGRAM_WITNESS_EMPTY -> "WITNESS_PROGRAM_WITNESS_EMPTY"
  | Model.SE_WITNESS_PROGRAM_MISMATCH -> "WITNESS_PROGRAM_MISMATCH" | Model.SE_WITNESS_MALLEATED -> "WITNESS_MALLEATED"
  | Model.SE_WITNESS_MALLEATED_P2SH -> "WITNESS_MALLEATED_P2SH" | Model.SE_WITNESS_UNEXPECTED -> "WITNESS_UNEXPECTED"
  | Model.SE_WITNESS_PUBKEYTYPE -> "WITNESS_PUBKEYTYPE" | Model.SE_SCHNORR_SIG_SIZE -> "SCHNORR_SIG_SIZE"
  | Model.SE_SCHNORR_SIG_HASHTYPE -> "SCHNORR_SIG_HASHTYPE" | Model.SE_SCHNORR_SIG -> "SCHNORR_SIG"
  | Model.SE_TAPROOT_WRONG_CONTROL_SIZE -> "TAPROOT_WRONG_CONTROL_SIZE"
  | Model.SE_TAPSCRIPT_VALIDATION_WEIGHT -> "TAPSCRIPT_VALIDATION_WEIGHT"
  | Model.SE_TAPSCRIPT_CHECKMULTISIG -> "TAPSCRIPT_CHECKMULTISIG" | Model.SE_TAPSCRIPT_MINIMALIF -> "TAPSCRIPT_MINIMALIF"
  | Model.SE_TAPSCRIPT_EMPTY_PUBKEY -> "TAPSCRIPT_EMPTY_PUBKEY" | Model.SE_OP_CODESEPARATOR -> "OP_CODESEPARATOR"
  | Model.SE_SIG_FINDANDDELETE -> "SIG_FINDANDDELETE"

let sv_of = function "0" -> Model.SV_BASE | "1" -> Model.SV_WITNESS_V0 | "3" -> Model.SV_TAPSCRIPT | _ -> failwith "bad sigversion"
let show_stack (s : Model.z list list) (* top first *) =
  let l = List.rev s in
  Printf.sprintf "n=%d%s" (List.length l) (String.concat "" (List.map (fun e -> " " ^ hex_of_zbytes e) l))
let rec take k l = if k = 0 then [] else match l with x :: r -> x :: take (k - 1) r | [] -> failwith "short case line"

(* commit: the taproot commitment oracle.  For byte strings that do not come from a real taproot tree the commitment
   check of the implementation fails (up to a hash collision), hence `false` for plain verify cases. *)
let do_verify ?(commit = false) flags ssig spk obits wit =
  let fl = z_of_string flags in
  if not (Model.flags_valid fl) then "INVALIDFLAGS" else
  (match Model.verify_script sha256 ripemd160 sha1 fl (Model.stub_checker (z_of_string obits)) (fun _ _ _ -> commit) (zbytes_of_hex ssig) (zbytes_of_hex spk) wit with
   | None -> "UNMODELLED"
   | Some (Model.Ok _) -> "OK"
   | Some (Model.Err e) -> "ERR " ^ err_name e)

(* taproot script-path / key-path spends: the C++ side builds a real tree on the NUMS key; here the control block and the
   output key are stand-ins of the same sizes (the model looks only at sizes, the leaf-version byte and the oracle) *)
let zeros n = List.init n (fun _ -> z_of_int 0)
let tap_spk = hex_of_zbytes (z_of_int 81 :: z_of_int 32 :: List.init 32 (fun _ -> z_of_int 1))
let tap_witness leafver depth script commit_ok trunc annex args =
  let full = 33 + 32 * int_of_string depth in
  let size = max 0 (full - int_of_string trunc) in
  let control = List.filteri (fun i _ -> i < size) (z_of_int (int_of_string leafver) :: zeros (max 0 (size - 1))) in
  let wit = List.map zbytes_of_hex args @ [zbytes_of_hex script; control] @ (if annex = "x" then [] else [zbytes_of_hex annex]) in
  (wit, commit_ok = "1" && trunc = "0")

let model _ line = match words line with
  | "tapspend" :: flags :: leafver :: depth :: script :: obits :: commit_ok :: trunc :: annex :: n :: elems ->
    let (wit, commit) = tap_witness leafver depth script commit_ok trunc annex (take (int_of_string n) elems) in
    do_verify ~commit flags "-" tap_spk obits wit
  | "tappair" :: f :: g :: leafver :: depth :: script :: obits :: commit_ok :: trunc :: annex :: n :: elems ->
    let (wit, commit) = tap_witness leafver depth script commit_ok trunc annex (take (int_of_string n) elems) in
    do_verify ~commit f "-" tap_spk obits wit ^ " | " ^ do_verify ~commit g "-" tap_spk obits wit
  | ["tapkey"; flags; obits; sg; annex] ->
    do_verify flags "-" tap_spk obits ([zbytes_of_hex sg] @ (if annex = "x" then [] else [zbytes_of_hex annex]))
  | "eval" :: sv :: flags :: script :: obits :: weight :: n :: elems ->
    let stack = List.rev (List.map zbytes_of_hex (take (int_of_string n) elems)) in
    (match Model.eval_script_state sha256 ripemd160 sha1 (z_of_string flags) (Model.stub_checker (z_of_string obits)) (sv_of sv)
             (zbytes_of_hex script) stack (z_of_string weight) with
     | Model.Ok st -> Printf.sprintf "OK w=%s cs=%s %s" (string_of_z st.Model.st_weight) (string_of_z st.Model.st_codesep_pos) (show_stack st.Model.st_stack)
     | Model.Err e -> "ERR " ^ err_name e)
  | ["evalpair"; flags; ssig; spk; obits] ->
    let ev script stack = Model.eval_script_state sha256 ripemd160 sha1 (z_of_string flags) (Model.stub_checker (z_of_string obits)) Model.SV_BASE
        (zbytes_of_hex script) stack (z_of_int 0) in
    (match ev ssig [] with
     | Model.Err e -> "ERR1 " ^ err_name e
     | Model.Ok st1 ->
       (match ev spk st1.Model.st_stack with
        | Model.Ok st -> Printf.sprintf "OK w=%s cs=%s %s" (string_of_z st.Model.st_weight) (string_of_z st.Model.st_codesep_pos) (show_stack st.Model.st_stack)
        | Model.Err e -> "ERR " ^ err_name e))
  | "verify" :: flags :: ssig :: spk :: obits :: n :: elems ->
    let wit = List.map zbytes_of_hex (take (int_of_string n) elems) in
    do_verify flags ssig spk obits wit
  | "vpair" :: f :: g :: ssig :: spk :: obits :: n :: elems ->
    let wit = List.map zbytes_of_hex (take (int_of_string n) elems) in
    do_verify f ssig spk obits wit ^ " | " ^ do_verify g ssig spk obits wit
  | ["pushonly"; s] -> string_of_bool01 (Model.is_push_only (zbytes_of_hex s))
  | ["witprog"; s] ->
    (match Model.witness_program (zbytes_of_hex s) with
     | None -> "none" | Some (v, pr) -> string_of_z v ^ " " ^ hex_of_zbytes pr)
  | ["num"; vch; rm; mx] ->
    (match Model.script_num (bool_of_string01 rm) (z_of_string mx) (zbytes_of_hex vch) with
     | Model.Ok n -> string_of_z n | Model.Err e -> "ERR " ^ err_name e)
  | ["enc"; n] -> hex_of_zbytes (Model.num_encode (z_of_string n))
  | ["castbool"; v] -> string_of_bool01 (Model.cast_to_bool (zbytes_of_hex v))
  | ["fad"; script; sg] ->
    let (r, k) = Model.find_and_delete (zbytes_of_hex script) (Model.push_encoding (zbytes_of_hex sg)) in
    string_of_z k ^ " " ^ hex_of_zbytes r
  | ["sigenc"; flags; sg] ->
    (match Model.check_signature_encoding (z_of_string flags) (zbytes_of_hex sg) with
     | Model.Ok _ -> "OK" | Model.Err e -> "ERR " ^ err_name e)
  | _ -> "BADCASE"

(* C11's own predicate on what the implementation returned for a pair of flag sets f (subset) and g:
   success under the larger set implies success under the smaller one; and each run was deterministic *)
let holds _ c impl = match words c with
  | "vpair" :: _ | "tappair" :: _ ->
    (match Str.split (Str.regexp_string " | ") impl with
     | [rf; rg] ->
       if rf = "NONDET" || rg = "NONDET" then "fail VerifyScript returned different results on two identical calls"
       else if rg = "OK" && rf <> "OK" && rf <> "INVALIDFLAGS" then "fail verifies under the larger flag set but not under the subset: " ^ rf
       else "ok"
     | _ -> "fail malformed")
  | _ -> "na"
let () = main_loop ~model ~holds
