(* Model side of C63 (validation notifications).  Case lines: see tie/drivers/notify_drv.cpp.
   model: the block notifications (D / C / U) the chain selector + Notify.exec_ops predict for the script, and the
          final chain (the mempool notifications depend on mempool policy, which is not modelled: they are judged
          by `holds` only).
   holds: replays ALL notifications the implementation delivered through the extracted subscriber
          (Notify.sub_step) and compares the rebuilt chain and mempool with the node's at every marker. *)
open Conv

type env = { blocks : (string, int) Hashtbl.t; bnames : (int, string) Hashtbl.t;
             txs : (string, int) Hashtbl.t; tnames : (int, string) Hashtbl.t; nouts : (string, int) Hashtbl.t }

exception Bad

let split_semi s = List.map String.trim (String.split_on_char ';' s)

let new_env () =
  let e = { blocks = Hashtbl.create 16; bnames = Hashtbl.create 16; txs = Hashtbl.create 16; tnames = Hashtbl.create 16; nouts = Hashtbl.create 16 } in
  Hashtbl.replace e.blocks "F" 0; Hashtbl.replace e.bnames 0 "F";
  e

let is_fixture s =
  String.length s >= 2 && s.[0] = 'f' &&
  (match int_of_string_opt (String.sub s 1 (String.length s - 1)) with Some k -> k >= 1 && k <= 100 | None -> false)

let tx_id e n =
  if is_fixture n then 100000 + int_of_string (String.sub n 1 (String.length n - 1))
  else match Hashtbl.find_opt e.txs n with Some i -> i | None -> raise Bad

(* script -> selector ops; registers the names *)
let parse_script (line : string) : env * Model.sop list =
  let e = new_env () in
  let segs = split_semi line in
  let segs = match segs with
    | s :: r when (let w = words s in w <> [] && List.for_all (fun x -> x = "ibd" || x = "nosync" || x = "plain") w) -> r
    | l -> l in
  let ops = ref [] in
  List.iter (fun seg ->
    match words seg with
    | [] -> ()
    | ["tx"; name; inp; _fee; nout] ->
      if Hashtbl.mem e.txs name || Hashtbl.mem e.blocks name || is_fixture name then raise Bad;
      (match String.rindex_opt inp ':' with
       | None -> if not (is_fixture inp) then raise Bad
       | Some c ->
         let src = String.sub inp 0 c and n = int_of_string (String.sub inp (c + 1) (String.length inp - c - 1)) in
         (match Hashtbl.find_opt e.nouts src with Some k when n < k -> () | _ -> raise Bad));
      let id = 1000 + Hashtbl.length e.txs in
      Hashtbl.replace e.txs name id; Hashtbl.replace e.tnames id name; Hashtbl.replace e.nouts name (int_of_string nout)
    | "mine" :: name :: parent :: kind :: txl ->
      if Hashtbl.mem e.txs name || Hashtbl.mem e.blocks name || is_fixture name then raise Bad;
      let p = match Hashtbl.find_opt e.blocks parent with Some p -> p | None -> raise Bad in
      let ids = List.map (fun t -> if is_fixture t then raise Bad else tx_id e t) txl in
      let id = Hashtbl.length e.blocks in
      Hashtbl.replace e.blocks name id; Hashtbl.replace e.bnames id name;
      ops := Model.SMine (z_of_int id, z_of_int p, (kind = "bad"), List.map z_of_int ids) :: !ops
    | ["inv"; b] -> (match Hashtbl.find_opt e.blocks b with Some i when b <> "F" -> ops := Model.SInvalidate (z_of_int i) :: !ops | _ -> raise Bad)
    | ["recon"; b] -> (match Hashtbl.find_opt e.blocks b with Some i when b <> "F" -> ops := Model.SReconsider (z_of_int i) :: !ops | _ -> raise Bad)
    | ["atmp"; t] -> if is_fixture t || not (Hashtbl.mem e.txs t) then raise Bad
    | ["time"; _] | ["expire"] | ["trim"] | ["limit"; _] -> ()
    | _ -> raise Bad) segs;
  (e, List.rev !ops)

let bname e z = match Hashtbl.find_opt e.bnames (int_of_z z) with Some n -> n | None -> "?"
let tname e z = let i = int_of_z z in if i > 100000 then "f" ^ string_of_int (i - 100000) else match Hashtbl.find_opt e.tnames i with Some n -> n | None -> "?"
let names f l = if l = [] then "-" else String.concat "," (List.map f l)

let model _ line =
  match (try Some (parse_script line) with Bad | Failure _ | Not_found -> None) with
  | None -> "BADSCRIPT"
  | Some (e, ops) ->
    (match Model.sim_events ops with
     | None -> "MODEL-STUCK"
     | Some (chain, evs) ->
       (* heights: replay the chain length (F = height 0; below it the pseudo base) *)
       let len = ref 2 in
       let toks = List.filter_map (fun ev -> match ev with
         | Model.EvDisc (b, p, txs) -> let h = !len - 2 in decr len; Some (Printf.sprintf "D:%s:%s:%d:%s" (bname e b) (bname e p) h (names (tname e) txs))
         | Model.EvConn (b, p, txs) -> incr len; Some (Printf.sprintf "C:%s:%s:%d:%s" (bname e b) (bname e p) (!len - 2) (names (tname e) txs))
         | Model.EvTip (n, f) -> Some (Printf.sprintf "U:%s:%s" (bname e n) (bname e f))
         | _ -> None) evs in
       let chain = List.filter (fun b -> int_of_z b >= 0) chain in
       String.concat " " (toks @ ["M:" ^ names (bname e) chain ^ ":?"]) ^ " |")

(* ---- holds ---- *)
let reason_of = function
  | "expiry" -> Model.RExpiry | "sizelimit" -> Model.RSizeLimit | "reorg" -> Model.RReorg
  | "block" -> Model.RBlock | "conflict" -> Model.RConflict | "replaced" -> Model.RReplaced
  | _ -> raise Bad

let bid e n = match Hashtbl.find_opt e.blocks n with Some i -> z_of_int i | None -> z_of_int (-77)
let tid e n = (try z_of_int (tx_id e n) with Bad -> z_of_int (-78))
let ids f s = if s = "-" then [] else List.map f (String.split_on_char ',' s)

type item = E of Model.event * int option (* reported height *) | Mark of string list * string list

let parse_tok e tok =
  match String.split_on_char ':' tok with
  | ["D"; b; p; h; txs] -> E (Model.EvDisc (bid e b, bid e p, ids (tid e) txs), Some (int_of_string h))
  | ["C"; b; p; h; txs] -> E (Model.EvConn (bid e b, bid e p, ids (tid e) txs), Some (int_of_string h))
  | ["U"; n; f] -> E (Model.EvTip (bid e n, bid e f), None)
  | ["A"; t] -> E (Model.EvAdd (tid e t), None)
  | ["R"; t; r] -> E (Model.EvRem (tid e t, reason_of r), None)
  | ["B"; b; _h; txs] -> E (Model.EvRemBlock (bid e b, ids (tid e) txs), None)
  | ["M"; chain; pool] -> Mark ((if chain = "-" then [] else String.split_on_char ',' chain), (if pool = "-" then [] else String.split_on_char ',' pool))
  | _ -> raise Bad

let holds _ case impl =
  if impl = "BADSCRIPT" then "na"
  else if String.length impl >= 5 && String.sub impl 0 5 = "CRASH" then "fail the node aborted"
  else if String.length impl >= 3 && String.sub impl 0 3 = "EXC" then "fail driver exception: " ^ impl
  else
  match (try Some (parse_script case) with Bad | Failure _ | Not_found -> None) with
  | None -> "na"
  | Some (e, _) ->
    let evpart = match String.index_opt impl '|' with Some i -> String.sub impl 0 i | None -> impl in
    let ibd = (match split_semi case with s :: _ -> List.mem "ibd" (words s) && not (String.contains s ':') && List.for_all (fun x -> x = "ibd" || x = "nosync" || x = "plain") (words s) | [] -> false) in
    (try
      let items = List.map (parse_tok e) (words evpart) in
      let st0 = { Model.ss_chain = [(z_of_int 0, []); (z_of_int (-1), [])]; Model.ss_pool = []; Model.ss_pend = []; Model.ss_low = nat_of_int 2 } in
      let self_evicted = ref [] and added_ever = ref [] in
      let rec go st items k nmark strict_ok =
        match items with
        | [] -> if nmark = 0 then "fail no marker delivered"
                else if !self_evicted <> [] then
                  "fail self-eviction-removed-without-added: " ^ String.concat " " (List.rev !self_evicted) ^
                  " reported removed by the LimitMempoolSize of the transaction's own acceptance, TransactionAddedToMempool was never sent for it"
                else "ok"
        | E (ev, h) :: r ->
          let not_announced = (match ev with
            | Model.EvConn (_, _, txs) when not ibd -> List.filter (fun t -> List.exists (fun x -> int_of_z x = int_of_z t) st.Model.ss_pool) txs
            | _ -> []) in
          if not_announced <> [] then
            Printf.sprintf "fail notification #%d (%s): transaction %s of the connected block is still in the rebuilt mempool (no MempoolTransactionsRemovedForBlock for it, outside initial block download)" k (List.nth (words evpart) k) (tname e (List.hd not_announced))
          else begin
          (* the one known deviation: a removal (expiry / sizelimit) of a transaction the subscriber does not hold and that was
             never reported added -- the strict subscriber rejects it, the tolerant one ignores it *)
          (match ev, Model.sub_step false st ev with
           | Model.EvRem (t, (Model.RExpiry | Model.RSizeLimit)), None
             when not (List.exists (fun x -> int_of_z x = int_of_z t) st.Model.ss_pool) && not (List.mem (int_of_z t) !added_ever) ->
             self_evicted := (List.nth (words evpart) k) :: !self_evicted
           | Model.EvAdd t, _ -> added_ever := int_of_z t :: !added_ever
           | _ -> ());
          (match Model.sub_step true st ev with
           | None -> Printf.sprintf "fail notification #%d (%s) does not describe a possible change of the state rebuilt so far" k (List.nth (words evpart) k)
           | Some st' ->
             let hl = List.length st'.Model.ss_chain in
             let exp_h = (match ev with Model.EvDisc _ -> hl - 1 | _ -> hl - 2) in
             (match h with
              | Some hh when hh <> exp_h -> Printf.sprintf "fail notification #%d (%s) reports height %d, the rebuilt chain has %d" k (List.nth (words evpart) k) hh exp_h
              | _ -> go st' r (k + 1) nmark strict_ok))
          end
        | Mark (chain, pool) :: r ->
          let sub_chain = List.filter (fun n -> n <> "?") (List.map (fun (b, _) -> bname e b) st.Model.ss_chain) in
          let sub_pool = List.sort compare (List.map (tname e) st.Model.ss_pool) in
          if st.Model.ss_pend <> [] then Printf.sprintf "fail marker %d: MempoolTransactionsRemovedForBlock without BlockConnected" nmark
          else if sub_chain <> chain then Printf.sprintf "fail marker %d: rebuilt chain %s, node's chain %s" nmark (String.concat "," sub_chain) (String.concat "," chain)
          else if sub_pool <> List.sort compare pool then Printf.sprintf "fail marker %d: rebuilt mempool %s, node's mempool %s" nmark (String.concat "," sub_pool) (String.concat "," pool)
          else go st r (k + 1) (nmark + 1) strict_ok
      in
      go st0 items 0 0 true
    with Bad | Failure _ | Not_found -> "fail unparsable implementation output")

let () = main_loop ~model ~holds
