(* Model side of C16 (crash replay of the coins database).

   case:  reorg <P> <Q> <R> <nblocks> {b <label> <parent> <cbvalue> <ntx> {t <label> <nin> {<tx> <vout>}* <nout> {<value>|u}*}*}* <a> <b>
     P   height of the base tip F0 (block label 0); base coinbase at height h is transaction label h, one
         spendable output of 5000000000 at vout 0 (and an unspendable one)
     Q   batch_write_bytes of the coins database during the interrupted flush and during recovery
     R   1: also crash inside the flush that ends ReplayBlocks (second level)
     blocks: label >= 1, parent label (0 = F0), coinbase value; the coinbase is transaction label 1000+label with
         outputs [value spendable; 0 unspendable]; other transactions have labels >= 2000, inputs (tx label, vout) and
         output values (u = unspendable, value 0); the same transaction label may be mined in blocks of different branches
     a, b  labels of the old tip (database state) and of the new tip (cache state) of the interrupted flush

   output (same shape from both drivers; N differs, the python side compares modulo that):
     ok a=<a> b=<b> order=<FIC> nb=<N> w=<1|0|na> | S <id> <coins> | ... | R <k> <marker> <bestBefore> <setBefore> <status> <tipAfter> <setAfter>
        | Q <k> <k2> <marker> <status> <tipAfter> <setAfter> ...
     coins: G<lo>-<hi> = untouched base coinbases lo..hi; <label>.<vout>.<height>.<cb>.<value> otherwise.        *)
open Conv

let base_value = n_of_string "5000000000"

type sc_tx = { lbl : int; ins : (int * int) list; outs : (string) list }
type sc_block = { bl : int; parent : int; cbv : string; txs : sc_tx list }
type scenario = { p : int; q : int; r : int; blocks : sc_block list; a : int; b : int }

let parse (ws : string list) : scenario =
  let ios = int_of_string in
  match ws with
  | "reorg" :: p :: q :: r :: nb :: rest ->
    let rec take_pairs k ws acc = if k = 0 then (List.rev acc, ws) else match ws with
      | x :: y :: ws' -> take_pairs (k - 1) ws' ((ios x, ios y) :: acc) | _ -> failwith "short ins" in
    let rec take k ws acc = if k = 0 then (List.rev acc, ws) else match ws with
      | x :: ws' -> take (k - 1) ws' (x :: acc) | _ -> failwith "short outs" in
    let rec txs k ws acc = if k = 0 then (List.rev acc, ws) else match ws with
      | "t" :: l :: nin :: ws' ->
        let (ins, ws'') = take_pairs (ios nin) ws' [] in
        (match ws'' with
         | nout :: ws3 -> let (outs, ws4) = take (ios nout) ws3 [] in txs (k - 1) ws4 ({ lbl = ios l; ins; outs } :: acc)
         | _ -> failwith "short tx")
      | _ -> failwith "bad tx" in
    let rec blocks k ws acc = if k = 0 then (List.rev acc, ws) else match ws with
      | "b" :: l :: par :: cbv :: ntx :: ws' ->
        let (t, ws'') = txs (ios ntx) ws' [] in blocks (k - 1) ws'' ({ bl = ios l; parent = ios par; cbv; txs = t } :: acc)
      | _ -> failwith "bad block" in
    let (bls, rest') = blocks (ios nb) rest [] in
    (match rest' with
     | [a; b] -> { p = ios p; q = ios q; r = ios r; blocks = bls; a = ios a; b = ios b }
     | _ -> failwith "bad tail")
  | _ -> failwith "bad case"

(* model ids: block label l <-> l + 1 (0 is the null hash) *)
let bid l = n_of_int (l + 1)
let lbl_of_bid (x : Model.n) = int_of_n x - 1
let mk_out v = if v = "u" then { Model.o_value = n_of_int 0; Model.o_spendable = false }
  else { Model.o_value = n_of_string v; Model.o_spendable = true }
let cb_tx id v = { Model.t_id = n_of_int id; Model.t_cb = true; Model.t_ins = [];
                   Model.t_outs = [ { Model.o_value = v; Model.o_spendable = true }; { Model.o_value = n_of_int 0; Model.o_spendable = false } ] }
let m_tx (t : sc_tx) = { Model.t_id = n_of_int t.lbl; Model.t_cb = false;
                         Model.t_ins = List.map (fun (x, v) -> (n_of_int x, nat_of_int v)) t.ins;
                         Model.t_outs = List.map mk_out t.outs }
let m_block (b : sc_block) : Model.block = cb_tx (1000 + b.bl) (n_of_string b.cbv) :: List.map m_tx b.txs

exception Bad of string

(* everything derived from the scenario: store, sorted candidate outpoints, coin states per block *)
type world = { st : Model.store; dom : Model.outpoint list; state : (int, Model.overlay) Hashtbl.t; height : (int, int) Hashtbl.t }

let build (s : scenario) : world =
  let state = Hashtbl.create 16 and height = Hashtbl.create 16 in
  let base = List.init s.p (fun i -> [cb_tx (i + 1) base_value]) in
  Hashtbl.replace state 0 (Model.apply_chain (nat_of_int 1) base []);
  Hashtbl.replace height 0 s.p;
  let entries = ref [ (bid 0, { Model.e_parent = None; Model.e_height = nat_of_int s.p; Model.e_block = None; Model.e_undo = None }) ] in
  List.iter (fun b ->
      let ps = try Hashtbl.find state b.parent with Not_found -> raise (Bad "parent") in
      let h = Hashtbl.find height b.parent + 1 in
      let blk = m_block b in
      let undo = match Model.compute_undo (nat_of_int h) blk ps with Some u -> u | None -> raise (Bad "missing-input") in
      if not (Model.block_ok (nat_of_int h) blk ps) then raise (Bad "block-not-valid");
      Hashtbl.replace state b.bl (Model.rollforward_block (nat_of_int h) blk ps);
      Hashtbl.replace height b.bl h;
      entries := (bid b.bl, { Model.e_parent = Some (bid b.parent); Model.e_height = nat_of_int h;
                              Model.e_block = Some blk; Model.e_undo = Some undo }) :: !entries) s.blocks;
  let pts = ref [] in
  for h = 1 to s.p do pts := (h, 0) :: !pts done;
  List.iter (fun b -> pts := (1000 + b.bl, 0) :: !pts;
              List.iter (fun t -> List.iteri (fun i _ -> pts := (t.lbl, i) :: !pts) t.outs) b.txs) s.blocks;
  let sorted = List.sort_uniq compare !pts in
  { st = Model.store_of !entries; dom = List.map (fun (x, v) -> (n_of_int x, nat_of_int v)) sorted; state; height }

(* ---- coin sets as text ---- *)
type icoin = { cl : int; cv : int; ch : int; ccb : bool; cval : string }
let icoin_of ((o, c) : Model.outpoint * Model.coin) =
  { cl = int_of_n (fst o); cv = int_of_nat (snd o); ch = int_of_nat c.Model.c_height; ccb = c.Model.c_cb; cval = string_of_n c.Model.c_value }
let canonical p c = c.cl >= 1 && c.cl <= p && c.cv = 0 && c.ch = c.cl && c.ccb && c.cval = "5000000000"
let show_set p (l : icoin list) : string =
  let buf = ref [] in
  let flush_run lo hi = if lo > 0 then buf := Printf.sprintf "G%d-%d" lo hi :: !buf in
  let rec go l lo hi = match l with
    | [] -> flush_run lo hi
    | c :: r when canonical p c -> if lo > 0 && c.cl = hi + 1 then go r lo c.cl else (flush_run lo hi; go r c.cl c.cl)
    | c :: r -> flush_run lo hi; buf := Printf.sprintf "%d.%d.%d.%d.%s" c.cl c.cv c.ch (if c.ccb then 1 else 0) c.cval :: !buf; go r 0 0 in
  go l 0 0; String.concat " " (List.rev !buf)
let parse_set (toks : string list) : Model.coin_listing =
  List.concat_map (fun t ->
      if String.length t > 0 && t.[0] = 'G' then
        (match String.split_on_char '-' (String.sub t 1 (String.length t - 1)) with
         | [lo; hi] -> List.init (int_of_string hi - int_of_string lo + 1) (fun i ->
             let h = int_of_string lo + i in
             ((n_of_int h, nat_of_int 0), { Model.c_height = nat_of_int h; Model.c_cb = true; Model.c_value = base_value }))
         | _ -> failwith "bad G")
      else match String.split_on_char '.' t with
        | [l; v; h; cb; value] -> [ ((n_of_int (int_of_string l), nat_of_int (int_of_string v)),
                                     { Model.c_height = nat_of_int (int_of_string h); Model.c_cb = (cb = "1"); Model.c_value = n_of_string value }) ]
        | _ -> failwith ("bad coin " ^ t)) toks

let listing_of_db w m = Model.listing_of (Model.db_coin m) w.dom
let listing_of_state w l = Model.listing_of (Model.log_coin (Hashtbl.find w.state l)) w.dom
let show_best (x : Model.n) = if int_of_n x = 0 then "-1" else string_of_int (lbl_of_bid x)

let model _ line =
  try
    let s = parse (words line) in
    let w = build s in
    if not (Hashtbl.mem w.state s.a && Hashtbl.mem w.state s.b) then raise (Bad "tips");
    let n = nat_of_int (s.q / 48 + 1) in
    let la = listing_of_state w s.a in
    let m0 = Model.db_of_listing (bid s.a) la in
    let ov = match Model.reorg_log w.st m0 (bid s.b) (bid s.a) with
      | Model.ReplayDone (_, ov) -> ov | _ -> raise (Bad "reorg") in
    let bs = match Model.flush_batches m0 ov n (bid s.b) with Some bs -> bs | None -> raise (Bad "flush") in
    let nb = List.length bs in
    let sets = ref [] in
    let set_id l = let txt = show_set s.p (List.map icoin_of l) in
      (match List.assoc_opt txt !sets with Some i -> i | None -> let i = List.length !sets in sets := !sets @ [(txt, i)]; i) in
    let recs = ref [] in
    let after m = match Model.recover_once w.st m n with
      | Some m' -> Printf.sprintf "ok %s %d" (show_best (Model.get_best m')) (set_id (listing_of_db w m'))
      | None -> "fail:replay -1 0" in
    for k = 0 to nb do
      let m1 = Model.crash_after (nat_of_int k) bs m0 in
      let marker = Model.get_heads m1 <> [] in
      recs := Printf.sprintf "R %d %d %s %d %s" k (if marker then 1 else 0) (show_best (Model.get_best m1)) (set_id (listing_of_db w m1)) (after m1) :: !recs;
      if s.r = 1 && marker && (k = 1 || k = nb / 2 || k = nb - 1) then begin
        match Model.replay_blocks w.st m1 with
        | Model.ReplayDone (nw, ov2) ->
          (match Model.flush_batches m1 ov2 n nw with
           | Some bs2 ->
             for k2 = 0 to List.length bs2 - 1 do
               let m2 = Model.crash_after (nat_of_int k2) bs2 m1 in
               recs := Printf.sprintf "Q %d %d %d %s" k k2 (if Model.get_heads m2 <> [] then 1 else 0) (after m2) :: !recs
             done
           | None -> recs := Printf.sprintf "Q %d 0 1 fail:flush -1 0" k :: !recs)
        | _ -> ()
      end
    done;
    let order = List.fold_left (fun acc st -> let c = (match st with Model.StepBlockFiles -> "F" | Model.StepBlockIndex -> "I"
                                                                    | Model.StepUnlinkPruned -> "U" | Model.StepCoinBatch _ -> "C") in
                                 if acc <> "" && String.sub acc (String.length acc - 1) 1 = c then acc else acc ^ c) "" (Model.flush_steps false (nat_of_int nb)) in
    let hw = if Hashtbl.find w.height s.b > Hashtbl.find w.height s.a || s.a = s.b then "1" else "na" in
    String.concat " | " ([Printf.sprintf "ok a=%d b=%d order=%s nb=%d w=%s" s.a s.b order nb hw]
                         @ List.map (fun (txt, i) -> Printf.sprintf "S %d %s" i txt) !sets @ List.rev !recs)
  with Bad why -> "BADCASE " ^ why

(* the property's predicate on what the implementation did *)
let holds _ case impl =
  try
    let s = parse (words case) in
    let w = build s in
    let ref_old = listing_of_state w s.a and ref_new = listing_of_state w s.b in
    let parts = List.map words (Str.split (Str.regexp_string " | ") impl) in
    (match parts with
     | ("ok" :: hdr) :: rest ->
       let field k = let pre = k ^ "=" in
         (match List.find_opt (fun t -> String.length t > String.length pre && String.sub t 0 (String.length pre) = pre) hdr with
          | Some t -> String.sub t (String.length pre) (String.length t - String.length pre) | None -> "") in
       let nb = int_of_string (field "nb") in
       let sets = Hashtbl.create 16 in
       List.iter (function "S" :: id :: toks -> Hashtbl.replace sets (int_of_string id) (parse_set toks) | _ -> ()) rest;
       let get_set id = try Hashtbl.find sets (int_of_string id) with Not_found -> failwith "unknown set" in
       let fails = ref [] in
       let fail x = if not (List.mem x !fails) then fails := x :: !fails in
       let judge what marker tip coins =
         (match Model.holds_recovery (bid s.a) (bid s.b) ref_old ref_new marker (bid tip) coins with
          | Model.VOk -> ()
          | Model.VBadTip -> fail (what ^ ": recovered tip is neither the old nor the new tip")
          | Model.VBadCoins -> fail (what ^ ": recovered coin set differs from the coin set of the recovered tip")
          | Model.VMarkerNotRecovered | Model.VNotNewTip -> fail (what ^ ": head marker present but the recovered tip is not the new tip")) in
       let seen = ref 0 in
       List.iter (function
           | ["R"; k; marker; best_before; set_before; status; tip; set_after] ->
             incr seen;
             let k = int_of_string k and marker = (marker = "1") in
             if status <> "ok" then fail ("restart failed (" ^ status ^ ")")
             else judge "crash during flush" marker (int_of_string tip) (get_set set_after);
             (* crash before the first / after the last batch: nothing to replay, the database must already be a tip's *)
             let before = get_set set_before in
             if k = 0 && not (best_before = string_of_int s.a && Model.listing_eqb before ref_old) then fail "database before the first batch is not the old tip's";
             if k = nb && not (best_before = string_of_int s.b && Model.listing_eqb before ref_new && tip = string_of_int s.b) then fail "database after the last batch is not the new tip's"
           | ["Q"; _; _; _; status; tip; set_after] ->
             if status <> "ok" then fail ("restart after a crash during replay failed (" ^ status ^ ")")
             else judge "crash during replay" true (int_of_string tip) (get_set set_after)
           | _ -> ()) rest;
       if !seen <> nb + 1 then fail "missing crash points";
       let order = field "order" in
       (match String.index_opt order 'C' with
        | Some i -> if not (String.contains (String.sub order 0 i) 'F' && String.contains (String.sub order 0 i) 'I') then fail "coin batches written before block files / block index"
        | None -> fail "no coin batch observed");
       if field "w" = "0" then fail "tip after resuming has less work than the last flushed tip";
       if !fails = [] then "ok" else "fail " ^ String.concat "; " (List.rev !fails)
     | _ -> if String.length impl >= 7 && String.sub impl 0 7 = "BADCASE" then "na" else "fail implementation did not complete the scenario: " ^ impl)
  with Bad why -> "na"

let () = main_loop ~model ~holds
